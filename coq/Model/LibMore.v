(* LibMore.v — further library functions for the interpreter model, obtained by LIFTING the executable models that other
   properties built and validated on their own: Model/Json.v (C14: value_json, json.loads), Model/NumText.v + Model/Num.v
   (C13: float(text), int(text)), Model/Calendar.v (C16: datetimeNew, getters, ISO text), plus the few arithmetic
   library functions whose result is exactly computable (SpecFloat at binary64).  No proofs here.

   Every function here is PURE in the sense the premise theorems need (Proofs/LibAll.v lift_pure_frame, lift_pure_count): it reads only the
   two heaps of the world and its arguments, never the callback, never the statement counter; its effect is a new pair of
   heaps and log lines to append.

   Rules kept everywhere:
     * arguments are validated by LibSeq's generic [args_validate] over the table REGENERATED from library.py
       (Gen/ArgSpecs.v): failure values / null come from that table, not from this file;
     * a payload the model cannot reproduce exactly is LOracle (the case is declined and counted), never a guess:
       transcendental functions, clocks, random numbers, float texts beyond 15 significant digits, case mapping
       outside ASCII, radix other than 10, the identity of two equal strings, ...;
     * failures carry no message text here, so in DEBUG mode (where the call wrapper logs the text) a failing call is
       declined;
     * the process time zone is UTC (offset functions constantly 0): the harness runs the implementation with TZ=UTC
       for the cases that reach a datetime text. *)
From Coq Require Import SpecFloat.
From BS Require Import Model.Base Model.Num Model.Arith Model.ExprParser Model.Script Model.Interp Model.LibLift Gen.Unicode.
From BS Require Model.Json Model.NumText Model.Calendar Gen.ArgSpecs.
Local Open Scope Z_scope.

Module J := BS.Model.Json.
Module C := BS.Model.Calendar.
Module T := BS.Model.NumText.

Definition arrs_t := list (list value).
Definition objs_t := list (list (str * value)).
(* result, new heaps, log lines to append (oldest first) *)
Definition pres := (lres * (arrs_t * objs_t * list str))%type.

(* ====================================================================== datetimes (zone UTC) *)
(* Interp.VDate counts microseconds from 0001-01-01, Model/Calendar.v from 1970-01-01 *)
Definition EPOCH_US : Z := C.EPOCH_DAYS * C.US_DAY.
Definition cal_of (us : Z) : Z := us - EPOCH_US.
Definition us_of (c : Z) : Z := c + EPOCH_US.
Definition utc (_ : Z) : Z := 0.

(* value_string(datetime).  CPython's naive astimezone() probes the zone one day before / after the wall time and raises
   ValueError ("year 0 / year 10000 is out of range") inside the first and the last day of the calendar even in UTC
   (observed: stringNew(datetimeNew(9999, 12, 31)) is null); Model/Calendar.v has no such probe: those two days are declined *)
Definition date_text (us : Z) : ares str :=
  let w := cal_of us in
  if (w <? C.MIN_US + C.US_DAY) || (C.MAX_US - C.US_DAY <? w) then AOracle
  else match C.iso_format utc utc w with C.DOk s => ARes s | C.DExc => AErr | C.DFuel => AOracle end.

(* ====================================================================== repr(float), shortest round-trip digits *)
(* CPython's repr(float) (format code 'r', dtoa mode 0): the SHORTEST digit string that reads back (correctly rounded,
   half-even: Model/Num.v dec_to_sf) as the same double and, among those, the one closest to the exact value.
   [short_digits] returns (digits d, decimal exponent k) with d * 10^k that text, d without trailing zeros (an exact tie between the two
   candidates goes to the even digit, as dtoa does).  Arith.num_to_str prints the floats of at most 15 significant digits in
   positional range; this printer serves the others. *)
Definition ge_pow10 (num den E : Z) : bool :=           (* num / den >= 10^E *)
  if 0 <=? E then 10 ^ E * den <=? num else den <=? num * 10 ^ (- E).

Definition dec_exponent (m : positive) (e : Z) : Z :=   (* E with 10^E <= m * 2^e < 10^(E+1) *)
  let num := if 0 <=? e then Zpos m * 2 ^ e else Zpos m in
  let den := if 0 <=? e then 1 else 2 ^ (- e) in
  let E0 := (Z.log2 (Zpos m) + e) * 30103 / 100000 in
  let E1 := if ge_pow10 num den (E0 + 2) then E0 + 2 else if ge_pow10 num den (E0 + 1) then E0 + 1
            else if ge_pow10 num den E0 then E0 else if ge_pow10 num den (E0 - 1) then E0 - 1 else E0 - 2 in
  E1.

Fixpoint strip_zeros_Z (fuel : nat) (d k : Z) : Z * Z :=
  match fuel with
  | O => (d, k)
  | S f => if (d mod 10 =? 0) && negb (d =? 0) then strip_zeros_Z f (d / 10) (k + 1) else (d, k)
  end.

Fixpoint short_digits_from (todo : nat) (n : Z) (m : positive) (e : Z) (E : Z) : option (Z * Z) :=
  match todo with
  | O => None
  | S todo' =>
    let k := E - (n - 1) in
    let num := (if 0 <=? e then Zpos m * 2 ^ e else Zpos m) * (if 0 <=? k then 1 else 10 ^ (- k)) in
    let den := (if 0 <=? e then 1 else 2 ^ (- e)) * (if 0 <=? k then 10 ^ k else 1) in
    let lo := num / den in
    let r := num mod den in
    let me := S754_finite false m e in
    let ok_lo := sf_eqb (dec_to_sf false lo k) me in
    let ok_hi := negb (r =? 0) && sf_eqb (dec_to_sf false (lo + 1) k) me in
    if ok_lo && ok_hi then
      (if 2 * r <? den then Some (strip_zeros_Z 20 lo k) else if den <? 2 * r then Some (strip_zeros_Z 20 (lo + 1) k)
       else Some (strip_zeros_Z 20 (if Z.even lo then lo else lo + 1) k))          (* exact tie: dtoa rounds half-even *)
    else if ok_lo then Some (strip_zeros_Z 20 lo k)
    else if ok_hi then Some (strip_zeros_Z 20 (lo + 1) k)
    else short_digits_from todo' (n + 1) m e E
  end.
Definition short_digits (m : positive) (e : Z) : option (Z * Z) := short_digits_from 17 1 m e (dec_exponent m e).

(* the layout of repr: positional for 1e-4 <= |x| < 1e16, else d[.ddd]e[+-]XX *)
Definition repr_layout (neg : bool) (d k : Z) : str :=
  let ds := Z_to_str d in
  let n := Z.of_nat (length ds) in
  let decpt := n + k in
  let body :=
    if (decpt <=? -4) || (16 <? decpt) then
      let ex := decpt - 1 in
      let exd := Z_to_str (Z.abs ex) in
      firstn 1 ds ++ (match skipn 1 ds with [] => [] | rest => 46%N :: rest end)
      ++ [101%N; if ex <? 0 then 45%N else 43%N] ++ (match exd with [_] => 48%N :: exd | _ => exd end)
    else if decpt <=? 0 then [48%N; 46%N] ++ repeat 48%N (Z.to_nat (- decpt)) ++ ds
    else if n <=? decpt then ds ++ repeat 48%N (Z.to_nat (decpt - n)) ++ [46%N; 48%N]
    else firstn (Z.to_nat decpt) ds ++ [46%N] ++ skipn (Z.to_nat decpt) ds in
  (if neg then [45%N] else []) ++ body.

(* repr(x) for a finite non-zero double *)
Definition repr_float (f : flt) : ares str :=
  match f with
  | S754_finite s m e =>
    match short_digits m e with
    | Some (d, k) => ARes (repr_layout s d k)
    | None => AOracle
    end
  | _ => AOracle
  end.

(* value_string(number): Arith.num_to_str where it answers, else R_NUMBER_CLEANUP.sub('', repr(x)) *)
Definition num_text_full (n : num) : ares str :=
  match num_to_str n with
  | AOracle => match n with NFlt f => match repr_float f with ARes s => ARes (T.cleanup s) | r => r end | NInt _ => AOracle end
  | r => r
  end.

(* ====================================================================== values -> JSON trees *)
Inductive pj (A : Type) := PJOk (a : A) | PJRaise | PJOracle.
Arguments PJOk {A} a.
Arguments PJRaise {A}.
Arguments PJOracle {A}.

(* the text "[-]digits[.digits]" that Arith.num_to_str gives for a finite float, back as CPython's repr token
   (an integral float prints with ".0", which value_json's clean-up pass then removes again) *)
Definition float_token (s : str) : J.jnum :=
  let '(neg, t) := match s with 45%N :: t => (true, t) | _ => (false, s) end in
  let '(ip, r) := J.span_dig t in
  let '(fr, r2) := match r with 46%N :: r1 => let '(fd, r2) := J.span_dig r1 in (Some fd, r2) | _ => (None, r) end in
  match r2 with
  | 101%N :: sg :: ds => J.JN neg ip fr (Some (if (sg =? 45)%N then J.ESMinus else J.ESPlus, ds))
  | _ => J.JN neg ip (match fr with Some fd => Some fd | None => Some [48%N] end) None
  end.

Definition long_int_digits : nat := 4200.     (* CPython refuses int <-> str beyond 4300 digits: near the limit the model declines *)

Definition num_json (n : num) : pj J.jvalue :=
  match n with
  | NInt z =>
    let ds := Z_to_str (Z.abs z) in
    if Nat.ltb long_int_digits (length ds) then PJOracle else PJOk (J.JNum (J.JN (z <? 0) ds None None))
  | NFlt f =>
    if sf_is_finite f then
      match num_text_full n with
      | ARes s => PJOk (J.JNum (float_token s))
      | AErr => PJRaise
      | AOracle => PJOracle
      end
    else PJRaise                              (* allow_nan=False: ValueError *)
  end.

(* json.JSONEncoder over a BareScript value; out of fuel = a container reached through itself ("Circular reference
   detected", a ValueError): an acyclic value nests at most #containers deep *)
Fixpoint to_json (fuel : nat) (arrs : arrs_t) (objs : objs_t) (v : value) : pj J.jvalue :=
  match fuel with
  | O => PJRaise
  | S f =>
    match v with
    | VNull => PJOk J.JNull
    | VBool b => PJOk (J.JBool b)
    | VNum n => num_json n
    | VStr s => PJOk (J.JStr s)
    | VDate us => match date_text us with ARes s => PJOk (J.JStr s) | AErr => PJRaise | AOracle => PJOracle end   (* default(o) *)
    | VFun _ => PJOk (J.JStr (U "<function>"))
    | VRegex _ => PJOk J.JNull                                                                                   (* default(o) = None *)
    | VArr l =>
      match nth_error arrs l with
      | None => PJOracle
      | Some xs =>
        match (fix go (xs : list value) : pj (list J.jvalue) :=
                 match xs with
                 | [] => PJOk []
                 | x :: t =>
                   match to_json f arrs objs x with
                   | PJOk j => match go t with PJOk js => PJOk (j :: js) | PJRaise => PJRaise | PJOracle => PJOracle end
                   | PJRaise => PJRaise
                   | PJOracle => PJOracle
                   end
                 end) xs with
        | PJOk js => PJOk (J.JArr js)
        | PJRaise => PJRaise
        | PJOracle => PJOracle
        end
      end
    | VObj l =>
      match nth_error objs l with
      | None => PJOracle
      | Some kvs =>
        match (fix go (kvs : list (str * value)) : pj (list (str * J.jvalue)) :=
                 match kvs with
                 | [] => PJOk []
                 | (k, x) :: t =>
                   match to_json f arrs objs x with
                   | PJOk j => match go t with PJOk js => PJOk ((k, j) :: js) | PJRaise => PJRaise | PJOracle => PJOracle end
                   | PJRaise => PJRaise
                   | PJOracle => PJOracle
                   end
                 end) kvs with
        | PJOk js => PJOk (J.JObj js)
        | PJRaise => PJRaise
        | PJOracle => PJOracle
        end
      end
    end
  end.

Definition json_fuel (arrs : arrs_t) (objs : objs_t) : nat := S (S (length arrs + length objs)).

(* value_json(value, indent) *)
Definition value_json (arrs : arrs_t) (objs : objs_t) (v : value) (indent : option nat) : ares str :=
  match to_json (json_fuel arrs objs) arrs objs v with
  | PJOk j => ARes (J.encode indent j)
  | PJRaise => AErr
  | PJOracle => AOracle
  end.

(* value_string, all nine types *)
Definition vstring_full (arrs : arrs_t) (objs : objs_t) (v : value) : ares str :=
  match v with
  | VDate us => date_text us
  | VArr _ | VObj _ => value_json arrs objs v None
  | VNum n => num_text_full n
  | _ => vstring v
  end.

(* ====================================================================== JSON trees -> values (json.loads) *)
Definition digits_to_Z (s : str) : Z := fold_left (fun acc c => acc * 10 + Z.of_N (c - 48)) s 0.

Definition jnum_value (n : J.jnum) : pj value :=
  match J.n_frac n, J.n_exp n with
  | None, None =>
    if Nat.ltb long_int_digits (length (J.n_int n)) then PJOracle
    else let d := digits_to_Z (J.n_int n) in PJOk (VNum (NInt (if J.n_neg n then - d else d)))
  | _, _ =>
    (* Model/Num.v computes 10^|e| exactly: exponents of four and more digits are declined *)
    if match J.n_exp n with Some (_, ds) => Nat.ltb 3 (length ds) | None => false end then PJOracle
    else match py_float (J.num_text n) with Some f => PJOk (VNum (NFlt f)) | None => PJOracle end
  end.

(* children first, then the container; a repeated key keeps its first position and its last value (dict[k] = v) *)
Fixpoint of_json (j : J.jvalue) (arrs : arrs_t) (objs : objs_t) : pj (value * arrs_t * objs_t) :=
  match j with
  | J.JNull => PJOk (VNull, arrs, objs)
  | J.JBool b => PJOk (VBool b, arrs, objs)
  | J.JStr s => PJOk (VStr s, arrs, objs)
  | J.JNum n => match jnum_value n with PJOk v => PJOk (v, arrs, objs) | PJRaise => PJRaise | PJOracle => PJOracle end
  | J.JArr l =>
    match (fix go (l : list J.jvalue) (arrs : arrs_t) (objs : objs_t) : pj (list value * arrs_t * objs_t) :=
             match l with
             | [] => PJOk ([], arrs, objs)
             | x :: t =>
               match of_json x arrs objs with
               | PJOk (v, a1, o1) =>
                 match go t a1 o1 with PJOk (vs, a2, o2) => PJOk (v :: vs, a2, o2) | PJRaise => PJRaise | PJOracle => PJOracle end
               | PJRaise => PJRaise
               | PJOracle => PJOracle
               end
             end) l arrs objs with
    | PJOk (vs, a1, o1) => PJOk (VArr (length a1), a1 ++ [vs], o1)
    | PJRaise => PJRaise
    | PJOracle => PJOracle
    end
  | J.JObj m =>
    match (fix go (m : list (str * J.jvalue)) (acc : list (str * value)) (arrs : arrs_t) (objs : objs_t)
             : pj (list (str * value) * arrs_t * objs_t) :=
             match m with
             | [] => PJOk (acc, arrs, objs)
             | (k, x) :: t =>
               match of_json x arrs objs with
               | PJOk (v, a1, o1) => go t (env_set k v acc) a1 o1
               | PJRaise => PJRaise
               | PJOracle => PJOracle
               end
             end) m [] arrs objs with
    | PJOk (kvs, a1, o1) => PJOk (VObj (length o1), a1, o1 ++ [kvs])
    | PJRaise => PJRaise
    | PJOracle => PJOracle
    end
  end.

Fixpoint has_sub (sub s : str) : bool :=
  if str_prefix sub s then true else match s with [] => false | _ :: t => has_sub sub t end.
Definition has_surrogate (s : str) : bool := existsb (fun c => ((55296 <=? c) && (c <=? 57343))%N) s.

(* ====================================================================== numbers *)
Definition sf_abs (f : flt) : flt :=
  match f with
  | S754_zero _ => S754_zero false
  | S754_infinity _ => S754_infinity false
  | S754_finite _ m e => S754_finite false m e
  | S754_nan => S754_nan
  end.

(* math.floor / math.ceil of a float: None = ValueError (nan) / OverflowError (inf) *)
Definition sf_floor (f : flt) : option Z :=
  match f with
  | S754_zero _ => Some 0
  | S754_finite s m e =>
    let mz := if s then Zneg m else Zpos m in
    Some (if 0 <=? e then mz * 2 ^ e else mz / 2 ^ (- e))
  | _ => None
  end.
Definition sf_ceil (f : flt) : option Z :=
  match f with
  | S754_zero _ => Some 0
  | S754_finite s m e =>
    let mz := if s then Zneg m else Zpos m in
    Some (if 0 <=? e then mz * 2 ^ e else - ((- mz) / 2 ^ (- e)))
  | _ => None
  end.

Definition sf_half_pos : flt := S754_finite false 4503599627370496 (-53).
Definition sf_half_neg : flt := S754_finite true 4503599627370496 (-53).

(* value.py value_round_number(value, digits), digits a validated integer >= 0:
     multiplier = float(10 ** int(digits))
     int(value * multiplier + (0.5 if value >= 0 else -0.5)) / multiplier
   None = a Python exception (OverflowError of float(int), int(nan), int(inf)) *)
Definition round_number (x : num) (digits : Z) : option flt :=
  if 308 <? digits then None                                     (* float(10 ** 309): OverflowError *)
  else
    let mult := Z_to_sf (10 ^ digits) in
    match num_to_sf x with
    | None => None                                               (* int too large for a float *)
    | Some fx =>
      let nonneg := match num_compare x (NInt 0) with Some Lt | None => false | Some _ => true end in
      let t := SFadd prec emax (SFmul prec emax fx mult) (if nonneg then sf_half_pos else sf_half_neg) in
      match sf_trunc t with
      | None => None
      | Some z => Some (SFdiv prec emax (Z_to_sf z) mult)
      end
    end.

(* f'{x:.{d}f}' for a finite float: the exact binary value rounded half-even to d decimals *)
Definition pad_left (n : nat) (s : str) : str := repeat 48%N (n - length s) ++ s.
Definition fmt_fixed (f : flt) (d : nat) : option str :=
  match f with
  | S754_zero s => Some ((if s then [45%N] else []) ++ [48%N] ++ (match d with O => [] | _ => 46%N :: repeat 48%N d end))
  | S754_finite s m e =>
    let p10 := 10 ^ Z.of_nat d in
    let n :=
      if 0 <=? e then Zpos m * 2 ^ e * p10
      else
        let num := Zpos m * p10 in
        let den := 2 ^ (- e) in
        let q := num / den in
        let r := num mod den in
        if (den <? 2 * r) || ((2 * r =? den) && Z.odd q) then q + 1 else q in
    let ds := pad_left (S d) (Z_to_str n) in
    let ip := firstn (length ds - d) ds in
    let fp := skipn (length ds - d) ds in
    Some ((if s then [45%N] else []) ++ ip ++ (match d with O => [] | _ => 46%N :: fp end))
  | _ => None
  end.

(* float(text) / int(text) strip Py_ISSPACE characters and (after the transformation of non-ASCII spaces to ' ') Unicode spaces,
   but NOT the ASCII separators 0x1C..0x1F, which str.strip() does strip: Model/Num.v [strip] removes them, so a text that
   contains one is answered here (float() / int() raise ValueError wherever it stands: the result is None) *)
Definition has_ascii_sep (s : str) : bool := existsb (fun c => ((28 <=? c) && (c <=? 31))%N) s.

(* int(text, radix), 2 <= radix <= 36 (PyLong_FromString): sign; an optional 0x / 0o / 0b prefix matching the radix, after which
   one underscore may stand; digits 0-9 a-z A-Z (and Unicode decimal digits) below the radix with single underscores between
   them; nothing else.  None = ValueError *)
Definition radix_digit (c : N) : option Z :=
  match digit_val c with
  | Some d => Some (Z.of_N d)
  | None => if ((97 <=? c) && (c <=? 122))%N then Some (Z.of_N c - 87)
            else if ((65 <=? c) && (c <=? 90))%N then Some (Z.of_N c - 55) else None
  end.
Fixpoint scan_radix (radix : Z) (s : str) (acc : Z) (n : nat) (prev_us : bool) : option (Z * nat * str) :=
  match s with
  | [] => if prev_us then None else Some (acc, n, [])
  | c :: t =>
    if (c =? 95)%N then (if prev_us then None else scan_radix radix t acc n true)
    else match radix_digit c with
         | Some d => if d <? radix then scan_radix radix t (acc * radix + d) (S n) false
                     else if prev_us then None else Some (acc, n, s)
         | None => if prev_us then None else Some (acc, n, s)
         end
  end.
Definition parse_int_radix (radix : Z) (s0 : str) : option Z :=
  if has_ascii_sep s0 then None else
  let s := strip s0 in
  let '(neg, t) := match s with 45%N :: t => (true, t) | 43%N :: t => (false, t) | _ => (false, s) end in
  let t1 :=
    match t with
    | 48%N :: p :: r =>
      let pl := lower_ascii p in
      if ((radix =? 16) && (pl =? 120)%N) || ((radix =? 8) && (pl =? 111)%N) || ((radix =? 2) && (pl =? 98)%N)
      then match r with 95%N :: r' => r' | _ => r end
      else t
    | _ => t
    end in
  match t1 with
  | 95%N :: _ => None                                       (* may not start with an underscore *)
  | _ =>
    match scan_radix radix t1 0 O false with
    | Some (v, S _, []) => Some (if neg then - v else v)
    | _ => None
    end
  end.

Definition pi_flt : flt := S754_finite false 7074237752028440 (-51).      (* math.pi = 0x1.921fb54442d18p+1 *)

Definition is_ascii (s : str) : bool := forallb (fun c => (c <? 128)%N) s.
Definition upper_ascii (c : N) : N := if ((97 <=? c) && (c <=? 122))%N then (c - 32)%N else c.

(* the arguments of datetimeNew are Python ints or integral floats; the roll-over arithmetic of _datetime_new is exact on
   both as long as every intermediate stays far below 2^53: beyond this bound the model declines (it also keeps the
   month-stepping loops short) *)
Definition dt_arg_bound : Z := 10000000.

(* ====================================================================== argument validation through the generated table *)
Inductive marg := MV (v : value) | ML (l : list value).

Section More.
Variable cfg : config.

Definition pfail (r : lres) (arrs : arrs_t) (objs : objs_t) : pres :=
  (if c_debug cfg then LOracle else r, (arrs, objs, [])).
Definition pval (v : value) (arrs : arrs_t) (objs : objs_t) : pres := (LVal v, (arrs, objs, [])).
Definition poracle (arrs : arrs_t) (objs : objs_t) : pres := (LOracle, (arrs, objs, [])).
Definition praise (arrs : arrs_t) (objs : objs_t) : pres := pfail (LRaise []) arrs objs.

Definition validated (f : str) (args : list value) (arrs : arrs_t) (objs : objs_t) (k : list marg -> value -> pres) : pres :=
  let na := length arrs in
  let no := length objs in
  let back := of_v na no [] in
  match Q.assoc_spec f BS.Gen.ArgSpecs.gen_arg_specs with
  | None => poracle arrs objs
  | Some (specs, fv) =>
    let vargs := map (to_v na) args in
    let ret := back (Q.fail_value fv vargs) in
    match Q.args_validate (heap_of2 arrs objs) specs vargs with
    | Q.VOk l => k (map (fun a => match a with Q.AV v => MV (back v) | Q.AL vs => ML (map back vs) end) l) ret
    | Q.VErr => pfail (LArgs ret []) arrs objs
    | Q.VRaise => praise arrs objs
    | Q.VStuck => poracle arrs objs
    end
  end.

Definition int_v (z : Z) : value := VNum (NInt z).
Definition of_opt_int (o : option Z) (arrs : arrs_t) (objs : objs_t) : pres :=
  match o with Some z => pval (int_v z) arrs objs | None => praise arrs objs end.
Definition of_text (r : ares str) (arrs : arrs_t) (objs : objs_t) : pres :=
  match r with ARes s => pval (VStr s) arrs objs | AErr => praise arrs objs | AOracle => poracle arrs objs end.

(* the integer a validated 'integer' argument holds *)
Definition arg_int (n : num) : option Z := match n with NInt z => Some z | NFlt f => sf_integral f end.

Definition getter (f : str) (get : Z -> Z) (args : list value) (arrs : arrs_t) (objs : objs_t) : pres :=
  validated f args arrs objs (fun va _ =>
    match va with [MV (VDate us)] => pval (int_v (get (cal_of us))) arrs objs | _ => poracle arrs objs end).

(* validated, then a payload the model does not compute *)
Definition declined (f : str) (args : list value) (arrs : arrs_t) (objs : objs_t) : pres :=
  validated f args arrs objs (fun _ _ => poracle arrs objs).

Definition more_names : list str :=
  [U "jsonStringify"; U "jsonParse"; U "numberParseFloat"; U "numberParseInt"; U "numberToFixed";
   U "mathAbs"; U "mathCeil"; U "mathFloor"; U "mathRound"; U "mathSign"; U "mathSqrt"; U "mathPi";
   U "mathAcos"; U "mathAsin"; U "mathAtan"; U "mathAtan2"; U "mathCos"; U "mathSin"; U "mathTan"; U "mathLn"; U "mathLog";
   U "datetimeNew"; U "datetimeYear"; U "datetimeMonth"; U "datetimeDay"; U "datetimeHour"; U "datetimeMinute";
   U "datetimeSecond"; U "datetimeMillisecond"; U "datetimeISOFormat"; U "datetimeISOParse";
   U "arrayJoin"; U "stringLower"; U "stringUpper"; U "systemIs"].

(* stringNew / systemLog / systemLogDebug of a container, a datetime or a float: LibCore's [vstring] declines the first two and the
   floats of more than 15 significant digits; here the JSON / ISO / repr text is produced (same argument handling as LibCore for a
   single argument) *)
Definition text_override (name : str) (args : list value) : bool :=
  (op_is name "stringNew" || op_is name "systemLog" || op_is name "systemLogDebug") &&
  match args with [VArr _] | [VObj _] | [VDate _] | [VNum (NFlt _)] => true | _ => false end.

Definition libmore_pure (name : str) (args : list value) (arrs : arrs_t) (objs : objs_t) : pres :=
  if op_is name "stringNew" then
    match args with
    | [v] => of_text (vstring_full arrs objs v) arrs objs
    | _ => poracle arrs objs
    end
  else if op_is name "systemLog" || op_is name "systemLogDebug" then
    match args with
    | [v] =>
      if c_haslog cfg && (op_is name "systemLog" || c_debug cfg) then
        match vstring_full arrs objs v with
        | ARes s => (LVal VNull, (arrs, objs, [s]))
        | AErr => praise arrs objs
        | AOracle => poracle arrs objs
        end
      else pval VNull arrs objs
    | _ => poracle arrs objs
    end
  else if op_is name "jsonStringify" then
    validated name args arrs objs (fun va _ =>
      match va with
      | [MV v; MV ind] =>
        match (match ind with
               | VNull => Some None
               | VNum n => match arg_int n with Some z => Some (Some (Z.to_nat z)) | None => None end
               | _ => None
               end) with
        | Some indent => of_text (value_json arrs objs v indent) arrs objs
        | None => poracle arrs objs
        end
      | _ => poracle arrs objs
      end)
  else if op_is name "jsonParse" then
    validated name args arrs objs (fun va _ =>
      match va with
      | [MV (VStr s)] =>
        if has_surrogate s then poracle arrs objs
        else
          match J.decode s with
          | J.DecOk j =>
            match of_json j arrs objs with
            | PJOk (v, a1, o1) => (LVal v, (a1, o1, []))
            | PJRaise => praise arrs objs
            | PJOracle => poracle arrs objs
            end
          | J.DecErr =>
            (* CPython also reads the constants NaN, Infinity, -Infinity: outside the RFC 8259 reader *)
            if has_sub (U "NaN") s || has_sub (U "Infinity") s then poracle arrs objs else praise arrs objs
          | J.DecFuel => poracle arrs objs
          end
      | _ => poracle arrs objs
      end)
  else if op_is name "numberParseFloat" then
    validated name args arrs objs (fun va _ =>
      match va with
      | [MV (VStr s)] =>
        if has_ascii_sep s then pval VNull arrs objs else
        match T.py_dec s with
        | None => pval VNull arrs objs                                            (* ValueError -> None *)
        | Some (_, T.PInf) | Some (_, T.PNan) => pval VNull arrs objs
        | Some (neg, T.PDec m e) =>
          if 2000 <? Z.abs e then poracle arrs objs                                (* 10^|e| is computed exactly *)
          else let f := dec_to_sf neg m e in
               if sf_is_finite f then pval (VNum (NFlt f)) arrs objs else pval VNull arrs objs
        end
      | _ => poracle arrs objs
      end)
  else if op_is name "numberParseInt" then
    validated name args arrs objs (fun va _ =>
      match va with
      | [MV (VStr s); MV (VNum r)] =>
        match arg_int r with
        | Some radix =>
          if Nat.ltb long_int_digits (length s) then poracle arrs objs
          else if has_ascii_sep s then pval VNull arrs objs
          else match (if radix =? 10 then T.value_parse_integer s else parse_int_radix radix s) with
               | Some z => pval (int_v z) arrs objs
               | None => pval VNull arrs objs
               end
        | None => poracle arrs objs
        end
      | _ => poracle arrs objs
      end)
  else if op_is name "numberToFixed" then
    validated name args arrs objs (fun va _ =>
      match va with
      | [MV (VNum x); MV (VNum dg); MV (VBool trim)] =>
        match arg_int dg with
        | Some d =>
          match round_number x d with
          | Some r =>
            match fmt_fixed r (Z.to_nat d) with
            | Some s => pval (VStr (if trim then T.cleanup s else s)) arrs objs
            | None => praise arrs objs
            end
          | None => praise arrs objs
          end
        | None => poracle arrs objs
        end
      | _ => poracle arrs objs
      end)
  else if op_is name "mathRound" then
    validated name args arrs objs (fun va _ =>
      match va with
      | [MV (VNum x); MV (VNum dg)] =>
        match arg_int dg with
        | Some d => match round_number x d with Some r => pval (VNum (NFlt r)) arrs objs | None => praise arrs objs end
        | None => poracle arrs objs
        end
      | _ => poracle arrs objs
      end)
  else if op_is name "mathAbs" then
    validated name args arrs objs (fun va _ =>
      match va with
      | [MV (VNum (NInt z))] => pval (int_v (Z.abs z)) arrs objs
      | [MV (VNum (NFlt f))] => pval (VNum (NFlt (sf_abs f))) arrs objs
      | _ => poracle arrs objs
      end)
  else if op_is name "mathCeil" then
    validated name args arrs objs (fun va _ =>
      match va with
      | [MV (VNum (NInt z))] => pval (int_v z) arrs objs
      | [MV (VNum (NFlt f))] => of_opt_int (sf_ceil f) arrs objs
      | _ => poracle arrs objs
      end)
  else if op_is name "mathFloor" then
    validated name args arrs objs (fun va _ =>
      match va with
      | [MV (VNum (NInt z))] => pval (int_v z) arrs objs
      | [MV (VNum (NFlt f))] => of_opt_int (sf_floor f) arrs objs
      | _ => poracle arrs objs
      end)
  else if op_is name "mathSign" then
    validated name args arrs objs (fun va _ =>
      match va with
      | [MV (VNum x)] =>
        pval (int_v (match num_compare x (NInt 0) with Some Lt => -1 | Some Eq => 0 | _ => 1 end)) arrs objs
      | _ => poracle arrs objs
      end)
  else if op_is name "mathSqrt" then
    validated name args arrs objs (fun va _ =>
      match va with
      | [MV (VNum x)] =>
        match num_to_sf x with
        | Some f => pval (VNum (NFlt (SFsqrt prec emax f))) arrs objs
        | None => praise arrs objs                                                 (* OverflowError: int too large *)
        end
      | _ => poracle arrs objs
      end)
  else if op_is name "mathPi" then pval (VNum (NFlt pi_flt)) arrs objs
  else if op_is name "mathLog" then
    validated name args arrs objs (fun va _ =>
      match va with
      | [MV (VNum x); MV (VNum b)] =>
        (* if base == 1: raise ValueArgsError('base', base)  (return value None) *)
        if match num_compare b (NInt 1) with Some Eq => true | _ => false end then pfail (LArgs VNull []) arrs objs
        else poracle arrs objs
      | _ => poracle arrs objs
      end)
  else if op_is name "mathAcos" || op_is name "mathAsin" || op_is name "mathAtan" || op_is name "mathAtan2" || op_is name "mathCos"
          || op_is name "mathSin" || op_is name "mathTan" || op_is name "mathLn" then declined name args arrs objs
  else if op_is name "datetimeNew" then
    validated name args arrs objs (fun va _ =>
      match va with
      | [MV (VNum y); MV (VNum mo); MV (VNum d); MV (VNum h); MV (VNum mi); MV (VNum s); MV (VNum ms)] =>
        match arg_int y, arg_int mo, arg_int d, arg_int h, arg_int mi, arg_int s, arg_int ms with
        | Some y, Some mo, Some d, Some h, Some mi, Some s, Some ms =>
          if forallb (fun z => Z.abs z <=? dt_arg_bound) [y; mo; d; h; mi; s; ms] then
            match C.dbind (C.dn_rollover y mo d h mi s ms) C.py_datetime with
            | C.DOk w => pval (VDate (us_of w)) arrs objs
            | C.DExc => praise arrs objs
            | C.DFuel => poracle arrs objs
            end
          else poracle arrs objs
        | _, _, _, _, _, _, _ => poracle arrs objs
        end
      | _ => poracle arrs objs
      end)
  else if op_is name "datetimeYear" then getter name C.get_year args arrs objs
  else if op_is name "datetimeMonth" then getter name C.get_month args arrs objs
  else if op_is name "datetimeDay" then getter name C.get_day args arrs objs
  else if op_is name "datetimeHour" then getter name C.get_hour args arrs objs
  else if op_is name "datetimeMinute" then getter name C.get_minute args arrs objs
  else if op_is name "datetimeSecond" then getter name C.get_second args arrs objs
  else if op_is name "datetimeMillisecond" then getter name C.get_millisecond args arrs objs
  else if op_is name "datetimeISOFormat" then
    validated name args arrs objs (fun va _ =>
      match va with
      | [MV (VDate us); MV (VBool is_date)] =>
        if is_date then pval (VStr (C.iso_format_date (cal_of us))) arrs objs
        else of_text (date_text us) arrs objs
      | _ => poracle arrs objs
      end)
  else if op_is name "datetimeISOParse" then
    validated name args arrs objs (fun va _ =>
      match va with
      | [MV (VStr s)] =>
        match C.iso_parse utc s with
        | Some w => pval (VDate (us_of w)) arrs objs
        | None => pval VNull arrs objs
        end
      | _ => poracle arrs objs
      end)
  else if op_is name "arrayJoin" then
    validated name args arrs objs (fun va _ =>
      match va with
      | [MV (VArr l); MV (VStr sep)] =>
        match nth_error arrs l with
        | None => poracle arrs objs
        | Some xs =>
          (fix go (xs : list value) (acc : list str) : pres :=
             match xs with
             | [] => pval (VStr (join_with sep (rev acc))) arrs objs
             | x :: t =>
               match vstring_full arrs objs x with
               | ARes s => go t (s :: acc)
               | AErr => praise arrs objs
               | AOracle => poracle arrs objs
               end
             end) xs []
        end
      | _ => poracle arrs objs
      end)
  else if op_is name "stringLower" || op_is name "stringUpper" then
    validated name args arrs objs (fun va _ =>
      match va with
      | [MV (VStr s)] =>
        if is_ascii s then pval (VStr (map (if op_is name "stringLower" then lower_ascii else upper_ascii) s)) arrs objs
        else poracle arrs objs                                                     (* Unicode case mapping: not modelled *)
      | _ => poracle arrs objs
      end)
  else if op_is name "systemIs" then
    validated name args arrs objs (fun va _ =>
      match va with
      | [MV a; MV b] =>
        match a, b with
        | VNum x, VNum y => pval (VBool (match num_compare x y with Some Eq => true | _ => false end)) arrs objs
        | VNull, VNull => pval (VBool true) arrs objs
        | VBool p, VBool q => pval (VBool (Bool.eqb p q)) arrs objs
        | VArr p, VArr q | VObj p, VObj q => pval (VBool (Nat.eqb p q)) arrs objs
        (* `is` between two strings, datetimes, functions or regexes: object identity the model does not track *)
        | VStr _, VStr _ | VDate _, VDate _ | VFun _, VFun _ | VRegex _, VRegex _ => poracle arrs objs
        | _, _ => pval (VBool false) arrs objs
        end
      | _ => poracle arrs objs
      end)
  else poracle arrs objs.

(* a pure library function as a member of the interpreter's library *)
Definition lift_pure (p : str -> list value -> arrs_t -> objs_t -> pres) (name : str) (args : list value) (w : world)
  : lres * world :=
  let '(r, (a, o, lg)) := p name args (w_arrs w) (w_objs w) in
  (r, fold_left add_log lg (upd_objs (upd_arrs w a) o)).

Definition libmore (name : str) (args : list value) (w : world) : lres * world := lift_pure libmore_pure name args w.

End More.
