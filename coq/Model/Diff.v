(* Diff.v — hand transliteration of `diffLines` of src/bare_script/include/diff.bare (lines 51-151)
   as it EXECUTES after the parser's lowering (parser.py while-do begin/end, break, continue):

       while C:            jump done if !C
         body        ==>   label loop
       endwhile              body            (`continue` = jump loop : the condition C is NOT re-tested,
                           jump loop if C      known finding F7; `break` = jump done)
                           label done

   The outer loop of diffLines contains two `continue`s; after either of them control re-enters the body
   directly, and the run-out tests at the head of the body are what ends the loop.  [outer_body] is the code
   from `label loop` on; its fuel is consumed once per entry of the body.

   Arrays are `list str`; `arrayGet` out of range and `arraySlice` out of range return null in BareScript:
   here they are [None] and a null that would flow into the result is the distinct outcome [DNull]
   (never totalised); running out of fuel is [DFuel].  The line-split regex is REGENERATED from diff.bare
   (Gen/Includes.v, gen_diff_line_split).  No proofs here. *)
From BS Require Import Model.Base Model.Regex Gen.Unicode Gen.Includes.

Inductive kind := Identical | Add | Remove.
Record block := { b_kind : kind; b_lines : list str }.

Inductive dres (A : Type) :=
| DOk (a : A)
| DFuel            (* a loop of the model ran out of fuel (proved unreachable) *)
| DNull.           (* a null (out-of-range arrayGet / arraySlice) would flow into the result (proved unreachable) *)
Arguments DOk {A} a.
Arguments DFuel {A}.
Arguments DNull {A}.

(* arrayGet(lines, ix): None = null *)
Definition aget (l : list str) (i : nat) : option str := nth_error l i.
(* `==` on two arrayGet results (strings or null): value_compare(...) == 0 *)
Definition veq (a b : option str) : bool := option_eqb str_eqb a b.
(* arraySlice(array, start[, end]): null when start or end exceed the length; array[start:end] otherwise *)
Definition aslice (l : list str) (a : nat) (b : option nat) : option (list str) :=
  let e := match b with Some e => e | None => length l end in
  if Nat.ltb (length l) a then None
  else if Nat.ltb (length l) e then None
  else Some (firstn (e - a) (skipn a l)).

(* arrayPush(diffs, objectNew('type', k, 'lines', <slice>)) *)
Definition push (acc : list block) (k : kind) (sl : option (list str)) : dres (list block) :=
  match sl with
  | Some ls => DOk (acc ++ [{| b_kind := k; b_lines := ls |}])
  | None => DNull
  end.

(* lines 95-100: identicalLines = arrayNew(); while ixLeft < leftLength && ixRight < rightLength && L[ixLeft] == R[ixRight] *)
Fixpoint scan (L R : list str) (fuel ixL ixR : nat) (run : list str) : dres (list str * nat * nat) :=
  match fuel with
  | O => DFuel
  | S f =>
    if Nat.ltb ixL (length L) && Nat.ltb ixR (length R) && veq (aget L ixL) (aget R ixR) then
      match aget L ixL with
      | Some x => scan L R f (S ixL) (S ixR) (run ++ [x])
      | None => DNull
      end
    else DOk (run, ixL, ixR)
  end.

(* lines 111-117: the inner look-ahead loop over the right side; result (foundMatch, ixRightTmp) *)
Fixpoint look_in (L R : list str) (fuel iL iR : nat) : dres (bool * nat) :=
  match fuel with
  | O => DFuel
  | S f =>
    if Nat.ltb iR (length R) then
      if veq (aget L iL) (aget R iR) then DOk (true, iR)       (* foundMatch = true; break *)
      else look_in L R f iL (S iR)
    else DOk (false, iR)
  end.

(* lines 109-122: the outer look-ahead loop over the left side; result (foundMatch, ixLeftTmp, ixRightTmp);
   ixRightTmp is unset (None = null) until the body has run once *)
Fixpoint look_out (L R : list str) (fuel iL : nat) (iRo : option nat) (ixR : nat) : dres (bool * nat * option nat) :=
  match fuel with
  | O => DFuel
  | S f =>
    if Nat.ltb iL (length L) then
      match look_in L R (S (length R)) iL ixR with
      | DOk (true, iR) => DOk (true, iL, Some iR)               (* if foundMatch: break *)
      | DOk (false, iR) => look_out L R f (S iL) (Some iR) ixR
      | DFuel => DFuel
      | DNull => DNull
      end
    else DOk (false, iL, iRo)
  end.

(* lines 80-148 from `label loop` on *)
Fixpoint outer_body (L R : list str) (fuel ixL ixR : nat) (acc : list block) : dres (list block) :=
  match fuel with
  | O => DFuel
  | S f =>
    (* If we've run out of lines on either side *)
    if Nat.leb (length L) ixL then
      if Nat.ltb ixR (length R) then push acc Add (aslice R ixR None) else DOk acc        (* break *)
    else if Nat.leb (length R) ixR then
      if Nat.ltb ixL (length L) then push acc Remove (aslice L ixL None) else DOk acc     (* break *)
    else
      (* Find consecutive identical lines *)
      match scan L R (S (length L)) ixL ixR [] with
      | DFuel => DFuel
      | DNull => DNull
      | DOk (run, ixL1, ixR1) =>
        match run with
        | _ :: _ =>
          (* arrayPush(diffs, Identical); continue  -- jumps to `label loop`: no re-test of the loop condition *)
          outer_body L R f ixL1 ixR1 (acc ++ [{| b_kind := Identical; b_lines := run |}])
        | [] =>
          (* Look ahead to find next matching point *)
          match look_out L R (S (length L)) ixL1 None ixR1 with
          | DFuel => DFuel
          | DNull => DNull
          | DOk (false, _, _) =>
            (* If no match found, use remaining lines *)
            let s1 := if Nat.ltb ixL1 (length L)
                      then match push acc Remove (aslice L ixL1 None) with DOk a => DOk (a, length L) | DFuel => DFuel | DNull => DNull end
                      else DOk (acc, ixL1) in
            match s1 with
            | DFuel => DFuel
            | DNull => DNull
            | DOk (acc1, ixL2) =>
              let s2 := if Nat.ltb ixR1 (length R)
                        then match push acc1 Add (aslice R ixR1 None) with DOk a => DOk (a, length R) | DFuel => DFuel | DNull => DNull end
                        else DOk (acc1, ixR1) in
              match s2 with
              | DFuel => DFuel
              | DNull => DNull
              | DOk (acc2, ixR2) => outer_body L R f ixL2 ixR2 acc2                        (* continue *)
              end
            end
          | DOk (true, iL, iRo) =>
            (* Add removed lines if any *)
            let s1 := if Nat.ltb ixL1 iL
                      then match push acc Remove (aslice L ixL1 (Some iL)) with DOk a => DOk (a, iL) | DFuel => DFuel | DNull => DNull end
                      else DOk (acc, ixL1) in
            match s1 with
            | DFuel => DFuel
            | DNull => DNull
            | DOk (acc1, ixL2) =>
              (* Add added lines if any  (null > number is false) *)
              let s2 := match iRo with
                        | Some iR =>
                          if Nat.ltb ixR1 iR
                          then match push acc1 Add (aslice R ixR1 (Some iR)) with DOk a => DOk (a, iR) | DFuel => DFuel | DNull => DNull end
                          else DOk (acc1, ixR1)
                        | None => DOk (acc1, ixR1)
                        end in
              match s2 with
              | DFuel => DFuel
              | DNull => DNull
              | DOk (acc2, ixR2) =>
                (* endwhile: jump loop if ixLeft < leftLength || ixRight < rightLength *)
                if Nat.ltb ixL2 (length L) || Nat.ltb ixR2 (length R) then outer_body L R f ixL2 ixR2 acc2
                else DOk acc2
              end
            end
          end
        end
      end
  end.

(* lines 75-79 and 150: ixLeft = ixRight = 0; the while header test; return diffs *)
Definition diff_lines (L R : list str) : dres (list block) :=
  if Nat.ltb 0 (length L) || Nat.ltb 0 (length R) then outer_body L R (length L + length R + 1) 0 0 []
  else DOk [].

(* ---- inputs: a string, or an array of strings each of which is split (lines 54-72) ---- *)
Inductive diff_input := InText (s : str) | InParts (parts : list str).

(* regexSplit(diffRegexLineSplit, s) *)
Definition split_lines (s : str) : dres (list str) :=
  match re_split UC gen_diff_line_split s with Some l => DOk l | None => DFuel end.

Fixpoint split_parts (parts : list str) : dres (list str) :=
  match parts with
  | [] => DOk []
  | p :: t =>
    match split_lines p, split_parts t with
    | DOk a, DOk b => DOk (a ++ b)
    | DFuel, _ | _, DFuel => DFuel
    | DNull, _ | _, DNull => DNull
    end
  end.

Definition input_lines (i : diff_input) : dres (list str) :=
  match i with InText s => split_lines s | InParts parts => split_parts parts end.

Definition diff_inputs (a b : diff_input) : dres (list block) :=
  match input_lines a, input_lines b with
  | DOk L, DOk R => diff_lines L R
  | DFuel, _ | _, DFuel => DFuel
  | DNull, _ | _, DNull => DNull
  end.

(* ---- the reconstruction functions of the property ---- *)
Definition kind_eqb (a b : kind) : bool :=
  match a, b with Identical, Identical | Add, Add | Remove, Remove => true | _, _ => false end.
Definition left_of (d : list block) : list str :=
  concat (map b_lines (filter (fun b => negb (kind_eqb (b_kind b) Add)) d)).
Definition right_of (d : list block) : list str :=
  concat (map b_lines (filter (fun b => negb (kind_eqb (b_kind b) Remove)) d)).
Definition nonempty_block (b : block) : bool := match b_lines b with [] => false | _ => true end.

(* ---- equality, for the correspondence ---- *)
Definition block_eqb (a b : block) : bool := kind_eqb (b_kind a) (b_kind b) && list_eqb str_eqb (b_lines a) (b_lines b).
Definition dres_eqb {A} (eqb : A -> A -> bool) (a b : dres A) : bool :=
  match a, b with DOk x, DOk y => eqb x y | _, _ => false end.
Definition blocks_eqb := list_eqb block_eqb.
Definition mk (k : kind) (l : list str) : block := {| b_kind := k; b_lines := l |}.
