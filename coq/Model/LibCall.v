(* LibCall.v — arraySort, the library function that CALLS BACK (library.py _array_sort):
       array.sort(key=functools.cmp_to_key(value_compare))                                   without a comparator
       array.sort(key=functools.cmp_to_key(lambda v1, v2: compare_fn([v1, v2], options)))    with one
   The comparator is a script or library function VALUE invoked through the [caller] the interpreter hands to the
   library (a raw call: no handler around it), so the ORDER and NUMBER of comparisons is observable (log, statement
   count).  The model therefore follows CPython 3.12 list.sort on the path every list shorter than 64 takes:
       count_run (ascending, or strictly descending and then reversed), then binarysort of the remaining elements;
   every test is ISLT(x, y) = (compare(x, y) < 0).  While sorting, the list object is EMPTY to any observer; when the
   comparator leaves something in it, list.sort raises ValueError after installing the sorted items; when a comparison
   raises, the items stay in their current (partially sorted) order - no element is ever lost.  Lists of 64 or more
   elements with a comparator are declined (LOracle): merges would change the comparison order.  Without a comparator
   the order is value_compare's, a total preorder (Props/C11.v), so the stable result does not depend on the algorithm
   and the same insertion sort gives it for any length.  No proofs here. *)
From Coq Require Import SpecFloat.
From BS Require Import Model.Base Model.Num Model.Arith Model.ExprParser Model.Script Model.Interp Model.LibCore.
Local Open Scope Z_scope.

Inductive cres := CLt (b : bool) | CStop (r : lres).
Definition isltT := value -> value -> world -> cres * world.

(* ISLT through a comparator function value: the call result r is tested as Python tests `r < 0` *)
Definition islt_cb (cb : caller) (fv : value) : isltT := fun x y w =>
  match cb fv [x; y] w with
  | (OVal (VNum n), w1) => (CLt (match num_compare n (NInt 0) with Some Lt => true | _ => false end), w1)
  | (OVal (VBool _), w1) => (CLt false, w1)                                (* True < 0 and False < 0 are False *)
  | (OVal _, w1) => (CStop (LRaise (U "'<' not supported")), w1)            (* TypeError *)
  | (OExc ret msg, w1) => (CStop (LArgs ret msg), w1)                       (* the exception in flight goes through sort() *)
  | (ORt m, w1) => (CStop (LRt m), w1)
  | (OFuel, w1) => (CStop LFuel, w1)
  | (OParse _ _, w1) => (CStop LOracle, w1)
  | (OOracle, w1) => (CStop LOracle, w1)
  end.

(* ISLT by value_compare *)
Definition islt_cmp : isltT := fun x y w =>
  match vcompare (cmp_fuel w) w x y with
  | Some Lt => (CLt true, w)
  | Some _ => (CLt false, w)
  | None => (CStop (LRaise msg_recursion), w)       (* RecursionError in value_compare: sort() re-raises it *)
  end.

Section Sort.
Variable islt : isltT.

(* count_run: how far the initial run extends; [desc] = strictly descending *)
Fixpoint run_ext (desc : bool) (prev : value) (rest : list value) (n : nat) (w : world) : (nat + lres) * world :=
  match rest with
  | [] => (inl n, w)
  | x :: t =>
    match islt x prev w with
    | (CLt b, w1) => if Bool.eqb b desc then run_ext desc x t (S n) w1 else (inl n, w1)
    | (CStop r, w1) => (inr r, w1)
    end
  end.

(* the binary search of binarysort: position of [pivot] in the sorted prefix [pre], searching l..r *)
Fixpoint bsearch (fuel : nat) (pivot : value) (pre : list value) (l r : nat) (w : world) : (nat + lres) * world :=
  match fuel with
  | O => (inl l, w)
  | S f =>
    if Nat.ltb l r then
      let p := (l + Nat.div2 (r - l))%nat in
      match islt pivot (nth p pre VNull) w with
      | (CLt true, w1) => bsearch f pivot pre l p w1
      | (CLt false, w1) => bsearch f pivot pre (S p) r w1
      | (CStop r0, w1) => (inr r0, w1)
      end
    else (inl l, w)
  end.

(* binarysort: insert the elements of [todo] one by one; on a stop the items are [sorted ++ todo], nothing moved *)
Fixpoint binsort (sorted todo : list value) (w : world) : list value * option lres * world :=
  match todo with
  | [] => (sorted, None, w)
  | pivot :: t =>
    match bsearch (S (length sorted)) pivot sorted 0 (length sorted) w with
    | (inl pos, w1) => binsort (firstn pos sorted ++ pivot :: skipn pos sorted) t w1
    | (inr r, w1) => (sorted ++ todo, Some r, w1)
    end
  end.

Definition small_sort (xs : list value) (w : world) : list value * option lres * world :=
  match xs with
  | x0 :: x1 :: rest =>
    match islt x1 x0 w with
    | (CStop r, w1) => (xs, Some r, w1)
    | (CLt desc, w1) =>
      match run_ext desc x1 rest 2 w1 with
      | (inr r, w2) => (xs, Some r, w2)
      | (inl n, w2) =>
        let run := firstn n xs in
        binsort (if desc then rev run else run) (skipn n xs) w2
      end
    end
  | _ => (xs, None, w)
  end.
End Sort.

Section Lib.
Variable cfg : config.

Definition AFunN : aspec := {| a_type := TFunction; a_nullable := true; a_last := false; a_int := false; a_gte0 := false |}.
Definition is_nil {A} (l : list A) : bool := match l with [] => true | _ => false end.

Definition lib_sort (callback : caller) (args : list value) (w : world) : lres * world :=
  match validate w [A TArray; AFunN] args with
  | VOk [AV (VArr l); AV f] =>
    let xs := get_arr w l in
    match f with
    | VNull =>
      match small_sort islt_cmp xs w with
      | (cur, None, w1) => (LVal (VArr l), set_arr w1 l cur)
      | (cur, Some r, w1) => (r, set_arr w1 l cur)
      end
    | _ =>
      if Nat.leb 64 (length xs) then (LOracle, w)
      else
        match small_sort (islt_cb callback f) xs (set_arr w l []) with
        | (cur, Some r, w1) =>
          match r with
          | LRaise _ => if c_debug cfg then (LOracle, w1) else (r, set_arr w1 l cur)
          | _ => (r, set_arr w1 l cur)
          end
        | (cur, None, w1) =>
          if is_nil (get_arr w1 l) then (LVal (VArr l), set_arr w1 l cur)
          else if c_debug cfg then (LOracle, w1)
          else (LRaise (U "list modified during sort"), set_arr w1 l cur)          (* ValueError *)
        end
    end
  | r => (ret_of r VNull, w)
  end.

End Lib.
