(* Script.v — transliteration of parser.py: parse_script (line splitting, comments,
   continuations, statement classification by the REGENERATED regexes, lowering of
   if/elif/else/while/for/break/continue to labels and jumps, error positions).
   No proofs here. *)
From Coq Require Import SpecFloat.
From BS Require Import Model.Base Model.Regex Model.Num Model.ExprParser Gen.Unicode Gen.Regexes.

(* ---- the BareScript model (model.py) ---- *)
Inductive stmt :=
| SExpr (name : option str) (e : expr)
| SJump (label : str) (cond : option expr)
| SReturn (e : option expr)
| SLabel (name : str)
| SFunction (name : str) (args : option (list str)) (async lastarg : bool) (body : list stmt)
| SInclude (incs : list (str * bool)).          (* (url, system) *)

Definition script := list stmt.

(* BareScriptParserError(error, line, column_number, line_number) *)
Record perr := { e_msg : str; e_line : str; e_col : nat; e_lineno : option nat }.

Inductive sres (A : Type) :=
| ROk (a : A)
| RErr (e : perr)
| RHost (what : str)       (* an exception other than BareScriptParserError would escape *)
| RFuel.
Arguments ROk {A} a.
Arguments RErr {A} e.
Arguments RHost {A} what.
Arguments RFuel {A}.

(* ---- line front end ---- *)
Definition split_lines (text : str) : sres (list str) :=
  match re_split UC R_SCRIPT_LINE_SPLIT text with Some l => ROk l | None => RFuel end.

Fixpoint split_chunks (chunks : list str) : sres (list str) :=
  match chunks with
  | [] => ROk []
  | c :: t =>
    match split_lines c, split_chunks t with
    | ROk a, ROk b => ROk (a ++ b)
    | RFuel, _ | _, RFuel => RFuel
    | RHost w, _ | _, RHost w => RHost w
    | RErr e, _ | _, RErr e => RErr e
    end
  end.

Definition is_comment (line : str) : sres bool :=
  match re_match UC R_SCRIPT_COMMENT line with MYes _ _ => ROk true | MNo => ROk false | MFuel => RFuel end.

(* _R_SCRIPT_CONTINUATION.sub('', line_part) *)
Definition strip_continuation (line : str) : sres str :=
  match re_sub UC R_SCRIPT_CONTINUATION (fun _ _ => []) line with Some s => ROk s | None => RFuel end.

(* state of the continuation handling: parts collected so far (in order) and the index of the
   first physical line of the logical line *)
Record lstate := { l_cont : list str; l_ix : nat }.

Inductive lstep_res :=
| LSkip (st : lstate)                    (* comment, or a continued part: no logical line yet *)
| LLine (st : lstate) (ix : nat) (line : str)
| LBad (what : sres unit).

Definition lstep (st : lstate) (ix_part : nat) (part : str) : lstep_res :=
  match is_comment part with
  | ROk true => LSkip st
  | ROk false =>
    let is_continued := negb (match l_cont st with [] => true | _ => false end) in
    let ix := if is_continued then l_ix st else ix_part in
    match strip_continuation part with
    | ROk no_cont =>
      if negb (str_eqb part no_cont) then
        LSkip {| l_cont := l_cont st ++ [if is_continued then strip no_cont else rstrip no_cont]; l_ix := ix |}
      else if is_continued then
        LLine {| l_cont := []; l_ix := ix |} ix (join_with [32%N] (l_cont st ++ [strip no_cont]))
      else LLine {| l_cont := []; l_ix := ix |} ix part
    | RFuel => LBad RFuel
    | RHost w => LBad (RHost w)
    | RErr e => LBad (RErr e)
    end
  | RFuel => LBad RFuel
  | RHost w => LBad (RHost w)
  | RErr e => LBad (RErr e)
  end.

(* ---- parser state ---- *)
Inductive frame :=
| FIf (jump_pos : nat) (jump_label done : str) (has_else : bool) (line : str) (lineno : nat)
| FWhile (loop cont done : str) (e : expr) (has_continue : bool) (line : str) (lineno : nat)
| FFor (loop cont done index values length value : str) (has_continue : bool) (line : str) (lineno : nat).

Definition is_if_frame (f : frame) : bool := match f with FIf _ _ _ _ _ _ => true | _ => false end.
Definition frame_key (f : frame) : str :=
  match f with FIf _ _ _ _ _ _ => U "if" | FWhile _ _ _ _ _ _ _ => U "while" | FFor _ _ _ _ _ _ _ _ _ _ => U "for" end.
Definition frame_line (f : frame) : str :=
  match f with FIf _ _ _ _ l _ => l | FWhile _ _ _ _ _ l _ => l | FFor _ _ _ _ _ _ _ _ l _ => l end.
Definition frame_lineno (f : frame) : nat :=
  match f with FIf _ _ _ _ _ n => n | FWhile _ _ _ _ _ _ n => n | FFor _ _ _ _ _ _ _ _ _ n => n end.

Record fn_open := { fo_name : str; fo_args : option (list str); fo_async : bool; fo_lastarg : bool;
                    fo_body : list stmt; fo_line : str; fo_lineno : nat }.

Record pstate := {
  ps_global : list stmt;       (* script['statements'] (the open function, if any, is appended when it closes) *)
  ps_fn : option fn_open;      (* function_def *)
  ps_fn_depth : nat;           (* function_label_def_depth *)
  ps_frames : list frame;      (* label_defs, head = top of stack *)
  ps_index : nat               (* label_index *)
}.

Definition ps_init : pstate := {| ps_global := []; ps_fn := None; ps_fn_depth := 0; ps_frames := []; ps_index := 0 |}.

Definition cur_stmts (ps : pstate) : list stmt :=
  match ps_fn ps with Some fo => fo_body fo | None => ps_global ps end.

Definition set_stmts (ps : pstate) (l : list stmt) : pstate :=
  match ps_fn ps with
  | Some fo => {| ps_global := ps_global ps;
                  ps_fn := Some {| fo_name := fo_name fo; fo_args := fo_args fo; fo_async := fo_async fo; fo_lastarg := fo_lastarg fo;
                                   fo_body := l; fo_line := fo_line fo; fo_lineno := fo_lineno fo |};
                  ps_fn_depth := ps_fn_depth ps; ps_frames := ps_frames ps; ps_index := ps_index ps |}
  | None => {| ps_global := l; ps_fn := None; ps_fn_depth := ps_fn_depth ps; ps_frames := ps_frames ps; ps_index := ps_index ps |}
  end.
Definition emit (ps : pstate) (l : list stmt) : pstate := set_stmts ps (cur_stmts ps ++ l).
Definition set_frames (ps : pstate) (fr : list frame) : pstate :=
  {| ps_global := ps_global ps; ps_fn := ps_fn ps; ps_fn_depth := ps_fn_depth ps; ps_frames := fr; ps_index := ps_index ps |}.
Definition bump (ps : pstate) : pstate :=
  {| ps_global := ps_global ps; ps_fn := ps_fn ps; ps_fn_depth := ps_fn_depth ps; ps_frames := ps_frames ps; ps_index := S (ps_index ps) |}.

(* label_def_depth = function_label_def_depth if function_def is not None else 0 *)
Definition depth_floor (ps : pstate) : nat := match ps_fn ps with Some _ => ps_fn_depth ps | None => 0 end.

Definition lbl (prefix : str) (n : nat) : str := prefix ++ nat_to_str n.
Definition L_If := U "__bareScriptIf".
Definition L_Done := U "__bareScriptDone".
Definition L_Loop := U "__bareScriptLoop".
Definition L_Continue := U "__bareScriptContinue".
Definition L_Index := U "__bareScriptIndex".
Definition L_Values := U "__bareScriptValues".
Definition L_Length := U "__bareScriptLength".

Definition err (msg line : str) (col lineno : nat) : perr :=
  {| e_msg := msg; e_line := line; e_col := col; e_lineno := Some lineno |}.

Definition e_not (e : expr) : expr := EUn (U "!") e.

(* ifthen['jump']['label'] = ifthen['done']: the jump emitted at position pos gets a new label *)
Fixpoint retarget (pos : nat) (new_label : str) (l : list stmt) : option (list stmt) :=
  match l, pos with
  | SJump _ c :: t, O => Some (SJump new_label c :: t)
  | _ :: _, O => None
  | x :: t, S p => option_map (cons x) (retarget p new_label t)
  | [], _ => None
  end.

(* parse a statement's expression group; errors are re-raised with (line, offset + column, lineno) *)
Definition stmt_expr (text line : str) (offset lineno : nat) : sres expr :=
  match parse_expression text with
  | EOk e => ROk e
  | EErr msg col => RErr (err msg line (offset + col) lineno)
  | EHost w => RHost w
  | EFuel => RFuel
  end.

Definition rxm (r : regex) (s : str) : mres := re_match UC r s.
Definition gtext (s : str) (c : caps) (n : nat) : str := match group_text s c n with Some t => t | None => [] end.
Definition ghas (c : caps) (n : nat) : bool := match cap_get n c with Some _ => true | None => false end.
Definition gstart (c : caps) (n : nat) : nat := match cap_get n c with Some (a, _) => a | None => 0 end.

(* innermost non-if frame: (number of frames above it, the frame) *)
Fixpoint find_loop (fr : list frame) (k : nat) : option (nat * frame) :=
  match fr with
  | [] => None
  | f :: t => if is_if_frame f then find_loop t (S k) else Some (k, f)
  end.
Fixpoint set_nth_frame (fr : list frame) (k : nat) (f : frame) : list frame :=
  match fr, k with
  | _ :: t, O => f :: t
  | x :: t, S p => x :: set_nth_frame t p f
  | [], _ => []
  end.
Definition mark_continue (f : frame) : frame :=
  match f with
  | FWhile a b c e _ l n => FWhile a b c e true l n
  | FFor a b c d e g h _ l n => FFor a b c d e g h true l n
  | other => other
  end.
Definition frame_done (f : frame) : str :=
  match f with FIf _ _ d _ _ _ => d | FWhile _ _ d _ _ _ _ => d | FFor _ _ d _ _ _ _ _ _ _ => d end.
Definition frame_continue (f : frame) : str :=
  match f with FIf _ _ d _ _ _ => d | FWhile _ c _ _ _ _ _ => c | FFor _ c _ _ _ _ _ _ _ _ => c end.

Definition last_is_include (l : list stmt) : option (list stmt * list (str * bool)) :=
  match rev l with
  | SInclude incs :: t => Some (rev t, incs)
  | _ => None
  end.

Definition unesc (r : regex) (s : str) : sres str :=
  match re_sub UC r (fun whole c => gtext whole c 1) s with Some t => ROk t | None => RFuel end.

(* one logical line.  [lineno] = start_line_number + ix_line *)
Definition pstep (ps : pstate) (lineno : nat) (line : str) : sres pstate :=
  let E (msg : str) := RErr (err msg line 1 lineno) in
  (* Assignment? *)
  match rxm R_SCRIPT_ASSIGNMENT line with
  | MFuel => RFuel
  | MYes _ c =>
    let ex := gtext line c R_SCRIPT_ASSIGNMENT__expr in
    match stmt_expr ex line (length line - length ex) lineno with
    | ROk e => ROk (emit ps [SExpr (Some (gtext line c R_SCRIPT_ASSIGNMENT__name)) e])
    | RErr e => RErr e | RHost w => RHost w | RFuel => RFuel
    end
  | MNo =>
  (* Function definition begin? *)
  match rxm R_SCRIPT_FUNCTION_BEGIN line with
  | MFuel => RFuel
  | MYes _ c =>
    match ps_fn ps with
    | Some _ => E (U "Nested function definition")
    | None =>
      let args :=
        if ghas c R_SCRIPT_FUNCTION_BEGIN__args
        then match re_split UC R_SCRIPT_FUNCTION_ARG_SPLIT (gtext line c R_SCRIPT_FUNCTION_BEGIN__args) with
             | Some l => ROk (Some l) | None => RFuel end
        else ROk None in
      match args with
      | ROk a =>
        ROk {| ps_global := ps_global ps;
               ps_fn := Some {| fo_name := gtext line c R_SCRIPT_FUNCTION_BEGIN__name; fo_args := a;
                                fo_async := ghas c R_SCRIPT_FUNCTION_BEGIN__async;
                                fo_lastarg := ghas c R_SCRIPT_FUNCTION_BEGIN__lastArgArray;
                                fo_body := []; fo_line := line; fo_lineno := lineno |};
               ps_fn_depth := length (ps_frames ps); ps_frames := ps_frames ps; ps_index := ps_index ps |}
      | RErr e => RErr e | RHost w => RHost w | RFuel => RFuel
      end
    end
  | MNo =>
  (* Function definition end? *)
  match rxm R_SCRIPT_FUNCTION_END line with
  | MFuel => RFuel
  | MYes _ _ =>
    match ps_fn ps with
    | None => E (U "No matching function definition")
    | Some fo =>
      if Nat.ltb (ps_fn_depth ps) (length (ps_frames ps)) then
        match ps_frames ps with
        | f :: _ => RErr (err (U "Missing end" ++ frame_key f ++ U " statement") (frame_line f) 1 (frame_lineno f))
        | [] => RHost (U "IndexError")
        end
      else
        ROk {| ps_global := ps_global ps ++ [SFunction (fo_name fo) (fo_args fo) (fo_async fo) (fo_lastarg fo) (fo_body fo)];
               ps_fn := None; ps_fn_depth := 0; ps_frames := ps_frames ps; ps_index := ps_index ps |}
    end
  | MNo =>
  (* If-then begin? *)
  match rxm R_SCRIPT_IF_BEGIN line with
  | MFuel => RFuel
  | MYes _ c =>
    match stmt_expr (gtext line c R_SCRIPT_IF_BEGIN__expr) line (gstart c R_SCRIPT_IF_BEGIN__expr) lineno with
    | ROk e =>
      let n := ps_index ps in
      let pos := length (cur_stmts ps) in
      let ps1 := emit ps [SJump (lbl L_If n) (Some (e_not e))] in
      ROk (bump (set_frames ps1 (FIf pos (lbl L_If n) (lbl L_Done n) false line lineno :: ps_frames ps)))
    | RErr e => RErr e | RHost w => RHost w | RFuel => RFuel
    end
  | MNo =>
  (* Else-if-then? *)
  match rxm R_SCRIPT_IF_ELSE_IF line with
  | MFuel => RFuel
  | MYes _ c =>
    match (if Nat.ltb (depth_floor ps) (length (ps_frames ps)) then ps_frames ps else []) with
    | FIf _ jl done has_else fl fn :: rest =>
      if has_else then E (U "Elif statement following else statement")
      else
        match stmt_expr (gtext line c R_SCRIPT_IF_ELSE_IF__expr) line (gstart c R_SCRIPT_IF_ELSE_IF__expr) lineno with
        | ROk e =>
          let n := ps_index ps in
          let pos := length (cur_stmts ps) + 2 in
          let ps1 := emit ps [SJump done None; SLabel jl; SJump (lbl L_If n) (Some (e_not e))] in
          ROk (bump (set_frames ps1 (FIf pos (lbl L_If n) done false fl fn :: rest)))
        | RErr e => RErr e | RHost w => RHost w | RFuel => RFuel
        end
    | _ => E (U "No matching if statement")
    end
  | MNo =>
  (* Else-then? *)
  match rxm R_SCRIPT_IF_ELSE line with
  | MFuel => RFuel
  | MYes _ _ =>
    match (if Nat.ltb (depth_floor ps) (length (ps_frames ps)) then ps_frames ps else []) with
    | FIf pos jl done has_else fl fn :: rest =>
      if has_else then E (U "Multiple else statements")
      else ROk (set_frames (emit ps [SJump done None; SLabel jl]) (FIf pos jl done true fl fn :: rest))
    | _ => E (U "No matching if statement")
    end
  | MNo =>
  (* If-then end? (the frame is popped BEFORE it is known to be an if) *)
  match rxm R_SCRIPT_IF_END line with
  | MFuel => RFuel
  | MYes _ _ =>
    match (if Nat.ltb (depth_floor ps) (length (ps_frames ps)) then ps_frames ps else []) with
    | FIf pos jl done has_else _ _ :: rest =>
      let stmts :=
        if has_else then Some (cur_stmts ps) else retarget pos done (cur_stmts ps) in
      match stmts with
      | Some l => ROk (set_frames (set_stmts ps (l ++ [SLabel done])) rest)
      | None => RHost (U "model: pending jump not found")
      end
    | _ => E (U "No matching if statement")
    end
  | MNo =>
  (* While-do begin? *)
  match rxm R_SCRIPT_WHILE_BEGIN line with
  | MFuel => RFuel
  | MYes _ c =>
    match stmt_expr (gtext line c R_SCRIPT_WHILE_BEGIN__expr) line (gstart c R_SCRIPT_WHILE_BEGIN__expr) lineno with
    | ROk e =>
      let n := ps_index ps in
      let ps1 := emit ps [SJump (lbl L_Done n) (Some (e_not e)); SLabel (lbl L_Loop n)] in
      ROk (bump (set_frames ps1 (FWhile (lbl L_Loop n) (lbl L_Loop n) (lbl L_Done n) e false line lineno :: ps_frames ps)))
    | RErr e => RErr e | RHost w => RHost w | RFuel => RFuel
    end
  | MNo =>
  (* While-do end? *)
  match rxm R_SCRIPT_WHILE_END line with
  | MFuel => RFuel
  | MYes _ _ =>
    if Nat.leb (length (ps_frames ps)) (depth_floor ps) then E (U "No matching while statement")
    else match ps_frames ps with
         | FWhile loop _ done e _ _ _ :: rest =>
           ROk (set_frames (emit ps [SJump loop (Some e); SLabel done]) rest)
         | _ => E (U "No matching while statement")
         end
  | MNo =>
  (* For-each begin? *)
  match rxm R_SCRIPT_FOR_BEGIN line with
  | MFuel => RFuel
  | MYes _ c =>
    match stmt_expr (gtext line c R_SCRIPT_FOR_BEGIN__values) line (gstart c R_SCRIPT_FOR_BEGIN__values) lineno with
    | ROk e =>
      let n := ps_index ps in
      let index := match gtext line c R_SCRIPT_FOR_BEGIN__index with [] => lbl L_Index n | s => s end in
      let values := lbl L_Values n in
      let len := lbl L_Length n in
      let value := gtext line c R_SCRIPT_FOR_BEGIN__value in
      let ps1 := emit ps
        [SExpr (Some values) e;
         SExpr (Some len) (ECall (U "arrayLength") [EVar values]);
         SJump (lbl L_Done n) (Some (e_not (EVar len)));
         SExpr (Some index) (ENum (NInt 0));
         SLabel (lbl L_Loop n);
         SExpr (Some value) (ECall (U "arrayGet") [EVar values; EVar index])] in
      ROk (bump (set_frames ps1 (FFor (lbl L_Loop n) (lbl L_Continue n) (lbl L_Done n) index values len value false line lineno
                                   :: ps_frames ps)))
    | RErr e => RErr e | RHost w => RHost w | RFuel => RFuel
    end
  | MNo =>
  (* For-each end? *)
  match rxm R_SCRIPT_FOR_END line with
  | MFuel => RFuel
  | MYes _ _ =>
    if Nat.leb (length (ps_frames ps)) (depth_floor ps) then E (U "No matching for statement")
    else match ps_frames ps with
         | FFor loop cont done index _ len _ has_cont _ _ :: rest =>
           ROk (set_frames (emit ps ((if has_cont then [SLabel cont] else []) ++
                  [SExpr (Some index) (EBin (U "+") (EVar index) (ENum (NInt 1)));
                   SJump loop (Some (EBin (U "<") (EVar index) (EVar len)));
                   SLabel done])) rest)
         | _ => E (U "No matching for statement")
         end
  | MNo =>
  (* Break statement? *)
  match rxm R_SCRIPT_BREAK line with
  | MFuel => RFuel
  | MYes _ _ =>
    match find_loop (ps_frames ps) 0 with
    | Some (k, f) =>
      (* index from the bottom of the stack = length - 1 - k; must be >= depth_floor *)
      if Nat.ltb (length (ps_frames ps) - 1 - k) (depth_floor ps) then E (U "Break statement outside of loop")
      else ROk (emit ps [SJump (frame_done f) None])
    | None => E (U "Break statement outside of loop")
    end
  | MNo =>
  (* Continue statement? *)
  match rxm R_SCRIPT_CONTINUE line with
  | MFuel => RFuel
  | MYes _ _ =>
    match find_loop (ps_frames ps) 0 with
    | Some (k, f) =>
      if Nat.ltb (length (ps_frames ps) - 1 - k) (depth_floor ps) then E (U "Continue statement outside of loop")
      else ROk (emit (set_frames ps (set_nth_frame (ps_frames ps) k (mark_continue f))) [SJump (frame_continue f) None])
    | None => E (U "Continue statement outside of loop")
    end
  | MNo =>
  (* Label definition? *)
  match rxm R_SCRIPT_LABEL line with
  | MFuel => RFuel
  | MYes _ c => ROk (emit ps [SLabel (gtext line c R_SCRIPT_LABEL__name)])
  | MNo =>
  (* Jump definition? *)
  match rxm R_SCRIPT_JUMP line with
  | MFuel => RFuel
  | MYes _ c =>
    let name := gtext line c R_SCRIPT_JUMP__name in
    let ex := gtext line c R_SCRIPT_JUMP__expr in
    match ex with
    | [] => ROk (emit ps [SJump name None])
    | _ =>
      match stmt_expr ex line (length (gtext line c R_SCRIPT_JUMP__jump) - length ex - 1) lineno with
      | ROk e => ROk (emit ps [SJump name (Some e)])
      | RErr e => RErr e | RHost w => RHost w | RFuel => RFuel
      end
    end
  | MNo =>
  (* Return definition? *)
  match rxm R_SCRIPT_RETURN line with
  | MFuel => RFuel
  | MYes _ c =>
    let ex := gtext line c R_SCRIPT_RETURN__expr in
    match ex with
    | [] => ROk (emit ps [SReturn None])
    | _ =>
      match stmt_expr ex line (length (gtext line c R_SCRIPT_RETURN__return) - length ex) lineno with
      | ROk e => ROk (emit ps [SReturn (Some e)])
      | RErr e => RErr e | RHost w => RHost w | RFuel => RFuel
      end
    end
  | MNo =>
  (* Include definition? *)
  let inc :=
    match rxm R_SCRIPT_INCLUDE line with
    | MFuel => RFuel
    | MYes _ c =>
      match unesc R_EXPR_STRING_ESCAPE (gtext line c R_SCRIPT_INCLUDE__url) with
      | ROk u => ROk (Some (u, false)) | RErr e => RErr e | RHost w => RHost w | RFuel => RFuel
      end
    | MNo =>
      match rxm R_SCRIPT_INCLUDE_SYSTEM line with
      | MFuel => RFuel
      | MYes _ c => ROk (Some (gtext line c R_SCRIPT_INCLUDE_SYSTEM__url, true))
      | MNo => ROk None
      end
    end in
  match inc with
  | RFuel => RFuel | RHost w => RHost w | RErr e => RErr e
  | ROk (Some i) =>
    match last_is_include (cur_stmts ps) with
    | Some (front, incs) => ROk (set_stmts ps (front ++ [SInclude (incs ++ [i])]))
    | None => ROk (emit ps [SInclude [i]])
    end
  | ROk None =>
  (* Expression *)
  match parse_expression line with
  | EOk e => ROk (emit ps [SExpr None e])
  | EErr msg col => RErr (err msg line col lineno)
  | EHost w => RHost w
  | EFuel => RFuel
  end
  end end end end end end end end end end end end end end end end end.

(* the line loop *)
Fixpoint ploop (lines : list str) (ix_part : nat) (ls : lstate) (ps : pstate) (start : nat) : sres (lstate * pstate) :=
  match lines with
  | [] => ROk (ls, ps)
  | part :: rest =>
    match lstep ls ix_part part with
    | LSkip ls' => ploop rest (S ix_part) ls' ps start
    | LLine ls' ix line =>
      match pstep ps (start + ix) line with
      | ROk ps' => ploop rest (S ix_part) ls' ps' start
      | RErr e => RErr e | RHost w => RHost w | RFuel => RFuel
      end
    | LBad (RErr e) => RErr e
    | LBad (RHost w) => RHost w
    | LBad _ => RFuel
    end
  end.

(* end-of-input checks, in the order of the code *)
Definition pfinish (ls : lstate) (ps : pstate) (start : nat) : sres script :=
  match l_cont ls with
  | _ :: _ => RErr (err (U "Unexpected end of script in line continuation") (join_with [32%N] (l_cont ls)) 1 (start + l_ix ls))
  | [] =>
    match ps_frames ps with
    | f :: _ => RErr (err (U "Missing end" ++ frame_key f ++ U " statement") (frame_line f) 1 (frame_lineno f))
    | [] =>
      match ps_fn ps with
      | Some fo => RErr (err (U "Missing endfunction statement") (fo_line fo) 1 (fo_lineno fo))
      | None => ROk (ps_global ps)
      end
    end
  end.

(* parse_script(script_text: iterable of str, start_line_number) *)
Definition parse_script (chunks : list str) (start : nat) : sres script :=
  match split_chunks chunks with
  | ROk lines =>
    match ploop lines 0 {| l_cont := []; l_ix := 0 |} ps_init start with
    | ROk (ls, ps) => pfinish ls ps start
    | RErr e => RErr e | RHost w => RHost w | RFuel => RFuel
    end
  | RErr e => RErr e | RHost w => RHost w | RFuel => RFuel
  end.

(* ---- equality, for the correspondence ---- *)
Definition ostr_eqb := option_eqb str_eqb.
Definition oexpr_eqb := option_eqb expr_eqb.
Fixpoint stmt_eqb (a b : stmt) : bool :=
  match a, b with
  | SExpr n1 e1, SExpr n2 e2 => ostr_eqb n1 n2 && expr_eqb e1 e2
  | SJump l1 c1, SJump l2 c2 => str_eqb l1 l2 && oexpr_eqb c1 c2
  | SReturn e1, SReturn e2 => oexpr_eqb e1 e2
  | SLabel n1, SLabel n2 => str_eqb n1 n2
  | SFunction n1 a1 as1 la1 b1, SFunction n2 a2 as2 la2 b2 =>
    str_eqb n1 n2 && option_eqb (list_eqb str_eqb) a1 a2 && Bool.eqb as1 as2 && Bool.eqb la1 la2 &&
    (fix go (l1 l2 : list stmt) : bool :=
       match l1, l2 with
       | [], [] => true
       | x :: t1, y :: t2 => stmt_eqb x y && go t1 t2
       | _, _ => false
       end) b1 b2
  | SInclude i1, SInclude i2 => list_eqb (fun x y => str_eqb (fst x) (fst y) && Bool.eqb (snd x) (snd y)) i1 i2
  | _, _ => false
  end.

Definition perr_eqb (a b : perr) : bool :=
  str_eqb (e_msg a) (e_msg b) && str_eqb (e_line a) (e_line b) && Nat.eqb (e_col a) (e_col b) &&
  option_eqb Nat.eqb (e_lineno a) (e_lineno b).

Definition sres_eqb {A} (eqb : A -> A -> bool) (a b : sres A) : bool :=
  match a, b with
  | ROk x, ROk y => eqb x y
  | RErr x, RErr y => perr_eqb x y
  | RHost x, RHost y => str_eqb x y
  | _, _ => false
  end.

Definition script_eqb := list_eqb stmt_eqb.
