(* Compare.v — value.py `value_compare` and its consumers (runtime.py relational operators,
   library.py systemCompare / arraySort / arrayIndexOf / mathMin / mathMax, data.py sort_data).
   Executable Gallina only; the proofs are in Proofs/C11.v.

   Comparison never looks at aliasing, so values are pure trees here (no heap). *)
From Coq Require Import SpecFloat.
From BS Require Import Model.Base Model.Num Gen.TypeNames.
Local Open Scope Z_scope.

(* a host date value as it reaches value_compare: a `datetime.date`, a naive `datetime.datetime`
   (local wall clock) or a timezone-aware `datetime.datetime` (an instant).
   Units: microseconds; epoch 0001-01-01T00:00:00 (proleptic Gregorian), wall clock for HDate/HNaive, UTC for HAware. *)
Inductive hdate := HDate (days : Z) | HNaive (us : Z) | HAware (utc_us : Z).

Inductive cv :=
| CNull
| CBool (b : bool)
| CNum (n : num)
| CStr (s : str)
| CDate (d : hdate)
| CArr (l : list cv)
| CObj (l : list (str * cv))      (* items in insertion order; keys of a real dict are distinct *)
| CFun (id : N)
| CRegex (id : N).

(* value.py value_type: the names come from the REGENERATED ladder (Gen/TypeNames.v) *)
Definition value_type (v : cv) : str :=
  match v with
  | CNull => gen_tn_null
  | CStr _ => gen_tn_string
  | CBool _ => gen_tn_boolean
  | CNum _ => gen_tn_number
  | CDate _ => gen_tn_datetime
  | CObj _ => gen_tn_object
  | CArr _ => gen_tn_array
  | CFun _ => gen_tn_function
  | CRegex _ => gen_tn_regex
  end.

(* ---- Python's `<` and `==` on int/float operands: EXACT comparison of the denoted values ----
   An int z denotes z; a float denotes (+-m) * 2^e, +-infinity, or NaN (every test false). *)
Inductive xkey := KNaN | KNegInf | KFin (m e : Z) | KPosInf.

Definition num_key (n : num) : xkey :=
  match n with
  | NInt z => KFin z 0
  | NFlt (S754_zero _) => KFin 0 0
  | NFlt (S754_finite s m e) => KFin (if s then Zneg m else Zpos m) e
  | NFlt (S754_infinity s) => if s then KNegInf else KPosInf
  | NFlt S754_nan => KNaN
  end.

(* m1 * 2^e1  ?=  m2 * 2^e2, both sides scaled to the smaller exponent *)
Definition fin_compare (m1 e1 m2 e2 : Z) : comparison :=
  let e := Z.min e1 e2 in Z.compare (m1 * 2 ^ (e1 - e)) (m2 * 2 ^ (e2 - e)).

Definition key_compare (a b : xkey) : option comparison :=
  match a, b with
  | KNaN, _ | _, KNaN => None
  | KNegInf, KNegInf => Some Eq
  | KNegInf, _ => Some Lt
  | _, KNegInf => Some Gt
  | KPosInf, KPosInf => Some Eq
  | KPosInf, _ => Some Gt
  | _, KPosInf => Some Lt
  | KFin m1 e1, KFin m2 e2 => Some (fin_compare m1 e1 m2 e2)
  end.

Definition num_ltb (a b : num) : bool :=
  match key_compare (num_key a) (num_key b) with Some Lt => true | _ => false end.
Definition num_eqvb (a b : num) : bool :=
  match key_compare (num_key a) (num_key b) with Some Eq => true | _ => false end.

(* the idiom  `-1 if l < r else (0 if l == r else 1)`  of value_compare *)
Definition sign3 (lt eq : bool) : comparison := if lt then Lt else if eq then Eq else Gt.

Definition num_compare (a b : num) : comparison := sign3 (num_ltb a b) (num_eqvb a b).
Definition bool_compare (a b : bool) : comparison :=
  sign3 (negb a && b) (Bool.eqb a b).

Definition num_is_nan (n : num) : bool := match n with NFlt S754_nan => true | _ => false end.

(* ---- containers ---------------------------------------------------------------------- *)
Section ListCmp.
  Context {A B : Type} (cmp : A -> B -> comparison).
  (* for ix in range(min(len l, len r)): c = cmp l[ix] r[ix]; if c != 0: return c
     return sign(len l - len r) *)
  Fixpoint lcmp (x : list A) (y : list B) : comparison :=
    match x, y with
    | [], [] => Eq
    | [], _ :: _ => Lt
    | _ :: _, [] => Gt
    | a :: x', b :: y' => match cmp a b with Eq => lcmp x' y' | r => r end
    end.
End ListCmp.

(* sorted(d.items()): a stable sort on the key (keys of a dict are distinct, so tuple comparison never reaches the value) *)
Section KeySort.
  Context {V : Type}.
  Fixpoint kinsert (kv : str * V) (l : list (str * V)) : list (str * V) :=
    match l with
    | [] => [kv]
    | h :: t => match str_compare (fst kv) (fst h) with Gt => h :: kinsert kv t | _ => kv :: l end
    end.
  Fixpoint ksort (l : list (str * V)) : list (str * V) :=
    match l with [] => [] | h :: t => kinsert h (ksort t) end.
End KeySort.

Section Compare.
  (* UTC offset of the local time zone at a UTC instant (microseconds): `astimezone()`; any function *)
  Variable tz : Z -> Z.

  (* value.py value_normalize_datetime *)
  Definition normalize (d : hdate) : Z :=
    match d with
    | HAware t => t + tz t                 (* value.astimezone().replace(tzinfo=None) *)
    | HNaive us => us
    | HDate days => days * 86400000000     (* datetime.datetime(value.year, value.month, value.day) *)
    end.

  (* one (key, value) pair of the left object against one of the right: key first, then value *)
  Definition item_cmp {L R : Type} (vc : L -> R -> comparison) (l : str * L) (r : str * R) : comparison :=
    match str_compare (fst l) (fst r) with Eq => vc (snd l) (snd r) | c => c end.

  (* value.py value_compare, same ladder order.  Structural on the left value: for objects the
     left items are first paired with "compare this value against ..." (a partial application on a
     sub-term), then both item lists are key-sorted and walked. *)
  Fixpoint compare (a b : cv) {struct a} : comparison :=
    match a, b with
    | CNull, CNull => Eq
    | CNull, _ => Lt
    | _, CNull => Gt
    | CStr x, CStr y => sign3 (match str_compare x y with Lt => true | _ => false end) (str_eqb x y)
    | CBool x, CBool y => bool_compare x y
    | CNum x, CNum y => num_compare x y
    | CDate x, CDate y => let l := normalize x in let r := normalize y in sign3 (l <? r) (l =? r)
    | CArr x, CArr y => lcmp compare x y
    | CObj x, CObj y =>
        lcmp (item_cmp (fun (f : cv -> comparison) (v : cv) => f v))
             (ksort (map (fun kv => (fst kv, compare (snd kv))) x)) (ksort y)
    | _, _ =>
        let t1 := value_type a in let t2 := value_type b in
        sign3 (match str_compare t1 t2 with Lt => true | _ => false end) (str_eqb t1 t2)
    end.

  (* ---- consumers ---------------------------------------------------------------------- *)
  (* library.py _system_compare *)
  Definition system_compare (a b : cv) : Z := match compare a b with Lt => -1 | Eq => 0 | Gt => 1 end.

  (* runtime.py evaluate_expression: the six relational operators *)
  Inductive relop := REq | RNe | RLe | RLt | RGe | RGt.
  Definition eval_relop (op : relop) (l r : cv) : bool :=
    let c := system_compare l r in
    match op with
    | REq => c =? 0
    | RNe => negb (c =? 0)
    | RLe => c <=? 0
    | RLt => c <? 0
    | RGe => c >=? 0
    | RGt => c >? 0
    end.

  (* list.sort(key=cmp_to_key(f)): a stable sort that asks only "f(later, earlier) < 0 ?"; modelled as the stable insertion sort *)
  Section SortBy.
    Context {A : Type} (f : A -> A -> comparison).
    Fixpoint sinsert (x : A) (l : list A) : list A :=
      match l with
      | [] => [x]
      | h :: t => match f h x with Lt => h :: sinsert x t | _ => x :: l end
      end.
    (* x (which came first) passes the elements strictly below it and stops in front of the first element that is not:
       elements equal to x stay behind it *)
    Fixpoint sort_by (l : list A) : list A :=
      match l with [] => [] | h :: t => sinsert h (sort_by t) end.
  End SortBy.

  (* library.py _array_sort without compareFn *)
  Definition array_sort (l : list cv) : list cv := sort_by compare l.

  (* library.py _math_max / _math_min *)
  Fixpoint max_loop (result : cv) (values : list cv) : cv :=
    match values with
    | [] => result
    | v :: t => max_loop (match compare v result with Gt => v | _ => result end) t
    end.
  Definition math_max (values : list cv) : cv := match values with [] => CNull | v :: t => max_loop v t end.
  Fixpoint min_loop (result : cv) (values : list cv) : cv :=
    match values with
    | [] => result
    | v :: t => min_loop (match compare v result with Lt => v | _ => result end) t
    end.
  Definition math_min (values : list cv) : cv := match values with [] => CNull | v :: t => min_loop v t end.

  (* library.py _array_index_of, the non-function branch: for ix in range(index, len(array)): if value_compare(array[ix], value) == 0: return ix
     (a function `value` selects the callback branch, which is not part of this model: None) *)
  Fixpoint index_from (l : list cv) (value : cv) (ix : Z) : Z :=
    match l with
    | [] => -1
    | h :: t => match compare h value with Eq => ix | _ => index_from t value (ix + 1) end
    end.
  Definition array_index_of (array : list cv) (value : cv) (index : nat) : option Z :=
    match value with
    | CFun _ => None
    | _ => Some (index_from (skipn index array) value (Z.of_nat index))
    end.

  (* data.py _sort_data_fn: rows are objects, row.get(field) is null when missing *)
  Definition row_get (row : list (str * cv)) (field : str) : cv :=
    match assoc field row with Some v => v | None => CNull end.
  Fixpoint row_compare (sorts : list (str * bool)) (row1 row2 : list (str * cv)) : comparison :=
    match sorts with
    | [] => Eq
    | (field, desc) :: rest =>
        let value1 := row_get row1 field in
        let value2 := row_get row2 field in
        match (if desc then compare value2 value1 else compare value1 value2) with
        | Eq => row_compare rest row1 row2
        | c => c
        end
    end.
  Definition data_sort (data : list (list (str * cv))) (sorts : list (str * bool)) : list (list (str * cv)) :=
    sort_by (row_compare sorts) data.
End Compare.

(* ---- the property's quantifier: no NaN anywhere inside the value ----------------------- *)
Fixpoint no_nan (v : cv) : bool :=
  match v with
  | CNum n => negb (num_is_nan n)
  | CArr l => forallb no_nan l
  | CObj l => forallb (fun kv => no_nan (snd kv)) l
  | _ => true
  end.

(* ---- decidable equality of results, for the correspondence ----------------------------- *)
Definition comparison_eqb (a b : comparison) : bool :=
  match a, b with Eq, Eq | Lt, Lt | Gt, Gt => true | _, _ => false end.
Definition hdate_eqb (a b : hdate) : bool :=
  match a, b with
  | HDate x, HDate y | HNaive x, HNaive y | HAware x, HAware y => x =? y
  | _, _ => false
  end.
Fixpoint cv_eqb (a b : cv) {struct a} : bool :=
  match a, b with
  | CNull, CNull => true
  | CBool x, CBool y => Bool.eqb x y
  | CNum x, CNum y => num_eqb x y
  | CStr x, CStr y => str_eqb x y
  | CDate x, CDate y => hdate_eqb x y
  | CArr x, CArr y =>
      (fix go (x y : list cv) {struct x} : bool :=
         match x, y with
         | [], [] => true
         | v1 :: x', v2 :: y' => cv_eqb v1 v2 && go x' y'
         | _, _ => false
         end) x y
  | CObj x, CObj y =>
      (fix go (x y : list (str * cv)) {struct x} : bool :=
         match x, y with
         | [], [] => true
         | (k1, v1) :: x', (k2, v2) :: y' => str_eqb k1 k2 && cv_eqb v1 v2 && go x' y'
         | _, _ => false
         end) x y
  | CFun x, CFun y | CRegex x, CRegex y => (x =? y)%N
  | _, _ => false
  end.

(* a time-zone offset function given as a finite table (what the harness writes for the instants of its pool) *)
Fixpoint tz_table (tbl : list (Z * Z)) (t : Z) : Z :=
  match tbl with [] => 0 | (k, o) :: r => if k =? t then o else tz_table r t end.
