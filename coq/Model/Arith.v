(* Arith.v — Python's arithmetic on the two spellings of a BareScript number (int, float), as far as
   it can be reproduced exactly: + - * / and unary - always; % exactly on finite operands; ** only
   where the result is an exactly representable integer; number -> text for ints and for floats whose
   exact decimal expansion has <= 15 significant digits in the positional range.  Everything else
   answers [AOracle]: the payload is libm's / the shortest-repr algorithm's and stays an oracle.
   No proofs here. *)
From Coq Require Import SpecFloat.
From BS Require Import Model.Base Model.Num.
Local Open Scope Z_scope.

Inductive ares (A : Type) :=
| ARes (x : A)       (* Python returns this value *)
| AErr               (* Python raises ArithmeticError / ValueError (ZeroDivisionError, OverflowError, int digit limit) or yields a complex *)
| AOracle.           (* not reproduced by the model *)
Arguments ARes {A} x.
Arguments AErr {A}.
Arguments AOracle {A}.

Definition sf_is_finite (f : flt) : bool := match f with S754_finite _ _ _ | S754_zero _ => true | _ => false end.
Definition sf_is_nan (f : flt) : bool := match f with S754_nan => true | _ => false end.
Definition sf_is_zero (f : flt) : bool := match f with S754_zero _ => true | _ => false end.
Definition sf_sign (f : flt) : bool := match f with S754_zero s | S754_infinity s | S754_finite s _ _ => s | S754_nan => false end.

(* float(int): OverflowError when the integer is too large *)
Definition int_to_sf (z : Z) : option flt :=
  let f := Z_to_sf z in if sf_is_finite f then Some f else None.

Definition num_to_sf (n : num) : option flt :=
  match n with NInt z => int_to_sf z | NFlt f => Some f end.

Definition num_is_zero (n : num) : bool :=
  match n with NInt z => z =? 0 | NFlt f => sf_is_zero f end.

Definition lift2 (fi : Z -> Z -> Z) (ff : flt -> flt -> flt) (a b : num) : ares num :=
  match a, b with
  | NInt x, NInt y => ARes (NInt (fi x y))
  | _, _ =>
    match num_to_sf a, num_to_sf b with
    | Some x, Some y => ARes (NFlt (ff x y))
    | _, _ => AErr
    end
  end.

Definition num_add := lift2 Z.add (SFadd prec emax).
Definition num_sub := lift2 Z.sub (SFsub prec emax).

(* runtime.py `*`: an int * int product beyond 2^53 continues in floats (float(left) * float(right)), so that both spellings
   of integral operands give the same number *)
Definition two53m : Z := 9007199254740992.
Definition num_mul (a b : num) : ares num :=
  match a, b with
  | NInt x, NInt y =>
    if two53m <? Z.abs (x * y) then
      match int_to_sf x, int_to_sf y with
      | Some fx, Some fy => ARes (NFlt (SFmul prec emax fx fy))
      | _, _ => AErr
      end
    else ARes (NInt (x * y))
  | _, _ => lift2 Z.mul (SFmul prec emax) a b
  end.

Definition num_neg (a : num) : num :=
  match a with NInt z => NInt (- z) | NFlt f => NFlt (SFopp f) end.

(* true division *)
Definition num_div (a b : num) : ares num :=
  match a, b with
  | NInt x, NInt y =>
    if y =? 0 then AErr
    else let neg := xorb (x <? 0) (y <? 0) in
         let q := ratio_to_sf neg (Z.abs x) (Z.abs y) in
         if sf_is_finite q then ARes (NFlt q) else AErr
  | _, _ =>
    match num_to_sf a, num_to_sf b with
    | Some x, Some y => if sf_is_zero y then AErr else ARes (NFlt (SFdiv prec emax x y))
    | _, _ => AErr
    end
  end.

(* signed integer mantissa and exponent of a finite float *)
Definition sf_parts (f : flt) : option (Z * Z) :=
  match f with
  | S754_zero _ => Some (0, 0)
  | S754_finite s m e => Some (if s then Zneg m else Zpos m, e)
  | _ => None
  end.

(* float_rem: fmod is exact; the sign adjustment adds the divisor (one rounding) *)
Definition sf_mod (x y : flt) : ares flt :=
  if sf_is_zero y then AErr
  else
    match sf_parts x, sf_parts y with
    | Some (mx, ex), Some (my, ey) =>
      let e := Z.min ex ey in
      let X := mx * 2 ^ (ex - e) in
      let Y := my * 2 ^ (ey - e) in
      let r := Z.rem X Y in                      (* sign of X, |r| < |Y|: C fmod *)
      if r =? 0 then ARes (S754_zero (sf_sign y))
      else
        let m := binary_normalize prec emax r e false in
        if xorb (sf_sign y) (r <? 0) then ARes (SFadd prec emax m y) else ARes m
    | _, _ => AOracle
    end.

Definition num_mod (a b : num) : ares num :=
  match a, b with
  | NInt x, NInt y => if y =? 0 then AErr else ARes (NInt (x mod y))
  | _, _ =>
    match num_to_sf a, num_to_sf b with
    | Some x, Some y => match sf_mod x y with ARes r => ARes (NFlt r) | AErr => AErr | AOracle => AOracle end
    | _, _ => AErr
    end
  end.

(* the integer a finite float denotes, when it is integral *)
Definition sf_integral (f : flt) : option Z :=
  match f with
  | S754_zero _ => Some 0
  | S754_finite s m e =>
    if 0 <=? e then Some ((if s then Zneg m else Zpos m) * 2 ^ e)
    else let d := 2 ^ (- e) in
         if (Zpos m) mod d =? 0 then Some ((if s then -1 else 1) * (Zpos m / d)) else None
  | _ => None
  end.

Definition two53 : Z := 9007199254740992.

Definition bit_length (z : Z) : Z := if z =? 0 then 0 else Z.log2 (Z.abs z) + 1.

Definition num_pow_spelled (a b : num) : ares num :=
  match a, b with
  | NInt x, NInt y =>
    if 0 <=? y then
      (if Z.abs x <=? 1 then ARes (NInt (if y =? 0 then 1 else if x =? 0 then 0 else if x =? 1 then 1 else if Z.even y then 1 else -1))
       else if 4096 <? y then AOracle else ARes (NInt (x ^ y)))     (* (|x| <= 1: by cases - Z.pow would iterate y times) *)
    else if x =? 0 then AErr else AOracle
  | _, _ =>
    match num_to_sf a, num_to_sf b with
    | Some x, Some y =>
      match sf_integral x, sf_integral y with
      | Some bx, Some ey =>
        if sf_is_zero x && (ey <? 0) then AErr
        else if ey <? 0 then AOracle
        else if 4096 <? ey then (if Z.abs bx <=? 1 then AOracle else AErr)
        else if (2 <=? Z.abs bx) && (1100 <? Z.log2 (Z.abs bx) * ey) then AErr      (* |bx|^ey >= 2^1100: OverflowError, without computing it *)
        else
          let r := bx ^ ey in
          if (sf_is_zero x) && (0 <? ey) then AOracle      (* sign of zero results: left to libm *)
          else if Z.abs r <=? two53 then ARes (NFlt (Z_to_sf r))
          else if 2 ^ 1024 <=? Z.abs r then AErr
          else AOracle
      | Some bx, None =>
        if sf_is_finite y && (bx <? 0) then AErr           (* negative base, fractional exponent: complex *)
        else AOracle
      | _, _ => AOracle
      end
    | _, _ => AErr
    end
  end.

(* runtime.py `**`: int ** positive int whose result may need more than 53 bits (bit_length(|x|) * y > 53) continues in floats:
   the left operand is converted first (OverflowError when it is too large) *)
Definition num_pow (a b : num) : ares num :=
  match a, b with
  | NInt x, NInt y =>
    if (0 <? y) && (53 <? bit_length x * y) then
      match int_to_sf x with Some fx => num_pow_spelled (NFlt fx) b | None => AErr end
    else num_pow_spelled a b
  | _, _ => num_pow_spelled a b
  end.

(* exact comparison across spellings; None when a NaN is involved *)
Definition Z_sf_compare (z : Z) (f : flt) : option comparison :=
  match f with
  | S754_nan => None
  | S754_infinity s => Some (if s then Gt else Lt)
  | S754_zero _ => Some (z ?= 0)
  | S754_finite s m e =>
    let mz := if s then Zneg m else Zpos m in
    if 0 <=? e then Some (z ?= mz * 2 ^ e) else Some (z * 2 ^ (- e) ?= mz)
  end.

Definition num_compare (a b : num) : option comparison :=
  match a, b with
  | NInt x, NInt y => Some (x ?= y)
  | NInt x, NFlt f => Z_sf_compare x f
  | NFlt f, NInt y => option_map CompOpp (Z_sf_compare y f)
  | NFlt f, NFlt g => SFcompare f g
  end.

(* ---- number -> text (value_string) ---- *)
Definition int_max_str_digits : nat := 4300.

Fixpoint strip_trailing_zeros_rev (l : str) : str :=     (* on the REVERSED digit string *)
  match l with 48%N :: t => strip_trailing_zeros_rev t | _ => l end.

(* m * 2^e with e < 0 as (integer part, fraction digits): exact decimal expansion *)
Definition dyadic_text (neg : bool) (m : positive) (e : Z) : ares str :=
  let k := Z.to_nat (- e) in
  let den := 2 ^ (- e) in
  let ip := Zpos m / den in
  let fr := Zpos m mod den in
  (* fr / 2^k = fr * 5^k / 10^k : exactly k fraction digits *)
  let raw := Z_to_str (fr * 5 ^ (- e)) in
  let lead := (k - length raw)%nat in                       (* zeros right after the point *)
  let fd := rev (strip_trailing_zeros_rev (rev (repeat 48%N lead ++ raw))) in
  let ipd := Z_to_str ip in
  let sig := if ip =? 0 then (length fd - lead)%nat else (length ipd + length fd)%nat in
  if Nat.ltb 15 sig || ((ip =? 0) && Nat.leb 4 lead) || (10 ^ 16 <=? ip)
  then AOracle      (* more than 15 significant digits, or below 1e-4 / above 1e16 (exponent form) *)
  else ARes ((if neg then [45%N] else []) ++ ipd ++ (match fd with [] => [] | _ => 46%N :: fd end)).

Definition num_to_str (n : num) : ares str :=
  match n with
  | NInt z => let s := Z_to_str z in if Nat.ltb int_max_str_digits (length s) then AErr else ARes s
  | NFlt f =>
    match f with
    | S754_nan => ARes (U "nan")
    | S754_infinity s => ARes (if s then U "-inf" else U "inf")
    | S754_zero s => ARes (if s then U "-0" else U "0")
    | S754_finite s m e =>
      match sf_integral f with
      | Some z => if Z.abs z <? 10 ^ 16 then ARes (Z_to_str z) else AOracle
      | None => dyadic_text s m e
      end
    end
  end.
