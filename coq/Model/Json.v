(* Json.v — executable model of value_json (value.py) and of an RFC 8259 reader (the
   behaviour of CPython's json.loads that jsonParse calls).  No proofs here.

   value_json = json.JSONEncoder(allow_nan=False, sort_keys=True, separators, [indent]).encode
                followed by ONE clean-up substitution over the whole text.
   Layers of the model (same order as the code):
     sortv      sort_keys=True at every object
     esc_string CPython ensure_ascii string escaping (encode_basestring_ascii)
     render     layout: compact (`,` `:`) or newline + indent*level and colon-space; empty
                containers print as [] / {} in both modes (CPython)
     cleanup    the clean-up pass as a direct scanner (string tokens copied whole, `.0*` dropped
                in front of , } ] newline or end).  Model/JsonRe.v runs the SAME pass through the
                regex REGENERATED from value.py; the check compares the two on every case and
                Proofs/C14.v pins them on an exhaustive family.
   Numbers are text level: a number is the digit strings of its CPython repr token
   (sign, integer digits, optional fraction digits, optional exponent), so CPython's float
   printing stays an oracle of the harness and the model never rounds anything. *)
From BS Require Import Model.Base.

(* ---------------------------------------------------------------- values *)
Inductive esign := ESNone | ESPlus | ESMinus.
Record jnum := JN { n_neg : bool; n_int : str; n_frac : option str; n_exp : option (esign * str) }.

Inductive jvalue :=
| JNull
| JBool (b : bool)
| JNum (n : jnum)
| JStr (s : str)
| JArr (l : list jvalue)
| JObj (m : list (str * jvalue)).

Definition esign_text (s : esign) : str :=
  match s with ESNone => [] | ESPlus => [43%N] | ESMinus => [45%N] end.
Definition frac_text (f : option str) : str := match f with Some d => 46%N :: d | None => [] end.
Definition exp_text (e : option (esign * str)) : str :=
  match e with Some (sg, d) => 101%N :: esign_text sg ++ d | None => [] end.
Definition num_text (n : jnum) : str :=
  (if n_neg n then [45%N] else []) ++ n_int n ++ frac_text (n_frac n) ++ exp_text (n_exp n).

(* ---------------------------------------------------------------- sort_keys=True *)
Definition key_leb (a b : str) : bool := match str_compare a b with Gt => false | _ => true end.
Fixpoint ins_key {A} (kv : str * A) (l : list (str * A)) : list (str * A) :=
  match l with
  | [] => [kv]
  | kv' :: t => if key_leb (fst kv) (fst kv') then kv :: l else kv' :: ins_key kv t
  end.
Definition sort_keys {A} (l : list (str * A)) : list (str * A) := fold_right ins_key [] l.

Fixpoint sortv (v : jvalue) : jvalue :=
  match v with
  | JArr l => JArr (map sortv l)
  | JObj m => JObj (sort_keys (map (fun kv => (fst kv, sortv (snd kv))) m))
  | _ => v
  end.

(* ---------------------------------------------------------------- string escaping *)
Definition hexdig (n : N) : N := (if n <? 10 then 48 + n else 87 + n)%N.
Definition u4 (c : N) : str :=
  [92; 117; hexdig ((c / 4096) mod 16); hexdig ((c / 256) mod 16); hexdig ((c / 16) mod 16); hexdig (c mod 16)]%N.
Definition esc_char (c : N) : str :=
  (if c =? 34 then [92; 34]
   else if c =? 92 then [92; 92]
   else if c =? 10 then [92; 110]
   else if c =? 13 then [92; 114]
   else if c =? 9 then [92; 116]
   else if c =? 8 then [92; 98]
   else if c =? 12 then [92; 102]
   else if (32 <=? c) && (c <=? 126) then [c]
   else if c <? 65536 then u4 c
   else let v := c - 65536 in u4 (55296 + (v / 1024) mod 1024) ++ u4 (56320 + v mod 1024))%N.
Definition esc_body (s : str) : str := flat_map esc_char s.
Definition esc_string (s : str) : str := 34%N :: esc_body s ++ [34%N].

(* ---------------------------------------------------------------- layout *)
Definition lit_null : str := [110; 117; 108; 108]%N.
Definition lit_true : str := [116; 114; 117; 101]%N.
Definition lit_false : str := [102; 97; 108; 115; 101]%N.

Section Render.
Variable ind : option nat.      (* None = compact; Some n = indent n (n >= 1) *)

Definition nl (lvl : nat) : str :=
  match ind with None => [] | Some n => 10%N :: repeat 32%N (n * lvl) end.
Definition colon : str := match ind with None => [58%N] | Some _ => [58; 32]%N end.

Fixpoint render (lvl : nat) (v : jvalue) : str :=
  match v with
  | JNull => lit_null
  | JBool true => lit_true
  | JBool false => lit_false
  | JNum n => num_text n
  | JStr s => esc_string s
  | JArr [] => [91; 93]%N
  | JArr (x :: t) =>
      91%N :: nl (S lvl) ++ render (S lvl) x
      ++ flat_map (fun y => 44%N :: nl (S lvl) ++ render (S lvl) y) t
      ++ nl lvl ++ [93%N]
  | JObj [] => [123; 125]%N
  | JObj (kx :: t) =>
      123%N :: nl (S lvl) ++ esc_string (fst kx) ++ colon ++ render (S lvl) (snd kx)
      ++ flat_map (fun ky => 44%N :: nl (S lvl) ++ esc_string (fst ky) ++ colon ++ render (S lvl) (snd ky)) t
      ++ nl lvl ++ [125%N]
  end.
End Render.

(* ---------------------------------------------------------------- the clean-up pass
   regex (Q = the double quote): (Q(?:[^Q\\]|\\.)*Q)|\.0*(?=[,}\]\n]|$)   callback: group 1 or empty *)

(* after an opening quote: number of characters up to and including the closing quote of the
   token Q(?:[^Q\\]|\\.)*Q ; None when the token pattern does not match there *)
Fixpoint str_tok_len (s : str) : option nat :=
  match s with
  | [] => None
  | c :: t =>
    if (c =? 34)%N then Some 1%nat
    else if (c =? 92)%N then
      match t with
      | [] => None
      | d :: t' => if (d =? 10)%N then None else option_map (fun n => S (S n)) (str_tok_len t')
      end
    else option_map S (str_tok_len t)
  end.

Fixpoint zeros_len (s : str) : nat :=
  match s with c :: t => if (c =? 48)%N then S (zeros_len t) else O | [] => O end.
Definition look_ok (s : str) : bool :=
  match s with [] => true | c :: _ => ((c =? 44) || (c =? 125) || (c =? 93) || (c =? 10))%N end.

Inductive cmode := CNorm | CCopy (n : nat) | CDrop (n : nat).
Fixpoint scan (md : cmode) (s : str) : str :=
  match s with
  | [] => []
  | c :: t =>
    match md with
    | CCopy (S n) => c :: scan (CCopy n) t
    | CDrop (S n) => scan (CDrop n) t
    | _ =>
      if (c =? 34)%N then
        match str_tok_len t with Some n => c :: scan (CCopy n) t | None => c :: scan CNorm t end
      else if (c =? 46)%N then
        let z := zeros_len t in
        if look_ok (skipn z t) then scan (CDrop z) t else c :: scan CNorm t
      else c :: scan CNorm t
    end
  end.
Definition cleanup (s : str) : str := scan CNorm s.

(* value_json(value, indent): `indent is not None and indent > 0` selects the indented encoder *)
Definition norm_indent (i : option nat) : option nat := match i with Some O => None | x => x end.
Definition encode_raw (indent : option nat) (v : jvalue) : str := render (norm_indent indent) 0 (sortv v).
Definition encode (indent : option nat) (v : jvalue) : str := cleanup (encode_raw indent v).

(* ---------------------------------------------------------------- RFC 8259 reader *)
Definition is_ws (c : N) : bool := ((c =? 32) || (c =? 9) || (c =? 10) || (c =? 13))%N.
Fixpoint skip_ws (s : str) : str :=
  match s with c :: t => if is_ws c then skip_ws t else s | [] => [] end.
Definition is_dig (c : N) : bool := ((48 <=? c) && (c <=? 57))%N.

Definition hexv (c : N) : option N :=
  (if (48 <=? c) && (c <=? 57) then Some (c - 48)
   else if (97 <=? c) && (c <=? 102) then Some (c - 87)
   else if (65 <=? c) && (c <=? 70) then Some (c - 55)
   else None)%N.
Definition hex4 (a b c d : N) : option N :=
  match hexv a, hexv b, hexv c, hexv d with
  | Some x, Some y, Some z, Some w => Some (x * 4096 + y * 256 + z * 16 + w)%N
  | _, _, _, _ => None
  end.
Definition is_high (c : N) : bool := ((55296 <=? c) && (c <=? 56319))%N.
Definition is_low (c : N) : bool := ((56320 <=? c) && (c <=? 57343))%N.
Definition join_sur (hi lo : N) : N := (65536 + (hi - 55296) * 1024 + (lo - 56320))%N.
Definition simple_esc (e : N) : option N :=
  (if e =? 34 then Some 34 else if e =? 92 then Some 92 else if e =? 47 then Some 47
   else if e =? 98 then Some 8 else if e =? 102 then Some 12 else if e =? 110 then Some 10
   else if e =? 114 then Some 13 else if e =? 116 then Some 9 else None)%N.

Definition consr (x : N) (r : option (str * str)) : option (str * str) :=
  match r with Some (s, rest) => Some (x :: s, rest) | None => None end.

(* after the opening quote: (decoded string, text after the closing quote) *)
Fixpoint parse_string (s : str) : option (str * str) :=
  match s with
  | [] => None
  | c :: t =>
    if (c =? 34)%N then Some ([], t)
    else if (c =? 92)%N then
      match t with
      | [] => None
      | e :: t2 =>
        if (e =? 117)%N then
          match t2 with
          | a :: b :: c2 :: d :: t3 =>
            match hex4 a b c2 d with
            | None => None
            | Some hi =>
              if is_high hi then
                match t3 with
                | b1 :: u1 :: e1 :: f1 :: g1 :: h1 :: t4 =>
                  if ((b1 =? 92) && (u1 =? 117))%N then
                    match hex4 e1 f1 g1 h1 with
                    | None => None
                    | Some lo => if is_low lo then consr (join_sur hi lo) (parse_string t4)
                                 else consr hi (parse_string t3)
                    end
                  else consr hi (parse_string t3)
                | _ => consr hi (parse_string t3)
                end
              else consr hi (parse_string t3)
            end
          | _ => None
          end
        else match simple_esc e with Some x => consr x (parse_string t2) | None => None end
      end
    else if (c <? 32)%N then None
    else consr c (parse_string t)
  end.

Fixpoint span_dig (s : str) : str * str :=
  match s with
  | c :: t => if is_dig c then let (a, b) := span_dig t in (c :: a, b) else ([], s)
  | [] => ([], [])
  end.

Definition parse_int_part (s : str) : option (str * str) :=
  match s with
  | c :: t => if (c =? 48)%N then Some ([48%N], t)
              else if is_dig c then let (ds, r) := span_dig t in Some (c :: ds, r)
              else None
  | [] => None
  end.
Definition parse_frac (s : str) : option str * str :=
  match s with
  | p :: d :: t => if (p =? 46)%N && is_dig d then let (ds, r) := span_dig t in (Some (d :: ds), r) else (None, s)
  | _ => (None, s)
  end.
Definition parse_exp (s : str) : option (esign * str) * str :=
  match s with
  | e :: x :: t2 =>
    if ((e =? 101) || (e =? 69))%N then
      if is_dig x then let (ds, r) := span_dig t2 in (Some (ESNone, x :: ds), r)
      else if ((x =? 43) || (x =? 45))%N then
        match t2 with
        | d :: t3 => if is_dig d then let (ds, r) := span_dig t3 in
                       (Some ((if (x =? 43)%N then ESPlus else ESMinus), d :: ds), r)
                     else (None, s)
        | [] => (None, s)
        end
      else (None, s)
    else (None, s)
  | _ => (None, s)
  end.
(* the longest prefix that is a JSON number: optional minus; 0 or a non-zero digit and digits;
   optional point and one or more digits; optional e/E, optional sign, one or more digits *)
Definition parse_number (s : str) : option (jnum * str) :=
  let '(neg, s1) := match s with c :: t => if (c =? 45)%N then (true, t) else (false, s) | [] => (false, s) end in
  match parse_int_part s1 with
  | None => None
  | Some (ip, r1) =>
    let '(fr, r2) := parse_frac r1 in
    let '(ex, r3) := parse_exp r2 in
    Some (JN neg ip fr ex, r3)
  end.

Inductive dres (A : Type) := DOk (a : A) (rest : str) | DErr | DFuel.
Arguments DOk {A} a rest.
Arguments DErr {A}.
Arguments DFuel {A}.

Fixpoint parse_value (fuel : nat) (s : str) : dres jvalue :=
  match fuel with
  | O => DFuel
  | S f =>
    match s with
    | [] => DErr
    | c :: t =>
      if (c =? 34)%N then
        match parse_string t with Some (x, r) => DOk (JStr x) r | None => DErr end
      else if (c =? 123)%N then
        match skip_ws t with
        | [] => DErr
        | c2 :: t2 =>
          if (c2 =? 125)%N then DOk (JObj []) t2
          else match parse_members f (c2 :: t2) with DOk m r => DOk (JObj m) r | DErr => DErr | DFuel => DFuel end
        end
      else if (c =? 91)%N then
        match skip_ws t with
        | [] => DErr
        | c2 :: t2 =>
          if (c2 =? 93)%N then DOk (JArr []) t2
          else match parse_elems f (c2 :: t2) with DOk l r => DOk (JArr l) r | DErr => DErr | DFuel => DFuel end
        end
      else if str_prefix lit_null s then DOk JNull (skipn 4 s)
      else if str_prefix lit_true s then DOk (JBool true) (skipn 4 s)
      else if str_prefix lit_false s then DOk (JBool false) (skipn 5 s)
      else match parse_number s with Some (n, r) => DOk (JNum n) r | None => DErr end
    end
  end
with parse_members (fuel : nat) (s : str) : dres (list (str * jvalue)) :=
  match fuel with
  | O => DFuel
  | S f =>
    match s with
    | [] => DErr
    | q :: t =>
      if (q =? 34)%N then
        match parse_string t with
        | None => DErr
        | Some (k, r) =>
          match skip_ws r with
          | [] => DErr
          | c :: r2 =>
            if (c =? 58)%N then
              match parse_value f (skip_ws r2) with
              | DOk v r3 =>
                match skip_ws r3 with
                | [] => DErr
                | d :: r4 =>
                  if (d =? 125)%N then DOk [(k, v)] r4
                  else if (d =? 44)%N then
                    match parse_members f (skip_ws r4) with
                    | DOk m r5 => DOk ((k, v) :: m) r5
                    | DErr => DErr
                    | DFuel => DFuel
                    end
                  else DErr
                end
              | DErr => DErr
              | DFuel => DFuel
              end
            else DErr
          end
        end
      else DErr
    end
  end
with parse_elems (fuel : nat) (s : str) : dres (list jvalue) :=
  match fuel with
  | O => DFuel
  | S f =>
    match parse_value f s with
    | DOk v r3 =>
      match skip_ws r3 with
      | [] => DErr
      | d :: r4 =>
        if (d =? 93)%N then DOk [v] r4
        else if (d =? 44)%N then
          match parse_elems f (skip_ws r4) with
          | DOk l r5 => DOk (v :: l) r5
          | DErr => DErr
          | DFuel => DFuel
          end
        else DErr
      end
    | DErr => DErr
    | DFuel => DFuel
    end
  end.

Inductive dec := DecOk (v : jvalue) | DecErr | DecFuel.
(* json.loads(s): leading/trailing whitespace allowed, nothing else after the value.
   Object members are returned in text order (duplicate keys are NOT merged: json.loads keeps
   the last one; an encoder output never has duplicates). *)
Definition decode (s : str) : dec :=
  (* fuel: a value and the element/member loop around it each take one unit per character read *)
  match parse_value (S (2 * length s)) (skip_ws s) with
  | DOk v r => match skip_ws r with [] => DecOk v | _ => DecErr end
  | DErr => DecErr
  | DFuel => DecFuel
  end.

(* ---------------------------------------------------------------- expected result of a round trip *)
Definition all_zero (s : str) : bool := forallb (fun c => (c =? 48)%N) s.
(* the clean-up drops a fraction made of zeros only when no exponent follows *)
Definition strip_num (n : jnum) : jnum :=
  match n_frac n, n_exp n with
  | Some f, None => if all_zero f then JN (n_neg n) (n_int n) None None else n
  | _, _ => n
  end.
Fixpoint stripv (v : jvalue) : jvalue :=
  match v with
  | JNum n => JNum (strip_num n)
  | JArr l => JArr (map stripv l)
  | JObj m => JObj (map (fun kv => (fst kv, stripv (snd kv))) m)
  | _ => v
  end.
Definition canon (v : jvalue) : jvalue := stripv (sortv v).

(* ---------------------------------------------------------------- boolean equality (for the check) *)
Definition esign_eqb (a b : esign) : bool :=
  match a, b with ESNone, ESNone | ESPlus, ESPlus | ESMinus, ESMinus => true | _, _ => false end.
Definition jnum_eqb (a b : jnum) : bool :=
  Bool.eqb (n_neg a) (n_neg b) && str_eqb (n_int a) (n_int b) && option_eqb str_eqb (n_frac a) (n_frac b)
  && option_eqb (fun x y => esign_eqb (fst x) (fst y) && str_eqb (snd x) (snd y)) (n_exp a) (n_exp b).
Fixpoint jvalue_eqb (a b : jvalue) : bool :=
  match a, b with
  | JNull, JNull => true
  | JBool x, JBool y => Bool.eqb x y
  | JNum x, JNum y => jnum_eqb x y
  | JStr x, JStr y => str_eqb x y
  | JArr x, JArr y =>
      (fix go (x y : list jvalue) : bool :=
         match x, y with
         | [], [] => true
         | v :: x', v' :: y' => jvalue_eqb v v' && go x' y'
         | _, _ => false
         end) x y
  | JObj x, JObj y =>
      (fix go (x y : list (str * jvalue)) : bool :=
         match x, y with
         | [], [] => true
         | (k, v) :: x', (k', v') :: y' => str_eqb k k' && jvalue_eqb v v' && go x' y'
         | _, _ => false
         end) x y
  | _, _ => false
  end.
Definition dec_eqb (a b : dec) : bool :=
  match a, b with
  | DecOk x, DecOk y => jvalue_eqb x y
  | DecErr, DecErr => true
  | DecFuel, DecFuel => true
  | _, _ => false
  end.
