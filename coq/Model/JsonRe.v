(* JsonRe.v — the clean-up pass of value_json run through the regex REGENERATED from
   value.py (Gen/Regexes.v R_VALUE_JSON_NUMBER_CLEANUP) by the generic regex engine:
     _R_VALUE_JSON_NUMBER_CLEANUP.sub(lambda m: m.group(1) or '', text)
   encode_re is the model that follows the code; Model/Json.v encode is the same function
   with the pass written as a direct scanner (the one the theorems are about).  No proofs here. *)
From BS Require Import Model.Base Model.Regex Model.Json Gen.Unicode Gen.Regexes.

Definition cleanup_repl (whole : str) (c : caps) : str :=
  match group_text whole c 1 with Some t => t | None => [] end.
Definition cleanup_re (s : str) : option str := re_sub UC R_VALUE_JSON_NUMBER_CLEANUP cleanup_repl s.
Definition encode_re (indent : option nat) (v : jvalue) : option str := cleanup_re (encode_raw indent v).

(* both passes agree on a text *)
Definition cleanup_agree (s : str) : bool :=
  match cleanup_re s with Some t => str_eqb t (cleanup s) | None => false end.

(* all strings of length <= n over an alphabet *)
Fixpoint all_strings (alpha : list N) (n : nat) : list str :=
  match n with
  | O => [[]]
  | S k => [] :: flat_map (fun c => map (cons c) (all_strings alpha k)) alpha
  end.
