(* JsonRe.v — the clean-up pass of value_json run through the regex REGENERATED from
   value.py (Gen/Regexes.v R_VALUE_JSON_NUMBER_CLEANUP) by the generic regex engine:
     _R_VALUE_JSON_NUMBER_CLEANUP.sub(lambda m: m.group(1) or '', text)
   encode_re is the model that follows the code; Model/Json.v encode is the same function
   with the pass written as a direct scanner (the one the theorems are about).  No proofs here. *)
From BS Require Import Model.Base Model.Regex Model.Json Gen.Unicode Gen.Regexes.

Definition cleanup_repl (whole : str) (c : caps) : str :=
  match group_text whole c 1 with Some t => t | None => [] end.
Definition cleanup_re (s : str) : option str := re_sub UC R_VALUE_JSON_NUMBER_CLEANUP cleanup_repl s.
Definition encode_re (indent : option nat) (v : jvalue) : option str := cleanup_re (encode_raw indent v).

(* both passes agree on a text *)
Definition cleanup_agree (s : str) : bool :=
  match cleanup_re s with Some t => str_eqb t (cleanup s) | None => false end.

(* all strings of length <= n over an alphabet *)
Fixpoint all_strings (alpha : list N) (n : nat) : list str :=
  match n with
  | O => [[]]
  | S k => [] :: flat_map (fun c => map (cons c) (all_strings alpha k)) alpha
  end.

(* ---------------------------------------------------------------- what json.loads builds
   (used only by the correspondence check): an integer token becomes a Python int, a token
   with a fraction or an exponent goes through float(); objects are dicts (a repeated key
   keeps its last value); compared with key order canonicalised. *)
From BS Require Import Model.Num.

Inductive pyv :=
| PNull | PBool (b : bool) | PNum (x : num) | PStr (s : str)
| PArr (l : list pyv) | PObj (m : list (str * pyv)) | PBad.

Definition digits_to_Z (s : str) : Z := fold_left (fun acc c => (acc * 10 + Z.of_N (c - 48))%Z) s 0%Z.
Definition jnum_to_py (n : jnum) : pyv :=
  match n_frac n, n_exp n with
  | None, None => PNum (NInt (if n_neg n then (- digits_to_Z (n_int n))%Z else digits_to_Z (n_int n)))
  | _, _ => match py_float (num_text n) with Some f => PNum (NFlt f) | None => PBad end
  end.

Fixpoint assoc_put {A} (k : str) (v : A) (l : list (str * A)) : list (str * A) :=
  match l with
  | [] => [(k, v)]
  | (k', v') :: t => if str_eqb k k' then (k, v) :: t else (k', v') :: assoc_put k v t
  end.
Definition dict_of {A} (l : list (str * A)) : list (str * A) :=
  sort_keys (fold_left (fun acc kv => assoc_put (fst kv) (snd kv) acc) l []).

Fixpoint to_py (v : jvalue) : pyv :=
  match v with
  | JNull => PNull
  | JBool b => PBool b
  | JNum n => jnum_to_py n
  | JStr s => PStr s
  | JArr l => PArr (map to_py l)
  | JObj m => PObj (dict_of (map (fun kv => (fst kv, to_py (snd kv))) m))
  end.

Fixpoint pyv_eqb (a b : pyv) : bool :=
  match a, b with
  | PNull, PNull => true
  | PBool x, PBool y => Bool.eqb x y
  | PNum x, PNum y => num_eqb x y
  | PStr x, PStr y => str_eqb x y
  | PArr x, PArr y =>
      (fix go (x y : list pyv) : bool :=
         match x, y with
         | [], [] => true
         | v :: x', v' :: y' => pyv_eqb v v' && go x' y'
         | _, _ => false
         end) x y
  | PObj x, PObj y =>
      (fix go (x y : list (str * pyv)) : bool :=
         match x, y with
         | [], [] => true
         | (k, v) :: x', (k', v') :: y' => str_eqb k k' && pyv_eqb v v' && go x' y'
         | _, _ => false
         end) x y
  | _, _ => false
  end.

(* jsonParse(text) as the implementation reports it: Some value, or None = json.loads raised *)
Definition loads (s : str) : option (option pyv) :=
  match decode s with
  | DecOk v => Some (Some (to_py v))
  | DecErr => Some None
  | DecFuel => None
  end.
Definition loads_is (s : str) (expect : option pyv) : bool :=
  match loads s, expect with
  | Some (Some a), Some b => pyv_eqb a b
  | Some None, None => true
  | _, _ => false
  end.
(* encode through both clean-up passes equals the implementation's text *)
Definition encode_is (indent : option nat) (v : jvalue) (text : str) : bool :=
  str_eqb (encode indent v) text && match encode_re indent v with Some t => str_eqb t text | None => false end.
