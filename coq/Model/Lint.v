(* Lint.v — transliteration of model.py: lint_script (248-393), _is_pointless_expression (396-407),
   _get_variable_assignments_and_uses (410-422), _get_expression_variable_uses (425-443).

   Python dicts are insertion-ordered association lists with unique keys; `sorted(d.keys())` is an explicit sort by
   code points.  Every `d[k]` of the code is an explicit lookup whose failure is the KeyError outcome [None]
   (Proofs/C18.v shows it is never taken).  The "exactly one key" / required-member shape of a statement is what the
   constructors of [stmt] / [expr] carry (the schema), so `statement['function']['name']` etc. are projections.
   Warnings are data; [render] gives the exact message text.  No proofs here. *)
From BS Require Import Model.Base Model.Num Model.ExprParser Model.Script.

Inductive warning :=
| WEmpty
| WGlobalUsedBefore (x : str) (use asg : nat)
| WFnRedef (f : str) (ix : nat)
| WVarUsedBefore (x f : str) (use asg : nat)
| WUnusedVar (x f : str) (ix : nat)            (* ix: index IN THE BODY of the first assignment *)
| WDupArg (a f : str) (ix : nat)               (* ix: index of the function statement *)
| WUnusedArg (a f : str) (ix : nat)            (* ix: index of the function statement *)
| WFnPointless (f : str) (ix : nat)
| WFnLabelRedef (l f : str) (ix : nat)
| WFnUnusedLabel (l f : str) (ix : nat)        (* ix: index in the body of the FIRST definition *)
| WFnUnknownLabel (l f : str) (ix : nat)       (* ix: index in the body of the LAST jump to it *)
| WPointless (ix : nat)
| WLabelRedef (l : str) (ix : nat)
| WUnusedLabel (l : str) (ix : nat)
| WUnknownLabel (l : str) (ix : nat).

(* ---- dicts ---- *)
Definition dict := list (str * nat).
Definition d_has (k : str) (d : dict) : bool := match assoc k d with Some _ => true | None => false end.
(* if k not in d: d[k] = v *)
Definition d_setdefault (k : str) (v : nat) (d : dict) : dict := if d_has k d then d else d ++ [(k, v)].
(* d[k] = v : replace in place, else append *)
Fixpoint d_set (k : str) (v : nat) (d : dict) : dict :=
  match d with
  | [] => [(k, v)]
  | (k', v') :: t => if str_eqb k k' then (k, v) :: t else (k', v') :: d_set k v t
  end.
(* sorted(d.keys()): insertion sort by code points (keys are unique, so any sort gives this list) *)
Fixpoint ins_key (k : str) (l : list str) : list str :=
  match l with
  | [] => [k]
  | h :: t => match str_compare k h with Gt => h :: ins_key k t | _ => k :: l end
  end.
Definition sorted_keys (d : dict) : list str := fold_right ins_key [] (map fst d).

(* ---- _is_pointless_expression ---- *)
Fixpoint pointless (e : expr) : bool :=
  match e with
  | ECall _ _ => false
  | EBin _ l r => pointless l && pointless r
  | EUn _ a => pointless a
  | EGroup a => pointless a
  | _ => true
  end.

(* ---- _get_expression_variable_uses ---- *)
Fixpoint expr_uses (e : expr) (ix : nat) (uses : dict) : dict :=
  match e with
  | EVar x => d_setdefault x ix uses
  | EBin _ l r => expr_uses r ix (expr_uses l ix uses)
  | EUn _ a => expr_uses a ix uses
  | EGroup a => expr_uses a ix uses
  | ECall name args =>
    (fix go (l : list expr) (u : dict) : dict :=
       match l with [] => u | a :: t => go t (expr_uses a ix u) end) args (d_setdefault name ix uses)
  | ENum _ | EStr _ => uses
  end.

(* ---- _get_variable_assignments_and_uses ---- *)
Fixpoint collect (l : list stmt) (ix : nat) (asg uses : dict) : dict * dict :=
  match l with
  | [] => (asg, uses)
  | SExpr name e :: t =>
    collect t (S ix) (match name with Some x => d_setdefault x ix asg | None => asg end) (expr_uses e ix uses)
  | SJump _ (Some e) :: t => collect t (S ix) asg (expr_uses e ix uses)
  | SReturn (Some e) :: t => collect t (S ix) asg (expr_uses e ix uses)
  | _ :: t => collect t (S ix) asg uses
  end.

(* None = KeyError *)
Definition wres := option (list warning).
Definition bindw (a : wres) (f : list warning -> wres) : wres := match a with Some x => f x | None => None end.

(* for k in keys: ws += body(k)   where body may raise *)
Fixpoint for_keys (keys : list str) (body : str -> wres) : wres :=
  match keys with
  | [] => Some []
  | k :: t => bindw (body k) (fun w1 => bindw (for_keys t body) (fun w2 => Some (w1 ++ w2)))
  end.

(* `if v in uses and uses[v] <= assigns[v]: warn` for v in sorted(assigns.keys()), skipping names in [skip] *)
Definition used_before (asg uses : dict) (skip : option (list str)) (mk : str -> nat -> nat -> warning) : wres :=
  for_keys (sorted_keys asg) (fun v =>
    if match skip with Some a => str_mem v a | None => false end then Some []
    else if d_has v uses then
      match assoc v uses, assoc v asg with
      | Some u, Some a => Some (if Nat.leb u a then [mk v u a] else [])
      | _, _ => None
      end
    else Some []).

(* for k in sorted(d.keys()): if k not in other: warn(k, d[k]) *)
Definition keys_not_in (d other : dict) (mk : str -> nat -> warning) : wres :=
  for_keys (sorted_keys d) (fun k =>
    if d_has k other then Some []
    else match assoc k d with Some v => Some [mk k v] | None => None end).

(* the argument loop: duplicate / unused *)
Fixpoint lint_args (fname : str) (ix : nat) (args seen : list str) (uses : dict) : list warning :=
  match args with
  | [] => []
  | a :: t =>
    if str_mem a seen then WDupArg a fname ix :: lint_args fname ix t seen uses
    else (if d_has a uses then [] else [WUnusedArg a fname ix]) ++ lint_args fname ix t (seen ++ [a]) uses
  end.

(* the statement loop of a function body: warnings in order, labels defined (first index), labels used (last index) *)
Fixpoint floop (fname : str) (l : list stmt) (ix : nat) (ldef lused : dict) : list warning * dict * dict :=
  match l with
  | [] => ([], ldef, lused)
  | st :: t =>
    let '(ws, ldef', lused') :=
      match st with
      | SExpr None e => (if pointless e then [WFnPointless fname ix] else [], ldef, lused)
      | SLabel lb => if d_has lb ldef then ([WFnLabelRedef lb fname ix], ldef, lused) else ([], ldef ++ [(lb, ix)], lused)
      | SJump lb _ => ([], ldef, d_set lb ix lused)
      | _ => ([], ldef, lused)
      end in
    let '(rest, d, u) := floop fname t (S ix) ldef' lused' in (ws ++ rest, d, u)
  end.

(* everything lint does for one function statement, after the redefinition test *)
Definition lint_function (fname : str) (args : option (list str)) (body : list stmt) (ix : nat) : wres :=
  let '(asg, uses) := collect body 0 [] [] in
  bindw (used_before asg uses args (fun v u a => WVarUsedBefore v fname u a)) (fun w1 =>
  bindw (keys_not_in asg uses (fun v a => WUnusedVar v fname a)) (fun w2 =>
  let w3 := match args with Some a => lint_args fname ix a [] uses | None => [] end in
  let '(w4, ldef, lused) := floop fname body 0 [] [] in
  bindw (keys_not_in ldef lused (fun l i => WFnUnusedLabel l fname i)) (fun w5 =>
  bindw (keys_not_in lused ldef (fun l i => WFnUnknownLabel l fname i)) (fun w6 =>
  Some (w1 ++ w2 ++ w3 ++ w4 ++ w5 ++ w6))))).

(* the global statement loop *)
Fixpoint gloop (l : list stmt) (ix : nat) (fdef : list str) (ldef lused : dict) : option (list warning * dict * dict) :=
  match l with
  | [] => Some ([], ldef, lused)
  | st :: t =>
    match
      match st with
      | SFunction name args _ _ body =>
        match lint_function name args body ix with
        | Some wf =>
          if str_mem name fdef then Some (WFnRedef name ix :: wf, fdef, ldef, lused)
          else Some (wf, fdef ++ [name], ldef, lused)
        | None => None
        end
      | SExpr None e => Some (if pointless e then [WPointless ix] else [], fdef, ldef, lused)
      | SLabel lb => if d_has lb ldef then Some ([WLabelRedef lb ix], fdef, ldef, lused) else Some ([], fdef, ldef ++ [(lb, ix)], lused)
      | SJump lb _ => Some ([], fdef, ldef, d_set lb ix lused)
      | _ => Some ([], fdef, ldef, lused)
      end
    with
    | Some (ws, fdef', ldef', lused') =>
      match gloop t (S ix) fdef' ldef' lused' with
      | Some (rest, d, u) => Some (ws ++ rest, d, u)
      | None => None
      end
    | None => None
    end
  end.

Definition lint_raw (s : script) : wres :=
  let w0 := match s with [] => [WEmpty] | _ => [] end in
  let '(asg, uses) := collect s 0 [] [] in
  bindw (used_before asg uses None WGlobalUsedBefore) (fun w1 =>
  match gloop s 0 [] [] [] with
  | Some (w2, ldef, lused) =>
    bindw (keys_not_in ldef lused WUnusedLabel) (fun w3 =>
    bindw (keys_not_in lused ldef WUnknownLabel) (fun w4 =>
    Some (w0 ++ w1 ++ w2 ++ w3 ++ w4)))
  | None => None
  end).

(* lint_script as a total function: the KeyError branch is proved unreachable (C18_total) *)
Definition lint (s : script) : list warning := match lint_raw s with Some ws => ws | None => [] end.

(* ---- the message texts ---- *)
Definition q (s : str) : str := U """" ++ s ++ U """".
Definition idx (n : nat) : str := U "(index " ++ nat_to_str n ++ U ")".
Definition render (w : warning) : str :=
  match w with
  | WEmpty => U "Empty script"
  | WGlobalUsedBefore x u a => U "Global variable " ++ q x ++ U " used " ++ idx u ++ U " before assignment " ++ idx a
  | WFnRedef f i => U "Redefinition of function " ++ q f ++ U " " ++ idx i
  | WVarUsedBefore x f u a => U "Variable " ++ q x ++ U " of function " ++ q f ++ U " used " ++ idx u ++ U " before assignment " ++ idx a
  | WUnusedVar x f i => U "Unused variable " ++ q x ++ U " defined in function " ++ q f ++ U " " ++ idx i
  | WDupArg a f i => U "Duplicate argument " ++ q a ++ U " of function " ++ q f ++ U " " ++ idx i
  | WUnusedArg a f i => U "Unused argument " ++ q a ++ U " of function " ++ q f ++ U " " ++ idx i
  | WFnPointless f i => U "Pointless statement in function " ++ q f ++ U " " ++ idx i
  | WFnLabelRedef l f i => U "Redefinition of label " ++ q l ++ U " in function " ++ q f ++ U " " ++ idx i
  | WFnUnusedLabel l f i => U "Unused label " ++ q l ++ U " in function " ++ q f ++ U " " ++ idx i
  | WFnUnknownLabel l f i => U "Unknown label " ++ q l ++ U " in function " ++ q f ++ U " " ++ idx i
  | WPointless i => U "Pointless global statement " ++ idx i
  | WLabelRedef l i => U "Redefinition of global label " ++ q l ++ U " " ++ idx i
  | WUnusedLabel l i => U "Unused global label " ++ q l ++ U " " ++ idx i
  | WUnknownLabel l i => U "Unknown global label " ++ q l ++ U " " ++ idx i
  end.

Definition lint_lines (s : script) : list str := map render (lint s).

(* correspondence term: Some lines = the implementation's return value; None = it raised *)
Definition lint_result (s : script) : option (list str) := option_map (map render) (lint_raw s).
Definition check_lint (s : script) (expected : option (list str)) : bool :=
  option_eqb (list_eqb str_eqb) (lint_result s) expected.
