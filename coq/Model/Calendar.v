(* Calendar.v — executable model of BareScript datetimes (property C16).  No proofs here.

   Anchors: library.py _datetime_new (roll-over code), the component getters, datetimeISOFormat/Parse;
            value.py value_string (datetime branch), value_parse_datetime, value_normalize_datetime;
            runtime.py datetime `+` / `-`.

   A datetime VALUE is a naive local wall time, represented by its count of microseconds since
   1970-01-01T00:00:00 (naive, proleptic Gregorian): exactly the information a Python naive
   `datetime.datetime` carries (fold is always 0 in BareScript values).
   A Python exception (ValueError/OverflowError of the datetime module, ValueArgsError of the argument
   validation) is the constructor [DExc] — at script level the call wrapper turns it into null.
   The process time zone is a pair of functions (Section Zone):
     off_local w : the UTC offset (seconds) `astimezone()` assigns to the naive wall time w (fold = 0);
     off_utc u   : the UTC offset (seconds) in force at the UTC instant u.                               *)
From Coq Require Import ZArith List Bool SpecFloat.
From BS Require Import Model.Base Model.Num Gen.Unicode Gen.CalendarTables.
Local Open Scope Z_scope.

Inductive dres (A : Type) := DOk (a : A) | DExc | DFuel.
Arguments DOk {A} a.
Arguments DExc {A}.
Arguments DFuel {A}.

Definition dbind {A B} (r : dres A) (f : A -> dres B) : dres B :=
  match r with DOk a => f a | DExc => DExc | DFuel => DFuel end.

(* ------------------------------------------------------------------ the Gregorian calendar *)
Definition is_leap (y : Z) : bool :=
  (y mod 4 =? 0) && (negb (y mod 100 =? 0) || (y mod 400 =? 0)).

(* length of month m (1..12) of year y *)
Definition month_days (y m : Z) : Z :=
  if m =? 2 then (if is_leap y then 29 else 28)
  else if (m =? 4) || (m =? 6) || (m =? 9) || (m =? 11) then 30 else 31.

(* calendar.monthrange(y, m)[1]: IllegalMonthError (a ValueError) outside 1..12 *)
Definition monthrange (y m : Z) : option Z :=
  if (1 <=? m) && (m <=? 12) then Some (month_days y m) else None.

(* ---- the SPEC calendar: dates are stepped one day at a time; nothing else is assumed about months *)
Definition date := (Z * Z * Z)%type.

Definition valid_date (c : date) : bool :=
  let '(y, m, d) := c in (1 <=? m) && (m <=? 12) && (1 <=? d) && (d <=? month_days y m).

Definition next_day (c : date) : date :=
  let '(y, m, d) := c in
  if d <? month_days y m then (y, m, d + 1)
  else if m <? 12 then (y, m + 1, 1) else (y + 1, 1, 1).

Definition prev_day (c : date) : date :=
  let '(y, m, d) := c in
  if 1 <? d then (y, m, d - 1)
  else if 1 <? m then (y, m - 1, month_days y (m - 1)) else (y - 1, 12, 31).

(* k days after (before, for negative k) the date c, by iteration *)
Definition shift_days (k : Z) (c : date) : date :=
  if 0 <=? k then Nat.iter (Z.to_nat k) next_day c else Nat.iter (Z.to_nat (- k)) prev_day c.

(* ---- day numbers (closed forms; Proofs/C16.v relates them to the iteration above) *)
(* days before January 1st of year y, counted from 0001-01-01 *)
Definition dby (y : Z) : Z := 365 * (y - 1) + (y - 1) / 4 - (y - 1) / 100 + (y - 1) / 400.

(* days before the first of month m in a (leap) year *)
Definition dbm (leap : bool) (m : Z) : Z :=
  let l := if leap then 1 else 0 in
  if m <=? 1 then 0 else if m =? 2 then 31 else if m =? 3 then 59 + l else if m =? 4 then 90 + l
  else if m =? 5 then 120 + l else if m =? 6 then 151 + l else if m =? 7 then 181 + l
  else if m =? 8 then 212 + l else if m =? 9 then 243 + l else if m =? 10 then 273 + l
  else if m =? 11 then 304 + l else 334 + l.

Definition EPOCH_DAYS : Z := 719162.   (* = dby 1970 *)

(* days since 1970-01-01 *)
Definition days_from_civil (c : date) : Z :=
  let '(y, m, d) := c in dby y + dbm (is_leap y) m + (d - 1) - EPOCH_DAYS.

(* the year containing day number n (counted from 0001-01-01): estimate, then correct by one *)
Definition year_of_days (n : Z) : Z :=
  let y0 := 400 * n / 146097 + 1 in
  if n <? dby y0 then y0 - 1 else if dby (y0 + 1) <=? n then y0 + 1 else y0.

(* month and day of the 0-based day-of-year k *)
Definition md_of_doy (leap : bool) (k : Z) : Z * Z :=
  let l := if leap then 1 else 0 in
  if k <? 31 then (1, k + 1) else if k <? 59 + l then (2, k - 30)
  else if k <? 90 + l then (3, k - (58 + l)) else if k <? 120 + l then (4, k - (89 + l))
  else if k <? 151 + l then (5, k - (119 + l)) else if k <? 181 + l then (6, k - (150 + l))
  else if k <? 212 + l then (7, k - (180 + l)) else if k <? 243 + l then (8, k - (211 + l))
  else if k <? 273 + l then (9, k - (242 + l)) else if k <? 304 + l then (10, k - (272 + l))
  else if k <? 334 + l then (11, k - (303 + l)) else (12, k - (333 + l)).

Definition civil_from_days (n : Z) : date :=
  let n1 := n + EPOCH_DAYS in
  let y := year_of_days n1 in
  let '(m, d) := md_of_doy (is_leap y) (n1 - dby y) in (y, m, d).

(* ------------------------------------------------------------------ datetime values *)
Definition US_SEC : Z := 1000000.
Definition US_MIN : Z := 60000000.
Definition US_HOUR : Z := 3600000000.
Definition US_DAY : Z := 86400000000.

Record dtf := mkf { f_year : Z; f_month : Z; f_day : Z; f_hour : Z; f_minute : Z; f_second : Z; f_us : Z }.

Definition dtf_eqb (a b : dtf) : bool :=
  (f_year a =? f_year b) && (f_month a =? f_month b) && (f_day a =? f_day b) && (f_hour a =? f_hour b) &&
  (f_minute a =? f_minute b) && (f_second a =? f_second b) && (f_us a =? f_us b).

(* the range checks of datetime.datetime(...) *)
Definition valid_fields (f : dtf) : bool :=
  (1 <=? f_year f) && (f_year f <=? 9999) && valid_date (f_year f, f_month f, f_day f) &&
  (0 <=? f_hour f) && (f_hour f <? 24) && (0 <=? f_minute f) && (f_minute f <? 60) &&
  (0 <=? f_second f) && (f_second f <? 60) && (0 <=? f_us f) && (f_us f <? 1000000).

Definition of_fields (f : dtf) : Z :=
  days_from_civil (f_year f, f_month f, f_day f) * US_DAY
  + ((f_hour f * 60 + f_minute f) * 60 + f_second f) * US_SEC + f_us f.

Definition fields (w : Z) : dtf :=
  let '(y, m, d) := civil_from_days (w / US_DAY) in
  let r := w mod US_DAY in
  mkf y m d (r / US_HOUR) (r / US_MIN mod 60) (r / US_SEC mod 60) (r mod US_SEC).

Definition MIN_US : Z := - EPOCH_DAYS * US_DAY.                     (* 0001-01-01T00:00:00        *)
Definition MAX_US : Z := (dby 10000 - EPOCH_DAYS) * US_DAY - 1.     (* 9999-12-31T23:59:59.999999 *)
Definition in_range (w : Z) : bool := (MIN_US <=? w) && (w <=? MAX_US).

(* datetime.datetime(y, m, d, h, mi, s, us): ValueError when a component is out of range *)
Definition py_datetime (f : dtf) : dres Z := if valid_fields f then DOk (of_fields f) else DExc.

(* the component getters of library.py *)
Definition get_year (w : Z) : Z := f_year (fields w).
Definition get_month (w : Z) : Z := f_month (fields w).
Definition get_day (w : Z) : Z := f_day (fields w).
Definition get_hour (w : Z) : Z := f_hour (fields w).
Definition get_minute (w : Z) : Z := f_minute (fields w).
Definition get_second (w : Z) : Z := f_second (fields w).
(* int(value_round_number(microsecond / 1000, 0)): round half away from zero; microsecond >= 0.
   (the float evaluation agrees with this integer formula for every microsecond 0..999999: checked exhaustively
    against the implementation by harness/c16.py) *)
Definition get_millisecond (w : Z) : Z := (f_us (fields w) + 500) / 1000.

Definition trunc_ms (w : Z) : Z := w - w mod 1000.

(* ------------------------------------------------------------------ datetimeNew *)
Definition bound_ok (i : nat) (v : Z) : bool :=
  let b := nth i gen_dtnew_bounds (None, None) in
  match fst b with Some lo => lo <=? v | None => true end && match snd b with Some hi => v <=? hi | None => true end.

(* value_args_validate(_DATETIME_NEW_ARGS, args) on integral arguments *)
Definition dtnew_args_ok (y mo d h mi s ms : Z) : bool :=
  bound_ok 0 y && bound_ok 1 mo && bound_ok 2 d && bound_ok 3 h && bound_ok 4 mi && bound_ok 5 s && bound_ok 6 ms.

Definition BASE_MS : Z := nth 0 gen_dtnew_divisors 0.
Definition BASE_S : Z := nth 1 gen_dtnew_divisors 0.
Definition BASE_MIN : Z := nth 2 gen_dtnew_divisors 0.
Definition BASE_H : Z := nth 3 gen_dtnew_divisors 0.
Definition BASE_MON : Z := nth 4 gen_dtnew_divisors 0.

(* if v < 0 or v >= base: extra = v // base; v -= extra * base; next += extra *)
Definition carry (v next base : Z) : Z * Z :=
  if (v <? 0) || (base <=? v) then let e := v / base in (v - e * base, next + e) else (v, next).

(* while day < 1: step to the previous month and add its length *)
Fixpoint dn_back (fuel : nat) (y m d : Z) : dres date :=
  if d <? 1 then
    match fuel with
    | O => DFuel
    | S f =>
      let y' := if negb (m =? 1) then y else y - 1 in
      let m' := if negb (m =? 1) then m - 1 else 12 in
      match monthrange y' m' with
      | None => DExc
      | Some md => dn_back f y' m' (d + md)
      end
    end
  else DOk (y, m, d).

(* while day > month_days: subtract the length of the month and step to the next one *)
Fixpoint dn_fwd (fuel : nat) (y m d md : Z) : dres date :=
  if md <? d then
    match fuel with
    | O => DFuel
    | S f =>
      let d' := d - md in
      let y' := if negb (m =? 12) then y else y + 1 in
      let m' := if negb (m =? 12) then m + 1 else 1 in
      match monthrange y' m' with
      | None => DExc
      | Some md' => dn_fwd f y' m' d' md'
      end
    end
  else DOk (y, m, d).

(* the component roll-over of _datetime_new, up to (not including) the datetime constructor *)
Definition dn_rollover (year month day hour minute second millisecond : Z) : dres dtf :=
  let '(millisecond, second) := carry millisecond second BASE_MS in
  let '(second, minute) := carry second minute BASE_S in
  let '(minute, hour) := carry minute hour BASE_MIN in
  let '(hour, day) := carry hour day BASE_H in
  let '(month, year) :=
    if (month <? 1) || (12 <? month) then
      let e := (month - 1) / BASE_MON in (month - e * BASE_MON, year + e)
    else (month, year) in
  let fuel := S (Z.to_nat (Z.abs day)) in
  dbind
    (if day <? 1 then dn_back fuel year month day
     else if 28 <? day then
       match monthrange year month with
       | None => DExc
       | Some md => dn_fwd fuel year month day md
       end
     else DOk (year, month, day))
    (fun c => let '(y, m, d) := c in DOk (mkf y m d hour minute second (millisecond * 1000))).

Definition datetime_new (year month day hour minute second millisecond : Z) : dres Z :=
  if dtnew_args_ok year month day hour minute second millisecond then
    dbind (dn_rollover year month day hour minute second millisecond) py_datetime
  else DExc.

(* ------------------------------------------------------------------ arithmetic (runtime.py) *)
(* datetime + n  (n an integral number of milliseconds): OverflowError outside year 1..9999 *)
Definition dt_add_ms (w n : Z) : dres Z :=
  let r := w + n * 1000 in if in_range r then DOk r else DExc.

(* the EXACT value of (a - b) in milliseconds, rounded half away from zero *)
Definition round_half_away_div (x q : Z) : Z :=
  if 0 <=? x then (2 * x + q) / (2 * q) else - ((2 * (- x) + q) / (2 * q)).
Definition dt_sub_ms (a b : Z) : Z := round_half_away_div (a - b) 1000.

(* the float path the code takes: value_round_number((a - b).total_seconds() * 1000, 0) in binary64 *)
Definition sf_trunc (f : flt) : option Z :=
  match f with
  | S754_zero _ => Some 0
  | S754_finite s m e =>
    let a := if 0 <=? e then Zpos m * 2 ^ e else Zpos m / 2 ^ (- e) in Some (if s then - a else a)
  | _ => None
  end.
Definition sf_half : flt := S754_finite false 4503599627370496 (-53).
Definition sf_neg_half : flt := S754_finite true 4503599627370496 (-53).
Definition dt_sub_float (a b : Z) : option Z :=
  let d := a - b in
  let ts := ratio_to_sf (d <? 0) (Z.abs d) 1000000 in          (* timedelta.total_seconds(): int / int *)
  let v := SFmul prec emax ts (Z_to_sf 1000) in                 (* * 1000 *)
  let nonneg := match SFcompare v (S754_zero false) with Some Lt => false | _ => true end in
  sf_trunc (SFadd prec emax v (if nonneg then sf_half else sf_neg_half)).   (* int(v + (0.5 if v >= 0 else -0.5)) *)

(* ------------------------------------------------------------------ ISO text *)
Definition dchar (v : Z) : N := Z.to_N (48 + v).
Definition pad2 (v : Z) : str := [dchar (v / 10); dchar (v mod 10)].
Definition pad3 (v : Z) : str := [dchar (v / 100); dchar (v / 10 mod 10); dchar (v mod 10)].
Definition pad4 (v : Z) : str := [dchar (v / 1000); dchar (v / 100 mod 10); dchar (v / 10 mod 10); dchar (v mod 10)].

Definition C_DASH : N := 45.  Definition C_PLUS : N := 43.  Definition C_COLON : N := 58.
Definition C_DOT : N := 46.   Definition C_T : N := 84.     Definition C_Z : N := 90.   Definition C_NL : N := 10.

Definition date_text (f : dtf) : str :=
  pad4 (f_year f) ++ [C_DASH] ++ pad2 (f_month f) ++ [C_DASH] ++ pad2 (f_day f).

(* isoformat() of the time part followed by the `.ffffff` -> `.mmm` replacement of value_string *)
Definition time_text (f : dtf) : str :=
  pad2 (f_hour f) ++ [C_COLON] ++ pad2 (f_minute f) ++ [C_COLON] ++ pad2 (f_second f)
  ++ (if f_us f =? 0 then [] else C_DOT :: pad3 (f_us f / 1000)).

(* `+HH:MM[:SS]` of isoformat() followed by the removal of `:SS` (_R_DATETIME_TZ_CLEANUP) *)
Definition offset_text (o : Z) : str :=
  let a := Z.abs o in
  (if o <? 0 then C_DASH else C_PLUS) :: pad2 (a / 3600) ++ [C_COLON] ++ pad2 (a / 60 mod 60).

Definition datetime_text (f : dtf) (o : Z) : str := date_text f ++ [C_T] ++ time_text f ++ offset_text o.

(* datetimeISOFormat(d, true) *)
Definition iso_format_date (w : Z) : str := date_text (fields w).

(* ---- recognisers *)
Definition adigit (c : N) : option Z := if ((48 <=? c) && (c <=? 57))%N then Some (Z.of_N c - 48) else None.
(* `\d` of the regex followed by int(): any Unicode decimal digit (table of the running interpreter) *)
Definition udigit (c : N) : option Z := option_map Z.of_N (digit_val c).

Fixpoint take_digits (dg : N -> option Z) (n : nat) (s : str) (acc : Z) : option (Z * str) :=
  match n with
  | O => Some (acc, s)
  | S k => match s with
           | c :: t => match dg c with Some d => take_digits dg k t (acc * 10 + d) | None => None end
           | [] => None
           end
  end.

Definition expect (c : N) (s : str) : option str :=
  match s with x :: t => if (x =? c)%N then Some t else None | [] => None end.

Definition obind {A B} (o : option A) (f : A -> option B) : option B := match o with Some a => f a | None => None end.
Notation "'do' x <- a ; b" := (obind a (fun x => b)) (at level 200, x pattern, a at level 100, b at level 200).

(* _R_DATE = ^\d{4}-\d{2}-\d{2}$ : `\d` is Unicode-aware and `$` also matches before one final newline *)
Definition parse_date_form (s : str) : option date :=
  do (y, s) <- take_digits udigit 4 s 0;
  do s <- expect C_DASH s;
  do (m, s) <- take_digits udigit 2 s 0;
  do s <- expect C_DASH s;
  do (d, s) <- take_digits udigit 2 s 0;
  match s with
  | [] => Some (y, m, d)
  | [c] => if (c =? C_NL)%N then Some (y, m, d) else None
  | _ => None
  end.

(* up to n further ASCII digits of a fraction: (value, count, rest) *)
Fixpoint frac_digits (n : nat) (s : str) (acc cnt : Z) : Z * Z * str :=
  match n with
  | O => (acc, cnt, s)
  | S k => match s with
           | c :: t => match adigit c with Some d => frac_digits k t (acc * 10 + d) (cnt + 1) | None => (acc, cnt, s) end
           | [] => (acc, cnt, s)
           end
  end.

(* _R_DATETIME.match(text) and datetime.fromisoformat(_R_DATETIME_ZULU.sub('+00:00', text)) together:
   YYYY-MM-DDTHH:MM:SS[.f{1,6}](Z|[+-]HH:MM) in ASCII digits, nothing after it.
   Result: the seven fields and the offset in seconds (not yet range-checked). *)
Definition parse_datetime_form (s : str) : option (dtf * Z) :=
  do (y, s) <- take_digits adigit 4 s 0;
  do s <- expect C_DASH s;
  do (mo, s) <- take_digits adigit 2 s 0;
  do s <- expect C_DASH s;
  do (d, s) <- take_digits adigit 2 s 0;
  do s <- expect C_T s;
  do (h, s) <- take_digits adigit 2 s 0;
  do s <- expect C_COLON s;
  do (mi, s) <- take_digits adigit 2 s 0;
  do s <- expect C_COLON s;
  do (sec, s) <- take_digits adigit 2 s 0;
  do (us, s) <-
    match s with
    | c :: t =>
      if (c =? C_DOT)%N then
        let '(v, cnt, r) := frac_digits 6 t 0 0 in
        if cnt =? 0 then None else Some (v * 10 ^ (6 - cnt), r)
      else Some (0, s)
    | [] => None
    end;
  match s with
  | [c] => if (c =? C_Z)%N then Some (mkf y mo d h mi sec us, 0) else None
  | c :: t =>
    if (c =? C_PLUS)%N || (c =? C_DASH)%N then
      do (oh, t) <- take_digits adigit 2 t 0;
      do t <- expect C_COLON t;
      do (om, t) <- take_digits adigit 2 t 0;
      match t with
      | [] => let o := oh * 3600 + om * 60 in Some (mkf y mo d h mi sec us, if (c =? C_DASH)%N then - o else o)
      | _ => None
      end
    else None
  | [] => None
  end.

Definition dres_opt {A} (r : dres A) : option A := match r with DOk a => Some a | _ => None end.

Section Zone.
Variable off_local : Z -> Z.    (* naive local wall time (us) -> UTC offset in seconds given by astimezone(), fold = 0 *)
Variable off_utc : Z -> Z.      (* UTC instant (us) -> UTC offset in seconds *)

(* the wall time w names an instant of the zone whose local reading is w again *)
Definition exists_in_zone (w : Z) : bool := off_utc (w - off_local w * US_SEC) =? off_local w.

(* naive.astimezone(): attach the local offset, go to UTC, come back with the offset in force there;
   OverflowError/ValueError when an intermediate value leaves year 1..9999 *)
Definition astimezone_naive (w : Z) : dres (Z * Z) :=
  let u := w - off_local w * US_SEC in
  if in_range u then
    let o := off_utc u in
    let l := u + o * US_SEC in
    if in_range l then DOk (l, o) else DExc
  else DExc.

(* value_string(datetime) = datetimeISOFormat(d) *)
Definition iso_format (w : Z) : dres str :=
  dbind (astimezone_naive w) (fun lo => DOk (datetime_text (fields (fst lo)) (snd lo))).

(* datetime.fromisoformat(text).astimezone().replace(tzinfo=None) truncated to ms, for the fields and offset read from
   the text; None = the ValueError/OverflowError that value_parse_datetime catches *)
Definition fromiso_to_local (f : dtf) (o : Z) : option Z :=
  if valid_fields f && (Z.abs o <? 86400) then           (* fromisoformat's ValueError cases *)
    let u := of_fields f - o * US_SEC in                  (* aware.astimezone(): to UTC ... *)
    if in_range u then
      let l := u + off_utc u * US_SEC in                  (* ... and to the local zone *)
      if in_range l then Some (trunc_ms l) else None
    else None
  else None.

(* value_parse_datetime *)
Definition iso_parse (s : str) : option Z :=
  match parse_date_form s with
  | Some (y, m, d) => dres_opt (py_datetime (mkf y m d 0 0 0 0))
  | None =>
    match parse_datetime_form s with
    | Some (f, o) => fromiso_to_local f o
    | None => None
    end
  end.
End Zone.

(* ------------------------------------------------------------------ finite zone tables (correspondence) *)
(* the harness dumps the offsets of the process zone at the instants a case needs; a missing entry gives an
   impossible offset, so the case disagrees loudly *)
Fixpoint tbl_lookup (t : list (Z * Z)) (k : Z) : Z :=
  match t with [] => 1000000007 | (a, b) :: r => if a =? k then b else tbl_lookup r k end.

Definition dres_eqb {A} (eqb : A -> A -> bool) (a b : dres A) : bool :=
  match a, b with DOk x, DOk y => eqb x y | DExc, DExc => true | _, _ => false end.
