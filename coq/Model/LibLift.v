(* LibLift.v — the change of representation between the interpreter's values / world (Model/Interp.v) and the values / single
   heap of cells of Model/LibVal.v, on which Model/LibSeq.v and the generated argument table (Gen/ArgSpecs.v) are written.
   Used by Model/LibAll.v (lift of LibSeq's functions) and Model/LibMore.v (argument validation of the further functions).
   No proofs here.
     * an interpreter array location l is heap position l, an object location l is position (#arrays + l);
       cells a call allocates come after both and are split again into arrays and objects, in allocation order;
     * a function value travels as a number (LibSeq never looks inside one): FScript id = 2 id,
       FLib name = 2 enc(name) + 1 with enc an injective base-1114113 numeral of the code points. *)
From Coq Require Import SpecFloat.
From BS Require Import Model.Base Model.Num Model.Arith Model.ExprParser Model.Script Model.Interp.
From BS Require Model.LibVal Model.LibSeq.
Local Open Scope N_scope.

Module V := BS.Model.LibVal.
Module Q := BS.Model.LibSeq.

(* ---- function values as numbers ---- *)
Definition enc_base : N := 1114113.
Definition enc_str (s : str) : N := fold_left (fun a c => a * enc_base + (c + 1)) s 0.
Fixpoint dec_str (fuel : nat) (n : N) (acc : str) : str :=
  match fuel with
  | O => acc
  | S f => if n =? 0 then acc else dec_str f (n / enc_base) ((n mod enc_base - 1) :: acc)
  end.
Definition enc_fn (f : fnref) : N :=
  match f with FScript id => 2 * N.of_nat id | FLib name => 2 * enc_str name + 1 end.
Definition dec_fn (n : N) : fnref :=
  if N.even n then FScript (N.to_nat (n / 2)) else let m := n / 2 in FLib (dec_str (S (N.to_nat (N.log2 m))) m []).

(* ---- values and heaps, forth ---- *)
Definition to_v (na : nat) (v : value) : V.value :=
  match v with
  | VNull => V.VNull | VBool b => V.VBool b | VNum n => V.VNum n | VStr s => V.VStr s | VDate us => V.VDate us
  | VArr l => V.VArr l | VObj l => V.VObj (na + l)%nat
  | VFun f => V.VFun (enc_fn f) | VRegex id => V.VRegex id
  end.

Definition heap_of2 (arrs : list (list value)) (objs : list (list (str * value))) : V.heap :=
  let na := length arrs in
  map (fun l => V.CArr (map (to_v na) l)) arrs ++
  map (fun kv => V.CObj (map (fun p => (fst p, to_v na (snd p))) kv)) objs.
Definition heap_of (w : world) : V.heap := heap_of2 (w_arrs w) (w_objs w).

(* ---- and back ---- *)
Definition is_carr (c : V.cell) : bool := match c with V.CArr _ => true | V.CObj _ => false end.
Definition count_kind (arr : bool) (cs : list V.cell) (j : nat) : nat :=
  length (filter (fun c => Bool.eqb (is_carr c) arr) (firstn j cs)).

Section Back.
Variables (na no : nat) (fresh : list V.cell).      (* fresh = the cells allocated by the call *)

Definition loc_back (arr : bool) (p : nat) : nat :=
  if Nat.ltb p na then p
  else if Nat.ltb p (na + no) then (p - na)%nat
  else ((if arr then na else no) + count_kind arr fresh (p - (na + no)))%nat.

Definition of_v (v : V.value) : value :=
  match v with
  | V.VNull => VNull | V.VBool b => VBool b | V.VNum n => VNum n | V.VStr s => VStr s | V.VDate us => VDate us
  | V.VArr p => VArr (loc_back true p) | V.VObj p => VObj (loc_back false p)
  | V.VFun id => VFun (dec_fn id) | V.VRegex id => VRegex id
  end.

Definition arr_back (c : V.cell) : list value := match c with V.CArr l => map of_v l | V.CObj _ => [] end.
Definition obj_back (c : V.cell) : list (str * value) :=
  match c with V.CObj kv => map (fun p => (fst p, of_v (snd p))) kv | V.CArr _ => [] end.
End Back.

