(* LibPartial.v — systemPartial (library.py _system_partial):
       func, func_args = value_args_validate(...)          # func: a function; args: the rest, at least one
       return lambda args_extra, options: func([*func_args, *args_extra], options)
   The closure is a function VALUE.  The model keeps Model/Interp.v's value type unchanged: the closure's data
   (the function and the bound arguments) is stored in a hidden heap array [func; arg1; ...; argn] that no script value
   refers to, and the closure is the function value  VFun (FLib [0; l])  - a library-function name no script can write
   (code point 0, then the array's location as one code point).  Calling it reaches the library with that name; the
   library (libfull2 below) fetches the hidden array and calls  func (bound args ++ extra args)  through the callback -
   a raw call without a handler, exactly like the lambda: whatever the inner call raises is in flight in the caller's
   handler.  No proofs here. *)
From Coq Require Import SpecFloat.
From BS Require Import Model.Base Model.Num Model.Arith Model.ExprParser Model.Script Model.Interp Model.LibCore Model.LibAll.
Local Open Scope N_scope.

Definition partial_name (l : nat) : str := [0; N.of_nat l].
Definition partial_loc (name : str) : option nat :=
  match name with [0; n] => Some (N.to_nat n) | _ => None end.

Section Lib.
Variable cfg : config.

Definition lres_of_outcome (r : outcome * world) : lres * world :=
  match r with
  | (OVal v, w1) => (LVal v, w1)
  | (OExc ret msg, w1) => (LArgs ret msg, w1)
  | (ORt m, w1) => (LRt m, w1)
  | (OFuel, w1) => (LFuel, w1)
  | (OParse _ _, w1) => (LOracle, w1)
  | (OOracle, w1) => (LOracle, w1)
  end.

(* systemPartial(func, args...) *)
Definition lib_partial_new (args : list value) (w : world) : lres * world :=
  match validate w [A TFunction; ALast] args with
  | VOk [AV f; AL rest] =>
    match rest with
    | [] => (LArgs VNull (U "args"), w)
    | _ => let '(v, w1) := alloc_arr w (f :: rest) in
           match v with VArr l => (LVal (VFun (FLib (partial_name l))), w1) | _ => (LOracle, w) end
    end
  | r => (ret_of r VNull, w)
  end.

(* calling a closure *)
Definition lib_partial_call (callback : caller) (l : nat) (extra : list value) (w : world) : lres * world :=
  match get_arr w l with
  | f :: bound => lres_of_outcome (callback f (bound ++ extra) w)
  | [] => (LOracle, w)
  end.

Definition libfull2 (callback : caller) (name : str) (args : list value) (w : world) : lres * world :=
  if op_is name "systemPartial" then lib_partial_new args w
  else match partial_loc name with
       | Some l => lib_partial_call callback l args w
       | None => libfull cfg callback name args w
       end.
End Lib.
