(* RunC01.v — case-file helpers of the C01 check: the real label naming, the structured interpreter run on a source tree,
   and the comparison "parse_script (printed text) = compiled tree" (used only by generated case files). *)
From BS Require Import Model.Base Model.Num Model.Arith Model.ExprParser Model.Script Model.Interp Model.LibCore Model.LibAll Model.LibPartial Model.Run
                       Proofs.C01 Proofs.C01b.

Definition real_lab (k : lkind) (n : nat) : str :=
  lbl (match k with C01.KIf => L_If | C01.KDone => L_Done | C01.KLoop => L_Loop end) n.

(* 1 = the parser model lowers the printed text to exactly the code that [compile] gives for the tree *)
Definition check_lowering (text : str) (s : sstmt) : bool :=
  match parse_script [text] 1 with
  | ROk code => script_eqb code (fst (compile real_lab None 0 s))
  | _ => false
  end.

(* the structured reading of the tree, run inside Coq, against what the implementation did on the printed text:
   1 agree, 0 differ, 2 model declined, 3 out of fuel *)
Definition check_struct (fuel : nat) (s : sstmt) (w : world) (x : expected) (xlog : list str) (xglobals : list (str * tree)) : N :=
  let cfg := mkcfg 0 false true in
  let w0 := upd_count (upd_globals w (inject_library (w_globals w))) 0 in
  match sexec cfg (libfull2 cfg) no_url no_lint UHost fuel s (None, w0) with
  | None => 3%N
  | Some (o, (_, w1)) =>
    let out := match o with SNormal => Some (OVal VNull) | SStop r => Some r | _ => None end in
    match out with
    | Some OOracle => 2%N
    | Some r =>
      let res_ok :=
        match r, x with
        | OVal v, XVal t => match reify (reify_fuel w1) w1 v with Some t' => tree_eqb t' t | None => false end
        | ORt m, XRt m' => str_eqb m m'
        | _, _ => false
        end in
      let glob_ok :=
        match visible_globals w1 with
        | Some g => list_eqb (fun a b => str_eqb (fst a) (fst b) && tree_eqb (snd a) (snd b)) g xglobals
        | None => false
        end in
      if res_ok && list_eqb str_eqb (rev (w_log w1)) xlog && glob_ok then 1%N else 0%N
    | None => 0%N
    end
  end.
