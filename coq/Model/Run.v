(* Run.v — running the interpreter model on a case and comparing the observables with what the
   implementation produced (used only by the generated case files).  No proofs here. *)
From Coq Require Import SpecFloat.
From BS Require Import Model.Base Model.Num Model.Arith Model.ExprParser Model.Script Model.Interp Model.LibCore Model.LibAll Model.LibPartial Gen.Library.
Local Open Scope Z_scope.

(* values as trees: what an observer sees (object keys sorted; functions and regexes opaque) *)
Inductive tree := TNull | TBool (b : bool) | TNum (n : num) | TStr (s : str) | TDate (us : Z)
                | TArr (l : list tree) | TObj (l : list (str * tree)) | TFun | TRegex.

Fixpoint reify (fuel : nat) (w : world) (v : value) : option tree :=
  match fuel with
  | O => None
  | S f =>
    match v with
    | VNull => Some TNull | VBool b => Some (TBool b) | VNum n => Some (TNum n) | VStr s => Some (TStr s) | VDate us => Some (TDate us)
    | VFun _ => Some TFun | VRegex _ => Some TRegex
    | VArr l =>
      match nth_error (w_arrs w) l with
      | Some xs =>
        option_map TArr ((fix go (xs : list value) : option (list tree) :=
           match xs with
           | [] => Some []
           | x :: t => match reify f w x, go t with Some a, Some b => Some (a :: b) | _, _ => None end
           end) xs)
      | None => None
      end
    | VObj l =>
      match nth_error (w_objs w) l with
      | Some xs =>
        option_map TObj ((fix go (xs : list (str * value)) : option (list (str * tree)) :=
           match xs with
           | [] => Some []
           | (k, x) :: t => match reify f w x, go t with Some a, Some b => Some ((k, a) :: b) | _, _ => None end
           end) (sort_kv xs))
      | None => None
      end
    end
  end.

Fixpoint tree_eqb (a b : tree) : bool :=
  match a, b with
  | TNull, TNull | TFun, TFun | TRegex, TRegex => true
  | TBool x, TBool y => Bool.eqb x y
  | TNum x, TNum y => num_eqb x y
  | TStr x, TStr y => str_eqb x y
  | TDate x, TDate y => x =? y
  | TArr x, TArr y =>
    (fix go (x y : list tree) : bool :=
       match x, y with [], [] => true | p :: x', q :: y' => tree_eqb p q && go x' y' | _, _ => false end) x y
  | TObj x, TObj y =>
    (fix go (x y : list (str * tree)) : bool :=
       match x, y with
       | [], [] => true
       | (k1, p) :: x', (k2, q) :: y' => str_eqb k1 k2 && tree_eqb p q && go x' y'
       | _, _ => false
       end) x y
  | _, _ => false
  end.

(* what the implementation did *)
Inductive expected :=
| XVal (t : tree)
| XRt (msg : str)
| XParse (msg line : str) (col : nat) (lineno : option nat)
| XHost (what : str).

Definition reify_fuel (w : world) : nat := S (S (length (w_arrs w) + length (w_objs w))).

(* the globals an observer sees: library functions that were injected under their own name are dropped *)
Definition visible_globals (w : world) : option (list (str * tree)) :=
  (fix go (g : env) : option (list (str * tree)) :=
     match g with
     | [] => Some []
     | (k, v) :: t =>
       let skip := match v with VFun (FLib n) => str_eqb n k | _ => false end in
       if skip then go t
       else match reify (reify_fuel w) w v, go t with Some a, Some b => Some ((k, a) :: b) | _, _ => None end
     end) (sort_kv (w_globals w)).

Definition mkcfg (mx : Z) (debug haslog : bool) : config :=
  {| c_max := mx; c_debug := debug; c_haslog := haslog; c_sysprefix := None; c_fetch := None; c_urlfn := None |}.

(* with a virtual file system for include statements (a dict-backed fetchFn) *)
Definition mkcfg_files (mx : Z) (debug haslog : bool) (files : list (str * str)) : config :=
  {| c_max := mx; c_debug := debug; c_haslog := haslog; c_sysprefix := None; c_fetch := Some (fun u => assoc u files); c_urlfn := None |}.

Definition no_lint (sc : script) : list str := [].
Definition no_url (b u : str) : str := u.

Definition run_script (cfg : config) (fuel : nat) (sc : script) (w : world) : outcome * world :=
  execute_script cfg (libfull2 cfg) no_url no_lint fuel sc w.

(* 1 = the model agrees with the implementation on result, log, visible globals and statement count;
   0 = it differs; 2 = the model declined (oracle payload) ; 3 = out of fuel *)
Definition check_run (cfg : config) (fuel : nat) (sc : script) (w : world)
           (x : expected) (xlog : list str) (xglobals : list (str * tree)) (xcount : Z) : N :=
  match run_script cfg fuel sc w with
  | (OOracle, _) => 2%N
  | (OFuel, _) => 3%N
  | (o, w1) =>
    let res_ok :=
      match o, x with
      | OVal v, XVal t => match reify (reify_fuel w1) w1 v with Some t' => tree_eqb t' t | None => false end
      | ORt m, XRt m' => str_eqb m m'
      | OParse pe _, XParse m l c n => str_eqb (e_msg pe) m && str_eqb (e_line pe) l && Nat.eqb (e_col pe) c && option_eqb Nat.eqb (e_lineno pe) n
      | OExc _ _, XHost _ => true
      | _, _ => false
      end in
    let log_ok := list_eqb str_eqb (rev (w_log w1)) xlog in
    let glob_ok :=
      match visible_globals w1 with
      | Some g => list_eqb (fun a b => str_eqb (fst a) (fst b) && tree_eqb (snd a) (snd b)) g xglobals
      | None => false
      end in
    if res_ok && log_ok && glob_ok && (w_count w1 =? xcount) then 1%N else 0%N
  end.

(* evaluate_expression(expr, options, locals, builtins) on an initial world *)
Definition check_eval (cfg : config) (fuel : nat) (e : expr) (loc : option env) (bi : bool) (w : world)
           (x : expected) (xlog : list str) : N :=
  match eval cfg (libfull2 cfg) no_url no_lint fuel e loc bi UHost w with
  | (OOracle, _) => 2%N
  | (OFuel, _) => 3%N
  | (o, w1) =>
    let res_ok :=
      match o, x with
      | OVal v, XVal t => match reify (reify_fuel w1) w1 v with Some t' => tree_eqb t' t | None => false end
      | ORt m, XRt m' => str_eqb m m'
      | OExc _ _, XHost _ => true
      | _, _ => false
      end in
    if res_ok && list_eqb str_eqb (rev (w_log w1)) xlog then 1%N else 0%N
  end.
