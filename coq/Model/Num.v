(* Num.v — BareScript numbers: Python's two spellings (int, float).  Floats are the standard
   library's SpecFloat at binary64 (pure Z arithmetic, no axioms).  No proofs here. *)
From Coq Require Import SpecFloat.
From BS Require Import Model.Base Gen.Unicode.
Local Open Scope Z_scope.

Definition prec : Z := 53.
Definition emax : Z := 1024.
Definition flt := spec_float.

Inductive num := NInt (z : Z) | NFlt (f : flt).

Definition sf_eqb (a b : flt) : bool :=
  match a, b with
  | S754_zero s1, S754_zero s2 => Bool.eqb s1 s2
  | S754_infinity s1, S754_infinity s2 => Bool.eqb s1 s2
  | S754_nan, S754_nan => true
  | S754_finite s1 m1 e1, S754_finite s2 m2 e2 => Bool.eqb s1 s2 && Pos.eqb m1 m2 && Z.eqb e1 e2
  | _, _ => false
  end.
Definition num_eqb (a b : num) : bool :=
  match a, b with
  | NInt x, NInt y => Z.eqb x y
  | NFlt x, NFlt y => sf_eqb x y
  | _, _ => false
  end.

(* correctly rounded a/b for integers a >= 0, b > 0 (round to nearest even, binary64) *)
Definition ratio_to_sf (neg : bool) (a b : Z) : flt :=
  if a =? 0 then S754_zero neg
  else let '(mz, ez, lz) := SFdiv_core_binary prec emax a 0 b 0 in
       binary_round_aux prec emax neg mz ez lz.

(* correctly rounded m * 10^e10 (m >= 0): what a correctly rounded strtod returns *)
Definition dec_to_sf (neg : bool) (m e10 : Z) : flt :=
  if 0 <=? e10 then ratio_to_sf neg (m * 10 ^ e10) 1 else ratio_to_sf neg m (10 ^ (- e10)).

Definition Z_to_sf (z : Z) : flt := binary_normalize prec emax z 0 false.

(* ---- Python's float(str) ---------------------------------------------------------------
   strip; [+-]; then inf | infinity | nan (any case) or  digits[.digits][(e|E)[+-]digits]
   with at least one digit before or after the point; single underscores between digits;
   digits are Unicode decimal digits (Gen/Unicode.v). *)
Definition lower_ascii (c : N) : N := if ((65 <=? c) && (c <=? 90))%N then (c + 32)%N else c.

(* digits with underscores: returns (value, number of digits, rest); needs_digit = an underscore was just read *)
Fixpoint scan_digits (s : str) (acc : Z) (n : Z) (after_us : bool) : option (Z * Z * str) :=
  match s with
  | c :: t =>
    match digit_val c with
    | Some d => scan_digits t (acc * 10 + Z.of_N d) (n + 1) false
    | None =>
      if (c =? 95)%N && negb after_us && (0 <? n) then
        match t with
        | c2 :: _ => match digit_val c2 with Some _ => scan_digits t acc n true | None => Some (acc, n, s) end
        | [] => Some (acc, n, s)
        end
      else Some (acc, n, s)
    end
  | [] => Some (acc, n, s)
  end.

Definition U_space (c : N) : bool :=
  if (c <? 128)%N then ((9 <=? c) && (c <=? 13) || (28 <=? c) && (c <=? 32))%N else in_ranges gen_uspace_ranges c.
Fixpoint lstrip (s : str) : str := match s with c :: t => if U_space c then lstrip t else s | [] => [] end.
Definition rstrip (s : str) : str := rev (lstrip (rev s)).
Definition strip (s : str) : str := rstrip (lstrip s).

(* the white space float() / int() accept around a number: C isspace for ASCII (\t \n \v \f \r and the blank; NOT the
   separators 0x1C-0x1F that str.strip() removes) and, for non-ASCII characters, the Unicode spaces *)
Definition F_space (c : N) : bool :=
  if (c <? 128)%N then ((9 <=? c) && (c <=? 13) || (c =? 32))%N else in_ranges gen_uspace_ranges c.
Fixpoint flstrip (s : str) : str := match s with c :: t => if F_space c then flstrip t else s | [] => [] end.
Definition fstrip (s : str) : str := rev (flstrip (rev (flstrip s))).

Definition py_float_body (neg : bool) (s : str) : option flt :=
  let low := map lower_ascii s in
  if str_eqb low (U "inf") || str_eqb low (U "infinity") then Some (S754_infinity neg)
  else if str_eqb low (U "nan") then Some S754_nan
  else
    match scan_digits s 0 0 false with
    | None => None
    | Some (ip, ni, r1) =>
      let '(fp, nf, r2) :=
        match r1 with
        | 46%N :: t => match scan_digits t 0 0 false with Some x => x | None => (0, 0, r1) end
        | _ => (0, 0, r1)
        end in
      (* an underscore may not follow the point directly: scan_digits only accepts "_" after a digit *)
      if (ni + nf =? 0) then None else
      let mant := ip * 10 ^ nf + fp in
      match r2 with
      | [] => Some (dec_to_sf neg mant (- nf))
      | e :: t =>
        if (lower_ascii e =? 101)%N then
          let '(eneg, t') := match t with 45%N :: t' => (true, t') | 43%N :: t' => (false, t') | _ => (false, t) end in
          match scan_digits t' 0 0 false with
          | Some (ev, ne, []) => if ne =? 0 then None else Some (dec_to_sf neg mant ((if eneg then - ev else ev) - nf))
          | _ => None
          end
        else None
      end
    end.

Definition py_float (s0 : str) : option flt :=
  let s := fstrip s0 in
  match s with
  | 45%N :: t => py_float_body true t
  | 43%N :: t => py_float_body false t
  | _ => py_float_body false s
  end.
