(* RunC01for.v — case-file helpers of the C01 check for the `for` layer (Proofs/C01for.v): the comparison
   "parse_script (printed text) = compile_for (tree)" and the structured reading of a for loop run inside Coq against what the
   implementation did on the printed text (used only by generated case files).  No proofs here. *)
From BS Require Import Model.Base Model.Num Model.Arith Model.ExprParser Model.Script Model.Interp Model.LibCore Model.LibAll Model.LibPartial Model.Run
                       Model.RunC01 Proofs.C01 Proofs.C01b Proofs.C01for Proofs.C01forReal.

(* 1 = the parser model lowers the printed text of  for x[, idx] in e: body endfor  to exactly [compile_for_real 0 ..] *)
Definition check_lowering_for (text : str) (x : str) (idxo : option str) (e : expr) (b : sstmt) : bool :=
  match parse_script [text] 1 with
  | ROk code => script_eqb code (fst (compile_for_real 0 x idxo e b))
  | _ => false
  end.

(* the structured reading (Proofs/C01for.v fexec, sound for FExec) against the implementation's run of the text:
   1 agree, 0 differ, 2 model declined, 3 out of fuel / outside the rules of FExec *)
Definition check_struct_for (fuel : nat) (x : str) (idxo : option str) (e : expr) (b : sstmt) (w : world) (xp : expected)
           (xlog : list str) (xglobals : list (str * tree)) : N :=
  let cfg := mkcfg 0 false true in
  let w0 := upd_count (upd_globals w (inject_library (w_globals w))) 0 in
  match fexec cfg (libfull2 cfg) no_url no_lint UHost (lbl L_Values 0) (lbl L_Length 0) (for_index 0 idxo) x e b fuel (None, w0) with
  | None => 3%N
  | Some (o, (_, w1)) =>
    let out := match o with SNormal => Some (OVal VNull) | SStop r => Some r | _ => None end in
    match out with
    | Some OOracle => 2%N
    | Some r =>
      let res_ok :=
        match r, xp with
        | OVal v, XVal t => match reify (reify_fuel w1) w1 v with Some t' => tree_eqb t' t | None => false end
        | ORt m, XRt m' => str_eqb m m'
        | _, _ => false
        end in
      let glob_ok :=
        match visible_globals w1 with
        | Some g => list_eqb (fun a b => str_eqb (fst a) (fst b) && tree_eqb (snd a) (snd b)) g xglobals
        | None => false
        end in
      if res_ok && list_eqb str_eqb (rev (w_log w1)) xlog && glob_ok then 1%N else 0%N
    | None => 0%N
    end
  end.

(* ---- nested for loops (Proofs/C01forN.v): source trees [ustmt], annotated with the parser's names by [annotate] ---- *)
From BS Require Import Proofs.C01forN.

Definition check_lowering_u (text : str) (u : ustmt) : bool :=
  match parse_script [text] 1 with
  | ROk code => script_eqb code (compile_u 0 u)
  | _ => false
  end.

Definition check_struct_u (fuel : nat) (u : ustmt) (w : world) (xp : expected) (xlog : list str) (xglobals : list (str * tree)) : N :=
  let cfg := mkcfg 0 false true in
  let w0 := upd_count (upd_globals w (inject_library (w_globals w))) 0 in
  let f := fst (annotate 0 u) in
  if negb (gwf false f && gguard f) then 0%N else
  match gexec cfg (libfull2 cfg) no_url no_lint UHost fuel f (None, w0) with
  | None => 3%N
  | Some (o, (_, w1)) =>
    let out := match o with SNormal => Some (OVal VNull) | SStop r => Some r | _ => None end in
    match out with
    | Some OOracle => 2%N
    | Some r =>
      let res_ok :=
        match r, xp with
        | OVal v, XVal t => match reify (reify_fuel w1) w1 v with Some t' => tree_eqb t' t | None => false end
        | ORt m, XRt m' => str_eqb m m'
        | _, _ => false
        end in
      let glob_ok :=
        match visible_globals w1 with
        | Some g => list_eqb (fun a b => str_eqb (fst a) (fst b) && tree_eqb (snd a) (snd b)) g xglobals
        | None => false
        end in
      if res_ok && list_eqb str_eqb (rev (w_log w1)) xlog && glob_ok then 1%N else 0%N
    | None => 0%N
    end
  end.
