(* RunC01u.v — case-file helpers of the C01 check for the unified block language (Proofs/C01u.v, Proofs/C01uReal.v): the
   comparison "parse_script (printed text) = ucompile_real (tree)" and the structured reading [uexec] run inside Coq against what
   the implementation did on the printed text (used only by generated case files).  No proofs here. *)
From BS Require Import Model.Base Model.Num Model.Arith Model.ExprParser Model.Script Model.Interp Model.LibCore Model.LibAll Model.LibPartial Model.Run
                       Model.RunC01 Proofs.C01 Proofs.C01b Proofs.C01for Proofs.C01forReal Proofs.C01u Proofs.C01uReal.

(* a for loop of a SOURCE tree: placeholder names for the two hidden temporaries, the index name ([] = none) *)
Definition NForS (x idx : str) (e : expr) (body : unistmt) : unistmt := NFor [] [] idx x e body.

(* 1 = the parser model lowers the printed text to exactly the code that [ucompile_real 0] gives for the tree *)
Definition check_lowering_n (text : str) (s : unistmt) : bool :=
  match parse_script [text] 1 with
  | ROk code => script_eqb code (ucompile_real 0 s)
  | _ => false
  end.

(* the structured reading (uexec, sound for UExec) against the implementation's run of the text:
   1 agree, 0 differ (or the side conditions uwf / uguard fail), 2 model declined, 3 out of fuel / outside the rules of UExec *)
Definition check_struct_n (fuel : nat) (s : unistmt) (w : world) (xp : expected) (xlog : list str) (xglobals : list (str * tree)) : N :=
  let cfg := mkcfg 0 false true in
  let w0 := upd_count (upd_globals w (inject_library (w_globals w))) 0 in
  let t := fst (uname 0 s) in
  if negb (uwf false t && uguard t) then 0%N else
  match uexec cfg (libfull2 cfg) no_url no_lint UHost fuel t (None, w0) with
  | None => 3%N
  | Some (o, (_, w1)) =>
    let out := match o with SNormal => Some (OVal VNull) | SStop r => Some r | _ => None end in
    match out with
    | Some OOracle => 2%N
    | Some r =>
      let res_ok :=
        match r, xp with
        | OVal v, XVal t => match reify (reify_fuel w1) w1 v with Some t' => tree_eqb t' t | None => false end
        | ORt m, XRt m' => str_eqb m m'
        | _, _ => false
        end in
      let glob_ok :=
        match visible_globals w1 with
        | Some g => list_eqb (fun a b => str_eqb (fst a) (fst b) && tree_eqb (snd a) (snd b)) g xglobals
        | None => false
        end in
      if res_ok && list_eqb str_eqb (rev (w_log w1)) xlog && glob_ok then 1%N else 0%N
    | None => 0%N
    end
  end.
