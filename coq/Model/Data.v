(* Data.v — data.py: filter_data, add_calculated_field, sort_data, top_data, aggregate_data, join_data
   (property C19).  Executable Gallina only; the proofs are in Proofs/C19.v.

   A table is a list of rows; a row is the insertion-ordered item list of a Python dict (keys distinct).
   Values are the trees [cv] of Model/Compare.v (no heap: the data functions never look at aliasing; which
   result rows ARE input rows and which are copies is checked on the implementation by the direct oracle).

   Oracles of CPython below this model (parameters of Section Keys, supplied as finite tables by the check):
     num_tok  : the repr token json.dumps writes for a number      (C13/C14 are about that text)
     date_txt : value_string of a datetime (ISO text in the process time zone, C16)
   Expressions: the per-row evaluation `evaluate_expression(expr, options, row)` is the parameter [eval_row]
   of every function that takes an expression (the theorems hold for EVERY such function); the check
   instantiates it with [dx_eval], a small evaluator for field references, literals, the six relational
   operators, && || ! and + - * on numbers. *)
From Coq Require Import SpecFloat.
From BS Require Import Model.Base Model.Num Model.Arith Model.Compare Model.Json.
Local Open Scope Z_scope.

Definition row := list (str * cv).
Definition table := list row.

(* dict[k] = v : replace in place, else append *)
Fixpoint row_set (k : str) (v : cv) (r : row) : row :=
  match r with
  | [] => [(k, v)]
  | (k', v') :: t => if str_eqb k k' then (k, v) :: t else (k', v') :: row_set k v t
  end.
Definition row_has (k : str) (r : row) : bool := match assoc k r with Some _ => true | None => false end.

(* value.py value_boolean *)
Definition truthy (v : cv) : bool :=
  match v with
  | CNull => false
  | CStr s => match s with [] => false | _ => true end
  | CBool b => b
  | CNum n => negb (num_is_zero n)
  | CDate _ => true
  | CArr l => match l with [] => false | _ => true end
  | _ => true
  end.

(* ================================================================== filter_data / add_calculated_field *)
Section Expr.
  Variable eval_row : row -> cv.     (* evaluate_expression(parsed expr, eval_options, row) *)

  (* for row in data: if value_boolean(evaluate_expression(..., row)): result.append(row) *)
  Fixpoint filter_data (data : table) : table :=
    match data with
    | [] => []
    | r :: t => if truthy (eval_row r) then r :: filter_data t else filter_data t
    end.

  (* for row in data: row[field_name] = evaluate_expression(..., row)   (rows are distinct objects) *)
  Fixpoint add_calculated_field (field_name : str) (data : table) : table :=
    match data with
    | [] => []
    | r :: t => row_set field_name (eval_row r) r :: add_calculated_field field_name t
    end.
End Expr.

(* ================================================================== sort_data
   data.sort(key=cmp_to_key(partial(_sort_data_fn, sorts))): Model/Compare.v [data_sort] (C11) *)
Definition sort_data (tz : Z -> Z) (data : table) (sorts : list (str * bool)) : table := data_sort tz data sorts.

(* ================================================================== grouping keys: value_json *)
Definition lit_function : str := U "<function>".

Section Keys.
  Variable num_tok : num -> jnum.
  Variable date_txt : hdate -> str.

  (* what _JSONEncoder makes of a value: datetimes and functions through `default` -> value_string,
     anything else unknown (a regex) -> default returns None -> null *)
  Fixpoint to_json (v : cv) : jvalue :=
    match v with
    | CNull => JNull
    | CBool b => JBool b
    | CNum n => JNum (num_tok n)
    | CStr s => JStr s
    | CDate d => JStr (date_txt d)
    | CArr l => JArr (map to_json l)
    | CObj l => JObj (map (fun kv => (fst kv, to_json (snd kv))) l)
    | CFun _ => JStr lit_function
    | CRegex _ => JNull
    end.

  Definition value_json (v : cv) : str := encode None (to_json v).

  (* [row.get(category) for category in categories] *)
  Definition cat_values (cats : list str) (r : row) : list cv := map (row_get r) cats.
  (* '' if category_fields is None else value_json([...]) *)
  Definition cat_key (cats : option (list str)) (r : row) : str :=
    match cats with None => [] | Some c => value_json (CArr (cat_values c r)) end.
End Keys.

(* ================================================================== buckets: a dict of lists, insertion ordered
     if key not in d: d[key] = []
     d[key].append(x)                                                                            *)
Section Buckets.
  Context {A : Type}.
  Fixpoint bucket_add (k : str) (x : A) (b : list (str * list A)) : list (str * list A) :=
    match b with
    | [] => [(k, [x])]
    | (k', xs) :: t => if str_eqb k k' then (k', xs ++ [x]) :: t else (k', xs) :: bucket_add k x t
    end.
  Definition buckets (keyf : A -> str) (l : list A) : list (str * list A) :=
    fold_left (fun b x => bucket_add (keyf x) x b) l [].
End Buckets.

(* ================================================================== top_data
   keyf = the category key of a row; count = int(count) *)
Definition top_data (keyf : row -> str) (count : Z) (data : table) : table :=
  flat_map (fun kb => firstn (Z.to_nat count) (snd kb)) (buckets keyf data).

(* ================================================================== aggregate_data *)
Inductive aggfn := AAverage | ACount | AMax | AMin | AStddev | ASum.
Record measure := mkMeasure { m_field : str; m_fn : aggfn; m_name : option str }.
Definition out_name (m : measure) : str := match m_name m with Some n => n | None => m_field m end.

(* a result cell: a value, or "the float nearest to sqrt(num/den)" (statistics.pstdev: the exact population
   variance is a rational; its correctly rounded square root is CPython's, the check compares with [sqrt_is]) *)
Inductive acell := AV (v : cv) | ASqrt (num den : Z).

Definition is_null (v : cv) : bool := match v with CNull => true | _ => false end.

(* the non-null values of a field over the rows of a class *)
Definition measure_values (field : str) (rows : list row) : list cv :=
  filter (fun v => negb (is_null v)) (map (fun r => row_get r field) rows).

(* Python's `<` between two measure values: numbers (bool is an int) exactly, strings by code point, naive datetimes;
   None = Python raises TypeError (mixed types), or a NaN is involved (outside the model) *)
Definition as_pynum (v : cv) : option num :=
  match v with CNum n => Some n | CBool b => Some (NInt (if b then 1 else 0)) | _ => None end.
Definition py_lt (a b : cv) : option bool :=
  match as_pynum a, as_pynum b with
  | Some x, Some y => if num_is_nan x || num_is_nan y then None else Some (num_ltb x y)
  | _, _ =>
    match a, b with
    | CStr x, CStr y => Some (match str_compare x y with Lt => true | _ => false end)
    | CDate (HNaive x), CDate (HNaive y) => Some (x <? y)
    | _, _ => None
    end
  end.
(* max(values): keeps the FIRST greatest (`if item > best`); min(values): the first least (`if item < best`) *)
Fixpoint py_max_loop (best : cv) (l : list cv) : option cv :=
  match l with
  | [] => Some best
  | v :: t => match py_lt best v with Some true => py_max_loop v t | Some false => py_max_loop best t | None => None end
  end.
Fixpoint py_min_loop (best : cv) (l : list cv) : option cv :=
  match l with
  | [] => Some best
  | v :: t => match py_lt v best with Some true => py_min_loop v t | Some false => py_min_loop best t | None => None end
  end.

(* ---- exact arithmetic on the measure values ----
   a finite number as a dyadic rational m * 2^e *)
Definition num_dyadic (n : num) : option (Z * Z) :=
  match n with
  | NInt z => Some (z, 0)
  | NFlt (S754_zero _) => Some (0, 0)
  | NFlt (S754_finite s m e) => Some ((if s then Zneg m else Zpos m), e)
  | NFlt _ => None
  end.
Definition is_int_num (v : cv) : bool := match v with CNum (NInt _) | CBool _ => true | _ => false end.

Fixpoint dyadics (vs : list cv) : option (list (Z * Z)) :=
  match vs with
  | [] => Some []
  | v :: t =>
    match as_pynum v with
    | None => None
    | Some n => match num_dyadic n, dyadics t with Some d, Some r => Some (d :: r) | _, _ => None end
    end
  end.
Definition min_exp (ds : list (Z * Z)) : Z := fold_right (fun d acc => Z.min (snd d) acc) 0 ds.
(* every value scaled to the common exponent E <= 0: v = a * 2^E *)
Definition scaled (E : Z) (ds : list (Z * Z)) : list Z := map (fun d => fst d * 2 ^ (snd d - E)) ds.
Definition zsum (l : list Z) : Z := fold_right Z.add 0 l.


(* sum(values): exact for ints; for floats CPython (3.12) adds with compensation, which is exact as long as no
   partial sum needs rounding: modelled when every value is an integer and every partial sum is within 2^53,
   None otherwise (left to the direct oracle, compared with the exact rational sum under a tolerance) *)
Fixpoint int_values (vs : list cv) : option (list Z) :=
  match vs with
  | [] => Some []
  | v :: t =>
    match as_pynum v with
    | Some (NInt z) => option_map (cons z) (int_values t)
    | Some (NFlt f) => match sf_integral f, int_values t with Some z, Some r => Some (z :: r) | _, _ => None end
    | None => None
    end
  end.
Fixpoint partial_sums_ok (acc : Z) (l : list Z) : bool :=
  match l with
  | [] => true
  | z :: t => (Z.abs z <=? two53) && (Z.abs (acc + z) <=? two53) && partial_sums_ok (acc + z) t
  end.
Definition agg_sum (vs : list cv) : option cv :=
  match int_values vs with
  | None => None
  | Some zs =>
    if forallb is_int_num vs then Some (CNum (NInt (zsum zs)))
    else if partial_sums_ok 0 zs then Some (CNum (NFlt (Z_to_sf (zsum zs)))) else None
  end.

(* statistics.mean(values): the exact rational mean, converted by float(Fraction) = correctly rounded n/d;
   all-int data with an integral mean stays an int *)
Definition agg_average (vs : list cv) : option cv :=
  match dyadics vs with
  | None => None
  | Some ds =>
    let n := Z.of_nat (length vs) in
    let E := min_exp ds in
    let S := zsum (scaled E ds) in           (* sum = S * 2^E, E <= 0 *)
    if forallb is_int_num vs && (S mod n =? 0) then Some (CNum (NInt (S / n)))
    else Some (CNum (NFlt (ratio_to_sf (S <? 0) (Z.abs S) (n * 2 ^ (- E)))))
  end.

(* statistics.pstdev(values): sqrt of the exact population variance  (n * sum a^2 - (sum a)^2) / n^2 * 2^(2E) *)
Definition agg_stddev (vs : list cv) : option acell :=
  match dyadics vs with
  | None => None
  | Some ds =>
    let n := Z.of_nat (length vs) in
    let E := min_exp ds in
    let a := scaled E ds in
    let S := zsum a in
    let Q := zsum (map (fun x => x * x) a) in
    Some (ASqrt (n * Q - S * S) (n * n * 2 ^ (- 2 * E)))
  end.

(* one measure of one class: `if len(measure_values) == 0: None`, then the function ladder *)
Definition agg_measure (fn : aggfn) (vs : list cv) : option acell :=
  match vs with
  | [] => Some (AV CNull)
  | v :: t =>
    match fn with
    | ACount => Some (AV (CNum (NInt (Z.of_nat (length vs)))))
    | AMax => option_map AV (py_max_loop v t)
    | AMin => option_map AV (py_min_loop v t)
    | ASum => option_map AV (agg_sum vs)
    | AStddev => agg_stddev vs
    | AAverage => option_map AV (agg_average vs)
    end
  end.

Fixpoint all_some {A} (l : list (option A)) : option (list A) :=
  match l with
  | [] => Some []
  | Some x :: t => option_map (cons x) (all_some t)
  | None :: _ => None
  end.

Fixpoint str_nodup (l : list str) : bool :=
  match l with [] => true | x :: t => negb (str_mem x t) && str_nodup t end.

(* the aggregate row of a class: the category fields with the values of the class's FIRST row, then one field per measure *)
Definition agg_cat_part (cats : option (list str)) (r0 : row) : row :=
  match cats with
  | None => []
  | Some cs => fold_left (fun acc c => row_set c (row_get r0 c) acc) cs []
  end.
Definition agg_class_row (cats : option (list str)) (ms : list measure) (rows : list row) : option (list (str * acell)) :=
  match rows with
  | [] => None
  | r0 :: _ =>
    match all_some (map (fun m => option_map (pair (out_name m)) (agg_measure (m_fn m) (measure_values (m_field m) rows))) ms) with
    | None => None
    | Some mcells => Some (map (fun kv => (fst kv, AV (snd kv))) (agg_cat_part cats r0) ++ mcells)
    end
  end.

(* the output names of the measures are distinct and differ from every category field: otherwise two measures share
   one value list / a measure appends to a category value, and the implementation raises or mixes them (not modelled) *)
Definition agg_names_ok (cats : option (list str)) (ms : list measure) : bool :=
  str_nodup (map out_name ms) &&
  forallb (fun m => negb (str_mem (out_name m) (match cats with Some c => c | None => [] end))) ms.

(* aggregate_data.  None = outside the model: colliding names, measure values Python cannot compare/add, an inexact float sum.
   (The rows of a class are collected first and each measure is computed over them; the code collects each measure's
   value list while it scans the rows — the same lists.) *)
Definition aggregate_data (keyf : row -> str) (cats : option (list str)) (ms : list measure) (data : table)
  : option (list (list (str * acell))) :=
  if agg_names_ok cats ms then all_some (map (fun kb => agg_class_row cats ms (snd kb)) (buckets keyf data)) else None.

(* x (a finite float >= 0) is a float nearest to sqrt(num/den):  (x - ulp/2)^2 <= num/den <= (x + ulp/2)^2,
   with x = m * 2^e (ulp = 2^e; at a binade boundary the lower neighbour is closer, so this allows at most one ulp there) *)
Definition sqrt_is (x : flt) (num den : Z) : bool :=
  match x with
  | S754_zero _ => num =? 0
  | S754_finite false m e =>
    let lo := (2 * Zpos m - 1) * (2 * Zpos m - 1) in
    let hi := (2 * Zpos m + 1) * (2 * Zpos m + 1) in
    (* compare lo * 2^(2e-2) <= num/den <= hi * 2^(2e-2) *)
    let k := 2 * e - 2 in
    if 0 <=? k then (lo * 2 ^ k * den <=? num) && (num <=? hi * 2 ^ k * den)
    else (lo * den <=? num * 2 ^ (- k)) && (num * 2 ^ (- k) <=? hi * den)
  | _ => false
  end.

(* ================================================================== join_data *)
(* the field names of a table in first-appearance order (the keys of left_names / right_names_raw) *)
Definition add_names (acc : list str) (r : row) : list str :=
  fold_left (fun acc kv => if str_mem (fst kv) acc then acc else acc ++ [fst kv]) r acc.
Definition field_names (data : table) : list str := fold_left add_names data [].

(*  ix_unique = 2; unique_name = f'{field_name}{ix_unique}'
    while unique_name in <taken>: ix_unique += 1; unique_name = ...          None = out of fuel *)
Fixpoint unique_loop (fuel : nat) (taken : str -> bool) (name : str) (ix : Z) : option str :=
  let u := name ++ Z_to_str ix in
  if taken u then match fuel with O => None | S f => unique_loop f taken name (ix + 1) end
  else Some u.

(* for field_name in right_names_raw: ... ; [acc] is right_names so far (raw name -> joined name) *)
Fixpoint right_names_loop (fuel : nat) (left raw : list str) (todo : list str) (acc : list (str * str)) : option (list (str * str)) :=
  match todo with
  | [] => Some acc
  | f :: t =>
    if negb (str_mem f left) then right_names_loop fuel left raw t (acc ++ [(f, f)])
    else
      match unique_loop fuel (fun u => str_mem u left || str_mem u (map fst acc) || str_mem u raw) f 2 with
      | None => None
      | Some u => right_names_loop fuel left raw t (acc ++ [(f, u)])
      end
  end.
Definition rename_fuel (left raw : list str) : nat := S (length left + length raw).
Definition right_names (left_data right_data : table) : option (list (str * str)) :=
  let left := field_names left_data in
  let raw := field_names right_data in
  right_names_loop (rename_fuel left raw) left raw raw [].

(* the guard the injectivity proof forces: among the right field names that collide with a left field name, none is another one
   followed by decimal digits ('a' and 'a1': 'a' + '12' = 'a1' + '2').  The loop does not test the names it has already handed out. *)
Definition is_digit_ext (f1 f2 : str) : bool :=
  str_prefix f1 f2 && negb (length f2 =? length f1)%nat && forallb is_dig (skipn (length f1) f2).
Definition rename_guard (left raw : list str) : bool :=
  let cs := filter (fun f => str_mem f left) raw in
  forallb (fun f1 => forallb (fun f2 => negb (is_digit_ext f1 f2)) cs) cs.

Definition rename (names : list (str * str)) (f : str) : str := match assoc f names with Some u => u | None => f end.

(* join_row = dict(left_row); for right_name, right_value in right_row.items(): join_row[right_names[right_name]] = right_value *)
Definition merge_row (names : list (str * str)) (l r : row) : row :=
  fold_left (fun acc kv => row_set (rename names (fst kv)) (snd kv) acc) r l.

Definition bucket_find {A} (k : str) (b : list (str * list A)) : option (list A) := assoc k b.

(* lkey / rkey: value_json of the left / right expression value of a row.  None = the renaming loop ran out of fuel
   (Proofs/C19.v: it never does).  NOTE the flag as coded: the unmatched left row is kept when is_left_join is FALSE. *)
Definition join_data (lkey rkey : row -> str) (is_left_join : bool) (left_data right_data : table) : option table :=
  match right_names left_data right_data with
  | None => None
  | Some names =>
    let rb := buckets rkey right_data in
    Some (flat_map (fun l => match bucket_find (lkey l) rb with
                             | Some rs => map (merge_row names l) rs
                             | None => if negb is_left_join then [l] else []
                             end) left_data)
  end.

(* ================================================================== the expression subset used by the check *)
Inductive dexpr :=
| DVar (name : str)                     (* a field of the row, else a variable/global, else null *)
| DLit (v : cv)
| DRel (op : relop) (a b : dexpr)
| DAnd (a b : dexpr) | DOr (a b : dexpr) | DNot (a : dexpr)
| DAdd (a b : dexpr) | DSub (a b : dexpr) | DMul (a b : dexpr).

Definition arith (f : num -> num -> ares num) (a b : cv) : option cv :=
  match a, b with
  | CNum x, CNum y => match f x y with ARes n => Some (CNum n) | AErr => Some CNull | AOracle => None end
  | CStr _, _ | _, CStr _ | CDate _, _ | _, CDate _ => None         (* concatenation / datetime arithmetic: not in the subset *)
  | _, _ => Some CNull
  end.

Section DExpr.
  Variable tz : Z -> Z.
  Variable vars : row.                  (* the `variables` object merged into the globals *)
  (* None = outside the subset *)
  Fixpoint dx_eval (e : dexpr) (r : row) : option cv :=
    match e with
    | DVar x => Some (match assoc x r with Some v => v | None => match assoc x vars with Some v => v | None => CNull end end)
    | DLit v => Some v
    | DRel op a b =>
      match dx_eval a r, dx_eval b r with Some x, Some y => Some (CBool (eval_relop tz op x y)) | _, _ => None end
    | DAnd a b => match dx_eval a r with Some x => if truthy x then dx_eval b r else Some x | None => None end
    | DOr a b => match dx_eval a r with Some x => if truthy x then Some x else dx_eval b r | None => None end
    | DNot a => option_map (fun x => CBool (negb (truthy x))) (dx_eval a r)
    | DAdd a b => match dx_eval a r, dx_eval b r with Some x, Some y => arith num_add x y | _, _ => None end
    | DSub a b => match dx_eval a r, dx_eval b r with Some x, Some y => arith num_sub x y | _, _ => None end
    | DMul a b => match dx_eval a r, dx_eval b r with Some x, Some y => arith num_mul x y | _, _ => None end
    end.
  Definition dx_total (e : dexpr) (r : row) : cv := match dx_eval e r with Some v => v | None => CNull end.
  Definition dx_defined (e : dexpr) (data : table) : bool :=
    forallb (fun r => match dx_eval e r with Some _ => true | None => false end) data.
End DExpr.

(* ================================================================== equality of results (for the check) *)
Definition row_eqb (a b : row) : bool := cv_eqb (CObj a) (CObj b).
Definition table_eqb (a b : table) : bool := list_eqb row_eqb a b.
