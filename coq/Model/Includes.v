(* Includes.v — what the runtime does with the text of an include before running it:
   runtime.py `script = parse_script(script_text)` (one chunk, start line 1).  No proofs here. *)
From BS Require Import Model.Base Model.Script.

Definition include_parses (text : str) : bool :=
  match parse_script [text] 1 with ROk _ => true | _ => false end.

(* names of the functions a parsed script defines at top level, in order *)
Definition defined_functions (text : str) : list str :=
  match parse_script [text] 1 with
  | ROk sc => flat_map (fun s => match s with SFunction n _ _ _ _ => [n] | _ => [] end) sc
  | _ => []
  end.
