(* Url.v — options.py `url_file_relative` (with the pathlib / os.path pieces it uses, POSIX flavour: os.sep = "/")
   and the include statement of runtime.py (lines 101-148) as a pure function over a virtual file system.
   The URL regex `_R_URL` is REGENERATED from options.py (Gen/Regexes.v R_URL).  No proofs here. *)
From BS Require Import Model.Base Model.Regex Gen.Unicode Gen.Regexes.

Definition SL : N := 47%N.      (* "/" *)
Definition DOT : N := 46%N.     (* "." *)

(* re.match(_R_URL, s): None = the matcher ran out of fuel (proved unreachable) *)
Definition is_url (s : str) : option bool :=
  match re_match UC R_URL s with MYes _ _ => Some true | MNo => Some false | MFuel => None end.

(* ---- str methods ---- *)
(* s.split("/") *)
Fixpoint split_slash (s cur : str) : list str :=
  match s with
  | [] => [rev cur]
  | c :: t => if (c =? SL)%N then rev cur :: split_slash t [] else split_slash t (c :: cur)
  end.

(* s[:s.rfind("/") + 1] : the prefix through the last slash ("" when there is none) *)
Fixpoint drop_to_slash (r : str) : str :=
  match r with
  | [] => []
  | c :: t => if (c =? SL)%N then r else drop_to_slash t
  end.
Definition dir_prefix (s : str) : str := rev (drop_to_slash (rev s)).

Definition all_slashes (s : str) : bool := forallb (fun c => (c =? SL)%N) s.
Fixpoint lstrip_slash (r : str) : str :=
  match r with c :: t => if (c =? SL)%N then lstrip_slash t else r | [] => [] end.
Definition rstrip_slash (s : str) : str := rev (lstrip_slash (rev s)).

(* ---- posixpath ---- *)
Definition starts_with_slash (s : str) : bool := match s with c :: _ => (c =? SL)%N | [] => false end.
(* os.path.dirname *)
Definition dirname (p : str) : str :=
  let head := dir_prefix p in
  match head with
  | [] => head
  | _ => if all_slashes head then head else rstrip_slash head
  end.

(* os.path.join(a, b) *)
Definition path_join (a b : str) : str :=
  if starts_with_slash b then b
  else match a with
       | [] => b
       | _ => if (last a 0%N =? SL)%N then a ++ b else a ++ [SL] ++ b
       end.

(* posixpath.splitroot: (root, rest); root is "", "/" or "//" (exactly two leading slashes) *)
Definition splitroot (p : str) : str * str :=
  match p with
  | c1 :: t1 =>
    if (c1 =? SL)%N then
      match t1 with
      | c2 :: t2 =>
        if (c2 =? SL)%N then
          match t2 with
          | c3 :: _ => if (c3 =? SL)%N then ([SL], t1) else ([SL; SL], t2)
          | [] => ([SL; SL], t2)
          end
        else ([SL], t1)
      | [] => ([SL], t1)
      end
    else ([], p)
  | [] => ([], p)
  end.

(* pathlib: parts = [x for x in rel.split("/") if x and x != "."] *)
Definition keep_part (x : str) : bool :=
  match x with [] => false | [c] => negb (c =? DOT)%N | _ => true end.
Definition path_parts (rel : str) : list str := filter keep_part (split_slash rel []).

(* str(Path(p)) = (root + "/".join(parts)) or "." *)
Definition path_str (p : str) : str :=
  let '(root, rel) := splitroot p in
  match root ++ join_with [SL] (path_parts rel) with
  | [] => [DOT]
  | s => s
  end.

(* options.py url_file_relative(file_, url) *)
Definition url_file_relative (file url : str) : option str :=
  match is_url url with
  | None => None
  | Some true => Some url                                               (* URL? *)
  | Some false =>
    if starts_with_slash url then Some (path_str url)                    (* absolute POSIX path -> OS path *)
    else
      match is_url file with
      | None => None
      | Some true => Some (dir_prefix file ++ url)                       (* relative-file is a URL *)
      | Some false => Some (path_join (dirname file) (path_str url))     (* relative-file is an OS path *)
      end
  end.

(* ================================================================== the include statement over a virtual file system
   A script is abstracted to what matters for the include tree: include statements (one statement = the list of
   adjacent include lines the parser merged), observable marks, `return`, and calls of script functions (whose
   bodies may contain include statements). *)
Inductive istmt :=
| IInc (incs : list (str * bool))        (* (url, system) *)
| IEmit (tag : str)                      (* any observable effect, e.g. systemLog(tag) *)
| IRet                                   (* return *)
| ICall (body : list istmt).             (* a call of a script function with this body, e.g. `r = fn()` *)

Inductive fres :=
| FText (body : list istmt)              (* fetchFn returned a text that parses to this *)
| FBroken                                (* fetchFn returned a text that parse_script rejects *)
| FMissing.                              (* fetchFn returned None, raised, or there is no fetchFn *)

Definition vfs := list (str * fres).
Definition vfetch (fs : vfs) (url : str) : fres := match assoc url fs with Some f => f | None => FMissing end.

(* the part of `options` that the include statement reads *)
Record iopts := { o_url_base : option str;        (* urlFn = partial(url_file_relative, base), or None *)
                  o_sys_prefix : option str }.

Inductive event := EFetch (url : str) | EEmit (tag : str).

Inductive ioutcome :=
| IDone                                  (* ran to the end (or to a return) *)
| IFailed (url : str)                    (* BareScriptRuntimeError: Include of "url" failed *)
| IParseError (url : str)                (* BareScriptParserError ... Included from "url" *)
| IRegexFuel                             (* url_file_relative's matcher ran out of fuel (proved unreachable) *)
| IDepth.                                (* include nesting deeper than the fuel (a cyclic file system) *)

(* the URL fix-up of one include entry: runtime.py lines 110-114 *)
Definition resolve_include (o : iopts) (inc : str * bool) : option str :=
  let '(url, system) := inc in
  match (if system then o_sys_prefix o else None) with
  | Some prefix => url_file_relative prefix url
  | None =>
    match o_url_base o with
    | Some base => url_file_relative base url
    | None => Some url
    end
  end.

(* include_options = options.copy(); include_options['urlFn'] = partial(url_file_relative, url) *)
Definition child_opts (o : iopts) (url : str) : iopts := {| o_url_base := Some url; o_sys_prefix := o_sys_prefix o |}.

Section Step.
(* The call wrapper of evaluate_expression re-raises BareScriptRuntimeError and (since the repair of finding F17,
   /repo faad076) BareScriptParserError: both failures of an include statement propagate out of function calls. *)
Variable fs : vfs.
(* the nested _execute_script_helper(script['statements'], include_options, None): run at one level less fuel *)
Variable rec : iopts -> list istmt -> list event * ioutcome.

(* the `for include in statement['include']['includes']` loop.  The includer's options [o] are passed on UNCHANGED to
   the rest of the loop: the included script gets a copy whose urlFn is built from the RESOLVED url. *)
Fixpoint run_incs (o : iopts) (incs : list (str * bool)) : list event * ioutcome :=
  match incs with
  | [] => ([], IDone)
  | inc :: more =>
    match resolve_include o inc with
    | None => ([], IRegexFuel)
    | Some url =>
      match vfetch fs url with
      | FMissing => ([EFetch url], IFailed url)
      | FBroken => ([EFetch url], IParseError url)
      | FText sub =>
        let '(ev, out) := rec (child_opts o url) sub in
        match out with
        | IDone => let '(ev', out') := run_incs o more in (EFetch url :: ev ++ ev', out')
        | _ => (EFetch url :: ev, out)
        end
      end
    end
  end.

(* the statement loop of one script or function body, over the execution [f] of one statement:
   f x = (events, outcome, a `return` was executed) *)
Fixpoint seq_with (f : istmt -> list event * ioutcome * bool) (body : list istmt) : list event * ioutcome :=
  match body with
  | [] => ([], IDone)
  | x :: rest =>
    let '(ev1, out1, ret) := f x in
    match out1 with
    | IDone => if ret then (ev1, IDone) else let '(ev2, out2) := seq_with f rest in (ev1 ++ ev2, out2)
    | _ => (ev1, out1)
    end
  end.

Fixpoint run_stmt (o : iopts) (s : istmt) {struct s} : list event * ioutcome * bool :=
  match s with
  | IInc incs => (run_incs o incs, false)
  | IEmit t => ([EEmit t], IDone, false)
  | IRet => ([], IDone, true)
  | ICall fb =>
    (* the function body runs with the caller's options; its `return` ends the function only *)
    ((fix seq (body : list istmt) : list event * ioutcome :=          (* = seq_with (run_stmt o) fb, inlined for the guard *)
        match body with
        | [] => ([], IDone)
        | x :: rest =>
          let '(ev1, out1, ret) := run_stmt o x in
          match out1 with
          | IDone => if ret then (ev1, IDone) else let '(ev2, out2) := seq rest in (ev1 ++ ev2, out2)
          | _ => (ev1, out1)
          end
        end) fb, false)
  end.

Definition run_stmts (o : iopts) (body : list istmt) : list event * ioutcome := seq_with (fun x => run_stmt o x) body.
End Step.

Fixpoint run (fuel : nat) (fs : vfs) (o : iopts) (body : list istmt) {struct fuel} : list event * ioutcome :=
  match fuel with
  | O => ([], IDepth)
  | S f => run_stmts fs (run f fs) o body
  end.

(* ---- the declarative reading: the tree of resolved locations ---- *)
Inductive rtree := RNode (url : str) (kids : list rtree).

(* the include entries a script reaches, in order: those before its first `return`; a called function contributes the
   entries before ITS first return *)
Fixpoint reach_with (f : istmt -> list (str * bool) * bool) (body : list istmt) : list (str * bool) :=
  match body with
  | [] => []
  | x :: rest => let '(i, ret) := f x in if ret then i else i ++ reach_with f rest
  end.
Fixpoint stmt_incs (s : istmt) {struct s} : list (str * bool) * bool :=
  match s with
  | IInc incs => (incs, false)
  | IEmit _ => ([], false)
  | IRet => ([], true)
  | ICall fb =>
    ((fix reach (body : list istmt) : list (str * bool) :=            (* = reach_with stmt_incs fb *)
        match body with
        | [] => []
        | x :: rest => let '(i, ret) := stmt_incs x in if ret then i else i ++ reach rest
        end) fb, false)
  end.
Definition reachable_incs (body : list istmt) : list (str * bool) := reach_with stmt_incs body.

(* every entry of a file is resolved against THAT file's location (its parent's resolved url), whatever was
   included before it; unfetchable / broken / unresolvable entries are leaves *)
Fixpoint forest (fuel : nat) (fs : vfs) (o : iopts) (body : list istmt) {struct fuel} : list rtree :=
  match fuel with
  | O => []
  | S f =>
    flat_map (fun inc =>
      match resolve_include o inc with
      | None => []
      | Some url =>
        match vfetch fs url with
        | FText sub => [RNode url (forest f fs (child_opts o url) sub)]
        | _ => [RNode url []]
        end
      end) (reachable_incs body)
  end.

Fixpoint preorder (t : rtree) : list str :=
  match t with RNode u kids => u :: flat_map preorder kids end.

Definition fetches (ev : list event) : list str :=
  flat_map (fun e => match e with EFetch u => [u] | EEmit _ => [] end) ev.

(* ---- equality, for the correspondence ---- *)
Definition event_eqb (a b : event) : bool :=
  match a, b with
  | EFetch x, EFetch y => str_eqb x y
  | EEmit x, EEmit y => str_eqb x y
  | _, _ => false
  end.
Definition ioutcome_eqb (a b : ioutcome) : bool :=
  match a, b with
  | IDone, IDone => true
  | IFailed x, IFailed y => str_eqb x y
  | IParseError x, IParseError y => str_eqb x y
  | _, _ => false
  end.
Definition run_eqb (a b : list event * ioutcome) : bool :=
  list_eqb event_eqb (fst a) (fst b) && ioutcome_eqb (snd a) (snd b).
