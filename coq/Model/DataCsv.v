(* DataCsv.v — data.py validate_data (type inference and validation of CSV / non-CSV data) and the rendering of typed cells
   to CSV cell text (property C19, CSV clause).  Executable Gallina only; proofs in Proofs/C19Csv.v.

   The model starts from the CELL MATRIX: csv.DictReader (quoting, skipinitialspace) and str.splitlines are CPython below the
   model; the check feeds CSV text to the implementation and the corresponding cells to the model.
   A cell is a value tree [cv]: a string (CSV text), or already typed (validate_data(csv=False) / mixed data).
   Datetimes are naive local wall clocks [CDate (HNaive us)] (microseconds since 0001-01-01, the representation of
   Model/Compare.v); Model/Calendar.v counts from 1970, [of_wall] converts.
   Parameters: off_utc / off_local — the process time zone (Model/Calendar.v); repr — CPython's repr(float) text. *)
From Coq Require Import SpecFloat.
From BS Require Import Model.Base Model.Num Model.Compare Model.NumText Model.Calendar Model.Data.
Local Open Scope Z_scope.

Inductive ftype := TBoolean | TDatetime | TNumber | TString.
Definition ftype_eqb (a b : ftype) : bool :=
  match a, b with TBoolean, TBoolean | TDatetime, TDatetime | TNumber, TNumber | TString, TString => true | _, _ => false end.

Definition EPOCH_US : Z := EPOCH_DAYS * US_DAY.
Definition of_wall (w : Z) : cv := CDate (HNaive (w + EPOCH_US)).

Definition s_null : str := U "null".
Definition s_true : str := U "true".
Definition s_false : str := U "false".
Definition is_empty (s : str) : bool := match s with [] => true | _ => false end.

(* types[field] = t : replace in place, else append *)
Fixpoint tset (k : str) (v : option ftype) (e : list (str * option ftype)) : list (str * option ftype) :=
  match e with
  | [] => [(k, v)]
  | (k', v') :: t => if str_eqb k k' then (k, v) :: t else (k', v') :: tset k v t
  end.

Inductive vres := VOk (types : list (str * ftype)) (data : table) | VErr (field : str) (t : ftype) (v : cv).

Section Csv.
  Variable off_utc : Z -> Z.

  Definition parse_datetime (s : str) : option Z := iso_parse off_utc s.
  Definition parse_number (s : str) : option flt := NumText.value_parse_number s.

  (* the type a CSV string determines; None = '' or 'null' (cannot tell yet).  Order as coded: datetime, boolean, number, string *)
  Definition infer_str (s : str) : option ftype :=
    if is_empty s || str_eqb s s_null then None
    else match parse_datetime s with
         | Some _ => Some TDatetime
         | None =>
           if str_eqb s s_true || str_eqb s s_false then Some TBoolean
           else match parse_number s with Some _ => Some TNumber | None => Some TString end
         end.

  Section Mode.
  Variable csv : bool.

  (* one (field, value) of the first loop: acts only when types.get(field) is None *)
  Definition infer_cell (types : list (str * option ftype)) (field : str) (v : cv) : list (str * option ftype) :=
    match assoc field types with
    | Some (Some _) => types
    | _ =>
      match v with
      | CBool _ => tset field (Some TBoolean) types
      | CNum _ => tset field (Some TNumber) types
      | CDate _ => tset field (Some TDatetime) types
      | CStr s => if csv then tset field (infer_str s) types else tset field (Some TString) types
      | _ => types
      end
    end.
  Definition infer_row (types : list (str * option ftype)) (r : row) : list (str * option ftype) :=
    fold_left (fun ty kv => infer_cell ty (fst kv) (snd kv)) r types.
  Definition infer_types (data : table) : list (str * option ftype) := fold_left infer_row data [].
  (* "Set the type for fields with undetermined type" *)
  Definition final_types (types : list (str * option ftype)) : list (str * ftype) :=
    map (fun kt => (fst kt, match snd kt with Some t => t | None => TString end)) types.

  (* the second loop on one value of a field of type t; None = throw_field_error *)
  Definition validate_cell (t : ftype) (v : cv) : option cv :=
    if csv && match v with CStr s => str_eqb s s_null | _ => false end then Some CNull
    else
      match t with
      | TNumber =>
        match v with
        | CStr s => if csv then (if is_empty s then Some CNull else option_map (fun f => CNum (NFlt f)) (parse_number s)) else None
        | CNull | CNum _ => Some v
        | _ => None
        end
      | TDatetime =>
        match v with
        | CStr s => if csv then (if is_empty s then Some CNull else option_map of_wall (parse_datetime s)) else None
        | CNull | CDate _ => Some v
        | _ => None
        end
      | TBoolean =>
        match v with
        | CStr s => if csv then (if is_empty s then Some CNull
                                 else if str_eqb s s_true then Some (CBool true) else if str_eqb s s_false then Some (CBool false) else None)
                    else None
        | CNull | CBool _ => Some v
        | _ => None
        end
      | TString => match v with CNull | CStr _ => Some v | _ => None end
      end.

  Fixpoint validate_row (types : list (str * ftype)) (r : row) : row + (str * ftype * cv) :=
    match r with
    | [] => inl []
    | (f, v) :: rest =>
      match assoc f types with
      | None => match validate_row types rest with inl r' => inl ((f, v) :: r') | inr e => inr e end
      | Some t =>
        match validate_cell t v with
        | None => inr (f, t, v)
        | Some v' => match validate_row types rest with inl r' => inl ((f, v') :: r') | inr e => inr e end
        end
      end
    end.
  Fixpoint validate_rows (types : list (str * ftype)) (data : table) : table + (str * ftype * cv) :=
    match data with
    | [] => inl []
    | r :: rest =>
      match validate_row types r with
      | inr e => inr e
      | inl r' => match validate_rows types rest with inl d => inl (r' :: d) | inr e => inr e end
      end
    end.

  (* validate_data(data, csv): the types map and the parsed rows, or the TypeError *)
  Definition validate_data (data : table) : vres :=
    let types := final_types (infer_types data) in
    match validate_rows types data with
    | inl d => VOk types d
    | inr (f, t, v) => VErr f t v
    end.
  End Mode.

  (* ---- writing a typed table as CSV cells *)
  Variable off_local : Z -> Z.
  Variable repr : flt -> str.

  Definition render_cell (v : cv) : option str :=
    match v with
    | CNull => Some s_null
    | CBool b => Some (if b then s_true else s_false)
    | CNum (NFlt f) => Some (value_string_float (repr f))
    | CNum (NInt z) => Some (Z_to_str z)
    | CStr s => Some s
    | CDate (HNaive us) => match iso_format off_local off_utc (us - EPOCH_US) with DOk s => Some s | _ => None end
    | _ => None
    end.
  Definition cell_type (v : cv) : option ftype :=
    match v with
    | CBool _ => Some TBoolean | CNum _ => Some TNumber | CDate _ => Some TDatetime | CStr _ => Some TString | _ => None
    end.
  Fixpoint render_row (r : row) : option row :=
    match r with
    | [] => Some []
    | (f, v) :: t => match render_cell v, render_row t with Some s, Some t' => Some ((f, CStr s) :: t') | _, _ => None end
    end.
  Fixpoint render_table (d : table) : option table :=
    match d with
    | [] => Some []
    | r :: t => match render_row r, render_table t with Some r', Some t' => Some (r' :: t') | _, _ => None end
    end.
End Csv.
