(* LibAll.v — ONE library for the interpreter model: the core functions of Model/LibCore.v (those that log, read the
   globals, compare, or are host callables) overlaid with the array / object / string / regexEscape / urlEncode
   functions of Model/LibSeq.v (property C15's model) and arraySort (Model/LibCall.v, the function that calls back), lifted from LibSeq's single heap of cells to the interpreter's
   world.  With it whole programs that use the wider library run inside the model.  No proofs here.

   The lifting [lift_seq] is a pure change of representation:
     * an interpreter array location l is heap position l, an object location l is position (#arrays + l);
       cells the call allocates come after both and are split again into arrays and objects, in allocation order;
     * a function value travels as a number (LibSeq never looks inside one): FScript id = 2 id,
       FLib name = 2 enc(name) + 1 with enc an injective base-1114113 numeral of the code points;
     * LibSeq's failures carry no message text, so in DEBUG mode (where the call wrapper logs the message) a failing
       lifted call is declined (LOracle) rather than guessed. *)
From Coq Require Import SpecFloat.
From BS Require Import Model.Base Model.Num Model.Arith Model.ExprParser Model.Script Model.Interp Model.LibCore Model.LibCall.
From BS Require Model.LibVal Model.LibSeq.
Local Open Scope N_scope.

Module V := BS.Model.LibVal.
Module Q := BS.Model.LibSeq.

(* ---- function values as numbers ---- *)
Definition enc_base : N := 1114113.
Definition enc_str (s : str) : N := fold_left (fun a c => a * enc_base + (c + 1)) s 0.
Fixpoint dec_str (fuel : nat) (n : N) (acc : str) : str :=
  match fuel with
  | O => acc
  | S f => if n =? 0 then acc else dec_str f (n / enc_base) ((n mod enc_base - 1) :: acc)
  end.
Definition enc_fn (f : fnref) : N :=
  match f with FScript id => 2 * N.of_nat id | FLib name => 2 * enc_str name + 1 end.
Definition dec_fn (n : N) : fnref :=
  if N.even n then FScript (N.to_nat (n / 2)) else let m := n / 2 in FLib (dec_str (S (N.to_nat (N.log2 m))) m []).

(* ---- values and heaps, forth ---- *)
Definition to_v (na : nat) (v : value) : V.value :=
  match v with
  | VNull => V.VNull | VBool b => V.VBool b | VNum n => V.VNum n | VStr s => V.VStr s | VDate us => V.VDate us
  | VArr l => V.VArr l | VObj l => V.VObj (na + l)%nat
  | VFun f => V.VFun (enc_fn f) | VRegex id => V.VRegex id
  end.

Definition heap_of (w : world) : V.heap :=
  let na := length (w_arrs w) in
  map (fun l => V.CArr (map (to_v na) l)) (w_arrs w) ++
  map (fun kv => V.CObj (map (fun p => (fst p, to_v na (snd p))) kv)) (w_objs w).

(* ---- and back ---- *)
Definition is_carr (c : V.cell) : bool := match c with V.CArr _ => true | V.CObj _ => false end.
Definition count_kind (arr : bool) (cs : list V.cell) (j : nat) : nat :=
  length (filter (fun c => Bool.eqb (is_carr c) arr) (firstn j cs)).

Section Back.
Variables (na no : nat) (fresh : list V.cell).      (* fresh = the cells allocated by the call *)

Definition loc_back (arr : bool) (p : nat) : nat :=
  if Nat.ltb p na then p
  else if Nat.ltb p (na + no) then (p - na)%nat
  else ((if arr then na else no) + count_kind arr fresh (p - (na + no)))%nat.

Definition of_v (v : V.value) : value :=
  match v with
  | V.VNull => VNull | V.VBool b => VBool b | V.VNum n => VNum n | V.VStr s => VStr s | V.VDate us => VDate us
  | V.VArr p => VArr (loc_back true p) | V.VObj p => VObj (loc_back false p)
  | V.VFun id => VFun (dec_fn id) | V.VRegex id => VRegex id
  end.

Definition arr_back (c : V.cell) : list value := match c with V.CArr l => map of_v l | V.CObj _ => [] end.
Definition obj_back (c : V.cell) : list (str * value) :=
  match c with V.CObj kv => map (fun p => (fst p, of_v (snd p))) kv | V.CArr _ => [] end.
End Back.

Section Lib.
Variable cfg : config.

Definition lift_seq (name : str) (args : list value) (w : world) : lres * world :=
  let na := length (w_arrs w) in
  let no := length (w_objs w) in
  let '(r, h') := Q.lib name (map (to_v na) args) (heap_of w) in
  let fresh := skipn (na + no)%nat h' in
  let back := of_v na no fresh in
  let arrs' := map (arr_back na no fresh) (firstn na h') ++ map (arr_back na no fresh) (filter is_carr fresh) in
  let objs' := map (obj_back na no fresh) (firstn no (skipn na h')) ++
               map (obj_back na no fresh) (filter (fun c => negb (is_carr c)) fresh) in
  let w' := upd_objs (upd_arrs w arrs') objs' in
  match r with
  | Q.LOk v => (LVal (back v), w')
  | Q.LArgsErr ret => if c_debug cfg then (LOracle, w) else (LArgs (back ret) [], w')
  | Q.LRaise => if c_debug cfg then (LOracle, w) else (LRaise [], w')
  | Q.LFuel => (LFuel, w)
  | Q.LOutOfModel | Q.LStuck => (LOracle, w)
  end.

(* the names LibCore answers itself (it has the message texts and the log) *)
Definition core_names : list str :=
  [U "systemLog"; U "systemLogDebug"; U "arrayNew"; U "arrayCopy"; U "arrayLength"; U "arrayPush"; U "arrayGet"; U "arraySet";
   U "objectNew"; U "objectGet"; U "objectSet"; U "objectHas"; U "stringLength"; U "stringNew";
   U "systemGlobalGet"; U "systemGlobalSet"; U "systemBoolean"; U "systemType"; U "systemCompare"; U "mathMax"; U "mathMin";
   U "__hostFirst"; U "__hostCount"].

Definition str_mem (s : str) (l : list str) : bool := existsb (str_eqb s) l.

Definition libfull (callback : caller) (name : str) (args : list value) (w : world) : lres * world :=
  if str_mem name core_names then libcore cfg callback name args w
  else if op_is name "arraySort" then lib_sort cfg callback args w
  else if str_mem name Q.modelled_functions then lift_seq name args w
  else (LOracle, w).

End Lib.
