(* LibAll.v — ONE library for the interpreter model: the core functions of Model/LibCore.v (those that log, read the
   globals, compare, or are host callables) overlaid with
     * arraySort (Model/LibCall.v, the function that calls back),
     * the array / object / string / regexEscape / urlEncode functions of Model/LibSeq.v (property C15's model), lifted from
       LibSeq's single heap of cells to the interpreter's world,
     * the JSON, number-text, datetime and math functions of Model/LibMore.v (lifted from the models of C14, C13, C16), and the
       JSON / ISO text of containers and datetimes for stringNew / systemLog.
   With it whole programs that use the wider library run inside the model.  notes/LIB.md lists every function, where its model
   comes from and what it declines.  No proofs here.

   The lifting [lift_seq] is a pure change of representation (Model/LibLift.v).  LibSeq's failures carry no message text, so in
   DEBUG mode (where the call wrapper logs the message) a failing lifted call is declined (LOracle) rather than guessed. *)
From Coq Require Import SpecFloat.
From BS Require Import Model.Base Model.Num Model.Arith Model.ExprParser Model.Script Model.Interp Model.LibCore Model.LibCall.
From BS Require Export Model.LibLift.
From BS Require Import Model.LibMore.
Local Open Scope N_scope.

Section Lib.
Variable cfg : config.

Definition lift_seq (name : str) (args : list value) (w : world) : lres * world :=
  let na := length (w_arrs w) in
  let no := length (w_objs w) in
  let '(r, h') := Q.lib name (map (to_v na) args) (heap_of w) in
  let fresh := skipn (na + no)%nat h' in
  let back := of_v na no fresh in
  let arrs' := map (arr_back na no fresh) (firstn na h') ++ map (arr_back na no fresh) (filter is_carr fresh) in
  let objs' := map (obj_back na no fresh) (firstn no (skipn na h')) ++
               map (obj_back na no fresh) (filter (fun c => negb (is_carr c)) fresh) in
  let w' := upd_objs (upd_arrs w arrs') objs' in
  match r with
  | Q.LOk v => (LVal (back v), w')
  | Q.LArgsErr ret => if c_debug cfg then (LOracle, w) else (LArgs (back ret) [], w')
  | Q.LRaise => if c_debug cfg then (LOracle, w) else (LRaise [], w')
  | Q.LFuel => (LFuel, w)
  | Q.LOutOfModel | Q.LStuck => (LOracle, w)
  end.

(* the names LibCore answers itself (it has the message texts and the log) *)
Definition core_names : list str :=
  [U "systemLog"; U "systemLogDebug"; U "arrayNew"; U "arrayCopy"; U "arrayLength"; U "arrayPush"; U "arrayGet"; U "arraySet";
   U "objectNew"; U "objectGet"; U "objectSet"; U "objectHas"; U "stringLength"; U "stringNew";
   U "systemGlobalGet"; U "systemGlobalSet"; U "systemBoolean"; U "systemType"; U "systemCompare"; U "mathMax"; U "mathMin";
   U "__hostFirst"; U "__hostCount"].

Definition str_mem (s : str) (l : list str) : bool := existsb (str_eqb s) l.

Definition libfull (callback : caller) (name : str) (args : list value) (w : world) : lres * world :=
  if text_override name args then libmore cfg name args w           (* stringNew / systemLog of a container or a datetime *)
  else if str_mem name core_names then libcore cfg callback name args w
  else if op_is name "arraySort" then lib_sort cfg callback args w
  else if str_mem name Q.modelled_functions then lift_seq name args w
  else if str_mem name more_names then libmore cfg name args w      (* Model/LibMore.v: JSON, number text, datetimes, math *)
  else (LOracle, w).

End Lib.
