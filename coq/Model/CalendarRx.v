(* CalendarRx.v — the ISO text functions of Model/Calendar.v once more, this time running the REGENERATED regular
   expressions of value.py (Gen/Regexes.v: _R_DATE, _R_DATETIME, _R_DATETIME_ZULU, _R_DATETIME_MICROSECOND,
   _R_DATETIME_TZ_CLEANUP) through the regex engine of Model/Regex.v, statement by statement as value.py does.
   The theorems of C16 are about the direct recognisers of Model/Calendar.v; the check evaluates BOTH variants inside
   Coq against the implementation on every sampled text, so a change of a regex shows up as a disagreement. No proofs here. *)
From Coq Require Import ZArith List Bool.
From BS Require Import Model.Base Model.Regex Model.Calendar Gen.Regexes Gen.Unicode.
Local Open Scope Z_scope.

(* int() of a run of Unicode decimal digits *)
Fixpoint py_int_digits (s : str) (acc : Z) : option Z :=
  match s with
  | [] => Some acc
  | c :: t => match udigit c with Some d => py_int_digits t (acc * 10 + d) | None => None end
  end.

Definition gtext (s : str) (c : caps) (n : nat) : str := match group_text s c n with Some t => t | None => [] end.

Definition pad6 (v : Z) : str :=
  [dchar (v / 100000); dchar (v / 10000 mod 10); dchar (v / 1000 mod 10); dchar (v / 100 mod 10); dchar (v / 10 mod 10); dchar (v mod 10)].

(* aware_datetime.isoformat(): `.ffffff` only when microsecond != 0, `:SS` of the offset only when non-zero *)
Definition py_isoformat (f : dtf) (o : Z) : str :=
  let a := Z.abs o in
  date_text f ++ [C_T] ++ pad2 (f_hour f) ++ [C_COLON] ++ pad2 (f_minute f) ++ [C_COLON] ++ pad2 (f_second f)
  ++ (if f_us f =? 0 then [] else C_DOT :: pad6 (f_us f))
  ++ (if o <? 0 then C_DASH else C_PLUS) :: pad2 (a / 3600) ++ [C_COLON] ++ pad2 (a / 60 mod 60)
  ++ (if a mod 60 =? 0 then [] else C_COLON :: pad2 (a mod 60)).

(* value_string, datetime branch, after `iso = ....astimezone().isoformat()` *)
Definition value_string_tail (iso : str) : dres str :=
  dbind
    (match re_search UC R_DATETIME_MICROSECOND iso with
     | MFuel => DFuel
     | MNo => DOk iso
     | MYes _ c =>
       match cap_get 0 c with
       | Some (b, e) =>
         match py_int_digits (sub_list iso (S b) (e - S b)) 0 with
         | Some v => DOk (firstn b iso ++ [C_DOT] ++ pad3 (v / 1000) ++ skipn e iso)
         | None => DExc
         end
       | None => DExc
       end
     end)
    (fun iso1 =>
       match re_sub UC R_DATETIME_TZ_CLEANUP (fun whole c => gtext whole c 1) iso1 with
       | Some t => DOk t
       | None => DFuel
       end).

Section Zone.
Variable off_local : Z -> Z.
Variable off_utc : Z -> Z.

Definition iso_format_rx (w : Z) : dres str :=
  dbind (astimezone_naive off_local off_utc w) (fun lo => value_string_tail (py_isoformat (fields (fst lo)) (snd lo))).

(* value_parse_datetime, statement by statement; DExc = an exception the function does not catch *)
Definition iso_parse_rx (s : str) : dres (option Z) :=
  match re_match UC R_DATE s with
  | MFuel => DFuel
  | MYes _ c =>
    match py_int_digits (gtext s c R_DATE__year) 0, py_int_digits (gtext s c R_DATE__month) 0,
          py_int_digits (gtext s c R_DATE__day) 0 with
    | Some y, Some m, Some d => DOk (dres_opt (py_datetime (mkf y m d 0 0 0 0)))
    | _, _, _ => DExc
    end
  | MNo =>
    match re_match UC R_DATETIME s with
    | MFuel => DFuel
    | MNo => DOk None
    | MYes _ _ =>
      match re_sub UC R_DATETIME_ZULU (fun _ _ => U "+00:00") s with
      | None => DFuel
      | Some s' =>
        (* datetime.fromisoformat on a text of this shape: ASCII digits only, nothing after the offset *)
        match parse_datetime_form s' with
        | Some (f, o) => DOk (fromiso_to_local off_utc f o)
        | None => DOk None
        end
      end
    end
  end.
End Zone.
