(* LibCore.v — the library functions that the generated programs of the interpreter checks use, as an
   instance of the [lib] parameter of Model/Interp.v (transliterations of library.py / value.py
   value_args_validate).  Every other name answers LOracle.  No proofs here. *)
From Coq Require Import SpecFloat.
From BS Require Import Model.Base Model.Num Model.Arith Model.ExprParser Model.Script Model.Interp.
Local Open Scope Z_scope.

Inductive atype := TAny | TBool | TNumber | TString | TArray | TObject | TFunction.
Record aspec := { a_type : atype; a_nullable : bool; a_last : bool; a_int : bool; a_gte0 : bool }.
Definition A (t : atype) : aspec := {| a_type := t; a_nullable := false; a_last := false; a_int := false; a_gte0 := false |}.
Definition ALast : aspec := {| a_type := TAny; a_nullable := false; a_last := true; a_int := false; a_gte0 := false |}.
Definition AIndex : aspec := {| a_type := TNumber; a_nullable := false; a_last := false; a_int := true; a_gte0 := true |}.

Inductive varg := AV (v : value) | AL (l : list value).
Inductive vres := VOk (l : list varg) | VArgsErr | VRaise.

Definition type_ok (t : atype) (v : value) : bool :=
  match t, v with
  | TNumber, VNum _ | TString, VStr _ | TArray, VArr _ | TObject, VObj _ | TFunction, VFun _ => true
  | _, _ => false
  end.

(* int(x) != x ; None = int() raises (nan, inf) *)
Definition not_integral (n : num) : option bool :=
  match n with
  | NInt _ => Some false
  | NFlt f => if sf_is_finite f then Some (match sf_integral f with Some _ => false | None => true end) else None
  end.
Definition num_neg_p (n : num) : bool := match num_compare n (NInt 0) with Some Lt => true | Some _ => false | None => true end.   (* not (x >= 0) *)

Definition vcons (a : varg) (r : vres) : vres := match r with VOk l => VOk (a :: l) | e => e end.

Fixpoint validate (w : world) (specs : list aspec) (args : list value) : vres :=
  match specs with
  | [] => match args with [] => VOk [] | _ => VArgsErr end
  | sp :: rest =>
    match args with
    | [] =>
      if a_last sp then vcons (AL []) (validate w rest [])
      else match a_type sp with
           | TBool => vcons (AV (VBool false)) (validate w rest [])
           | TAny => vcons (AV VNull) (validate w rest [])
           | _ => if a_nullable sp then vcons (AV VNull) (validate w rest []) else VArgsErr
           end
    | a :: t =>
      if a_last sp then vcons (AL (a :: t)) (validate w rest [])
      else match a_type sp with
           | TAny => vcons (AV a) (validate w rest t)
           | TBool => vcons (AV (VBool (truthy w a))) (validate w rest t)
           | ty =>
             match a with
             | VNull => if a_nullable sp then vcons (AV a) (validate w rest t) else VArgsErr
             | _ =>
               if negb (type_ok ty a) then VArgsErr
               else match a with
                    | VNum n =>
                      match (if a_int sp then not_integral n else Some false) with
                      | None => VRaise
                      | Some true => VArgsErr
                      | Some false => if a_gte0 sp && num_neg_p n then VArgsErr else vcons (AV a) (validate w rest t)
                      end
                    | _ => vcons (AV a) (validate w rest t)
                    end
             end
           end
    end
  end.

Definition num_to_nat (n : num) : option nat :=
  match n with
  | NInt z => if 0 <=? z then Some (Z.to_nat z) else None
  | NFlt f => match sf_integral f with Some z => if 0 <=? z then Some (Z.to_nat z) else None | None => None end
  end.

Definition get_arr (w : world) (l : nat) : list value := match nth_error (w_arrs w) l with Some x => x | None => [] end.
Definition get_obj (w : world) (l : nat) : list (str * value) := match nth_error (w_objs w) l with Some x => x | None => [] end.
Definition set_arr (w : world) (l : nat) (x : list value) : world := upd_arrs w (set_nth (w_arrs w) l x).
Definition set_obj (w : world) (l : nat) (x : list (str * value)) : world := upd_objs w (set_nth (w_objs w) l x).

Definition ret_of (r : vres) (ret : value) : lres := match r with VRaise => LRaise (U "error") | _ => LArgs ret (U "args") end.

Definition int_val (z : Z) : value := VNum (NInt z).
Definition msg_recursion : str := U "maximum recursion depth exceeded".

Section Lib.
Variable cfg : config.

Fixpoint objnew (args : list value) (acc : list (str * value)) (fuel : nat) : option (list (str * value)) :=
  match fuel with
  | O => Some acc
  | S f =>
    match args with
    | [] => Some acc
    | VStr k :: v :: t => objnew t (env_set k v acc) f
    | [VStr k] => Some (env_set k VNull acc)
    | _ => None
    end
  end.

Fixpoint minmax (w : world) (want : comparison) (vals : list value) (cur : option value) : option (option value) :=
  match vals with
  | [] => Some cur
  | v :: t =>
    match cur with
    | None => minmax w want t (Some v)
    | Some c =>
      match vcompare (cmp_fuel w) w v c with
      | Some r => minmax w want t (Some (match r, want with Gt, Gt | Lt, Lt => v | _, _ => c end))
      | None => None
      end
    end
  end.

Definition libcore (callback : caller) (name : str) (args : list value) (w : world) : lres * world :=
  if op_is name "systemLog" || op_is name "systemLogDebug" then
    match validate w [A TAny] args with
    | VOk [AV m] =>
      if c_haslog cfg && (op_is name "systemLog" || c_debug cfg) then
        match vstring m with
        | ARes s => (LVal VNull, add_log w s)
        | AErr => (LRaise (U "error"), w)
        | AOracle => (LOracle, w)
        end
      else (LVal VNull, w)
    | r => (ret_of r VNull, w)
    end
  else if op_is name "arrayNew" then
    let '(v, w1) := alloc_arr w args in (LVal v, w1)
  else if op_is name "arrayCopy" then
    match validate w [A TArray] args with
    | VOk [AV (VArr l)] => let '(v, w1) := alloc_arr w (get_arr w l) in (LVal v, w1)
    | r => (ret_of r VNull, w)
    end
  else if op_is name "arrayLength" then
    match validate w [A TArray] args with
    | VOk [AV (VArr l)] => (LVal (int_val (Z.of_nat (length (get_arr w l)))), w)
    | r => (ret_of r (int_val 0), w)
    end
  else if op_is name "arrayPush" then
    match validate w [A TArray; ALast] args with
    | VOk [AV (VArr l); AL vs] => (LVal (VArr l), set_arr w l (get_arr w l ++ vs))
    | r => (ret_of r VNull, w)
    end
  else if op_is name "arrayGet" then
    match validate w [A TArray; AIndex] args with
    | VOk [AV (VArr l); AV (VNum n)] =>
      match num_to_nat n with
      | Some i => match nth_error (get_arr w l) i with Some v => (LVal v, w) | None => (LArgs VNull (U "index"), w) end
      | None => (LRaise (U "error"), w)
      end
    | r => (ret_of r VNull, w)
    end
  else if op_is name "arraySet" then
    match validate w [A TArray; AIndex; A TAny] args with
    | VOk [AV (VArr l); AV (VNum n); AV v] =>
      match num_to_nat n with
      | Some i => if Nat.ltb i (length (get_arr w l)) then (LVal v, set_arr w l (set_nth (get_arr w l) i v)) else (LArgs VNull (U "index"), w)
      | None => (LRaise (U "error"), w)
      end
    | r => (ret_of r VNull, w)
    end
  else if op_is name "objectNew" then
    match objnew args [] (S (length args)) with
    | Some o => let '(v, w1) := alloc_obj w o in (LVal v, w1)
    | None => (LArgs VNull (U "keyValues"), w)
    end
  else if op_is name "objectGet" then
    let dflt := nth 2 args VNull in
    match validate w [A TObject; A TString; A TAny] args with
    | VOk [AV (VObj l); AV (VStr k); AV d] => (LVal (match env_get k (get_obj w l) with Some v => v | None => d end), w)
    | r => (ret_of r dflt, w)
    end
  else if op_is name "objectSet" then
    match validate w [A TObject; A TString; A TAny] args with
    | VOk [AV (VObj l); AV (VStr k); AV v] => (LVal v, set_obj w l (env_set k v (get_obj w l)))
    | r => (ret_of r VNull, w)
    end
  else if op_is name "objectHas" then
    match validate w [A TObject; A TString] args with
    | VOk [AV (VObj l); AV (VStr k)] => (LVal (VBool (env_has k (get_obj w l))), w)
    | r => (ret_of r (VBool false), w)
    end
  else if op_is name "stringLength" then
    match validate w [A TString] args with
    | VOk [AV (VStr s)] => (LVal (int_val (Z.of_nat (length s))), w)
    | r => (ret_of r (int_val 0), w)
    end
  else if op_is name "stringNew" then
    match validate w [A TAny] args with
    | VOk [AV v] => match vstring v with ARes s => (LVal (VStr s), w) | AErr => (LRaise (U "error"), w) | AOracle => (LOracle, w) end
    | r => (ret_of r VNull, w)
    end
  else if op_is name "systemGlobalGet" then
    match validate w [A TString; A TAny] args with
    | VOk [AV (VStr k); AV d] => (LVal (match env_get k (w_globals w) with Some v => v | None => d end), w)
    | r => (ret_of r VNull, w)
    end
  else if op_is name "systemGlobalSet" then
    match validate w [A TString; A TAny] args with
    | VOk [AV (VStr k); AV v] => (LVal v, upd_globals w (env_set k v (w_globals w)))
    | r => (ret_of r VNull, w)
    end
  else if op_is name "systemBoolean" then
    match validate w [A TAny] args with
    | VOk [AV v] => (LVal (VBool (truthy w v)), w)
    | r => (ret_of r VNull, w)
    end
  else if op_is name "systemType" then
    match validate w [A TAny] args with
    | VOk [AV v] => (LVal (VStr (type_name v)), w)
    | r => (ret_of r VNull, w)
    end
  else if op_is name "systemCompare" then
    match validate w [A TAny; A TAny] args with
    | VOk [AV a; AV b] =>
      match vcompare (cmp_fuel w) w a b with
      | Some c => (LVal (int_val (match c with Lt => -1 | Eq => 0 | Gt => 1 end)), w)
      | None => (LRaise msg_recursion, w)          (* a value that contains itself: RecursionError inside the library function *)
      end
    | r => (ret_of r VNull, w)
    end
  else if op_is name "mathMax" || op_is name "mathMin" then
    match minmax w (if op_is name "mathMax" then Gt else Lt) args None with
    | Some (Some v) => (LVal v, w)
    | Some None => (LVal VNull, w)
    | None => (LRaise msg_recursion, w)
    end
  (* two host functions of the test harness (python callables placed in the globals by the host) *)
  else if op_is name "__hostFirst" then (LVal (nth 0 args VNull), w)
  else if op_is name "__hostCount" then (LVal (int_val (Z.of_nat (length args))), w)
  else (LOracle, w).

End Lib.
