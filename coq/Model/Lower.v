(* Lower.v — Script.pstep factored into  classify (regexes + expression parsing)  and a PURE lowering
   step  kstep  over line kinds (no regexes).  Proofs/C07.v proves
       pstep ps n line = sbind (classify n line) (kstep ps n line)
   so every theorem about kstep is a theorem about the model that the correspondence check ties to
   parser.py.  No proofs here. *)
From Coq Require Import SpecFloat.
From BS Require Import Model.Base Model.Regex Model.Num Model.ExprParser Model.Script Gen.Unicode Gen.Regexes.

Definition sbind {A B} (r : sres A) (f : A -> sres B) : sres B :=
  match r with ROk a => f a | RErr e => RErr e | RHost w => RHost w | RFuel => RFuel end.

(* What a logical line is, with everything the lowering needs as data.  Two kinds carry a DELAYED
   result (sres): parser.py raises "Nested function definition" before it splits the argument list
   and "No matching if statement"/"Elif statement following else statement" before it parses the
   elif condition, so these sub-results are only inspected by kstep, in the code's order. *)
Inductive line_kind :=
| KAssign (name : str) (e : expr)
| KFnBegin (name : str) (args : sres (option (list str))) (async lastarg : bool)
| KFnEnd
| KIf (e : expr)
| KElif (e : sres expr)
| KElse
| KEndif
| KWhile (e : expr)
| KEndwhile
| KFor (value index : str) (values : expr)       (* index = [] : no index variable given *)
| KEndfor
| KBreak
| KContinue
| KLabel (name : str)
| KJump (name : str) (cond : option expr)
| KReturn (e : option expr)
| KInclude (url : str) (system : bool)
| KExpr (e : expr).

(* the match cascade of parse_script's loop body, in the code's order *)
Definition classify (lineno : nat) (line : str) : sres line_kind :=
  match rxm R_SCRIPT_ASSIGNMENT line with
  | MFuel => RFuel
  | MYes _ c =>
    let ex := gtext line c R_SCRIPT_ASSIGNMENT__expr in
    match stmt_expr ex line (length line - length ex) lineno with
    | ROk e => ROk (KAssign (gtext line c R_SCRIPT_ASSIGNMENT__name) e)
    | RErr e => RErr e | RHost w => RHost w | RFuel => RFuel
    end
  | MNo =>
  match rxm R_SCRIPT_FUNCTION_BEGIN line with
  | MFuel => RFuel
  | MYes _ c =>
    ROk (KFnBegin (gtext line c R_SCRIPT_FUNCTION_BEGIN__name)
           (if ghas c R_SCRIPT_FUNCTION_BEGIN__args
            then match re_split UC R_SCRIPT_FUNCTION_ARG_SPLIT (gtext line c R_SCRIPT_FUNCTION_BEGIN__args) with
                 | Some l => ROk (Some l) | None => RFuel end
            else ROk None)
           (ghas c R_SCRIPT_FUNCTION_BEGIN__async) (ghas c R_SCRIPT_FUNCTION_BEGIN__lastArgArray))
  | MNo =>
  match rxm R_SCRIPT_FUNCTION_END line with
  | MFuel => RFuel
  | MYes _ _ => ROk KFnEnd
  | MNo =>
  match rxm R_SCRIPT_IF_BEGIN line with
  | MFuel => RFuel
  | MYes _ c =>
    match stmt_expr (gtext line c R_SCRIPT_IF_BEGIN__expr) line (gstart c R_SCRIPT_IF_BEGIN__expr) lineno with
    | ROk e => ROk (KIf e)
    | RErr e => RErr e | RHost w => RHost w | RFuel => RFuel
    end
  | MNo =>
  match rxm R_SCRIPT_IF_ELSE_IF line with
  | MFuel => RFuel
  | MYes _ c =>
    ROk (KElif (stmt_expr (gtext line c R_SCRIPT_IF_ELSE_IF__expr) line (gstart c R_SCRIPT_IF_ELSE_IF__expr) lineno))
  | MNo =>
  match rxm R_SCRIPT_IF_ELSE line with
  | MFuel => RFuel
  | MYes _ _ => ROk KElse
  | MNo =>
  match rxm R_SCRIPT_IF_END line with
  | MFuel => RFuel
  | MYes _ _ => ROk KEndif
  | MNo =>
  match rxm R_SCRIPT_WHILE_BEGIN line with
  | MFuel => RFuel
  | MYes _ c =>
    match stmt_expr (gtext line c R_SCRIPT_WHILE_BEGIN__expr) line (gstart c R_SCRIPT_WHILE_BEGIN__expr) lineno with
    | ROk e => ROk (KWhile e)
    | RErr e => RErr e | RHost w => RHost w | RFuel => RFuel
    end
  | MNo =>
  match rxm R_SCRIPT_WHILE_END line with
  | MFuel => RFuel
  | MYes _ _ => ROk KEndwhile
  | MNo =>
  match rxm R_SCRIPT_FOR_BEGIN line with
  | MFuel => RFuel
  | MYes _ c =>
    match stmt_expr (gtext line c R_SCRIPT_FOR_BEGIN__values) line (gstart c R_SCRIPT_FOR_BEGIN__values) lineno with
    | ROk e => ROk (KFor (gtext line c R_SCRIPT_FOR_BEGIN__value) (gtext line c R_SCRIPT_FOR_BEGIN__index) e)
    | RErr e => RErr e | RHost w => RHost w | RFuel => RFuel
    end
  | MNo =>
  match rxm R_SCRIPT_FOR_END line with
  | MFuel => RFuel
  | MYes _ _ => ROk KEndfor
  | MNo =>
  match rxm R_SCRIPT_BREAK line with
  | MFuel => RFuel
  | MYes _ _ => ROk KBreak
  | MNo =>
  match rxm R_SCRIPT_CONTINUE line with
  | MFuel => RFuel
  | MYes _ _ => ROk KContinue
  | MNo =>
  match rxm R_SCRIPT_LABEL line with
  | MFuel => RFuel
  | MYes _ c => ROk (KLabel (gtext line c R_SCRIPT_LABEL__name))
  | MNo =>
  match rxm R_SCRIPT_JUMP line with
  | MFuel => RFuel
  | MYes _ c =>
    let name := gtext line c R_SCRIPT_JUMP__name in
    let ex := gtext line c R_SCRIPT_JUMP__expr in
    match ex with
    | [] => ROk (KJump name None)
    | _ =>
      match stmt_expr ex line (length (gtext line c R_SCRIPT_JUMP__jump) - length ex - 1) lineno with
      | ROk e => ROk (KJump name (Some e))
      | RErr e => RErr e | RHost w => RHost w | RFuel => RFuel
      end
    end
  | MNo =>
  match rxm R_SCRIPT_RETURN line with
  | MFuel => RFuel
  | MYes _ c =>
    let ex := gtext line c R_SCRIPT_RETURN__expr in
    match ex with
    | [] => ROk (KReturn None)
    | _ =>
      match stmt_expr ex line (length (gtext line c R_SCRIPT_RETURN__return) - length ex) lineno with
      | ROk e => ROk (KReturn (Some e))
      | RErr e => RErr e | RHost w => RHost w | RFuel => RFuel
      end
    end
  | MNo =>
  let inc :=
    match rxm R_SCRIPT_INCLUDE line with
    | MFuel => RFuel
    | MYes _ c =>
      match unesc R_EXPR_STRING_ESCAPE (gtext line c R_SCRIPT_INCLUDE__url) with
      | ROk u => ROk (Some (u, false)) | RErr e => RErr e | RHost w => RHost w | RFuel => RFuel
      end
    | MNo =>
      match rxm R_SCRIPT_INCLUDE_SYSTEM line with
      | MFuel => RFuel
      | MYes _ c => ROk (Some (gtext line c R_SCRIPT_INCLUDE_SYSTEM__url, true))
      | MNo => ROk None
      end
    end in
  match inc with
  | RFuel => RFuel | RHost w => RHost w | RErr e => RErr e
  | ROk (Some i) => ROk (KInclude (fst i) (snd i))
  | ROk None =>
  match parse_expression line with
  | EOk e => ROk (KExpr e)
  | EErr msg col => RErr (err msg line col lineno)
  | EHost w => RHost w
  | EFuel => RFuel
  end
  end end end end end end end end end end end end end end end end end.

(* the frames the structured-statement handlers may look at: label_defs[-1] if len(label_defs) > label_def_depth *)
Definition visible_frames (ps : pstate) : list frame :=
  if Nat.ltb (depth_floor ps) (length (ps_frames ps)) then ps_frames ps else [].

(* the lowering proper: no regex, no parsing *)
Definition kstep (ps : pstate) (lineno : nat) (line : str) (k : line_kind) : sres pstate :=
  let E (msg : str) := RErr (err msg line 1 lineno) in
  match k with
  | KAssign name e => ROk (emit ps [SExpr (Some name) e])
  | KFnBegin name args async lastarg =>
    match ps_fn ps with
    | Some _ => E (U "Nested function definition")
    | None =>
      match args with
      | ROk a =>
        ROk {| ps_global := ps_global ps;
               ps_fn := Some {| fo_name := name; fo_args := a; fo_async := async; fo_lastarg := lastarg;
                                fo_body := []; fo_line := line; fo_lineno := lineno |};
               ps_fn_depth := length (ps_frames ps); ps_frames := ps_frames ps; ps_index := ps_index ps |}
      | RErr e => RErr e | RHost w => RHost w | RFuel => RFuel
      end
    end
  | KFnEnd =>
    match ps_fn ps with
    | None => E (U "No matching function definition")
    | Some fo =>
      if Nat.ltb (ps_fn_depth ps) (length (ps_frames ps)) then
        match ps_frames ps with
        | f :: _ => RErr (err (U "Missing end" ++ frame_key f ++ U " statement") (frame_line f) 1 (frame_lineno f))
        | [] => RHost (U "IndexError")
        end
      else
        ROk {| ps_global := ps_global ps ++ [SFunction (fo_name fo) (fo_args fo) (fo_async fo) (fo_lastarg fo) (fo_body fo)];
               ps_fn := None; ps_fn_depth := 0; ps_frames := ps_frames ps; ps_index := ps_index ps |}
    end
  | KIf e =>
    let n := ps_index ps in
    let pos := length (cur_stmts ps) in
    let ps1 := emit ps [SJump (lbl L_If n) (Some (e_not e))] in
    ROk (bump (set_frames ps1 (FIf pos (lbl L_If n) (lbl L_Done n) false line lineno :: ps_frames ps)))
  | KElif re =>
    match (if Nat.ltb (depth_floor ps) (length (ps_frames ps)) then ps_frames ps else []) with
    | FIf _ jl done has_else fl fn :: rest =>
      if has_else then E (U "Elif statement following else statement")
      else
        match re with
        | ROk e =>
          let n := ps_index ps in
          let pos := length (cur_stmts ps) + 2 in
          let ps1 := emit ps [SJump done None; SLabel jl; SJump (lbl L_If n) (Some (e_not e))] in
          ROk (bump (set_frames ps1 (FIf pos (lbl L_If n) done false fl fn :: rest)))
        | RErr e => RErr e | RHost w => RHost w | RFuel => RFuel
        end
    | _ => E (U "No matching if statement")
    end
  | KElse =>
    match (if Nat.ltb (depth_floor ps) (length (ps_frames ps)) then ps_frames ps else []) with
    | FIf pos jl done has_else fl fn :: rest =>
      if has_else then E (U "Multiple else statements")
      else ROk (set_frames (emit ps [SJump done None; SLabel jl]) (FIf pos jl done true fl fn :: rest))
    | _ => E (U "No matching if statement")
    end
  | KEndif =>
    match (if Nat.ltb (depth_floor ps) (length (ps_frames ps)) then ps_frames ps else []) with
    | FIf pos jl done has_else _ _ :: rest =>
      let stmts :=
        if has_else then Some (cur_stmts ps) else retarget pos done (cur_stmts ps) in
      match stmts with
      | Some l => ROk (set_frames (set_stmts ps (l ++ [SLabel done])) rest)
      | None => RHost (U "model: pending jump not found")
      end
    | _ => E (U "No matching if statement")
    end
  | KWhile e =>
    let n := ps_index ps in
    let ps1 := emit ps [SJump (lbl L_Done n) (Some (e_not e)); SLabel (lbl L_Loop n)] in
    ROk (bump (set_frames ps1 (FWhile (lbl L_Loop n) (lbl L_Loop n) (lbl L_Done n) e false line lineno :: ps_frames ps)))
  | KEndwhile =>
    if Nat.leb (length (ps_frames ps)) (depth_floor ps) then E (U "No matching while statement")
    else match ps_frames ps with
         | FWhile loop _ done e _ _ _ :: rest =>
           ROk (set_frames (emit ps [SJump loop (Some e); SLabel done]) rest)
         | _ => E (U "No matching while statement")
         end
  | KFor value_name index_name e =>
    let n := ps_index ps in
    let index := match index_name with [] => lbl L_Index n | a :: b => a :: b end in
    let values := lbl L_Values n in
    let len := lbl L_Length n in
    let value := value_name in
    let ps1 := emit ps
      [SExpr (Some values) e;
       SExpr (Some len) (ECall (U "arrayLength") [EVar values]);
       SJump (lbl L_Done n) (Some (e_not (EVar len)));
       SExpr (Some index) (ENum (NInt 0));
       SLabel (lbl L_Loop n);
       SExpr (Some value) (ECall (U "arrayGet") [EVar values; EVar index])] in
    ROk (bump (set_frames ps1 (FFor (lbl L_Loop n) (lbl L_Continue n) (lbl L_Done n) index values len value false line lineno
                                 :: ps_frames ps)))
  | KEndfor =>
    if Nat.leb (length (ps_frames ps)) (depth_floor ps) then E (U "No matching for statement")
    else match ps_frames ps with
         | FFor loop cont done index _ len _ has_cont _ _ :: rest =>
           ROk (set_frames (emit ps ((if has_cont then [SLabel cont] else []) ++
                  [SExpr (Some index) (EBin (U "+") (EVar index) (ENum (NInt 1)));
                   SJump loop (Some (EBin (U "<") (EVar index) (EVar len)));
                   SLabel done])) rest)
         | _ => E (U "No matching for statement")
         end
  | KBreak =>
    match find_loop (ps_frames ps) 0 with
    | Some (k, f) =>
      if Nat.ltb (length (ps_frames ps) - 1 - k) (depth_floor ps) then E (U "Break statement outside of loop")
      else ROk (emit ps [SJump (frame_done f) None])
    | None => E (U "Break statement outside of loop")
    end
  | KContinue =>
    match find_loop (ps_frames ps) 0 with
    | Some (k, f) =>
      if Nat.ltb (length (ps_frames ps) - 1 - k) (depth_floor ps) then E (U "Continue statement outside of loop")
      else ROk (emit (set_frames ps (set_nth_frame (ps_frames ps) k (mark_continue f))) [SJump (frame_continue f) None])
    | None => E (U "Continue statement outside of loop")
    end
  | KLabel name => ROk (emit ps [SLabel name])
  | KJump name cond => ROk (emit ps [SJump name cond])
  | KReturn e => ROk (emit ps [SReturn e])
  | KInclude url system =>
    match last_is_include (cur_stmts ps) with
    | Some (front, incs) => ROk (set_stmts ps (front ++ [SInclude (incs ++ [(url, system)])]))
    | None => ROk (emit ps [SInclude [(url, system)]])
    end
  | KExpr e => ROk (emit ps [SExpr None e])
  end.

(* ---- the line front end as a list of logical lines (what ploop feeds to pstep) ---- *)
Fixpoint logical_lines (lines : list str) (ix_part : nat) (ls : lstate) : list (nat * str) :=
  match lines with
  | [] => []
  | part :: rest =>
    match lstep ls ix_part part with
    | LSkip ls' => logical_lines rest (S ix_part) ls'
    | LLine ls' ix line => (ix, line) :: logical_lines rest (S ix_part) ls'
    | LBad _ => []
    end
  end.

Definition script_lines (chunks : list str) : list (nat * str) :=
  match split_chunks chunks with
  | ROk lines => logical_lines lines 0 {| l_cont := []; l_ix := 0 |}
  | _ => []
  end.

(* ---- the reserved prefix and "the program does not itself use it" ---- *)
Definition RESERVED : str := U "__bareScript".
Definition reserved (l : str) : bool := str_prefix RESERVED l.

Definition kind_clean (k : line_kind) : bool :=
  match k with
  | KLabel name => negb (reserved name)
  | KJump name _ => negb (reserved name)
  | _ => true
  end.

(* no `label:` / `jump label` / `jumpif (...) label` line of the program names a reserved label *)
Definition line_clean (lineno : nat) (line : str) : bool :=
  match classify lineno line with ROk k => kind_clean k | _ => true end.
Definition user_clean (chunks : list str) (start : nat) : bool :=
  forallb (fun il => line_clean (start + fst il) (snd il)) (script_lines chunks).

(* ---- static well-formedness of one scope, as counting functions and as a boolean check ---- *)
Definition d1 (l : str) (s : stmt) : nat := match s with SLabel l' => if str_eqb l l' then 1 else 0 | _ => 0 end.
Definition r1 (l : str) (s : stmt) : nat := match s with SJump l' _ => if str_eqb l l' then 1 else 0 | _ => 0 end.
Fixpoint defs (l : str) (c : list stmt) : nat := match c with [] => 0 | s :: c' => d1 l s + defs l c' end.
Fixpoint refs (l : str) (c : list stmt) : nat := match c with [] => 0 | s :: c' => r1 l s + refs l c' end.

(* every reserved jump target is defined exactly once in the scope; every reserved label is targeted *)
Definition scope_wfb (c : list stmt) : bool :=
  forallb (fun s => match s with
                    | SJump l _ => negb (reserved l) || Nat.eqb (defs l c) 1
                    | SLabel l => negb (reserved l) || Nat.leb 1 (refs l c)
                    | _ => true
                    end) c.
Definition script_wfb (c : script) : bool :=
  scope_wfb c && forallb (fun s => match s with SFunction _ _ _ _ b => scope_wfb b | _ => true end) c.

(* ---- runtime.py: the label lookup of a jump ( next((ix for ix, stmt in enumerate(statements) if stmt.get('label') == l), -1) ) ---- *)
Fixpoint find_first_label (l : str) (c : list stmt) (ix : nat) : option nat :=
  match c with
  | [] => None
  | SLabel l' :: t => if str_eqb l' l then Some ix else find_first_label l t (S ix)
  | _ :: t => find_first_label l t (S ix)
  end.

(* ---- model.py lint_script, the three label checks of one scope (labels as they would be reported) ---- *)
Fixpoint lint_redefined (c : list stmt) (seen : list str) : list str :=
  match c with
  | [] => []
  | SLabel l :: t => if str_mem l seen then l :: lint_redefined t seen else lint_redefined t (l :: seen)
  | _ :: t => lint_redefined t seen
  end.
Fixpoint labels_defined (c : list stmt) : list str :=
  match c with [] => [] | SLabel l :: t => l :: labels_defined t | _ :: t => labels_defined t end.
Fixpoint labels_used (c : list stmt) : list str :=
  match c with [] => [] | SJump l _ :: t => l :: labels_used t | _ :: t => labels_used t end.
Definition lint_unused (c : list stmt) : list str :=
  filter (fun l => negb (str_mem l (labels_used c))) (labels_defined c).
Definition lint_unknown (c : list stmt) : list str :=
  filter (fun l => negb (str_mem l (labels_defined c))) (labels_used c).
Definition lint_labels (c : list stmt) : list str := lint_redefined c [] ++ lint_unused c ++ lint_unknown c.

(* ---- model.py BARE_SCRIPT_TYPES as a predicate on the model's typed tree.
   The constructors of stmt/expr already give "exactly one member of the union" and the member types;
   what the schema adds: arrays with a [len > 0] attribute, operators drawn from the two enums,
   numbers that are floats (finite or not, but JSON numbers: not bool/None), nesting. ---- *)
Definition BIN_OPS : list str :=
  [U "**"; U "*"; U "/"; U "%"; U "+"; U "-"; U "<="; U "<"; U ">="; U ">"; U "=="; U "!="; U "&&"; U "||"].
Definition UN_OPS : list str := [U "-"; U "!"].

Fixpoint expr_schema (e : expr) : bool :=
  match e with
  | ENum _ | EStr _ | EVar _ => true
  | ECall _ args => forallb expr_schema args
  | EBin op l r => str_mem op BIN_OPS && expr_schema l && expr_schema r
  | EUn op a => str_mem op UN_OPS && expr_schema a
  | EGroup a => expr_schema a
  end.
Definition oexpr_schema (o : option expr) : bool := match o with Some e => expr_schema e | None => true end.

Fixpoint stmt_schema (s : stmt) : bool :=
  match s with
  | SExpr _ e => expr_schema e
  | SJump _ c => oexpr_schema c
  | SReturn e => oexpr_schema e
  | SLabel _ => true
  | SFunction _ args _ _ body =>
    match args with Some [] => false | _ => true end &&          (* optional string[len > 0] args *)
    forallb stmt_schema body
  | SInclude incs => match incs with [] => false | _ => true end   (* IncludeScript[len > 0] includes *)
  end.
Definition script_schema (c : script) : bool := forallb stmt_schema c.

(* what the schema needs from one classified line: operators of the two enums in its expressions *)
Definition kind_schema (k : line_kind) : bool :=
  match k with
  | KAssign _ e | KIf e | KWhile e | KFor _ _ e | KExpr e => expr_schema e
  | KElif (ROk e) => expr_schema e
  | KJump _ c | KReturn c => oexpr_schema c
  | _ => true
  end.
Definition line_schema (lineno : nat) (line : str) : bool :=
  match classify lineno line with ROk k => kind_schema k | _ => true end.
Definition user_exprs_schema (chunks : list str) (start : nat) : bool :=
  forallb (fun il => line_schema (start + fst il) (snd il)) (script_lines chunks).
