(* NumText.v — numbers to text and back (property C13).  Executable Gallina only; proofs in Proofs/C13.v.

   value.py value_string (number branches) + R_NUMBER_CLEANUP, value_parse_number, value_parse_integer;
   parser.py numeric literal (_R_EXPR_NUMBER).  The regexes themselves are REGENERATED (Gen/Regexes.v);
   [cleanup] and [lit_match] below are direct functions that the proofs reason about, tied to the regenerated
   regexes run by the generic engine (Model/Regex.v) by the pins and checks listed in Proofs/C13.v and harness/c13.py. *)
From Coq Require Import SpecFloat.
From BS Require Import Model.Base Model.Num Model.Regex Gen.Unicode Gen.Regexes.
Local Open Scope Z_scope.

(* ---- the text CPython's repr(float) produces for a finite double --------------------------------
     positional   -?D+.D+                 (1e-4 <= |x| < 1e16, and 0)
     exponent     -?D(.D+)?e[+-]DD+       (otherwise)                                                  *)
Definition is_d (c : N) : bool := ((48 <=? c) && (c <=? 57))%N.
Definition all_d (s : str) : bool := forallb is_d s.
Fixpoint span_d (s : str) : str * str :=
  match s with
  | c :: t => if is_d c then let '(a, b) := span_d t in (c :: a, b) else ([], s)
  | [] => ([], [])
  end.

Definition exp_ok (r : str) : bool :=
  match r with
  | sg :: ds => ((sg =? 43) || (sg =? 45))%N && all_d ds && (2 <=? length ds)%nat
  | [] => false
  end.

Definition repr_body_ok (s : str) : bool :=
  let '(ip, r1) := span_d s in
  match ip, r1 with
  | _ :: _, 46%N :: t =>
      let '(fp, r2) := span_d t in
      match fp, r2 with
      | _ :: _, [] => true
      | _ :: _, 101%N :: r3 => (length ip =? 1)%nat && exp_ok r3
      | _, _ => false
      end
  | [_], 101%N :: r3 => exp_ok r3
  | _, _ => false
  end.

Definition repr_ok (s : str) : bool :=
  match s with 45%N :: t => repr_body_ok t | _ => repr_body_ok s end.

Definition is_neg_text (s : str) : bool := match s with 45%N :: _ => true | _ => false end.

(* ---- value_string on a float: R_NUMBER_CLEANUP.sub('', str(value)) ------------------------------
   meaning of  \.0*$  under re.sub: the first '.' that is followed by zeros only up to the end of the text
   (or up to a final newline) is removed together with those zeros. *)
Fixpoint zeros_to_end (t : str) : option str :=     (* Some tail: t = 0* ++ tail, tail = "" or "\n" *)
  match t with
  | [] => Some []
  | [10%N] => Some [10%N]
  | 48%N :: t' => zeros_to_end t'
  | _ => None
  end.
Fixpoint cleanup (s : str) : str :=
  match s with
  | [] => []
  | c :: t =>
      if (c =? 46)%N then
        match zeros_to_end t with
        | Some tail => tail
        | None => c :: cleanup t
        end
      else c :: cleanup t
  end.

(* the same through the REGENERATED regex and the generic engine (None = out of fuel) *)
Definition cleanup_rx (s : str) : option str := re_sub UC R_NUMBER_CLEANUP (fun _ _ => []) s.

(* value_string: int -> str(value); float -> cleanup of repr (the repr text is CPython's: an input of the model) *)
Definition value_string_int (z : Z) : str := Z_to_str z.
Definition value_string_float (repr_text : str) : str := cleanup repr_text.

(* ---- float(text), with the decimal->binary conversion factored out ----------------------------------
   [py_dec] is Model/Num.v [py_float] up to the last step: it returns WHAT the text denotes. *)
Inductive pnum := PInf | PNan | PDec (mant e10 : Z).     (* mant * 10^e10, mant >= 0 *)

Definition py_dec_body (s : str) : option pnum :=
  let low := map lower_ascii s in
  if str_eqb low (U "inf") || str_eqb low (U "infinity") then Some PInf
  else if str_eqb low (U "nan") then Some PNan
  else
    match scan_digits s 0 0 false with
    | None => None
    | Some (ip, ni, r1) =>
      let '(fp, nf, r2) :=
        match r1 with
        | 46%N :: t => match scan_digits t 0 0 false with Some x => x | None => (0, 0, r1) end
        | _ => (0, 0, r1)
        end in
      if (ni + nf =? 0) then None else
      let mant := ip * 10 ^ nf + fp in
      match r2 with
      | [] => Some (PDec mant (- nf))
      | e :: t =>
        if (lower_ascii e =? 101)%N then
          let '(eneg, t') := match t with 45%N :: t' => (true, t') | 43%N :: t' => (false, t') | _ => (false, t) end in
          match scan_digits t' 0 0 false with
          | Some (ev, ne, []) => if ne =? 0 then None else Some (PDec mant ((if eneg then - ev else ev) - nf))
          | _ => None
          end
        else None
      end
    end.

Definition py_dec (s0 : str) : option (bool * pnum) :=
  let s := fstrip s0 in
  match s with
  | 45%N :: t => option_map (pair true) (py_dec_body t)
  | 43%N :: t => option_map (pair false) (py_dec_body t)
  | _ => option_map (pair false) (py_dec_body s)
  end.

(* any decimal->binary conversion *)
Definition to_flt (strtod : bool -> Z -> Z -> flt) (np : bool * pnum) : flt :=
  match np with
  | (neg, PInf) => S754_infinity neg
  | (_, PNan) => S754_nan
  | (neg, PDec m e) => strtod neg m e
  end.
Definition float_with (strtod : bool -> Z -> Z -> flt) (s : str) : option flt := option_map (to_flt strtod) (py_dec s).

Definition sf_is_finite (f : flt) : bool := match f with S754_zero _ | S754_finite _ _ _ => true | _ => false end.

(* value.py value_parse_number: float(text); nan/inf -> None; ValueError -> None *)
Definition parse_number_with (strtod : bool -> Z -> Z -> flt) (s : str) : option flt :=
  match float_with strtod s with
  | Some f => if sf_is_finite f then Some f else None
  | None => None
  end.
(* with the model's correctly rounded conversion (Model/Num.v); Proofs/C13.v shows float_with dec_to_sf = py_float *)
Definition value_parse_number (s : str) : option flt :=
  match py_float s with
  | Some f => if sf_is_finite f then Some f else None
  | None => None
  end.

(* value.py value_parse_integer with the default radix: int(text, 10); ValueError -> None *)
Definition value_parse_integer (s0 : str) : option Z :=
  let s := fstrip s0 in
  let '(neg, t) := match s with 45%N :: t => (true, t) | 43%N :: t => (false, t) | _ => (false, s) end in
  match scan_digits t 0 0 false with
  | Some (v, n, []) => if n =? 0 then None else Some (if neg then - v else v)
  | _ => None
  end.

(* ---- parser.py numeric literal:  ^\s*([+-]?\d+(?:\.\d* )?(?:e[+-]\d+)?)  as a direct function ----------
   returns (start of group 1, end of the match) *)
Definition is_digit_u (c : N) : bool := is_digit UC c.
Definition is_space_u (c : N) : bool := is_space UC c.
Fixpoint span_p (p : N -> bool) (s : str) : nat * str :=
  match s with
  | c :: t => if p c then let '(n, r) := span_p p t in (S n, r) else (O, s)
  | [] => (O, [])
  end.

Definition lit_match (s : str) : option (nat * nat) :=
  let '(nsp, s1) := span_p is_space_u s in
  let '(nsg, s2) := match s1 with c :: t => if ((c =? 43) || (c =? 45))%N then (1%nat, t) else (O, s1) | [] => (O, s1) end in
  let '(ni, s3) := span_p is_digit_u s2 in
  match ni with
  | O => None
  | _ =>
    let '(nf, s4) := match s3 with 46%N :: t => let '(n, r) := span_p is_digit_u t in (S n, r) | _ => (O, s3) end in
    let ne :=
      match s4 with
      | 101%N :: sg :: t =>
          if ((sg =? 43) || (sg =? 45))%N then
            match span_p is_digit_u t with (O, _) => O | (n, _) => S (S n) end
          else O
      | _ => O
      end in
    Some (nsp, (nsp + nsg + ni + nf + ne)%nat)
  end.

(* the same through the REGENERATED regex *)
Definition lit_match_rx (s : str) : option (option (nat * nat)) :=
  match re_match UC R_EXPR_NUMBER s with
  | MYes p c => Some (match cap_get 1 c with Some (a, _) => Some (a, p) | None => None end)
  | MNo => Some None
  | MFuel => None
  end.

(* the literal the expression parser reads at the start of a text: float(group 1), and the remaining text *)
Definition parse_literal (s : str) : option (option flt * str) :=
  match lit_match s with
  | Some (a, p) => Some (py_float (sub_list s a (p - a)), skipn p s)
  | None => None
  end.
