(* LibSeq.v — executable model of the array*, object*, string* library functions, regexEscape and
   urlEncode/urlEncodeComponent of library.py, over a heap (arrays and objects are mutable and aliased).
   Argument validation is ONE generic function over the table regenerated from library.py
   (Gen/ArgSpecs.v).  Transliterations keep the code's guards and int() conversions where the code has
   them.  No proofs here. *)
From Coq Require Import SpecFloat.
From BS Require Import Model.Base Model.Num Model.LibVal Gen.ArgSpecs.
Local Open Scope Z_scope.

(* ====================================================================== numbers, exactly *)
(* an int or a float as an exact dyadic m * 2^e, or inf / nan *)
Inductive xnum := XNan | XInf (neg : bool) | XDy (m e : Z).
Definition num_x (n : num) : xnum :=
  match n with
  | NInt z => XDy z 0
  | NFlt (S754_zero _) => XDy 0 0
  | NFlt (S754_infinity s) => XInf s
  | NFlt S754_nan => XNan
  | NFlt (S754_finite s m e) => XDy (if s then Zneg m else Zpos m) e
  end.
(* Python's exact comparison of two numbers; None when a nan is involved (every ordering test is False) *)
Definition xcmp (a b : xnum) : option comparison :=
  match a, b with
  | XNan, _ | _, XNan => None
  | XInf s1, XInf s2 => Some (if s1 then (if s2 then Eq else Lt) else (if s2 then Gt else Eq))
  | XInf s, _ => Some (if s then Lt else Gt)
  | _, XInf s => Some (if s then Gt else Lt)
  | XDy m1 e1, XDy m2 e2 => let e := Z.min e1 e2 in Some (Z.compare (m1 * 2 ^ (e1 - e)) (m2 * 2 ^ (e2 - e)))
  end.
Definition num_cmp (a b : num) : option comparison := xcmp (num_x a) (num_x b).
Definition num_lt a b := match num_cmp a b with Some Lt => true | _ => false end.
Definition num_le a b := match num_cmp a b with Some Lt | Some Eq => true | _ => false end.
Definition num_gt a b := match num_cmp a b with Some Gt => true | _ => false end.
Definition num_ge a b := match num_cmp a b with Some Gt | Some Eq => true | _ => false end.
Definition num_eq a b := match num_cmp a b with Some Eq => true | _ => false end.

(* Python int(x): truncation toward zero; None = OverflowError (inf) / ValueError (nan) *)
Definition py_int (n : num) : option Z :=
  match n with
  | NInt z => Some z
  | NFlt (S754_zero _) => Some 0
  | NFlt (S754_finite s m e) =>
      let a := if 0 <=? e then Zpos m * 2 ^ e else Zpos m / 2 ^ (- e) in Some (if s then - a else a)
  | NFlt _ => None
  end.

(* the number inside a value that passed the 'number' type test (which rejects booleans) *)
Definition as_num (v : value) : option num :=
  match v with VNum n => Some n | _ => None end.

(* ====================================================================== heap *)
Definition hget (h : heap) (l : loc) : option cell := nth_error h l.
Fixpoint hset (h : heap) (l : loc) (c : cell) : heap :=
  match h, l with
  | [], _ => []
  | _ :: t, O => c :: t
  | x :: t, S l' => x :: hset t l' c
  end.
Definition halloc (h : heap) (c : cell) : heap * loc := (h ++ [c], length h).

(* ====================================================================== value helpers *)
Definition len {A} (l : list A) : Z := Z.of_nat (length l).

(* value_boolean; None = dangling location (ill-formed state) *)
Definition value_boolean (h : heap) (v : value) : option bool :=
  match v with
  | VNull => Some false
  | VStr s => Some (negb (match s with [] => true | _ => false end))
  | VBool b => Some b
  | VNum n => Some (negb (num_eq n (NInt 0)))
  | VDate _ => Some true
  | VArr l => match hget h l with Some (CArr xs) => Some (negb (match xs with [] => true | _ => false end)) | _ => None end
  | _ => Some true
  end.

(* value_type's names, only as far as value_compare's last resort needs them *)
Definition type_name (v : value) : str :=
  match v with
  | VNull => U "null" | VBool _ => U "boolean" | VNum _ => U "number" | VStr _ => U "string" | VDate _ => U "datetime"
  | VArr _ => U "array" | VObj _ => U "object" | VFun _ => U "function" | VRegex _ => U "regex"
  end.

Fixpoint insert_key {A} (kv : str * A) (l : list (str * A)) : list (str * A) :=
  match l with
  | [] => [kv]
  | x :: t => match str_compare (fst kv) (fst x) with Gt => x :: insert_key kv t | _ => kv :: l end
  end.
Definition sort_keys {A} (l : list (str * A)) : list (str * A) := fold_right insert_key [] l.

(* value_compare(a, b) == 0, with fuel for the recursion through the heap (None = out of fuel or dangling) *)
Fixpoint veq (fuel : nat) (h : heap) (a b : value) : option bool :=
  match fuel with
  | O => None
  | S f =>
    let fix all2 (xs ys : list value) : option bool :=
      match xs, ys with
      | [], [] => Some true
      | x :: xs', y :: ys' => match veq f h x y with Some true => all2 xs' ys' | r => r end
      | _, _ => Some false
      end in
    let fix all2kv (xs ys : list (str * value)) : option bool :=
      match xs, ys with
      | [], [] => Some true
      | (k1, x) :: xs', (k2, y) :: ys' =>
          if str_eqb k1 k2 then match veq f h x y with Some true => all2kv xs' ys' | r => r end else Some false
      | _, _ => Some false
      end in
    match a, b with
    | VNull, VNull => Some true
    | VNull, _ | _, VNull => Some false
    | VStr s1, VStr s2 => Some (str_eqb s1 s2)
    | VBool b1, VBool b2 => Some (Bool.eqb b1 b2)
    | VNum n1, VNum n2 => Some (num_eq n1 n2)
    | VDate d1, VDate d2 => Some (d1 =? d2)
    | VArr l1, VArr l2 =>
        match hget h l1, hget h l2 with
        | Some (CArr xs), Some (CArr ys) =>
            (* first differing item decides; equal prefixes -> lengths decide *)
            all2 xs ys
        | _, _ => None
        end
    | VObj l1, VObj l2 =>
        match hget h l1, hget h l2 with
        | Some (CObj xs), Some (CObj ys) => all2kv (sort_keys xs) (sort_keys ys)
        | _, _ => None
        end
    | _, _ => Some (str_eqb (type_name a) (type_name b))
    end
  end.

(* ====================================================================== argument validation (generic over the table) *)
Inductive varg := AV (v : value) | AL (l : list value).
Inductive vres := VOk (l : list varg) | VErr | VRaise | VStuck.
Definition vcons (x : varg) (r : vres) : vres := match r with VOk l => VOk (x :: l) | e => e end.

Definition type_ok (t : atype) (v : value) : bool :=
  match t, v with
  | TNumber, VNum _ => true            (* isinstance(v, (int, float)) and not isinstance(v, bool) *)
  | TString, VStr _ | TArray, VArr _ | TObject, VObj _ | TDatetime, VDate _ | TRegex, VRegex _ | TFunction, VFun _ => true
  | _, _ => false
  end.
Definition lit_num (l : lit) : option num :=
  match l with LInt z => Some (NInt z) | LFlt f => Some (NFlt f) | LBool b => Some (NInt (if b then 1 else 0)) | LStr _ => None end.
(* a bound `arg_lt is not None and not (arg_value < arg_lt)` *)
Definition bound_fails (test : num -> num -> bool) (n : num) (b : option lit) : bool :=
  match b with None => false | Some l => match lit_num l with Some bn => negb (test n bn) | None => true end end.

(* the number constraints: Some true = raise ValueArgsError, None = int() raised *)
Definition number_fails (sp : argspec) (n : num) : option bool :=
  match (if as_integer sp then
           match py_int n with None => None | Some z => Some (negb (num_eq (NInt z) n)) end
         else Some false) with
  | None => None
  | Some true => Some true
  | Some false => Some (bound_fails num_lt n (as_lt sp) || bound_fails num_le n (as_lte sp)
                        || bound_fails num_gt n (as_gt sp) || bound_fails num_ge n (as_gte sp))
  end.

Fixpoint args_validate (h : heap) (specs : list argspec) (args : list value) : vres :=
  match specs with
  | [] => match args with [] => VOk [] | _ => VErr end                  (* len(args) > len(fn_args) *)
  | sp :: specs' =>
    match args with
    | [] =>                                                              (* missing argument *)
      if as_last sp then vcons (AL []) (args_validate h specs' [])
      else match as_default sp with
      | Some d => vcons (AV (lit_value d)) (args_validate h specs' [])
      | None =>
        match as_type sp with
        | Some TBoolean => vcons (AV (VBool false)) (args_validate h specs' [])
        | None => vcons (AV VNull) (args_validate h specs' [])
        | Some _ => if as_nullable sp then vcons (AV VNull) (args_validate h specs' []) else VErr
        end
      end
    | a :: args' =>
      if as_last sp then vcons (AL args) (args_validate h specs' [])     (* args[ix] = args[ix:]; del args[ix + 1:] *)
      else match as_type sp with
      | None => vcons (AV a) (args_validate h specs' args')
      | Some TBoolean =>
          match value_boolean h a with
          | Some b => vcons (AV (VBool b)) (args_validate h specs' args')
          | None => VStuck
          end
      | Some t =>
          match a with
          | VNull => if as_nullable sp then vcons (AV a) (args_validate h specs' args') else VErr
          | _ =>
            if negb (type_ok t a) then VErr
            else match t with
            | TNumber =>
                match as_num a with
                | None => VStuck
                | Some n => match number_fails sp n with
                            | None => VRaise
                            | Some true => VErr
                            | Some false => vcons (AV a) (args_validate h specs' args')
                            end
                end
            | _ => vcons (AV a) (args_validate h specs' args')
            end
          end
      end
    end
  end.

Fixpoint assoc_spec (f : str) (l : list (str * (list argspec * failv))) : option (list argspec * failv) :=
  match l with [] => None | (k, v) :: t => if str_eqb f k then Some v else assoc_spec f t end.

Definition fail_value (fv : failv) (args : list value) : value :=
  match fv with
  | FNull => VNull
  | FLit l => lit_value l
  | FArgOrNull k => match nth_error args k with Some v => v | None => VNull end
  end.

(* ====================================================================== results *)
(* LOk: returned; LArgsErr ret: ValueArgsError(return_value = ret); LRaise: any other Python exception
   (the call wrapper of runtime.py yields null); LOutOfModel: a callback form, not modelled here;
   LFuel: the comparison fuel ran out (cyclic containers); LStuck: ill-formed heap / table shape the
   transliteration does not know. *)
Inductive libres := LOk (v : value) | LArgsErr (ret : value) | LRaise | LOutOfModel | LFuel | LStuck.

Definition validated (f : str) (args : list value) (h : heap)
           (k : list varg -> value -> libres * heap) : libres * heap :=
  match assoc_spec f gen_arg_specs with
  | None => (LStuck, h)
  | Some (specs, fv) =>
    let ret := fail_value fv args in
    match args_validate h specs args with
    | VOk l => k l ret
    | VErr => (LArgsErr ret, h)
    | VRaise => (LRaise, h)
    | VStuck => (LStuck, h)
    end
  end.

(* ====================================================================== Python sequence primitives *)
(* seq[i] for an int i: negative indices count from the end; None = IndexError *)
Definition py_index (n : nat) (z : Z) : option nat :=
  let z' := if z <? 0 then z + Z.of_nat n else z in
  if (0 <=? z') && (z' <? Z.of_nat n) then Some (Z.to_nat z') else None.
(* slice bound for ints: negative counts from the end, then clamp to [0, n] *)
Definition py_bound (n : nat) (z : Z) : nat :=
  let z' := if z <? 0 then z + Z.of_nat n else z in
  if z' <? 0 then O else if Z.of_nat n <? z' then n else Z.to_nat z'.
Definition py_slice {A} (l : list A) (a b : Z) : list A :=
  let s := py_bound (length l) a in let e := py_bound (length l) b in skipn s (firstn e l).

Fixpoint remove_nth {A} (l : list A) (i : nat) : list A :=
  match l, i with [], _ => [] | _ :: t, O => t | x :: t, S i' => x :: remove_nth t i' end.
Fixpoint set_nth {A} (l : list A) (i : nat) (v : A) : list A :=
  match l, i with [], _ => [] | _ :: t, O => v :: t | x :: t, S i' => x :: set_nth t i' v end.

(* dict *)
Fixpoint dict_set (kv : list (str * value)) (k : str) (v : value) : list (str * value) :=
  match kv with
  | [] => [(k, v)]
  | (k', v') :: t => if str_eqb k k' then (k', v) :: t else (k', v') :: dict_set t k v
  end.
Fixpoint dict_del (kv : list (str * value)) (k : str) : list (str * value) :=
  match kv with
  | [] => []
  | (k', v') :: t => if str_eqb k k' then t else (k', v') :: dict_del t k
  end.
Definition dict_update (kv kv2 : list (str * value)) : list (str * value) :=
  fold_left (fun acc p => dict_set acc (fst p) (snd p)) kv2 kv.

(* str.find(sub, start) / str.rfind(sub, 0, end) *)
Fixpoint find_from (sub s : str) (pos : nat) : option nat :=
  if str_prefix sub s then Some pos else match s with [] => None | _ :: t => find_from sub t (S pos) end.
Definition py_find (sub s : str) (start : Z) : Z :=
  let st := py_bound (length s) start in
  if Z.of_nat (length s) <? start then -1
  else match find_from sub (skipn st s) st with Some p => Z.of_nat p | None => -1 end.
Fixpoint rfind_from (sub s : str) (pos : nat) (best : option nat) : option nat :=
  let best' := if str_prefix sub s then Some pos else best in
  match s with [] => best' | _ :: t => rfind_from sub t (S pos) best' end.
Definition py_rfind0 (sub s : str) (e : Z) : Z :=
  match rfind_from sub (firstn (py_bound (length s) e) s) O None with Some p => Z.of_nat p | None => -1 end.

(* str.replace(old, new) *)
Fixpoint replace_go (old new s : str) (skip : nat) : str :=
  match s with
  | [] => []
  | c :: t =>
    match skip with
    | S k => replace_go old new t k
    | O => if str_prefix old s then new ++ replace_go old new t (length old - 1) else c :: replace_go old new t O
    end
  end.
Definition py_replace (s old new : str) : str :=
  match old with
  | [] => new ++ flat_map (fun c => c :: new) s
  | _ => replace_go old new s O
  end.

(* str.split(sep), sep non-empty *)
Fixpoint split_go (sep s cur_rev : str) (skip : nat) : list str :=
  match s with
  | [] => [rev cur_rev]
  | c :: t =>
    match skip with
    | S k => split_go sep t cur_rev k
    | O => if str_prefix sep s then rev cur_rev :: split_go sep t [] (length sep - 1) else split_go sep t (c :: cur_rev) O
    end
  end.
Definition py_split (s sep : str) : list str := split_go sep s [] O.

Definition str_suffix (p s : str) : bool := str_prefix (rev p) (rev s).
Fixpoint repeat_str (s : str) (n : nat) : str := match n with O => [] | S k => s ++ repeat_str s k end.

(* re.escape *)
Fixpoint N_mem (c : N) (l : list N) : bool := match l with [] => false | x :: t => (c =? x)%N || N_mem c t end.
Definition regex_escape (s : str) : str :=
  flat_map (fun c => if N_mem c gen_re_special then [92%N; c] else [c]) s.

(* str.encode('utf-8'), errors='strict': None = UnicodeEncodeError (lone surrogate) *)
Definition utf8_enc1 (c : N) : option (list N) :=
  (if c <? 128 then Some [c]
   else if c <? 2048 then Some [192 + c / 64; 128 + c mod 64]
   else if c <? 65536 then
     if (55296 <=? c) && (c <=? 57343) then None
     else Some [224 + c / 4096; 128 + (c / 64) mod 64; 128 + c mod 64]
   else if c <? 1114112 then Some [240 + c / 262144; 128 + (c / 4096) mod 64; 128 + (c / 64) mod 64; 128 + c mod 64]
   else None)%N.
Fixpoint utf8_encode (s : str) : option (list N) :=
  match s with
  | [] => Some []
  | c :: t => match utf8_enc1 c, utf8_encode t with Some b, Some r => Some (b ++ r) | _, _ => None end
  end.
Definition hex_digit (d : N) : N := (if d <? 10 then 48 + d else 55 + d)%N.   (* 0-9 A-F *)
Definition quote_byte (safe : list N) (b : N) : str :=
  if N_mem b safe then [b] else [37%N; hex_digit (b / 16)%N; hex_digit (b mod 16)%N].
(* urllib.parse.quote(s, safe=...) *)
Definition url_quote (safe : str) (s : str) : option str :=
  match utf8_encode s with
  | None => None
  | Some bytes => Some (flat_map (quote_byte (gen_url_always_safe ++ filter (fun c => c <? 128)%N safe)) bytes)
  end.
Definition url_safe_of (f : str) : option str := assoc f gen_url_safe.

(* ====================================================================== the library functions *)
Definition vint (z : Z) : value := VNum (NInt z).
Definition stuck (h : heap) : libres * heap := (LStuck, h).

(* `index >= len(x)` then int(index): the shared shape of arrayGet/Set/Delete/stringCharCodeAt *)
Definition index_guard (vi : value) (n : nat) : option (option Z) :=      (* None = stuck; Some None = guard fails *)
  match as_num vi with
  | None => None
  | Some i => if num_ge i (NInt (Z.of_nat n)) then Some None
              else match py_int i with Some z => Some (Some z) | None => None end
  end.

(* a terminating comparison never repeats a pair of cells on its recursion stack *)
Definition compare_fuel (h : heap) : nat := S (S (length h * length h)).

Fixpoint index_of (h : heap) (xs : list value) (v : value) (pos : Z) : option (option Z) :=
  match xs with
  | [] => Some None
  | x :: t => match veq (compare_fuel h) h x v with
              | None => None
              | Some true => Some (Some pos)
              | Some false => index_of h t v (pos + 1)
              end
  end.
(* last index <= bound (positions counted from 0): scan forward remembering the last match *)
Fixpoint last_index_of (h : heap) (xs : list value) (v : value) (pos : Z) (best : option Z) : option (option Z) :=
  match xs with
  | [] => Some best
  | x :: t => match veq (compare_fuel h) h x v with
              | None => None
              | Some true => last_index_of h t v (pos + 1) (Some pos)
              | Some false => last_index_of h t v (pos + 1) best
              end
  end.

Definition k_arrayCopy (h : heap) (va : list varg) : libres * heap :=
  match va with
      | [AV (VArr l)] => match hget h l with
          | Some (CArr xs) => let (h', l') := halloc h (CArr xs) in (LOk (VArr l'), h')
          | _ => stuck h end
      | _ => stuck h end.

Definition k_arrayDelete (h : heap) (va : list varg) : libres * heap :=
  match va with
      | [AV (VArr l); AV vi] => match hget h l with
          | Some (CArr xs) =>
              match index_guard vi (length xs) with
              | None => stuck h
              | Some None => (LArgsErr VNull, h)
              | Some (Some z) => match py_index (length xs) z with
                                 | Some i => (LOk VNull, hset h l (CArr (remove_nth xs i)))
                                 | None => (LRaise, h) end
              end
          | _ => stuck h end
      | _ => stuck h end.

Definition k_arrayExtend (h : heap) (va : list varg) : libres * heap :=
  match va with
      | [AV (VArr l); AV (VArr l2)] => match hget h l, hget h l2 with
          | Some (CArr xs), Some (CArr ys) => (LOk (VArr l), hset h l (CArr (xs ++ ys)))
          | _, _ => stuck h end
      | _ => stuck h end.

Definition k_arrayGet (h : heap) (va : list varg) : libres * heap :=
  match va with
      | [AV (VArr l); AV vi] => match hget h l with
          | Some (CArr xs) =>
              match index_guard vi (length xs) with
              | None => stuck h
              | Some None => (LArgsErr VNull, h)
              | Some (Some z) => match py_index (length xs) z with
                                 | Some i => match nth_error xs i with Some v => (LOk v, h) | None => stuck h end
                                 | None => (LRaise, h) end
              end
          | _ => stuck h end
      | _ => stuck h end.

Definition k_arrayIndexOf (h : heap) (va : list varg) : libres * heap :=
  match va with
      | [AV (VArr l); AV v; AV vi] => match hget h l with
          | Some (CArr xs) =>
              match index_guard vi (length xs) with
              | None => stuck h
              | Some None => (LArgsErr (vint (-1)), h)
              | Some (Some z) =>
                  match v with
                  | VFun _ => (LOutOfModel, h)
                  | _ => (* range(int(index), len(array)) *)
                    let st := if z <? 0 then O else Z.to_nat z in
                    match index_of h (skipn st xs) v (Z.of_nat st) with
                    | None => (LFuel, h)
                    | Some (Some p) => (LOk (vint p), h)
                    | Some None => (LOk (vint (-1)), h)
                    end
                  end
              end
          | _ => stuck h end
      | _ => stuck h end.

Definition k_arrayLastIndexOf (h : heap) (va : list varg) : libres * heap :=
  match va with
      | [AV (VArr l); AV v; AV vi0] => match hget h l with
          | Some (CArr xs) =>
              let vi := match vi0 with VNull => vint (len xs - 1) | _ => vi0 end in
              match index_guard vi (length xs) with
              | None => stuck h
              | Some None => (LArgsErr (vint (-1)), h)
              | Some (Some z) =>
                  match v with
                  | VFun _ => (LOutOfModel, h)
                  | _ => (* range(int(index), -1, -1) over array[ix] *)
                    if z <? 0 then (LOk (vint (-1)), h) else
                    match last_index_of h (firstn (S (Z.to_nat z)) xs) v 0 None with
                    | None => (LFuel, h)
                    | Some (Some p) => (LOk (vint p), h)
                    | Some None => (LOk (vint (-1)), h)
                    end
                  end
              end
          | _ => stuck h end
      | _ => stuck h end.

Definition k_arrayLength (h : heap) (va : list varg) : libres * heap :=
  match va with
      | [AV (VArr l)] => match hget h l with
          | Some (CArr xs) => (LOk (vint (len xs)), h)
          | _ => stuck h end
      | _ => stuck h end.

Definition raw_arrayNew (h : heap) (args : list value) : libres * heap :=
  let (h', l') := halloc h (CArr args) in (LOk (VArr l'), h').

Definition k_arrayNewSize (h : heap) (va : list varg) : libres * heap :=
  match va with
      | [AV vs; AV v] => match as_num vs with
          | Some n => match py_int n with
                      | Some z => let (h', l') := halloc h (CArr (repeat v (Z.to_nat z))) in (LOk (VArr l'), h')
                      | None => (LRaise, h) end
          | None => stuck h end
      | _ => stuck h end.

Definition k_arrayPop (h : heap) (va : list varg) : libres * heap :=
  match va with
      | [AV (VArr l)] => match hget h l with
          | Some (CArr xs) =>
              match rev xs with
              | [] => (LArgsErr VNull, h)
              | last :: _ => (LOk last, hset h l (CArr (removelast xs)))
              end
          | _ => stuck h end
      | _ => stuck h end.

Definition k_arrayPush (h : heap) (va : list varg) : libres * heap :=
  match va with
      | [AV (VArr l); AL vs] => match hget h l with
          | Some (CArr xs) => (LOk (VArr l), hset h l (CArr (xs ++ vs)))
          | _ => stuck h end
      | _ => stuck h end.

Definition k_arraySet (h : heap) (va : list varg) : libres * heap :=
  match va with
      | [AV (VArr l); AV vi; AV v] => match hget h l with
          | Some (CArr xs) =>
              match index_guard vi (length xs) with
              | None => stuck h
              | Some None => (LArgsErr VNull, h)
              | Some (Some z) => match py_index (length xs) z with
                                 | Some i => (LOk v, hset h l (CArr (set_nth xs i v)))
                                 | None => (LRaise, h) end
              end
          | _ => stuck h end
      | _ => stuck h end.

Definition k_arrayShift (h : heap) (va : list varg) : libres * heap :=
  match va with
      | [AV (VArr l)] => match hget h l with
          | Some (CArr xs) =>
              match xs with
              | [] => (LArgsErr VNull, h)
              | first :: t => (LOk first, hset h l (CArr t))
              end
          | _ => stuck h end
      | _ => stuck h end.

Definition k_arraySlice (h : heap) (va : list varg) : libres * heap :=
  match va with
      | [AV (VArr l); AV vs; AV ve0] => match hget h l with
          | Some (CArr xs) =>
              let ve := match ve0 with VNull => vint (len xs) | _ => ve0 end in
              match as_num vs, as_num ve with
              | Some s, Some e =>
                  if num_gt s (NInt (len xs)) then (LArgsErr VNull, h)
                  else if num_gt e (NInt (len xs)) then (LArgsErr VNull, h)
                  else match py_int s, py_int e with
                       | Some zs, Some ze => let (h', l') := halloc h (CArr (py_slice xs zs ze)) in (LOk (VArr l'), h')
                       | _, _ => (LRaise, h) end
              | _, _ => stuck h end
          | _ => stuck h end
      | _ => stuck h end.

Definition k_objectAssign (h : heap) (va : list varg) : libres * heap :=
  match va with
      | [AV (VObj l); AV (VObj l2)] => match hget h l, hget h l2 with
          | Some (CObj kv), Some (CObj kv2) => (LOk (VObj l), hset h l (CObj (dict_update kv kv2)))
          | _, _ => stuck h end
      | _ => stuck h end.

Definition k_objectCopy (h : heap) (va : list varg) : libres * heap :=
  match va with
      | [AV (VObj l)] => match hget h l with
          | Some (CObj kv) => let (h', l') := halloc h (CObj kv) in (LOk (VObj l'), h')
          | _ => stuck h end
      | _ => stuck h end.

Definition k_objectDelete (h : heap) (va : list varg) : libres * heap :=
  match va with
      | [AV (VObj l); AV (VStr k)] => match hget h l with
          | Some (CObj kv) => (LOk VNull, hset h l (CObj (dict_del kv k)))
          | _ => stuck h end
      | _ => stuck h end.

Definition k_objectGet (h : heap) (va : list varg) : libres * heap :=
  match va with
      | [AV (VObj l); AV (VStr k); AV d] => match hget h l with
          | Some (CObj kv) => (LOk (match assoc k kv with Some v => v | None => d end), h)
          | _ => stuck h end
      | _ => stuck h end.

Definition k_objectHas (h : heap) (va : list varg) : libres * heap :=
  match va with
      | [AV (VObj l); AV (VStr k)] => match hget h l with
          | Some (CObj kv) => (LOk (VBool (match assoc k kv with Some _ => true | None => false end)), h)
          | _ => stuck h end
      | _ => stuck h end.

Definition k_objectKeys (h : heap) (va : list varg) : libres * heap :=
  match va with
      | [AV (VObj l)] => match hget h l with
          | Some (CObj kv) => let (h', l') := halloc h (CArr (map (fun p => VStr (fst p)) kv)) in (LOk (VArr l'), h')
          | _ => stuck h end
      | _ => stuck h end.

Definition raw_objectNew (h : heap) (args : list value) : libres * heap :=
  (let fix go (a : list value) (acc : list (str * value)) (fuel : nat) : option (list (str * value)) :=
       match fuel with O => None | S fu =>
       match a with
       | [] => Some acc
       | VStr k :: v :: t => go t (dict_set acc k v) fu
       | [VStr k] => Some (dict_set acc k VNull)
       | _ => None
       end end in
     match go args [] (S (length args)) with
     | Some kv => let (h', l') := halloc h (CObj kv) in (LOk (VObj l'), h')
     | None => (LArgsErr VNull, h)
     end).

Definition k_objectSet (h : heap) (va : list varg) : libres * heap :=
  match va with
      | [AV (VObj l); AV (VStr k); AV v] => match hget h l with
          | Some (CObj kv) => (LOk v, hset h l (CObj (dict_set kv k v)))
          | _ => stuck h end
      | _ => stuck h end.

Definition k_stringCharCodeAt (h : heap) (va : list varg) : libres * heap :=
  match va with
      | [AV (VStr s); AV vi] =>
          match index_guard vi (length s) with
          | None => stuck h
          | Some None => (LArgsErr VNull, h)
          | Some (Some z) => match py_index (length s) z with
                             | Some i => match nth_error s i with Some c => (LOk (vint (Z.of_N c)), h) | None => stuck h end
                             | None => (LRaise, h) end
          end
      | _ => stuck h end.

Definition k_stringEndsWith (h : heap) (va : list varg) : libres * heap :=
  match va with
      | [AV (VStr s); AV (VStr p)] => (LOk (VBool (str_suffix p s)), h)
      | _ => stuck h end.

Definition k_stringStartsWith (h : heap) (va : list varg) : libres * heap :=
  match va with
      | [AV (VStr s); AV (VStr p)] => (LOk (VBool (str_prefix p s)), h)
      | _ => stuck h end.

Definition raw_stringFromCharCode (h : heap) (args : list value) : libres * heap :=
  (* loop 1: value_type(code) != 'number' or int(code) != code or code < 0 -> ValueArgsError *)
    (let fix check (a : list value) : option (option (list Z)) :=     (* None = int() raised; Some None = ValueArgsError *)
       match a with
       | [] => Some (Some [])
       | VNum n :: t =>
           match py_int n with
           | None => None
           | Some z => if negb (num_eq (NInt z) n) || num_lt n (NInt 0) then Some None
                       else match check t with Some (Some zs) => Some (Some (z :: zs)) | r => r end
           end
       | _ => Some None
       end in
     match check args with
     | None => (LRaise, h)
     | Some None => (LArgsErr VNull, h)
     | Some (Some zs) =>
         if forallb (fun z => z <? 1114112) zs then (LOk (VStr (map Z.to_N zs)), h) else (LRaise, h)   (* chr() range *)
     end).

Definition k_stringIndexOf (h : heap) (va : list varg) : libres * heap :=
  match va with
      | [AV (VStr s); AV (VStr sub); AV vi] =>
          match index_guard vi (length s) with
          | None => stuck h
          | Some None => (LArgsErr (vint (-1)), h)
          | Some (Some z) => (LOk (vint (py_find sub s z)), h)
          end
      | _ => stuck h end.

Definition k_stringLastIndexOf (h : heap) (va : list varg) : libres * heap :=
  match va with
      | [AV (VStr s); AV (VStr sub); AV vi0] =>
          let vi := match vi0 with VNull => vint (len s - 1) | _ => vi0 end in
          match index_guard vi (length s) with
          | None => stuck h
          | Some None => (LArgsErr (vint (-1)), h)
          | Some (Some z) => (LOk (vint (py_rfind0 sub s (z + len sub))), h)
          end
      | _ => stuck h end.

Definition k_stringLength (h : heap) (va : list varg) : libres * heap :=
  match va with
      | [AV (VStr s)] => (LOk (vint (len s)), h)
      | _ => stuck h end.

Definition k_stringRepeat (h : heap) (va : list varg) : libres * heap :=
  match va with
      | [AV (VStr s); AV vc] => match as_num vc with
          | Some n => match py_int n with
                      | Some z => (LOk (VStr (repeat_str s (Z.to_nat z))), h)
                      | None => (LRaise, h) end
          | None => stuck h end
      | _ => stuck h end.

Definition k_stringReplace (h : heap) (va : list varg) : libres * heap :=
  match va with
      | [AV (VStr s); AV (VStr old); AV (VStr new)] => (LOk (VStr (py_replace s old new)), h)
      | _ => stuck h end.

Definition k_stringSlice (h : heap) (va : list varg) : libres * heap :=
  match va with
      | [AV (VStr s); AV vs; AV ve0] =>
          let ve := match ve0 with VNull => vint (len s) | _ => ve0 end in
          match as_num vs, as_num ve with
          | Some st, Some e =>
              if num_gt st (NInt (len s)) then (LArgsErr VNull, h)
              else if num_gt e (NInt (len s)) then (LArgsErr VNull, h)
              else match py_int st, py_int e with
                   | Some zs, Some ze => (LOk (VStr (py_slice s zs ze)), h)
                   | _, _ => (LRaise, h) end
          | _, _ => stuck h end
      | _ => stuck h end.

Definition k_stringSplit (h : heap) (va : list varg) : libres * heap :=
  match va with
      | [AV (VStr s); AV (VStr sep)] =>
          match sep with
          | [] => (LRaise, h)                                            (* ValueError: empty separator *)
          | _ => let (h', l') := halloc h (CArr (map VStr (py_split s sep))) in (LOk (VArr l'), h')
          end
      | _ => stuck h end.

Definition k_stringTrim (h : heap) (va : list varg) : libres * heap :=
  match va with
      | [AV (VStr s)] => (LOk (VStr (strip s)), h)
      | _ => stuck h end.

Definition k_regexEscape (h : heap) (va : list varg) : libres * heap :=
  match va with
      | [AV (VStr s)] => (LOk (VStr (regex_escape s)), h)
      | _ => stuck h end.

Definition k_urlEncodeGen (f : str) (h : heap) (va : list varg) : libres * heap :=
  match va with
      | [AV (VStr s)] => match url_safe_of f with
          | Some safe => match url_quote safe s with Some r => (LOk (VStr r), h) | None => (LRaise, h) end
          | None => stuck h end
      | _ => stuck h end.

(* functions that validate their arguments against the generated table, and the three that inspect them by hand *)
Definition kfun := heap -> list varg -> libres * heap.
Definition rawfun := heap -> list value -> libres * heap.
Definition lib_table : list (str * kfun) :=
  [(U "arrayCopy", k_arrayCopy);
   (U "arrayDelete", k_arrayDelete);
   (U "arrayExtend", k_arrayExtend);
   (U "arrayGet", k_arrayGet);
   (U "arrayIndexOf", k_arrayIndexOf);
   (U "arrayLastIndexOf", k_arrayLastIndexOf);
   (U "arrayLength", k_arrayLength);
   (U "arrayNewSize", k_arrayNewSize);
   (U "arrayPop", k_arrayPop);
   (U "arrayPush", k_arrayPush);
   (U "arraySet", k_arraySet);
   (U "arrayShift", k_arrayShift);
   (U "arraySlice", k_arraySlice);
   (U "objectAssign", k_objectAssign);
   (U "objectCopy", k_objectCopy);
   (U "objectDelete", k_objectDelete);
   (U "objectGet", k_objectGet);
   (U "objectHas", k_objectHas);
   (U "objectKeys", k_objectKeys);
   (U "objectSet", k_objectSet);
   (U "stringCharCodeAt", k_stringCharCodeAt);
   (U "stringEndsWith", k_stringEndsWith);
   (U "stringStartsWith", k_stringStartsWith);
   (U "stringIndexOf", k_stringIndexOf);
   (U "stringLastIndexOf", k_stringLastIndexOf);
   (U "stringLength", k_stringLength);
   (U "stringRepeat", k_stringRepeat);
   (U "stringReplace", k_stringReplace);
   (U "stringSlice", k_stringSlice);
   (U "stringSplit", k_stringSplit);
   (U "stringTrim", k_stringTrim);
   (U "regexEscape", k_regexEscape);
   (U "urlEncode", k_urlEncodeGen (U "urlEncode"));
   (U "urlEncodeComponent", k_urlEncodeGen (U "urlEncodeComponent"))].
Definition raw_table : list (str * rawfun) :=
  [(U "arrayNew", raw_arrayNew); (U "objectNew", raw_objectNew); (U "stringFromCharCode", raw_stringFromCharCode)].

Definition lib (f : str) (args : list value) (h : heap) : libres * heap :=
  match assoc f raw_table with
  | Some g => g h args
  | None =>
    match assoc f lib_table with
    | Some k => validated f args h (fun va _ => k h va)
    | None => (LOutOfModel, h)
    end
  end.

Definition modelled_functions : list str := map fst raw_table ++ map fst lib_table.
Definition modelled_functions_listed : list str :=
  [U "arrayCopy"; U "arrayDelete"; U "arrayExtend"; U "arrayGet"; U "arrayIndexOf"; U "arrayLastIndexOf"; U "arrayLength";
   U "arrayNew"; U "arrayNewSize"; U "arrayPop"; U "arrayPush"; U "arraySet"; U "arrayShift"; U "arraySlice";
   U "objectAssign"; U "objectCopy"; U "objectDelete"; U "objectGet"; U "objectHas"; U "objectKeys"; U "objectNew"; U "objectSet";
   U "stringCharCodeAt"; U "stringEndsWith"; U "stringStartsWith"; U "stringFromCharCode"; U "stringIndexOf";
   U "stringLastIndexOf"; U "stringLength"; U "stringRepeat"; U "stringReplace"; U "stringSlice"; U "stringSplit"; U "stringTrim";
   U "regexEscape"; U "urlEncode"; U "urlEncodeComponent"].

(* ====================================================================== the call wrapper and histories *)
(* runtime.py evaluate_expression: ValueArgsError -> its return_value, any other exception -> null *)
Definition wrapper (r : libres) : option value :=
  match r with LOk v => Some v | LArgsErr ret => Some ret | LRaise => Some VNull | _ => None end.

(* one script statement `r_k = f(args)`, `r_k = v_n` or `r_k = <literal>`; the result is appended to the variable list *)
Inductive arg := AVar (n : nat) | ALit (v : value).
Inductive op := OCall (f : str) (args : list arg) | OAlias (n : nat) | OLit (v : value).
Definition env := list value.
Definition eval_arg (e : env) (a : arg) : option value :=
  match a with AVar n => nth_error e n | ALit v => Some v end.
Fixpoint eval_args (e : env) (l : list arg) : option (list value) :=
  match l with
  | [] => Some []
  | a :: t => match eval_arg e a, eval_args e t with Some v, Some vs => Some (v :: vs) | _, _ => None end
  end.
Definition run_op (st : option (env * heap)) (o : op) : option (env * heap) :=
  match st with
  | None => None
  | Some (e, h) =>
    match o with
    | OAlias n => match nth_error e n with Some v => Some (e ++ [v], h) | None => None end
    | OLit v => Some (e ++ [v], h)
    | OCall f l =>
      match eval_args e l with
      | None => None
      | Some vs => let (r, h') := lib f vs h in
                   match wrapper r with Some v => Some (e ++ [v], h') | None => None end
      end
    end
  end.
Definition run_ops (ops : list op) (st : env * heap) : option (env * heap) := fold_left run_op ops (Some st).

(* ====================================================================== comparing with the implementation's dump *)
(* The worker dumps the object graph reachable from the script's variables: containers are numbered in
   breadth-first discovery order (variables first, then the cells in id order). *)
Inductive dv := DNull | DBool (b : bool) | DNum (n : num) | DStr (s : str) | DDate (us : Z) | DFun | DRegex
              | DArrRef (id : nat) | DObjRef (id : nat).
Inductive dcell := DArr (l : list dv) | DObj (kv : list (str * dv)).

Definition idmap := list (nat * loc).
Fixpoint im_get (m : idmap) (id : nat) : option loc :=
  match m with [] => None | (i, l) :: t => if Nat.eqb i id then Some l else im_get t id end.
Fixpoint im_has_loc (m : idmap) (l : loc) : bool :=
  match m with [] => false | (_, l') :: t => Nat.eqb l l' || im_has_loc t l end.
Definition im_bind (m : idmap) (id : nat) (l : loc) : option idmap :=
  match im_get m id with
  | Some l' => if Nat.eqb l l' then Some m else None
  | None => if im_has_loc m l then None else Some ((id, l) :: m)
  end.

Definition match_val (m : idmap) (d : dv) (v : value) : option idmap :=
  match d, v with
  | DNull, VNull => Some m
  | DBool a, VBool b => if Bool.eqb a b then Some m else None
  | DNum a, VNum b => if num_eqb a b then Some m else None
  | DStr a, VStr b => if str_eqb a b then Some m else None
  | DDate a, VDate b => if a =? b then Some m else None
  | DFun, VFun _ => Some m
  | DRegex, VRegex _ => Some m
  | DArrRef id, VArr l => im_bind m id l
  | DObjRef id, VObj l => im_bind m id l
  | _, _ => None
  end.
Fixpoint match_vals (m : idmap) (ds : list dv) (vs : list value) : option idmap :=
  match ds, vs with
  | [], [] => Some m
  | d :: ds', v :: vs' => match match_val m d v with Some m' => match_vals m' ds' vs' | None => None end
  | _, _ => None
  end.
Fixpoint match_kvs (m : idmap) (ds : list (str * dv)) (vs : list (str * value)) : option idmap :=
  match ds, vs with
  | [], [] => Some m
  | (k1, d) :: ds', (k2, v) :: vs' =>
      if str_eqb k1 k2 then match match_val m d v with Some m' => match_kvs m' ds' vs' | None => None end else None
  | _, _ => None
  end.
Fixpoint match_cells (m : idmap) (h : heap) (cells : list dcell) (id : nat) : bool :=
  match cells with
  | [] => true
  | c :: t =>
    match im_get m id with
    | None => false
    | Some l =>
      match c, hget h l with
      | DArr ds, Some (CArr vs) => match match_vals m ds vs with Some m' => match_cells m' h t (S id) | None => false end
      | DObj ds, Some (CObj vs) => match match_kvs m ds vs with Some m' => match_cells m' h t (S id) | None => false end
      | _, _ => false
      end
    end
  end.
(* the model's final state equals the implementation's dump up to the naming of locations *)
Definition state_matches (vars : list dv) (cells : list dcell) (st : option (env * heap)) : bool :=
  match st with
  | None => false
  | Some (e, h) => match match_vals [] vars e with Some m => match_cells m h cells O | None => false end
  end.

(* ====================================================================== reading back what the encoders wrote
   (specification side of regexEscape and URL encoding; used only by the theorems and the harness) *)
(* the metacharacters of the regular-expression syntax:  . ^ $ * + ? { } [ ] \ | ( ) *)
Definition re_meta : list N := [46; 94; 36; 42; 43; 63; 123; 125; 91; 93; 92; 124; 40; 41]%N.
Definition ascii_alnum (c : N) : bool :=
  ((48 <=? c) && (c <=? 57) || (65 <=? c) && (c <=? 90) || (97 <=? c) && (c <=? 122))%N.
(* the string a LITERAL pattern denotes: an unescaped non-metacharacter stands for itself, a backslash followed by a
   character that is not an ASCII letter or digit stands for that character; anything else is not a literal pattern *)
Fixpoint pat_literal (p : str) : option str :=
  match p with
  | [] => Some []
  | c0 :: rest =>
    if (c0 =? 92)%N then
      match rest with
      | c :: p' => if ascii_alnum c then None else option_map (cons c) (pat_literal p')
      | [] => None
      end
    else if N_mem c0 re_meta then None else option_map (cons c0) (pat_literal rest)
  end.

Definition hex_val (c : N) : option N :=
  (if (48 <=? c) && (c <=? 57) then Some (c - 48) else if (65 <=? c) && (c <=? 70) then Some (c - 55)
   else if (97 <=? c) && (c <=? 102) then Some (c - 87) else None)%N.
Fixpoint percent_decode (s : str) : option (list N) :=
  match s with
  | [] => Some []
  | c :: t =>
    if (c =? 37)%N then
      match t with
      | a :: b :: t' => match hex_val a, hex_val b, percent_decode t' with
                        | Some x, Some y, Some r => Some ((16 * x + y)%N :: r)
                        | _, _, _ => None end
      | _ => None
      end
    else option_map (cons c) (percent_decode t)
  end.
Definition cont (b : N) : bool := ((128 <=? b) && (b <? 192))%N.
Fixpoint utf8_decode (bs : list N) : option str :=
  match bs with
  | [] => Some []
  | b0 :: t =>
    (if b0 <? 128 then option_map (cons b0) (utf8_decode t)
     else if b0 <? 192 then None
     else if b0 <? 224 then
       match t with
       | b1 :: t' => if cont b1 then option_map (cons ((b0 - 192) * 64 + (b1 - 128))) (utf8_decode t') else None
       | _ => None end
     else if b0 <? 240 then
       match t with
       | b1 :: b2 :: t' => if cont b1 && cont b2
                           then option_map (cons ((b0 - 224) * 4096 + (b1 - 128) * 64 + (b2 - 128))) (utf8_decode t') else None
       | _ => None end
     else if b0 <? 248 then
       match t with
       | b1 :: b2 :: b3 :: t' => if cont b1 && cont b2 && cont b3
                           then option_map (cons ((b0 - 240) * 262144 + (b1 - 128) * 4096 + (b2 - 128) * 64 + (b3 - 128))) (utf8_decode t')
                           else None
       | _ => None end
     else None)%N
  end.
Definition url_unquote (s : str) : option str :=
  match percent_decode s with Some bs => utf8_decode bs | None => None end.

(* one call on given arguments and heap; the dump lists the result first, then the arguments after the call *)
Definition call_matches (vars : list dv) (cells : list dcell) (f : str) (args : list value) (h : heap) : bool :=
  let (r, h') := lib f args h in
  match wrapper r with Some v => state_matches vars cells (Some (v :: args, h')) | None => false end.
