(* ExprParser.v — transliteration of parser.py: parse_expression, _parse_binary_expression,
   _parse_unary_expression.  Token matching is done by the regex engine on the regexes
   REGENERATED from parser.py (Gen/Regexes.v); the precedence table is Gen/Tables.v.
   No proofs here. *)
From Coq Require Import SpecFloat.
From BS Require Import Model.Base Model.Regex Model.Num Gen.Unicode Gen.Regexes Gen.Tables.

Inductive expr :=
| ENum (x : num)
| EStr (s : str)
| EVar (name : str)
| ECall (name : str) (args : list expr)
| EBin (op : str) (l r : expr)
| EUn (op : str) (e : expr)
| EGroup (e : expr).

(* result of a parsing function.  PErr carries the error text and the LENGTH of the text the
   Python exception carries as its `line` (the unparsed remainder); PHost = a host exception
   other than BareScriptParserError would escape; PFuel = recursion fuel exhausted. *)
Inductive pres (A : Type) :=
| POk (a : A)
| PErr (msg : str) (remlen : nat)
| PHost (what : str)
| PFuel.
Arguments POk {A} a.
Arguments PErr {A} msg remlen.
Arguments PHost {A} what.
Arguments PFuel {A}.

(* BINARY_REORDER lookup:  lower o' o  <->  o' in BINARY_REORDER[o] *)
Definition lower (o' o : str) : bool :=
  match assoc o gen_binary_reorder with
  | Some l => str_mem o' l
  | None => false
  end.

(* the in-place right-spine rotation of _parse_binary_expression *)
Fixpoint insert (t : expr) (o : str) (r : expr) : expr :=
  match t with
  | EBin o' l rt => if lower o' o then EBin o' l (insert rt o r) else EBin o t r
  | _ => EBin o t r
  end.

Definition rx (r : regex) (s : str) : mres := re_match UC r s.
Definition grp (s : str) (c : caps) (n : nat) : str :=
  match group_text s c n with Some t => t | None => [] end.

(* re.sub(r'\\([...])', '\\1', s) for the three unescape regexes: group 1 replaces the match *)
Definition unescape (r : regex) (s : str) : option str :=
  re_sub UC r (fun whole c => grp whole c 1) s.

Definition syntax_error : str := U "Syntax error".
Definition unmatched_paren : str := U "Unmatched parenthesis".

Fixpoint parse_binary (fuel : nat) (text : str) (left : option expr) : pres (expr * str) :=
  match fuel with
  | O => PFuel
  | S f =>
    let left_res :=
      match left with
      | Some l => POk (l, text)
      | None => parse_unary f text
      end in
    match left_res with
    | POk (left_expr, bin_text) =>
      match rx R_EXPR_BINARY_OP bin_text with
      | MFuel => PFuel
      | MNo => POk (left_expr, bin_text)
      | MYes e c =>
        let bin_op := grp bin_text c 1 in
        let right_text := skipn e bin_text in
        match parse_unary f right_text with
        | POk (right_expr, next_text) => parse_binary f next_text (Some (insert left_expr bin_op right_expr))
        | PErr msg n => PErr msg n
        | PHost w => PHost w
        | PFuel => PFuel
        end
      end
    | PErr msg n => PErr msg n
    | PHost w => PHost w
    | PFuel => PFuel
    end
  end

with parse_unary (fuel : nat) (text : str) : pres (expr * str) :=
  match fuel with
  | O => PFuel
  | S f =>
    (* Group open? *)
    match rx R_EXPR_GROUP_OPEN text with
    | MFuel => PFuel
    | MYes e _ =>
      match parse_binary f (skipn e text) None with
      | POk (ex, next_text) =>
        match rx R_EXPR_GROUP_CLOSE next_text with
        | MFuel => PFuel
        | MNo => PErr unmatched_paren (length text)
        | MYes e2 _ => POk (EGroup ex, skipn e2 next_text)
        end
      | PErr msg n => PErr msg n
      | PHost w => PHost w
      | PFuel => PFuel
      end
    | MNo =>
    (* Unary operator? *)
    match rx R_EXPR_UNARY_OP text with
    | MFuel => PFuel
    | MYes e c =>
      match parse_unary f (skipn e text) with
      | POk (ex, next_text) => POk (EUn (grp text c 1) ex, next_text)
      | other => other
      end
    | MNo =>
    (* Function? *)
    match rx R_EXPR_FUNCTION_OPEN text with
    | MFuel => PFuel
    | MYes e c =>
      match parse_args f (skipn e text) [] with
      | POk (args, rest) => POk (ECall (grp text c 1) args, rest)
      | PErr msg n => PErr msg n
      | PHost w => PHost w
      | PFuel => PFuel
      end
    | MNo =>
    (* Number? *)
    match rx R_EXPR_NUMBER text with
    | MFuel => PFuel
    | MYes e c =>
      match py_float (grp text c 1) with
      | Some x => POk (ENum (NFlt x), skipn e text)
      | None => PHost (U "ValueError")
      end
    | MNo =>
    (* String? *)
    match rx R_EXPR_STRING text with
    | MFuel => PFuel
    | MYes e c =>
      match unescape R_EXPR_STRING_ESCAPE (grp text c 1) with
      | Some s => POk (EStr s, skipn e text)
      | None => PFuel
      end
    | MNo =>
    (* String (double quotes)? *)
    match rx R_EXPR_STRING_DOUBLE text with
    | MFuel => PFuel
    | MYes e c =>
      match unescape R_EXPR_STRING_DOUBLE_ESCAPE (grp text c 1) with
      | Some s => POk (EStr s, skipn e text)
      | None => PFuel
      end
    | MNo =>
    (* Variable? *)
    match rx R_EXPR_VARIABLE text with
    | MFuel => PFuel
    | MYes e c => POk (EVar (grp text c 1), skipn e text)
    | MNo =>
    (* Variable (brackets)? *)
    match rx R_EXPR_VARIABLE_EX text with
    | MFuel => PFuel
    | MYes e c =>
      match unescape R_EXPR_VARIABLE_EX_ESCAPE (grp text c 1) with
      | Some s => POk (EVar s, skipn e text)
      | None => PFuel
      end
    | MNo => PErr syntax_error (length text)
    end end end end end end end end
  end

(* the `while True` argument loop of the function-call branch; args accumulated in reverse *)
with parse_args (fuel : nat) (arg_text : str) (rev_args : list expr) : pres (list expr * str) :=
  match fuel with
  | O => PFuel
  | S f =>
    match rx R_EXPR_FUNCTION_CLOSE arg_text with
    | MFuel => PFuel
    | MYes e _ => POk (rev rev_args, skipn e arg_text)
    | MNo =>
      let sep :=
        match rev_args with
        | [] => POk arg_text
        | _ =>
          match rx R_EXPR_FUNCTION_SEPARATOR arg_text with
          | MFuel => PFuel
          | MNo => PErr syntax_error (length arg_text)
          | MYes e _ => POk (skipn e arg_text)
          end
        end in
      match sep with
      | POk arg_text' =>
        match parse_binary f arg_text' None with
        | POk (a, next) => parse_args f next (a :: rev_args)
        | PErr msg n => PErr msg n
        | PHost w => PHost w
        | PFuel => PFuel
        end
      | PErr msg n => PErr msg n
      | PHost w => PHost w
      | PFuel => PFuel
      end
    end
  end.

(* parse_expression: result or (error text, 1-based column) *)
Inductive eres := EOk (e : expr) | EErr (msg : str) (column : nat) | EHost (what : str) | EFuel.

Definition expr_fuel (text : str) : nat := 2 * length text + 4.

Definition parse_expression (text : str) : eres :=
  match parse_binary (expr_fuel text) text None with
  | POk (e, next_text) =>
    match strip next_text with
    | [] => EOk e
    | _ => EErr syntax_error (length text - length next_text + 1)
    end
  | PErr msg n => EErr msg (length text - n + 1)
  | PHost w => EHost w
  | PFuel => EFuel
  end.

(* ---- equality, for the correspondence ---- *)
Fixpoint expr_eqb (a b : expr) : bool :=
  match a, b with
  | ENum x, ENum y => num_eqb x y
  | EStr x, EStr y => str_eqb x y
  | EVar x, EVar y => str_eqb x y
  | ECall n1 a1, ECall n2 a2 =>
    str_eqb n1 n2 &&
    (fix go (l1 l2 : list expr) : bool :=
       match l1, l2 with
       | [], [] => true
       | x :: t1, y :: t2 => expr_eqb x y && go t1 t2
       | _, _ => false
       end) a1 a2
  | EBin o1 l1 r1, EBin o2 l2 r2 => str_eqb o1 o2 && expr_eqb l1 l2 && expr_eqb r1 r2
  | EUn o1 e1, EUn o2 e2 => str_eqb o1 o2 && expr_eqb e1 e2
  | EGroup e1, EGroup e2 => expr_eqb e1 e2
  | _, _ => false
  end.

Definition eres_eqb (a b : eres) : bool :=
  match a, b with
  | EOk x, EOk y => expr_eqb x y
  | EErr m1 c1, EErr m2 c2 => str_eqb m1 m2 && Nat.eqb c1 c2
  | EHost w1, EHost w2 => str_eqb w1 w2
  | _, _ => false
  end.
