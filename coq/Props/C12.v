(* Props/C12.v — property C12: one number type, the int and float spellings of a number are interchangeable.
   ONLY statements; every proof is `exact <lemma of Proofs/C12*.v>`.

   Full statement of the design:
     forall f vs w, In f modelled_functions -> small_integrals vs ->
       lib f (map respell_f vs) (respell_w w) ~ respell (lib f vs w)          (respelling recursively, also inside the heap)
   What is proved (hence `_partial`): for every (function, argument) that library.py declares `integer: True` and that is
   modelled, replacing that argument by ANY other spelling of the same integral number (int <-> any float whose exact value
   is that integer, no size bound) gives the IDENTICAL result, failure and heap, for arbitrary other arguments (any number,
   any types, any heap).
   SECOND PART (below, `C12_respelling_simulation` ...): numbers stored or compared as VALUES (array elements, needles, values
   inside objects, every number inside the heap) respelt as well.  The results are then equal only UP TO SPELLING, and that
   is what is proved, for all 37 modelled functions and any arguments / heap: the relation `vsim` / `hsim` / `rsim` (same shape,
   same locations, same strings ...; two numbers related iff identical or both integral with the same exact value), including
   the failure cases (same kind of failure, failure values related) and the heap afterwards.  The design's functional form
   (`respell` through arguments and heap) is `C12_spelling_invariant`.  With `=` instead of `~` the statement is false
   (`C12_identical_results_refuted`).  Printing functions are outside Model/LibSeq.v; `C12_stringNew_neg_zero_refuted` records
   the one integral float below 1e16 whose text differs from its int's (-0.0). *)
From Coq Require Import ZArith List SpecFloat.
From BS Require Import Model.Base Model.Num Model.LibVal Gen.ArgSpecs Model.LibSeq Proofs.C15 Proofs.C12
  Proofs.C12a Proofs.C12b Proofs.C12c Proofs.C12d Proofs.C12e Proofs.C12f
  Proofs.C12sim Proofs.C12simk Proofs.C12siml Proofs.C12simf Proofs.C12simx Proofs.C12simr.
Local Open Scope Z_scope.

(* an int and a float are spellings of one number iff the float's exact value is that integer *)
Theorem C12_spellings : forall z f, integral (NFlt f) z -> nsim (NInt z) (NFlt f).
Proof. exact nsim_int_float. Qed.
Example C12_spellings_nonvacuous : nsim (NInt 2) (NFlt (Z_to_sf 2)) /\ nsim (NInt 123456789012345) (NFlt (Z_to_sf 123456789012345)).
Proof. exact (conj nsim_two nsim_big). Qed.

(* an integral number, whatever its spelling, compares with every integer exactly as its value does, and int() returns it *)
Theorem C12_integral_compares_as_its_value : forall n z w, integral n z ->
  num_cmp n (NInt w) = Some (z ?= w) /\ py_int n = Some z.
Proof. intros n z w H. split; [apply num_cmp_integral; exact H | exact (proj1 H)]. Qed.
Print Assumptions C12_integral_compares_as_its_value.

(* validation of a number argument (integer test, lt/lte/gt/gte bounds) does not depend on the spelling *)
Theorem C12_validation_spelling : forall sp a b, int_bounds sp = true -> nsim a b -> number_fails sp a = number_fails sp b.
Proof. exact number_fails_sim. Qed.
Print Assumptions C12_validation_spelling.
Theorem C12_table_bounds_are_integers : forallb (fun e => forallb int_bounds (fst (snd e))) gen_arg_specs = true.
Proof. exact table_bounds_are_integers. Qed.

Theorem C12_arrayGet_partial : forall h a n1 n2 rest, nsim n1 n2 ->
  lib (U "arrayGet") (a :: VNum n1 :: rest) h = lib (U "arrayGet") (a :: VNum n2 :: rest) h.
Proof. exact spell_arrayGet. Qed.
Theorem C12_arrayDelete_partial : forall h a n1 n2 rest, nsim n1 n2 ->
  lib (U "arrayDelete") (a :: VNum n1 :: rest) h = lib (U "arrayDelete") (a :: VNum n2 :: rest) h.
Proof. exact spell_arrayDelete. Qed.
Theorem C12_arraySet_partial : forall h a n1 n2 rest, nsim n1 n2 ->
  lib (U "arraySet") (a :: VNum n1 :: rest) h = lib (U "arraySet") (a :: VNum n2 :: rest) h.
Proof. exact spell_arraySet. Qed.
Print Assumptions C12_arraySet_partial.
Theorem C12_arrayIndexOf_partial : forall h a v n1 n2 rest, nsim n1 n2 ->
  lib (U "arrayIndexOf") (a :: v :: VNum n1 :: rest) h = lib (U "arrayIndexOf") (a :: v :: VNum n2 :: rest) h.
Proof. exact spell_arrayIndexOf. Qed.
Print Assumptions C12_arrayIndexOf_partial.
Theorem C12_arrayLastIndexOf_partial : forall h a v n1 n2 rest, nsim n1 n2 ->
  lib (U "arrayLastIndexOf") (a :: v :: VNum n1 :: rest) h = lib (U "arrayLastIndexOf") (a :: v :: VNum n2 :: rest) h.
Proof. exact spell_arrayLastIndexOf. Qed.
Theorem C12_arrayNewSize_partial : forall h n1 n2 rest, nsim n1 n2 ->
  lib (U "arrayNewSize") (VNum n1 :: rest) h = lib (U "arrayNewSize") (VNum n2 :: rest) h.
Proof. exact spell_arrayNewSize. Qed.
Theorem C12_arraySlice_start_partial : forall h a n1 n2 rest, nsim n1 n2 ->
  lib (U "arraySlice") (a :: VNum n1 :: rest) h = lib (U "arraySlice") (a :: VNum n2 :: rest) h.
Proof. exact spell_arraySlice_start. Qed.
Theorem C12_arraySlice_end_partial : forall h a s n1 n2 rest, nsim n1 n2 ->
  lib (U "arraySlice") (a :: s :: VNum n1 :: rest) h = lib (U "arraySlice") (a :: s :: VNum n2 :: rest) h.
Proof. exact spell_arraySlice_end. Qed.
Print Assumptions C12_arraySlice_end_partial.
Theorem C12_stringCharCodeAt_partial : forall h a n1 n2 rest, nsim n1 n2 ->
  lib (U "stringCharCodeAt") (a :: VNum n1 :: rest) h = lib (U "stringCharCodeAt") (a :: VNum n2 :: rest) h.
Proof. exact spell_stringCharCodeAt. Qed.
Theorem C12_stringIndexOf_partial : forall h a v n1 n2 rest, nsim n1 n2 ->
  lib (U "stringIndexOf") (a :: v :: VNum n1 :: rest) h = lib (U "stringIndexOf") (a :: v :: VNum n2 :: rest) h.
Proof. exact spell_stringIndexOf. Qed.
Theorem C12_stringLastIndexOf_partial : forall h a v n1 n2 rest, nsim n1 n2 ->
  lib (U "stringLastIndexOf") (a :: v :: VNum n1 :: rest) h = lib (U "stringLastIndexOf") (a :: v :: VNum n2 :: rest) h.
Proof. exact spell_stringLastIndexOf. Qed.
Theorem C12_stringRepeat_partial : forall h a n1 n2 rest, nsim n1 n2 ->
  lib (U "stringRepeat") (a :: VNum n1 :: rest) h = lib (U "stringRepeat") (a :: VNum n2 :: rest) h.
Proof. exact spell_stringRepeat. Qed.
Theorem C12_stringSlice_start_partial : forall h a n1 n2 rest, nsim n1 n2 ->
  lib (U "stringSlice") (a :: VNum n1 :: rest) h = lib (U "stringSlice") (a :: VNum n2 :: rest) h.
Proof. exact spell_stringSlice_start. Qed.
Theorem C12_stringSlice_end_partial : forall h a s n1 n2 rest, nsim n1 n2 ->
  lib (U "stringSlice") (a :: s :: VNum n1 :: rest) h = lib (U "stringSlice") (a :: s :: VNum n2 :: rest) h.
Proof. exact spell_stringSlice_end. Qed.
Print Assumptions C12_stringSlice_end_partial.

(* the call does something in both spellings (non-vacuity): arraySet(a, 2.0, v) = arraySet(a, 2, v) = v, a[2] := v *)
Example C12_arraySet_float_index_works : forall h l a b c v, hget h l = Some (CArr [a; b; c]) ->
  lib (U "arraySet") [VArr l; VNum (NFlt (Z_to_sf 2)); v] h = (LOk v, hset h l (CArr [a; b; v])).
Proof. exact arraySet_float_index. Qed.

(* COVERAGE, computed on the list of `integer: True` arguments REGENERATED from library.py: each one has a spelling theorem
   above or belongs to a function that is explicitly oracle-only; a new integer argument breaks this obligation *)
Theorem C12_coverage :
  forallb (fun fa => pair_mem fa spelling_proved || str_mem (fst fa) spelling_oracle_only) gen_integer_args = true
  /\ forallb (fun fa => negb (str_mem (fst fa) modelled_functions) || pair_mem fa spelling_proved) gen_integer_args = true
  /\ forallb (fun f => negb (str_mem f modelled_functions)) spelling_oracle_only = true.
Proof. exact (conj integer_args_covered (conj modelled_integer_args_proved oracle_only_not_modelled)). Qed.
Print Assumptions C12_coverage.

(* ============================================================================================================================
   THE SIMULATION: equal up to the spelling of integral numbers.
   Relations (Proofs/C12sim.v):
     vsim : VNum n1 ~ VNum n2 when nsim n1 n2 (identical, or both integral with the same exact value: 2 ~ 2.0, 0 ~ 0.0 ~ -0.0,
            no magnitude bound; a non-integral number, an infinity, a nan only ~ itself); every other value only ~ itself
            (same string, same boolean, same date, SAME LOCATION);
     csim / hsim : cells of the same kind, elementwise vsim (objects: same keys in the same order); heaps cellwise;
     rsim : LOk v ~ LOk v' and LArgsErr v ~ LArgsErr v' when vsim v v'; every other outcome (LRaise, LOutOfModel, LFuel, LStuck)
            only ~ itself. *)
Definition sim_functions : list str := modelled_functions.
Theorem C12_sim_functions_cover_the_model :
  length sim_functions = 37%nat /\ forallb (fun f => str_mem f sim_functions) modelled_functions_listed = true
  /\ forallb (fun fa => str_mem (fst fa) sim_functions || str_mem (fst fa) spelling_oracle_only) gen_integer_args = true.
Proof. exact sim_functions_cover. Qed.
Print Assumptions C12_sim_functions_cover_the_model.

(* the relation is an equivalence (so it composes along a script) *)
Theorem C12_vsim_equivalence :
  (forall v, vsim v v) /\ (forall a b, vsim a b -> vsim b a) /\ (forall a b c, vsim a b -> vsim b c -> vsim a c).
Proof. exact (conj vsim_refl (conj vsim_sym vsim_trans)). Qed.
Print Assumptions C12_vsim_equivalence.
Theorem C12_hsim_equivalence :
  (forall h, hsim h h) /\ (forall a b, hsim a b -> hsim b a) /\ (forall a b c, hsim a b -> hsim b c -> hsim a c).
Proof. exact (conj hsim_refl (conj hsim_sym hsim_trans)). Qed.
Print Assumptions C12_hsim_equivalence.

(* Python's == on numbers does not see the spelling of EITHER operand ... *)
Theorem C12_number_equality_respects_spelling : forall a a' b b', nsim a a' -> nsim b b' -> num_eq a b = num_eq a' b'.
Proof. exact num_eq_sim. Qed.
Print Assumptions C12_number_equality_respects_spelling.
(* ... hence neither does the deep comparison used by arrayIndexOf / arrayLastIndexOf (value_compare(a, b) == 0), through
   nested arrays and objects, with the same fuel outcome *)
Theorem C12_deep_equality_respects_spelling : forall fuel h h' a a' b b', hsim h h' -> vsim a a' -> vsim b b' ->
  veq fuel h a b = veq fuel h' a' b'.
Proof. intros fuel h h' a a' b b' H. exact (veq_sim fuel h h' H a a' b b'). Qed.
Print Assumptions C12_deep_equality_respects_spelling.

(* argument validation over the generated table: same verdict, validated arguments related *)
Theorem C12_validation_respects_spelling : forall h h' specs args args', hsim h h' ->
  Forall (fun sp => int_bounds sp = true) specs -> Forall2 vsim args args' ->
  vrsim (args_validate h specs args) (args_validate h' specs args').
Proof. intros h h' specs args args' H B. exact (args_validate_sim h h' specs H B args args'). Qed.
Print Assumptions C12_validation_respects_spelling.

(* THE THEOREM.  (The premise `In f sim_functions` is the coverage datum; for any other name both sides are LOutOfModel.) *)
Theorem C12_respelling_simulation : forall f args args' h h', In f sim_functions ->
  Forall2 vsim args args' -> hsim h h' ->
  rsim (fst (lib f args h)) (fst (lib f args' h')) /\ hsim (snd (lib f args h)) (snd (lib f args' h')).
Proof. intros f args args' h h' _. exact (lib_sim f args args' h h'). Qed.
Print Assumptions C12_respelling_simulation.

(* the design's functional form: respell every number that has another spelling, in the arguments and in the whole heap *)
Theorem C12_spelling_invariant : forall f vs h, In f sim_functions ->
  let (r, h1) := lib f vs h in
  let (r', h1') := lib f (map respell vs) (respell_heap h) in
  rsim (respell_res r) r' /\ hsim (respell_heap h1) h1'.
Proof. intros f vs h _. exact (lib_respell f vs h). Qed.
Print Assumptions C12_spelling_invariant.
(* respell really swaps: every int up to 2^53 (so every |n| < 1e15) becomes float(n), which is exactly n, and comes back *)
Theorem C12_respell_swaps : forall z, Z.abs z <= 2 ^ 53 ->
  respell (VNum (NInt z)) = VNum (NFlt (Z_to_sf z)) /\ integral (NFlt (Z_to_sf z)) z /\ respell (respell (VNum (NInt z))) = VNum (NInt z).
Proof. exact respell_swaps. Qed.
Print Assumptions C12_respell_swaps.

(* whole scripts: straight-line histories of calls whose literals differ in spelling, from related environments and heaps *)
Theorem C12_history_simulation : forall ops ops' e e' h h', Forall2 opsim ops ops' -> Forall2 vsim e e' -> hsim h h' ->
  stsim (run_ops ops (e, h)) (run_ops ops' (e', h')).
Proof. exact run_ops_sim. Qed.
Print Assumptions C12_history_simulation.

(* ---- non-vacuity: a = [1, "a", 2, [3]], o = {"k": 3, "a": a} once with ints and once with floats; evaluated on both sides *)
Example C12_sim_heaps_related_not_equal : hsim heap_int heap_flt /\ heap_int <> heap_flt /\ respell_heap heap_int = heap_flt.
Proof. exact (conj heaps_related (conj heaps_differ heap_flt_is_respelt)). Qed.
Print Assumptions C12_sim_heaps_related_not_equal.
Example C12_sim_arrayIndexOf_needle_respelt :
  lib (U "arrayIndexOf") [VArr 0%nat; F 2] heap_int = (LOk (I 2), heap_int) /\
  lib (U "arrayIndexOf") [VArr 0%nat; I 2] heap_flt = (LOk (I 2), heap_flt) /\
  lib (U "arrayLastIndexOf") [VArr 0%nat; F 2] heap_int = (LOk (I 2), heap_int) /\
  lib (U "arrayIndexOf") [VArr 0%nat; VArr 3%nat] (heap_int ++ [CArr [F 3]]) = (LOk (I 3), heap_int ++ [CArr [F 3]]).
Proof. exact indexOf_both. Qed.
Print Assumptions C12_sim_arrayIndexOf_needle_respelt.
Example C12_sim_arrayPush_both :
  lib (U "arrayPush") [VArr 0%nat; I 7] heap_int
    = (LOk (VArr 0%nat), [CArr [I 1; VStr (U "a"); I 2; VArr 1%nat; I 7]; CArr [I 3]; CObj [(U "k", I 3); (U "a", VArr 0%nat)]]) /\
  lib (U "arrayPush") [VArr 0%nat; F 7] heap_flt
    = (LOk (VArr 0%nat), [CArr [F 1; VStr (U "a"); F 2; VArr 1%nat; F 7]; CArr [F 3]; CObj [(U "k", F 3); (U "a", VArr 0%nat)]]).
Proof. exact push_both. Qed.
Print Assumptions C12_sim_arrayPush_both.
Example C12_sim_get_and_failures_both :
  lib (U "arrayGet") [VArr 0%nat; F 0] heap_int = (LOk (I 1), heap_int) /\
  lib (U "arrayGet") [VArr 0%nat; I 0] heap_flt = (LOk (F 1), heap_flt) /\
  lib (U "objectGet") [VObj 2%nat; VStr (U "k")] heap_int = (LOk (I 3), heap_int) /\
  lib (U "objectGet") [VObj 2%nat; VStr (U "k")] heap_flt = (LOk (F 3), heap_flt) /\
  lib (U "arrayGet") [VArr 0%nat; F 4] heap_int = (LArgsErr VNull, heap_int) /\
  lib (U "arrayGet") [VArr 0%nat; I 4] heap_flt = (LArgsErr VNull, heap_flt) /\
  lib (U "arraySet") [VArr 0%nat; F 9; I 5] heap_int = (LArgsErr VNull, heap_int) /\
  lib (U "arraySet") [VArr 0%nat; I 9; F 5] heap_flt = (LArgsErr VNull, heap_flt).
Proof. exact get_both. Qed.
Print Assumptions C12_sim_get_and_failures_both.
Example C12_sim_history_both :
  Forall2 opsim (hist (I 4) (F 4)) (hist (F 4) (I 4)) /\
  run_ops (hist (I 4) (F 4)) ([VArr 0%nat], heap_int)
    = Some ([VArr 0%nat; VArr 3%nat; VArr 3%nat; I 4; I 4], heap_int ++ [CArr [I 1; VStr (U "a"); I 2; VArr 1%nat]]) /\
  run_ops (hist (F 4) (I 4)) ([VArr 0%nat], heap_flt)
    = Some ([VArr 0%nat; VArr 3%nat; VArr 3%nat; I 4; F 4], heap_flt ++ [CArr [F 1; VStr (U "a"); F 2; VArr 1%nat]]).
Proof. exact (conj hist_related history_both). Qed.
Print Assumptions C12_sim_history_both.

(* ---- refuted strengthenings ------------------------------------------------------------------------------------------- *)
(* with `=` instead of `~`: arrayGet(a, 0) returns the int 1 from the int heap and the float 1.0 from the float heap *)
Example C12_identical_results_refuted :
  hsim heap_int heap_flt /\
  fst (lib (U "arrayGet") [VArr 0%nat; I 0] heap_int) <> fst (lib (U "arrayGet") [VArr 0%nat; I 0] heap_flt).
Proof. exact identical_results_refuted. Qed.
Print Assumptions C12_identical_results_refuted.
(* a function that PRINTS a number (none is in Model/LibSeq.v; stringNew lives in Model/LibCore.v): -0.0 is an integral
   float whose int spelling is 0, but stringNew(-0.0) = "-0" and stringNew(0) = "0" (same for arrayJoin / jsonStringify /
   systemLog in the implementation).  Every other integral float below 1e16 prints exactly as its int. *)
Example C12_stringNew_neg_zero_refuted : forall cfg cb w,
  nsim (NInt 0) (NFlt (S754_zero true)) /\
  fst (BS.Model.LibCore.libcore cfg cb (U "stringNew") [BS.Model.Interp.VNum (NInt 0)] w)
    = BS.Model.Interp.LVal (BS.Model.Interp.VStr (U "0")) /\
  fst (BS.Model.LibCore.libcore cfg cb (U "stringNew") [BS.Model.Interp.VNum (NFlt (S754_zero true))] w)
    = BS.Model.Interp.LVal (BS.Model.Interp.VStr (U "-0")).
Proof. intros cfg cb w. exact (conj neg_zero_is_a_spelling_of_zero (stringNew_neg_zero_refuted cfg cb w)). Qed.
Print Assumptions C12_stringNew_neg_zero_refuted.
Theorem C12_value_string_integral_float : forall s m e z, integral (NFlt (S754_finite s m e)) z -> Z.abs z < 10 ^ 16 ->
  BS.Model.Arith.num_to_str (NFlt (S754_finite s m e)) = BS.Model.Arith.ARes (Z_to_str z).
Proof. exact num_to_str_integral. Qed.
Print Assumptions C12_value_string_integral_float.
