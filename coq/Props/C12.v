(* Props/C12.v — property C12: one number type, the int and float spellings of a number are interchangeable.
   ONLY statements; every proof is `exact <lemma of Proofs/C12*.v>`.

   Full statement of the design:
     forall f vs w, In f modelled_functions -> small_integrals vs ->
       lib f (map respell_f vs) (respell_w w) ~ respell (lib f vs w)          (respelling recursively, also inside the heap)
   What is proved (hence `_partial`): for every (function, argument) that library.py declares `integer: True` and that is
   modelled, replacing that argument by ANY other spelling of the same integral number (int <-> any float whose exact value
   is that integer, no size bound) gives the IDENTICAL result, failure and heap, for arbitrary other arguments (any number,
   any types, any heap).  Not proved: respelling numbers that are stored or compared as VALUES (array elements, needles,
   values inside the heap) - there the results are equal only up to spelling; that part is covered by the differential run. *)
From Coq Require Import ZArith List.
From BS Require Import Model.Base Model.Num Model.LibVal Gen.ArgSpecs Model.LibSeq Proofs.C15 Proofs.C12
  Proofs.C12a Proofs.C12b Proofs.C12c Proofs.C12d Proofs.C12e Proofs.C12f.
Local Open Scope Z_scope.

(* an int and a float are spellings of one number iff the float's exact value is that integer *)
Theorem C12_spellings : forall z f, integral (NFlt f) z -> nsim (NInt z) (NFlt f).
Proof. exact nsim_int_float. Qed.
Example C12_spellings_nonvacuous : nsim (NInt 2) (NFlt (Z_to_sf 2)) /\ nsim (NInt 123456789012345) (NFlt (Z_to_sf 123456789012345)).
Proof. exact (conj nsim_two nsim_big). Qed.

(* an integral number, whatever its spelling, compares with every integer exactly as its value does, and int() returns it *)
Theorem C12_integral_compares_as_its_value : forall n z w, integral n z ->
  num_cmp n (NInt w) = Some (z ?= w) /\ py_int n = Some z.
Proof. intros n z w H. split; [apply num_cmp_integral; exact H | exact (proj1 H)]. Qed.
Print Assumptions C12_integral_compares_as_its_value.

(* validation of a number argument (integer test, lt/lte/gt/gte bounds) does not depend on the spelling *)
Theorem C12_validation_spelling : forall sp a b, int_bounds sp = true -> nsim a b -> number_fails sp a = number_fails sp b.
Proof. exact number_fails_sim. Qed.
Print Assumptions C12_validation_spelling.
Theorem C12_table_bounds_are_integers : forallb (fun e => forallb int_bounds (fst (snd e))) gen_arg_specs = true.
Proof. exact table_bounds_are_integers. Qed.

Theorem C12_arrayGet_partial : forall h a n1 n2 rest, nsim n1 n2 ->
  lib (U "arrayGet") (a :: VNum n1 :: rest) h = lib (U "arrayGet") (a :: VNum n2 :: rest) h.
Proof. exact spell_arrayGet. Qed.
Theorem C12_arrayDelete_partial : forall h a n1 n2 rest, nsim n1 n2 ->
  lib (U "arrayDelete") (a :: VNum n1 :: rest) h = lib (U "arrayDelete") (a :: VNum n2 :: rest) h.
Proof. exact spell_arrayDelete. Qed.
Theorem C12_arraySet_partial : forall h a n1 n2 rest, nsim n1 n2 ->
  lib (U "arraySet") (a :: VNum n1 :: rest) h = lib (U "arraySet") (a :: VNum n2 :: rest) h.
Proof. exact spell_arraySet. Qed.
Print Assumptions C12_arraySet_partial.
Theorem C12_arrayIndexOf_partial : forall h a v n1 n2 rest, nsim n1 n2 ->
  lib (U "arrayIndexOf") (a :: v :: VNum n1 :: rest) h = lib (U "arrayIndexOf") (a :: v :: VNum n2 :: rest) h.
Proof. exact spell_arrayIndexOf. Qed.
Print Assumptions C12_arrayIndexOf_partial.
Theorem C12_arrayLastIndexOf_partial : forall h a v n1 n2 rest, nsim n1 n2 ->
  lib (U "arrayLastIndexOf") (a :: v :: VNum n1 :: rest) h = lib (U "arrayLastIndexOf") (a :: v :: VNum n2 :: rest) h.
Proof. exact spell_arrayLastIndexOf. Qed.
Theorem C12_arrayNewSize_partial : forall h n1 n2 rest, nsim n1 n2 ->
  lib (U "arrayNewSize") (VNum n1 :: rest) h = lib (U "arrayNewSize") (VNum n2 :: rest) h.
Proof. exact spell_arrayNewSize. Qed.
Theorem C12_arraySlice_start_partial : forall h a n1 n2 rest, nsim n1 n2 ->
  lib (U "arraySlice") (a :: VNum n1 :: rest) h = lib (U "arraySlice") (a :: VNum n2 :: rest) h.
Proof. exact spell_arraySlice_start. Qed.
Theorem C12_arraySlice_end_partial : forall h a s n1 n2 rest, nsim n1 n2 ->
  lib (U "arraySlice") (a :: s :: VNum n1 :: rest) h = lib (U "arraySlice") (a :: s :: VNum n2 :: rest) h.
Proof. exact spell_arraySlice_end. Qed.
Print Assumptions C12_arraySlice_end_partial.
Theorem C12_stringCharCodeAt_partial : forall h a n1 n2 rest, nsim n1 n2 ->
  lib (U "stringCharCodeAt") (a :: VNum n1 :: rest) h = lib (U "stringCharCodeAt") (a :: VNum n2 :: rest) h.
Proof. exact spell_stringCharCodeAt. Qed.
Theorem C12_stringIndexOf_partial : forall h a v n1 n2 rest, nsim n1 n2 ->
  lib (U "stringIndexOf") (a :: v :: VNum n1 :: rest) h = lib (U "stringIndexOf") (a :: v :: VNum n2 :: rest) h.
Proof. exact spell_stringIndexOf. Qed.
Theorem C12_stringLastIndexOf_partial : forall h a v n1 n2 rest, nsim n1 n2 ->
  lib (U "stringLastIndexOf") (a :: v :: VNum n1 :: rest) h = lib (U "stringLastIndexOf") (a :: v :: VNum n2 :: rest) h.
Proof. exact spell_stringLastIndexOf. Qed.
Theorem C12_stringRepeat_partial : forall h a n1 n2 rest, nsim n1 n2 ->
  lib (U "stringRepeat") (a :: VNum n1 :: rest) h = lib (U "stringRepeat") (a :: VNum n2 :: rest) h.
Proof. exact spell_stringRepeat. Qed.
Theorem C12_stringSlice_start_partial : forall h a n1 n2 rest, nsim n1 n2 ->
  lib (U "stringSlice") (a :: VNum n1 :: rest) h = lib (U "stringSlice") (a :: VNum n2 :: rest) h.
Proof. exact spell_stringSlice_start. Qed.
Theorem C12_stringSlice_end_partial : forall h a s n1 n2 rest, nsim n1 n2 ->
  lib (U "stringSlice") (a :: s :: VNum n1 :: rest) h = lib (U "stringSlice") (a :: s :: VNum n2 :: rest) h.
Proof. exact spell_stringSlice_end. Qed.
Print Assumptions C12_stringSlice_end_partial.

(* the call does something in both spellings (non-vacuity): arraySet(a, 2.0, v) = arraySet(a, 2, v) = v, a[2] := v *)
Example C12_arraySet_float_index_works : forall h l a b c v, hget h l = Some (CArr [a; b; c]) ->
  lib (U "arraySet") [VArr l; VNum (NFlt (Z_to_sf 2)); v] h = (LOk v, hset h l (CArr [a; b; v])).
Proof. exact arraySet_float_index. Qed.

(* COVERAGE, computed on the list of `integer: True` arguments REGENERATED from library.py: each one has a spelling theorem
   above or belongs to a function that is explicitly oracle-only; a new integer argument breaks this obligation *)
Theorem C12_coverage :
  forallb (fun fa => pair_mem fa spelling_proved || str_mem (fst fa) spelling_oracle_only) gen_integer_args = true
  /\ forallb (fun fa => negb (str_mem (fst fa) modelled_functions) || pair_mem fa spelling_proved) gen_integer_args = true
  /\ forallb (fun f => negb (str_mem f modelled_functions)) spelling_oracle_only = true.
Proof. exact (conj integer_args_covered (conj modelled_integer_args_proved oracle_only_not_modelled)). Qed.
Print Assumptions C12_coverage.
