(* Props/C18.v — C18: lint is pure, never fails, and its warnings are semantically justified.
   Only statements and `exact`; the proofs are in Proofs/C18.v and Proofs/C18Sim.v.
   [lint : script -> list warning] is Model/Lint.v (transliteration of model.py lint_script and its helpers; tied to the code by the
   correspondence check on every run); [render] gives the message text.  The scopes are the ones lint visits: the global statement
   list and the body of each global function statement (a function nested in a function body is not visited: known finding F26). *)
From Coq Require Import ZArith.
From BS Require Import Model.Base Model.Num Model.Arith Model.ExprParser Model.Script Model.Interp Model.LibCore Model.Lint
     Proofs.C08 Proofs.C18 Proofs.C18Sim Proofs.C18Lib.
From BS Require Proofs.C18SimR Proofs.C18LibR.

(* (1) TOTALITY.  lint_raw makes every dict access `d[k]` of the code an explicit lookup whose failure is the outcome None (KeyError);
   it never happens.  (The shape of statements — exactly one key, required members — is the type [stmt]: schema-valid models.)
   Purity w.r.t. the Python object (no mutation, same answer twice) is checked on the implementation only (harness, deep copy). *)
Theorem C18_total : forall s, exists ws, lint_raw s = Some ws /\ lint s = ws.
Proof. exact lint_total. Qed.
Print Assumptions C18_total.

(* (2) UNKNOWN LABEL, exact: issued for l (once, naming the LAST jump to l) iff some jump of the scope targets l and no statement
   of the scope defines l *)
Theorem C18_unknown_exact_global : forall s l,
  (exists i, In (WUnknownLabel l i) (lint s)) <->
  (exists j c, nth_error s j = Some (SJump l c)) /\ (forall j, nth_error s j <> Some (SLabel l)).
Proof. exact unknown_global_exact. Qed.
Print Assumptions C18_unknown_exact_global.

Theorem C18_unknown_exact_function : forall s l f,
  (exists i, In (WFnUnknownLabel l f i) (lint s)) <->
  exists k args a b body, nth_error s k = Some (SFunction f args a b body) /\
    (exists j c, nth_error body j = Some (SJump l c)) /\ (forall j, nth_error body j <> Some (SLabel l)).
Proof. exact unknown_fn_exact. Qed.
Print Assumptions C18_unknown_exact_function.

(* ... in terms of the runtime's own lookup [find_label] (runtime.py:83) and the index reported *)
Theorem C18_unknown_is_find_label_none : forall s l i,
  In (WUnknownLabel l i) (lint s) <-> last_jump l s = Some i /\ find_label l s = None.
Proof. exact unknown_global_iff. Qed.
Print Assumptions C18_unknown_is_find_label_none.

(* ... and the run-time error: EVERY jump (conditional or not) of the global list to a reported label raises
   "Unknown jump label" when it is taken, for every library, options record, cache, locals and world ... *)
Theorem C18_unknown_warning_is_the_runtime_error : forall cfg lib url_rel lint_lines s l i f pc cache loc um w cond,
  In (WUnknownLabel l i) (lint s) ->
  nth_error s pc = Some (SJump l cond) -> cache_ok s cache -> within_budget cfg w ->
  jump_taken cfg lib url_rel lint_lines f cond loc um w ->
  fst (fst (exec cfg lib url_rel lint_lines (S f) s pc cache loc um w)) = ORt (msg_unknown_label l).
Proof. exact unknown_warning_predicts_runtime_error. Qed.
Print Assumptions C18_unknown_warning_is_the_runtime_error.

(* ... while a jump to a label that is NOT reported never raises it: it continues after the first definition of the label *)
Theorem C18_no_warning_no_runtime_error : forall cfg lib url_rel lint_lines s l f pc loc um w cond,
  (forall i, ~ In (WUnknownLabel l i) (lint s)) ->
  nth_error s pc = Some (SJump l cond) -> within_budget cfg w -> jump_taken cfg lib url_rel lint_lines f cond loc um w ->
  exists k w1, find_label l s = Some k /\
    exec cfg lib url_rel lint_lines (S f) s pc [] loc um w = exec cfg lib url_rel lint_lines f s (S k) [] loc um w1.
Proof. exact no_unknown_warning_no_runtime_error. Qed.
Print Assumptions C18_no_warning_no_runtime_error.

Theorem C18_fn_unknown_warning_is_the_runtime_error : forall cfg lib url_rel lint_lines s l fn i f pc cache loc um w cond,
  In (WFnUnknownLabel l fn i) (lint s) ->
  exists k args a b body, nth_error s k = Some (SFunction fn args a b body) /\
    (nth_error body pc = Some (SJump l cond) -> cache_ok body cache -> within_budget cfg w ->
     jump_taken cfg lib url_rel lint_lines f cond loc um w ->
     fst (fst (exec cfg lib url_rel lint_lines (S f) body pc cache loc um w)) = ORt (msg_unknown_label l)).
Proof. exact fn_unknown_warning_predicts_runtime_error. Qed.
Print Assumptions C18_fn_unknown_warning_is_the_runtime_error.

(* (3) REDEFINITIONS, exact: reported at EVERY occurrence after the first one, with the index of that later occurrence
   (duplicate arguments: with the index of the function statement) *)
Theorem C18_label_redefinition_exact : forall s l i,
  In (WLabelRedef l i) (lint s) <-> nth_error s i = Some (SLabel l) /\ exists j, j < i /\ nth_error s j = Some (SLabel l).
Proof. exact label_redef_global_iff. Qed.
Print Assumptions C18_label_redefinition_exact.

Theorem C18_function_redefinition_exact : forall s f i,
  In (WFnRedef f i) (lint s) <->
  (exists st, nth_error s i = Some st /\ is_fn f st) /\ exists j st', j < i /\ nth_error s j = Some st' /\ is_fn f st'.
Proof. exact fn_redef_iff. Qed.
Print Assumptions C18_function_redefinition_exact.

Theorem C18_fn_label_redefinition_exact : forall s l f i,
  In (WFnLabelRedef l f i) (lint s) <->
  exists k args a b body, nth_error s k = Some (SFunction f args a b body) /\
    nth_error body i = Some (SLabel l) /\ exists j, j < i /\ nth_error body j = Some (SLabel l).
Proof. exact label_redef_fn_iff. Qed.
Print Assumptions C18_fn_label_redefinition_exact.

Theorem C18_duplicate_argument_exact : forall s a f k,
  In (WDupArg a f k) (lint s) <->
  exists args b c body, nth_error s k = Some (SFunction f (Some args) b c body) /\
    exists j, nth_error args j = Some a /\ occurs_before a args j.
Proof. exact dup_arg_iff. Qed.
Print Assumptions C18_duplicate_argument_exact.

(* what the two deletable warnings say *)
Theorem C18_unused_label_meaning : forall s l i,
  In (WUnusedLabel l i) (lint s) <-> find_label l s = Some i /\ last_jump l s = None.
Proof. exact unused_label_global_iff. Qed.
Print Assumptions C18_unused_label_meaning.

Theorem C18_pointless_meaning : forall s i,
  In (WPointless i) (lint s) <-> exists e, nth_error s i = Some (SExpr None e) /\ pointless e = true.
Proof. exact pointless_global_iff. Qed.
Print Assumptions C18_pointless_meaning.

(* (4) SOUNDNESS of acting on a warning, by simulation on the interpreter model.
   [run_le cfg lib url_rel lint_lines ok c c']: every run of c that finishes (some fuel f; for ok = true also: without the model
   declining, OOracle) is matched by the run of c' with fuel 2f — same outcome (value / error) and same observable final world
   ([same_world]: globals, heap, log, fetched URLs; not statementCount, not the bodies stored for bound script functions).
   Unlimited statement budget (c_max = 0: deleting a statement changes statementCount); for every library that treats the function
   table and the counter as opaque ([lib_ok], a premise on [lib]). *)
Theorem C18_run_le_means : forall cfg lib url_rel lint_lines ok c c',
  run_le cfg lib url_rel lint_lines ok c c' <->
  forall f w o w1, execute_script cfg lib url_rel lint_lines f c w = (o, w1) -> o <> OFuel -> (ok = true -> o <> OOracle) ->
  exists w1', execute_script cfg lib url_rel lint_lines (2 * f) c' w = (o, w1') /\ same_world w1 w1'.
Proof. exact final_run_le_means. Qed.
Print Assumptions C18_run_le_means.

(* unused label: deleting the statement lint points at changes no run, in BOTH directions *)
Theorem C18_unused_label_delete : forall cfg lib url_rel lint_lines,
  c_max cfg = 0%Z -> lib_ok lib false ->
  forall s l i, In (WUnusedLabel l i) (lint s) ->
  nth_error s i = Some (SLabel l) /\
  run_le cfg lib url_rel lint_lines false s (remove_at i s) /\ run_le cfg lib url_rel lint_lines false (remove_at i s) s.
Proof. exact final_unused_label_delete. Qed.
Print Assumptions C18_unused_label_delete.

Theorem C18_unused_fn_label_delete : forall cfg lib url_rel lint_lines,
  c_max cfg = 0%Z -> lib_ok lib false ->
  forall s l fn i, In (WFnUnusedLabel l fn i) (lint s) ->
  exists k args a b body, nth_error s k = Some (SFunction fn args a b body) /\ nth_error body i = Some (SLabel l) /\
    run_le cfg lib url_rel lint_lines false s (set_body s k (remove_at i body)) /\
    run_le cfg lib url_rel lint_lines false (set_body s k (remove_at i body)) s.
Proof. exact final_unused_fn_label_delete. Qed.
Print Assumptions C18_unused_fn_label_delete.

(* unused variable: the name is read by no expression of the body ([unread]); renaming ALL its assignments to a name x' that no
   expression of the body mentions either changes no run, in both directions *)
Theorem C18_unused_var_rename : forall cfg lib url_rel lint_lines,
  c_max cfg = 0%Z -> lib_ok lib false ->
  forall s x f i x', In (WUnusedVar x f i) (lint s) ->
  exists k args a b body, nth_error s k = Some (SFunction f args a b body) /\
    (unread x' body = true ->
     let s' := set_stmt s k (SFunction f args a b (rename_body x x' body)) in
     run_le cfg lib url_rel lint_lines false s s' /\ run_le cfg lib url_rel lint_lines false s' s).
Proof. exact final_unused_var_rename. Qed.
Print Assumptions C18_unused_var_rename.

(* unused argument: renaming the parameter (every occurrence in the parameter list) likewise *)
Theorem C18_unused_arg_rename : forall cfg lib url_rel lint_lines,
  c_max cfg = 0%Z -> lib_ok lib false ->
  forall s x f k x', In (WUnusedArg x f k) (lint s) ->
  exists args a b body, nth_error s k = Some (SFunction f (Some args) a b body) /\ In x args /\
    (unread x' body = true ->
     let s' := set_stmt s k (SFunction f (Some (rename_args x x' args)) a b body) in
     run_le cfg lib url_rel lint_lines false s s' /\ run_le cfg lib url_rel lint_lines false s' s).
Proof. exact final_unused_arg_rename. Qed.
Print Assumptions C18_unused_arg_rename.

(* the general statement behind them: statement lists that differ only by labels no jump targets (also inside function bodies),
   by functions renamed on two names [xo], [xn] that no expression of their body mentions, and — for ok = true — by pointless
   statements present on the left only, behave alike *)
Theorem C18_related_scripts_run_alike : forall cfg lib url_rel lint_lines,
  c_max cfg = 0%Z -> forall ok xo xn, lib_sim ok xo xn lib -> forall c c', code_rel ok xo xn c c' -> run_le cfg lib url_rel lint_lines ok c c'.
Proof. exact final_related_scripts. Qed.
Print Assumptions C18_related_scripts_run_alike.

(* pointless statement.  Evaluating the expression changes nothing and cannot raise or end the script, for EVERY library (the
   expression makes no call; the operators never raise: F4 repaired, C05) ... *)
Theorem C18_pointless_expression_has_no_effect : forall cfg lib url_rel lint_lines f e loc bi um w, pointless e = true ->
  exists o, eval cfg lib url_rel lint_lines f e loc bi um w = (o, w) /\ benign o.
Proof. exact final_pointless_eval. Qed.
Print Assumptions C18_pointless_expression_has_no_effect.

(* ... hence deleting the statement does not change a run that finishes in the model.  This pair: original => edited only, and a run
   in which the model declines (OOracle: operand types whose text/arithmetic Model/Interp.v does not reproduce) is not covered.
   Both directions: C18_pointless_delete / C18_pointless_fn_delete below (the converse needs fuel for the deleted expression itself
   and the premise that its evaluation does not decline). *)
Theorem C18_pointless_delete_partial : forall cfg lib url_rel lint_lines,
  c_max cfg = 0%Z -> lib_ok lib true ->
  forall s i, In (WPointless i) (lint s) ->
  exists e, nth_error s i = Some (SExpr None e) /\ pointless e = true /\ run_le cfg lib url_rel lint_lines true s (remove_at i s).
Proof. exact final_pointless_delete_partial. Qed.
Print Assumptions C18_pointless_delete_partial.

Theorem C18_pointless_fn_delete_partial : forall cfg lib url_rel lint_lines,
  c_max cfg = 0%Z -> lib_ok lib true ->
  forall s fn i, In (WFnPointless fn i) (lint s) ->
  exists k args a b body e, nth_error s k = Some (SFunction fn args a b body) /\ nth_error body i = Some (SExpr None e) /\
    pointless e = true /\ run_le cfg lib url_rel lint_lines true s (set_body s k (remove_at i body)).
Proof. exact final_pointless_fn_delete_partial. Qed.
Print Assumptions C18_pointless_fn_delete_partial.

(* ---- pointless statement, BOTH directions (Proofs/C18SimR.v: the simulation again, with expression statements allowed on the right
   only, the right run getting 2f + D fuel).
   edited => original needs what original => edited did not: the deleted expression is EVALUATED by the original run, so
   (i) it needs fuel of its own — its depth [edepth e], a pointless expression makes no call — and
   (ii) its evaluation must not decline: [never_declines e] = whatever the locals and the world, SOME fuel evaluates e to something
        other than OFuel (a comparison of cyclic / too deep containers runs out of cmp_fuel at every fuel) and OOracle (operand
        types whose arithmetic / text Model/Interp.v does not reproduce).  By C18_pointless_expression_has_no_effect the
        evaluation then yields a value and leaves the world as it is.
   Under (ii) EVERY run of the edited script that does not run out of fuel (ok = false: a run in which the model declines elsewhere
   is reproduced as well) is the run of the original with fuel 2f + edepth e + 1: same outcome, same observable world.
   The library premise of this direction, [lib_okR], is [lib_ok] for the world relation of C18SimR (function bodies may differ by
   right-only expression statements): "the library treats the function table and the counter as opaque"; proved for the library
   model and the callback toy library below. *)
Theorem C18_run_ge_means : forall cfg lib url_rel lint_lines ok D c c',
  C18SimR.run_ge cfg lib url_rel lint_lines ok D c c' <->
  forall f w o w1, execute_script cfg lib url_rel lint_lines f c w = (o, w1) -> o <> OFuel -> (ok = true -> o <> OOracle) ->
  exists w1', execute_script cfg lib url_rel lint_lines (2 * f + D) c' w = (o, w1') /\ same_world w1 w1'.
Proof. intros. reflexivity. Qed.
Print Assumptions C18_run_ge_means.
Theorem C18_never_declines_means : forall cfg lib url_rel lint_lines e,
  C18SimR.never_declines cfg lib url_rel lint_lines e <->
  forall loc bi um w, exists f, fst (eval cfg lib url_rel lint_lines f e loc bi um w) <> OFuel /\
                                fst (eval cfg lib url_rel lint_lines f e loc bi um w) <> OOracle.
Proof. intros. reflexivity. Qed.
Print Assumptions C18_never_declines_means.

Theorem C18_pointless_delete : forall cfg lib url_rel lint_lines,
  c_max cfg = 0%Z -> lib_ok lib true -> C18SimR.lib_okR lib false ->
  forall s i, In (WPointless i) (lint s) ->
  exists e, nth_error s i = Some (SExpr None e) /\ pointless e = true /\
    run_le cfg lib url_rel lint_lines true s (remove_at i s) /\
    (C18SimR.never_declines cfg lib url_rel lint_lines e ->
     C18SimR.run_ge cfg lib url_rel lint_lines false (S (C18SimR.edepth e)) (remove_at i s) s).
Proof. exact C18SimR.final_pointless_delete. Qed.
Print Assumptions C18_pointless_delete.

Theorem C18_pointless_fn_delete : forall cfg lib url_rel lint_lines,
  c_max cfg = 0%Z -> lib_ok lib true -> C18SimR.lib_okR lib false ->
  forall s fn i, In (WFnPointless fn i) (lint s) ->
  exists k args a b body e, nth_error s k = Some (SFunction fn args a b body) /\ nth_error body i = Some (SExpr None e) /\
    pointless e = true /\
    run_le cfg lib url_rel lint_lines true s (set_body s k (remove_at i body)) /\
    (C18SimR.never_declines cfg lib url_rel lint_lines e ->
     C18SimR.run_ge cfg lib url_rel lint_lines false (S (C18SimR.edepth e)) (set_body s k (remove_at i body)) s).
Proof. exact C18SimR.final_pointless_fn_delete. Qed.
Print Assumptions C18_pointless_fn_delete.

(* what a non-declining pointless expression does: beyond its depth, a value and the same world *)
Theorem C18_pointless_expression_total : forall cfg lib url_rel lint_lines e, pointless e = true ->
  C18SimR.never_declines cfg lib url_rel lint_lines e ->
  forall f loc bi um w, (S (C18SimR.edepth e) <= f)%nat -> exists v, eval cfg lib url_rel lint_lines f e loc bi um w = (OVal v, w).
Proof. exact C18SimR.pointless_total. Qed.
Print Assumptions C18_pointless_expression_total.

(* premise (ii) is met by every expression made of literals, variables, parentheses, unary operators, && and || (for every library,
   world and locals); arithmetic and comparison operators are where the model can decline *)
Theorem C18_logic_only_never_declines : forall cfg lib url_rel lint_lines e, C18LibR.logic_only e = true ->
  pointless e = true /\ C18SimR.never_declines cfg lib url_rel lint_lines e.
Proof.
  intros cfg lib url_rel lint_lines e H. split; [apply C18LibR.logic_only_pointless; exact H|apply C18LibR.logic_only_never_declines; exact H].
Qed.
Print Assumptions C18_logic_only_never_declines.
(* ... and it is a real premise in the MODEL: `2 ** -1` is pointless, yet Model/Interp.v declines to evaluate it (a negative int power
   is left to libm) in every world at every fuel; the script made of that statement alone ends OOracle, the edited one returns null *)
Theorem C18_never_declines_is_a_real_premise : forall cfg lib url_rel lint_lines,
  let e := EBin (U "**") (ENum (NInt 2)) (ENum (NInt (-1))) in
  pointless e = true /\
  (forall f loc bi um w, fst (eval cfg lib url_rel lint_lines f e loc bi um w) = OFuel \/
                         fst (eval cfg lib url_rel lint_lines f e loc bi um w) = OOracle) /\
  ~ C18SimR.never_declines cfg lib url_rel lint_lines e.
Proof. exact C18LibR.pow_neg_declines. Qed.
Print Assumptions C18_never_declines_is_a_real_premise.
(* non-vacuity: a warning whose statement satisfies every premise of the converse *)
Example C18_pointless_delete_example :
  let e := EBin (U "||") (EUn (U "!") (EVar (U "x"))) (EGroup (ENum (NInt 1))) in
  let s := [SExpr None e; SExpr (Some (U "y")) (ENum (NInt 2))] in
  In (WPointless 0) (lint s) /\ C18LibR.logic_only e = true /\ C18SimR.edepth e = 2%nat /\
  remove_at 0 s = [SExpr (Some (U "y")) (ENum (NInt 2))].
Proof. vm_compute. repeat split; tauto. Qed.

(* the library premise of the converse holds for the library model and for the library that calls back *)
Theorem C18_libcore_meets_the_converse_premise : forall cfg ok, C18SimR.lib_okR (libcore cfg) ok.
Proof. exact C18LibR.libcore_lib_okR. Qed.
Print Assumptions C18_libcore_meets_the_converse_premise.
Theorem C18_converse_lib_premise_satisfiable : forall ok, C18SimR.lib_okR toy_lib ok.
Proof. exact C18LibR.toy_lib_okR. Qed.
Print Assumptions C18_converse_lib_premise_satisfiable.

(* the premise on the library holds for the library model the interpreter checks run (Model/LibCore.v: it never looks at the
   function table or the counter), and for a library that calls back into script functions *)
Theorem C18_libcore_meets_the_premise : forall cfg ok, lib_ok (libcore cfg) ok.
Proof. exact libcore_lib_ok. Qed.
Print Assumptions C18_libcore_meets_the_premise.

Theorem C18_lib_premise_satisfiable : forall ok, lib_ok toy_lib ok.
Proof. exact final_lib_premise_satisfiable. Qed.
Print Assumptions C18_lib_premise_satisfiable.

(* ---- the premises hold for the library the checks RUN: Model/LibPartial.v libfull2 = LibCore + arraySort (which calls its
   comparator back through the interpreter) + the ~70 functions lifted from LibSeq / LibMore + systemPartial closures (calling
   one is a raw call of the bound function through the callback).  Proofs/C18LibFull.v: the world relations of both simulations
   keep globals, heaps, log and fetched URLs EQUAL (function values are indices into the function table, so the values stored
   in arrays - also in the hidden arrays of closures - are equal on both sides); the functions that do not call back commute
   with replacing the function table and the counter; arraySort by "two sorts in step" (Proofs/LibCall.v). ---- *)
From BS Require Import Model.LibAll Model.LibPartial.
From BS Require Proofs.C18LibFull.

Theorem C18_combined_library_meets_the_premise : forall cfg ok, lib_ok (libfull2 cfg) ok.
Proof. exact C18LibFull.libfull2_lib_ok. Qed.
Print Assumptions C18_combined_library_meets_the_premise.

Theorem C18_combined_library_meets_the_converse_premise : forall cfg ok, C18SimR.lib_okR (libfull2 cfg) ok.
Proof. exact C18LibFull.libfull2_lib_okR. Qed.
Print Assumptions C18_combined_library_meets_the_converse_premise.

(* the same for libfull (without closures) *)
Theorem C18_libfull_meets_the_premises : forall cfg ok, lib_ok (libfull cfg) ok /\ C18SimR.lib_okR (libfull cfg) ok.
Proof. intros cfg ok. split; [apply C18LibFull.libfull_lib_ok|apply C18LibFull.libfull_lib_okR]. Qed.
Print Assumptions C18_libfull_meets_the_premises.

(* ... so the soundness theorems hold for the combined library WITHOUT a premise on the library (the library's options record and
   the interpreter's may differ: [cfg'] is the library's) *)
Theorem C18_unused_label_delete_combined_library : forall cfg cfg' url_rel lint_lines,
  c_max cfg = 0%Z ->
  forall s l i, In (WUnusedLabel l i) (lint s) ->
  nth_error s i = Some (SLabel l) /\
  run_le cfg (libfull2 cfg') url_rel lint_lines false s (remove_at i s) /\
  run_le cfg (libfull2 cfg') url_rel lint_lines false (remove_at i s) s.
Proof.
  intros cfg cfg' url_rel lint_lines H. apply C18_unused_label_delete; [exact H|apply C18_combined_library_meets_the_premise].
Qed.
Print Assumptions C18_unused_label_delete_combined_library.

Theorem C18_unused_var_rename_combined_library : forall cfg cfg' url_rel lint_lines,
  c_max cfg = 0%Z ->
  forall s x f i x', In (WUnusedVar x f i) (lint s) ->
  exists k args a b body, nth_error s k = Some (SFunction f args a b body) /\
    (unread x' body = true ->
     let s' := set_stmt s k (SFunction f args a b (rename_body x x' body)) in
     run_le cfg (libfull2 cfg') url_rel lint_lines false s s' /\ run_le cfg (libfull2 cfg') url_rel lint_lines false s' s).
Proof.
  intros cfg cfg' url_rel lint_lines H. apply C18_unused_var_rename; [exact H|apply C18_combined_library_meets_the_premise].
Qed.
Print Assumptions C18_unused_var_rename_combined_library.

Theorem C18_pointless_delete_combined_library : forall cfg cfg' url_rel lint_lines,
  c_max cfg = 0%Z ->
  forall s i, In (WPointless i) (lint s) ->
  exists e, nth_error s i = Some (SExpr None e) /\ pointless e = true /\
    run_le cfg (libfull2 cfg') url_rel lint_lines true s (remove_at i s) /\
    (C18SimR.never_declines cfg (libfull2 cfg') url_rel lint_lines e ->
     C18SimR.run_ge cfg (libfull2 cfg') url_rel lint_lines false (S (C18SimR.edepth e)) (remove_at i s) s).
Proof.
  intros cfg cfg' url_rel lint_lines H.
  apply C18_pointless_delete; [exact H|apply C18_combined_library_meets_the_premise|apply C18_combined_library_meets_the_converse_premise].
Qed.
Print Assumptions C18_pointless_delete_combined_library.

(* non-vacuity for THIS library: a script with an unused label that sorts through a CLOSURE over arraySort with a SCRIPT comparator
   that logs (p = systemPartial(arraySort, a); p(cmp)): lint reports the label; with and without it the run returns 3, logs twice,
   leaves [3,2,1] and the closure's hidden array [arraySort, a] *)
Example C18_combined_library_example :
  let s := [SFunction (U "cmp") (Some [U "a"; U "b"]) false false
              [SExpr None (ECall (U "systemLog") [EStr (U "c")]); SReturn (Some (EBin (U "-") (EVar (U "b")) (EVar (U "a"))))];
            SExpr (Some (U "a")) (ECall (U "arrayNew") [ENum (NInt 1); ENum (NInt 2); ENum (NInt 3)]);
            SLabel (U "unused");
            SExpr (Some (U "p")) (ECall (U "systemPartial") [EVar (U "arraySort"); EVar (U "a")]);
            SExpr None (ECall (U "p") [EVar (U "cmp")]);
            SReturn (Some (ECall (U "arrayGet") [EVar (U "a"); ENum (NInt 0)]))] in
  let cfg := {| c_max := 0; c_debug := false; c_haslog := true; c_sysprefix := None; c_fetch := None; c_urlfn := None |} in
  let run c := let r := execute_script cfg (libfull2 cfg) (fun _ u => u) (fun _ => nil) 20 c (world0 nil) in
               (fst r, w_log (snd r), w_arrs (snd r)) in
  lint s = (WUnusedLabel (U "unused") 2 :: nil) /\
  run s = (OVal (VNum (NInt 3)), (U "c" :: U "c" :: nil),
           ((VNum (NInt 3) :: VNum (NInt 2) :: VNum (NInt 1) :: nil) :: (VFun (FLib (U "arraySort")) :: VArr 0 :: nil) :: nil)) /\
  run (remove_at 2 s) = run s.
Proof. vm_compute. repeat split. Qed.

(* known finding F26: the nested scope is not visited *)
Example C18_nested_scope_refuted :
  let inner := [SJump (U "zz") None] in
  let s := [SFunction (U "out") (Some [U "a"]) false false
              [SFunction (U "inner") (Some [U "b"]) false false inner; SReturn (Some (ECall (U "inner") []))];
            SExpr None (ECall (U "out") [])] in
  find_label (U "zz") inner = None /\ lint s = [WUnusedArg (U "a") (U "out") 0].
Proof. exact nested_scope_refuted. Qed.
