(* Props/C18.v — C18: lint is pure, never fails, and its warnings are semantically justified. *)
From BS Require Import Model.Base Model.Num Model.ExprParser Model.Script Model.Lint Proofs.C18.
