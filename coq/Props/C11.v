(* Props/C11.v — property C11: value comparison is a total preorder and every consumer agrees with it.
   ONLY statements; every proof is `exact <lemma of Proofs/C11.v>`.

   Model: Model/Compare.v ([compare] transliterates value.py value_compare; the nine type names are REGENERATED
   from value_type into Gen/TypeNames.v).  [tz] is the local zone's UTC-offset function used by
   value_normalize_datetime for aware datetimes: every theorem holds for EVERY such function (any time zone).
   [no_nan v = true]: no NaN anywhere inside v (the property's "for all non-NaN values").
   Values nest without bound; no theorem has a depth or size bound. *)
From Coq Require Import Permutation Sorted.
From BS Require Import Model.Base Model.Num Model.Compare Gen.TypeNames Proofs.C11 Proofs.C11Float.
Local Open Scope Z_scope.

(* ---- total preorder -------------------------------------------------------------------------- *)
Theorem C11_refl : forall tz a, no_nan a = true -> compare tz a a = Eq.
Proof. intros tz a H. exact (g_refl ok (compare tz) (compare_glaws tz) a H). Qed.
Print Assumptions C11_refl.

(* antisymmetry: compare(b,a) = -compare(a,b)  (hence totality: one of <=, >= always holds) *)
Theorem C11_antisym : forall tz a b, no_nan a = true -> no_nan b = true -> compare tz b a = CompOpp (compare tz a b).
Proof. intros tz a b Ha Hb. exact (g_anti ok (compare tz) (compare_glaws tz) a b Ha Hb). Qed.
Print Assumptions C11_antisym.

Theorem C11_trans : forall tz a b c, no_nan a = true -> no_nan b = true -> no_nan c = true ->
  compare tz a b <> Gt -> compare tz b c <> Gt -> compare tz a c <> Gt.
Proof. intros tz a b c Ha Hb Hc. exact (g_le_trans ok (compare tz) (compare_glaws tz) a b c Ha Hb Hc). Qed.
Print Assumptions C11_trans.

Theorem C11_trans_eq : forall tz a b c, no_nan a = true -> no_nan b = true -> no_nan c = true ->
  compare tz a b = Eq -> compare tz b c = Eq -> compare tz a c = Eq.
Proof. intros tz a b c Ha Hb Hc. exact (g_eq_trans ok (compare tz) (compare_glaws tz) a b c Ha Hb Hc). Qed.
Print Assumptions C11_trans_eq.

Theorem C11_trans_lt_le : forall tz a b c, no_nan a = true -> no_nan b = true -> no_nan c = true ->
  compare tz a b = Lt -> compare tz b c <> Gt -> compare tz a c = Lt.
Proof. intros tz a b c Ha Hb Hc. exact (g_lt_le_trans ok (compare tz) (compare_glaws tz) a b c Ha Hb Hc). Qed.
Print Assumptions C11_trans_lt_le.

Theorem C11_trans_le_lt : forall tz a b c, no_nan a = true -> no_nan b = true -> no_nan c = true ->
  compare tz a b <> Gt -> compare tz b c = Lt -> compare tz a c = Lt.
Proof. intros tz a b c Ha Hb Hc. exact (g_le_lt_trans ok (compare tz) (compare_glaws tz) a b c Ha Hb Hc). Qed.
Print Assumptions C11_trans_le_lt.

(* ---- null, types, element-wise ----------------------------------------------------------------- *)
Theorem C11_null_least : forall tz b,
  compare tz CNull CNull = Eq /\ (b <> CNull -> compare tz CNull b = Lt /\ compare tz b CNull = Gt).
Proof. exact null_least. Qed.
Print Assumptions C11_null_least.

(* values of different (non-null) types are ordered by the type NAME value_type returns *)
Theorem C11_cross_type_by_name : forall tz a b, is_null a = false -> is_null b = false ->
  str_eqb (value_type a) (value_type b) = false ->
  compare tz a b = str_compare (value_type a) (value_type b).
Proof. exact cross_type. Qed.
Print Assumptions C11_cross_type_by_name.

Theorem C11_arrays_elementwise : forall tz x y, compare tz (CArr x) (CArr y) = lcmp (compare tz) x y.
Proof. exact arrays_elementwise. Qed.
Theorem C11_objects_by_sorted_items : forall tz x y,
  compare tz (CObj x) (CObj y) = lcmp (item_cmp (compare tz)) (ksort x) (ksort y).
Proof. exact objects_by_sorted_items. Qed.
Print Assumptions C11_objects_by_sorted_items.
(* what "element-wise" ([lcmp]) means: after a common prefix the first differing pair decides; a proper prefix is smaller *)
Theorem C11_elementwise_first_difference : forall tz p a x b y, Forall (fun v => no_nan v = true) p ->
  compare tz a b <> Eq -> compare tz (CArr (p ++ a :: x)) (CArr (p ++ b :: y)) = compare tz a b.
Proof.
  intros tz p a x b y Hp N.
  exact (lcmp_first_difference (compare tz) ok p a x b y Hp (g_refl ok (compare tz) (compare_glaws tz)) N).
Qed.
Theorem C11_elementwise_prefix_shorter : forall tz p b y, Forall (fun v => no_nan v = true) p ->
  compare tz (CArr p) (CArr (p ++ b :: y)) = Lt /\ compare tz (CArr (p ++ b :: y)) (CArr p) = Gt.
Proof.
  intros tz p b y Hp. exact (lcmp_shorter_is_less (compare tz) ok p b y Hp (g_refl ok (compare tz) (compare_glaws tz))).
Qed.
Print Assumptions C11_elementwise_first_difference.

(* ---- int / float spelling ------------------------------------------------------------------------ *)
(* values that compare equal are interchangeable in every comparison, on either side, at any nesting depth ... *)
Theorem C11_equal_values_interchangeable : forall tz a b x, no_nan a = true -> no_nan b = true -> no_nan x = true ->
  compare tz a b = Eq -> compare tz a x = compare tz b x /\ compare tz x a = compare tz x b.
Proof. exact eq_congruence. Qed.
Print Assumptions C11_equal_values_interchangeable.
(* ... and an int and a float denoting the same integer do compare equal (no magnitude bound) *)
Theorem C11_spelling_blind : forall tz z f x, sf_exact_Z f = Some z -> no_nan x = true ->
  compare tz (CNum (NInt z)) x = compare tz (CNum (NFlt f)) x /\
  compare tz x (CNum (NInt z)) = compare tz x (CNum (NFlt f)).
Proof. exact spelling_blind. Qed.
Print Assumptions C11_spelling_blind.
(* float(int) is exact up to 2^53: the model's int -> binary64 conversion (SpecFloat's binary_normalize) returns a float
   denoting the same integer, so by C11_spelling_blind  n  and  float(n)  are interchangeable in every comparison.
   Proved for ALL such z in Proofs/C11Float.v from Z-only facts about SpecFloat's rounding (Proofs/FloatFacts.v: no real
   numbers, no axioms).  The bound is sharp (second Example). *)
Theorem C11_int_to_float_exact : forall z, Z.abs z <= 2 ^ 53 -> sf_exact_Z (Z_to_sf z) = Some z.
Proof. exact Z_to_sf_exact_upto_2_53. Qed.
Print Assumptions C11_int_to_float_exact.
(* non-vacuity / boundary samples by computation (this was the former C11_int_to_float_exact_partial) *)
Example C11_int_to_float_exact_samples :
  forallb Z_to_sf_exact [0; 1; -1; 2; 3; -7; 255; 1000000; 10 ^ 15; 10 ^ 15 + 1; 2 ^ 52 + 1; 2 ^ 53 - 1; 2 ^ 53; - (2 ^ 53); 1 - 2 ^ 53;
                         2 ^ 53 + 2; 2 ^ 60; 2 ^ 1023; 3 * 2 ^ 100] = true.
Proof. exact Z_to_sf_exact_samples. Qed.
Example C11_int_to_float_inexact_beyond : sf_exact_Z (Z_to_sf (2 ^ 53 + 1)) <> Some (2 ^ 53 + 1).
Proof. exact Z_to_sf_first_inexact. Qed.

(* ---- relational operators --------------------------------------------------------------------------- *)
Theorem C11_relops : forall tz op a b,
  eval_relop tz op a b =
  match op, compare tz a b with
  | REq, Eq | RNe, Lt | RNe, Gt | RLe, Lt | RLe, Eq | RLt, Lt | RGe, Eq | RGe, Gt | RGt, Gt => true
  | _, _ => false
  end.
Proof. exact relop_sign. Qed.
Print Assumptions C11_relops.

Theorem C11_relops_consistent : forall tz a b, no_nan a = true -> no_nan b = true ->
  eval_relop tz RLt a b = eval_relop tz RGt b a /\
  eval_relop tz RLe a b = eval_relop tz RGe b a /\
  eval_relop tz REq a b = eval_relop tz REq b a /\
  eval_relop tz RNe a b = negb (eval_relop tz REq a b) /\
  eval_relop tz RLe a b = negb (eval_relop tz RGt a b) /\
  eval_relop tz RGe a b = negb (eval_relop tz RLt a b) /\
  eval_relop tz RLe a b = (eval_relop tz RLt a b || eval_relop tz REq a b)%bool.
Proof. exact relop_dual. Qed.
Print Assumptions C11_relops_consistent.

Theorem C11_relops_order : forall tz a b d, no_nan a = true -> no_nan b = true -> no_nan d = true ->
  eval_relop tz REq a a = true /\
  (eval_relop tz REq a b = true -> eval_relop tz REq b d = true -> eval_relop tz REq a d = true) /\
  (eval_relop tz RLt a b = true -> eval_relop tz RLt b d = true -> eval_relop tz RLt a d = true) /\
  (eval_relop tz RLe a b = true -> eval_relop tz RLe b d = true -> eval_relop tz RLe a d = true).
Proof. exact relop_eq_equiv. Qed.
Print Assumptions C11_relops_order.

(* ---- sorting ------------------------------------------------------------------------------------------ *)
(* arraySort returns a permutation, ordered, with equal elements in their original order *)
Theorem C11_sort : forall tz l, Forall (fun v => no_nan v = true) l ->
  Permutation l (array_sort tz l) /\
  StronglySorted (fun a b => compare tz a b <> Gt) (array_sort tz l) /\
  forall z, no_nan z = true -> filter (eqvb (compare tz) z) (array_sort tz l) = filter (eqvb (compare tz) z) l.
Proof. exact array_sort_spec. Qed.
Print Assumptions C11_sort.

(* a stable sort has exactly one possible result: whatever algorithm list.sort uses, if its output is a stable
   ordered permutation it IS the model's output *)
Theorem C11_sort_unique : forall tz l l1 l2, Forall (fun v => no_nan v = true) l ->
  stable_sorted_perm ok (compare tz) l l1 -> stable_sorted_perm ok (compare tz) l l2 -> l1 = l2.
Proof. intros tz. exact (stable_sort_unique ok (compare tz) (compare_glaws tz)). Qed.
Print Assumptions C11_sort_unique.

(* ---- dataSort ----------------------------------------------------------------------------------------- *)
(* the row comparator (fields in order, `desc` flips a field, missing field = null) satisfies the order laws ... *)
Theorem C11_rows : forall tz sorts, GLaws row_ok (row_compare tz sorts).
Proof. exact row_compare_glaws. Qed.
Print Assumptions C11_rows.
(* ... in the usual form ... *)
Theorem C11_rows_total_preorder : forall tz sorts r1 r2 r3, row_ok r1 -> row_ok r2 -> row_ok r3 ->
  row_compare tz sorts r1 r1 = Eq /\
  row_compare tz sorts r2 r1 = CompOpp (row_compare tz sorts r1 r2) /\
  (row_compare tz sorts r1 r2 <> Gt -> row_compare tz sorts r2 r3 <> Gt -> row_compare tz sorts r1 r3 <> Gt).
Proof.
  intros tz sorts r1 r2 r3 H1 H2 H3.
  exact (conj (g_refl _ _ (row_compare_glaws tz sorts) r1 H1)
        (conj (g_anti _ _ (row_compare_glaws tz sorts) r1 r2 H1 H2)
              (g_le_trans _ _ (row_compare_glaws tz sorts) r1 r2 r3 H1 H2 H3))).
Qed.
(* ... so dataSort returns a stable ordered permutation of the rows *)
Theorem C11_data_sort : forall tz sorts data, Forall row_ok data ->
  stable_sorted_perm row_ok (row_compare tz sorts) data (data_sort tz data sorts).
Proof. exact data_sort_spec. Qed.
Print Assumptions C11_data_sort.

(* ---- min / max ----------------------------------------------------------------------------------------- *)
Theorem C11_max : forall tz vs, vs <> [] -> Forall (fun v => no_nan v = true) vs ->
  In (math_max tz vs) vs /\ Forall (fun v => compare tz v (math_max tz vs) <> Gt) vs.
Proof. exact math_max_spec. Qed.
Theorem C11_min : forall tz vs, vs <> [] -> Forall (fun v => no_nan v = true) vs ->
  In (math_min tz vs) vs /\ Forall (fun v => compare tz (math_min tz vs) v <> Gt) vs.
Proof. exact math_min_spec. Qed.
Print Assumptions C11_max.
Print Assumptions C11_min.
(* ... and it is the FIRST such argument: everything before it is strictly smaller (max) / strictly larger (min) *)
Theorem C11_max_first : forall tz vs, vs <> [] -> Forall (fun v => no_nan v = true) vs ->
  exists l1 l2, vs = l1 ++ math_max tz vs :: l2 /\
                Forall (fun v => compare tz v (math_max tz vs) = Lt) l1 /\ Forall (fun v => compare tz v (math_max tz vs) <> Gt) l2.
Proof. exact math_max_first. Qed.
Theorem C11_min_first : forall tz vs, vs <> [] -> Forall (fun v => no_nan v = true) vs ->
  exists l1 l2, vs = l1 ++ math_min tz vs :: l2 /\
                Forall (fun v => compare tz (math_min tz vs) v = Lt) l1 /\ Forall (fun v => compare tz (math_min tz vs) v <> Gt) l2.
Proof. exact math_min_first. Qed.
Print Assumptions C11_max_first.

(* ---- arrayIndexOf ------------------------------------------------------------------------------------- *)
(* the least index >= start whose element compares equal to the value, else -1 (needs no order law) *)
Theorem C11_indexof : forall tz array v start r, array_index_of tz array v start = Some r ->
  (r = -1 /\ forall i h, (start <= i)%nat -> nth_error array i = Some h -> compare tz h v <> Eq) \/
  (exists i h, r = Z.of_nat i /\ (start <= i)%nat /\ nth_error array i = Some h /\ compare tz h v = Eq /\
               forall j h', (start <= j < i)%nat -> nth_error array j = Some h' -> compare tz h' v <> Eq).
Proof. exact array_index_of_spec. Qed.
Print Assumptions C11_indexof.

(* ---- non-vacuity ---------------------------------------------------------------------------------------- *)
Theorem C11_nonvacuous :
  no_nan ex_a = true /\ no_nan ex_b = true /\ no_nan ex_c = true /\
  compare tz0 ex_a ex_b = Lt /\ compare tz0 ex_b ex_c = Lt /\ compare tz0 ex_a ex_c = Lt /\ compare tz0 ex_c ex_a = Gt.
Proof. exact nonvacuous_triple. Qed.
Theorem C11_nan_is_excluded_for_a_reason :
  compare tz0 (CNum (NFlt SpecFloat.S754_nan)) (CNum (NInt 0)) = Gt /\ compare tz0 (CNum (NInt 0)) (CNum (NFlt SpecFloat.S754_nan)) = Gt.
Proof. exact nan_breaks_antisymmetry. Qed.
