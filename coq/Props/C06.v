(* Props/C06.v — property C06: the parser is total and its diagnostics point at the offending source.
   ONLY statements; every proof is `exact <lemma of Proofs/...>`.
   The model is Model/Script.v (parse_script: lstep/pstep/ploop/pfinish over the REGENERATED regexes of Gen/Regexes.v),
   Model/ExprParser.v and Model/PErr.v (BareScriptParserError.__init__, constants REGENERATED in Gen/PErrConst.v).
   parse_lines = parse_script after line splitting; llines = the logical lines (index of first physical line, text);
   pfold = the fold of pstep over them (Model/ScriptX.v, proved equal to ploop in Proofs/ScriptFacts.v). *)
From BS Require Import Model.Base Model.Regex Model.ExprParser Model.Script Model.ScriptX Model.PErr
  Proofs.ScriptFacts Proofs.PErrFacts Proofs.C06 Proofs.C06Cols Proofs.C06Progress Proofs.NumLit Proofs.Total
  Proofs.ExprFuel Proofs.TotalFuel Proofs.C06Shift Proofs.C06ShiftCont.
From BS Require Import Model.Num Gen.Unicode Gen.Regexes.
From BS Require Proofs.C10split.

(* ---- (1) accounting: an accepted text leaves nothing open and every logical line was folded exactly once ---- *)
Theorem C06_accounts : forall chunks start s,
  parse_script chunks start = ROk s ->
  exists lines ls ps,
    split_chunks chunks = ROk lines /\
    ploop lines 0 ls_init ps_init start = ROk (ls, ps) /\
    l_cont ls = [] /\ ps_frames ps = [] /\ ps_fn ps = None /\ s = ps_global ps /\
    llines lines 0 ls_init = (fst (llines lines 0 ls_init), LDone ls) /\
    pfold (fst (llines lines 0 ls_init)) ps_init start = ROk ps /\
    snd (ploop_count lines 0 ls_init ps_init start 0) = length (fst (llines lines 0 ls_init)).
Proof. exact parse_script_accounts. Qed.
Print Assumptions C06_accounts.

(* the instrumented loop is the loop, and the loop is "logical lines, then fold" — for every input, also failing ones *)
Theorem C06_loop_is_fold_of_logical_lines : forall lines ix ls ps start,
  ploop lines ix ls ps start = ploop2 lines ix ls ps start /\
  fst (ploop_count lines ix ls ps start 0) = ploop lines ix ls ps start.
Proof. intros. split; [apply ploop_factor | apply ploop_count_fst]. Qed.
Print Assumptions C06_loop_is_fold_of_logical_lines.

(* no logical line is dropped silently: every successful step adds weight to the model (1 per statement, 1 per include
   url, 1 + body per function) except `endfunction`, which moves the already counted open function into the script *)
Theorem C06_step_adds : forall ps n line ps',
  pstep ps n line = ROk ps' ->
  ps_weight ps < ps_weight ps' \/ (is_fnend line = true /\ ps_weight ps' = ps_weight ps /\ ps_fn ps <> None /\ ps_fn ps' = None).
Proof. exact pstep_progress. Qed.
Print Assumptions C06_step_adds.

Theorem C06_no_dropped_line : forall chunks start s,
  parse_script chunks start = ROk s ->
  exists lines, split_chunks chunks = ROk lines /\ counted (fst (llines lines 0 ls_init)) <= stmts_weight s.
Proof. exact parse_script_no_dropped_line. Qed.
Print Assumptions C06_no_dropped_line.

(* ---- (2) position: every error carries start + (index of a physical line), a column inside the line (or one past its
   end), and the line text is a logical line of the input (the one being parsed, or the recorded header of the unclosed
   block/function) or the pending continuation at end of input ---- *)
Theorem C06_position : forall chunks start e,
  parse_script chunks start = RErr e ->
  exists lines, split_chunks chunks = ROk lines /\
    1 <= e_col e <= length (e_line e) + 1 /\
    exists i, e_lineno e = Some (start + i) /\ i < length lines /\
      (In (i, e_line e) (fst (llines lines 0 ls_init)) \/
       (exists ls, snd (llines lines 0 ls_init) = LDone ls /\ l_cont ls <> [] /\ i = l_ix ls /\
                   e_line e = join_with [32%N] (l_cont ls) /\ e_col e = 1)).
Proof. exact parse_script_position. Qed.
Print Assumptions C06_position.

(* per step: an error is either about the line being parsed (its number, its text, a column inside it) or about the
   recorded header of an open block (reported by endfunction) *)
Theorem C06_step_error : forall ps n line e,
  pstep ps n line = RErr e ->
  1 <= e_col e <= length (e_line e) + 1 /\
  ((e_lineno e = Some n /\ e_line e = line) \/
   (exists f, In f (ps_frames ps) /\ e_lineno e = Some (frame_lineno f) /\ e_line e = frame_line f)).
Proof. exact pstep_err. Qed.
Print Assumptions C06_step_error.

(* the column arithmetic of every statement kind (len(line) - len(expr), len(jump) - len(expr) - 1, len(return) - len(expr),
   match.start(group)) IS the offset at which the parsed expression text sits in the line (LF-free line) ... *)
Theorem C06_offsets : forall line k, no_lf line -> classify line = ROk k -> kind_offsets line k.
Proof. exact classify_offsets. Qed.
Print Assumptions C06_offsets.

(* ... hence an error is either a whole-line error at column 1 or the expression parser's error on the text at
   [off, off+len) of the line, and column - 1 is the position in the line where the unparsed remainder begins *)
Theorem C06_column_points_at_remainder : forall ps n line e,
  no_lf line -> pstep ps n line = RErr e -> e_col e = 1 \/ expr_error_at line e.
Proof. exact pstep_err_column. Qed.
Print Assumptions C06_column_points_at_remainder.
(* With respect to parse_script the hypothesis "no LF in the logical line" always holds: the regex-based split of the shared
   model is the direct splitter for every text, whose lines are LF-free, and the comment filter / continuation join only
   delete characters and insert spaces (Proofs/C10split.v; also restated as C10_logical_lines_have_no_lf). *)
Theorem C06_logical_lines_have_no_lf : forall chunks lines, split_chunks chunks = ROk lines ->
  forall ix line, In (ix, line) (fst (llines lines 0 ls_init)) -> no_lf line.
Proof. exact BS.Proofs.C10split.logical_lines_no_lf. Qed.
Print Assumptions C06_logical_lines_have_no_lf.

(* ---- (3) shift ---- *)
(* k comment or blank lines in front: the result is the same with every reported line number + k *)
Theorem C06_shift_comments : forall pre lines start,
  Forall (fun c => is_comment c = ROk true) pre ->
  parse_lines (pre ++ lines) start = map_sres (fun n => length pre + n) (fun s => s) (parse_lines lines start).
Proof. exact parse_lines_comments_shift. Qed.
Print Assumptions C06_shift_comments.

(* the caller's start line: only renumbers *)
Theorem C06_shift_start : forall d start lines,
  parse_lines lines (d + start) = map_sres (fun n => d + n) (fun s => s) (parse_lines lines start).
Proof. exact parse_lines_start_shift. Qed.
Print Assumptions C06_shift_start.

(* line numbers are never inspected: a step commutes with ANY renumbering g of the stored/reported line numbers *)
Theorem C06_step_renumber : forall g ps n line,
  pstep (map_ps g ps) (g n) line = map_sres g (map_ps g) (pstep ps n line).
Proof. exact pstep_map. Qed.
Print Assumptions C06_step_renumber.

(* SIMPLE STATEMENT LINES in front (Proofs/C06Shift.v).  prefix_stmts pre P: every physical line of `pre` is a comment / blank
   line, or a one-line simple statement — not a comment, no continuation backslash, classified by the regenerated statement
   regexes as assignment / expression statement / label / jump / jumpif / return with an expression that parses (simple_line);
   P = the statements of the simple lines in order.  Then the result for pre ++ lines is the result for lines with every
   reported line number + |pre|; error text, line text and column unchanged; an accepted script is P ++ (the script of lines). *)
Theorem C06_shift_simple : forall pre P lines start, prefix_stmts pre P ->
  parse_lines (pre ++ lines) start = map_sres (fun n => length pre + n) (fun s => P ++ s) (parse_lines lines start).
Proof. exact parse_lines_prefix_shift. Qed.
Print Assumptions C06_shift_simple.

(* the same for parse_script, the prefix given as leading chunks *)
Theorem C06_shift_simple_script : forall c1 c2 pre P start, split_chunks c1 = ROk pre -> prefix_stmts pre P ->
  parse_script (c1 ++ c2) start = map_sres (fun n => length pre + n) (fun s => P ++ s) (parse_script c2 start).
Proof. exact parse_script_prefix_shift. Qed.
Print Assumptions C06_shift_simple_script.

(* the failing case spelled out: same message, same line text, same column, line number + |pre| *)
Theorem C06_shift_simple_err : forall pre P lines start e, prefix_stmts pre P ->
  parse_lines lines start = RErr e ->
  parse_lines (pre ++ lines) start =
  RErr {| e_msg := e_msg e; e_line := e_line e; e_col := e_col e; e_lineno := option_map (fun n => length pre + n) (e_lineno e) |}.
Proof. exact parse_lines_prefix_err. Qed.
Print Assumptions C06_shift_simple_err.

Theorem C06_shift_simple_fails_iff : forall pre P lines start, prefix_stmts pre P ->
  ((exists e, parse_lines (pre ++ lines) start = RErr e) <-> (exists e, parse_lines lines start = RErr e)).
Proof. exact parse_lines_prefix_iff. Qed.
Print Assumptions C06_shift_simple_fails_iff.

(* the second commutation lemma behind it: the model keeps POSITIONS into the statement list in its if-frames, so a step
   commutes with the explicit state shift  shift_ps P  (P prepended to the global statement list; the jump positions of the
   frames that belong to the global list moved by |P|; frames of an open function body untouched), in every state reachable
   by the fold (JInv), for every P that does not end in an include statement *)
Theorem C06_step_shift : forall P ps n line, last_is_include P = None -> JInv ps ->
  pstep (shift_ps P ps) n line = omap (shift_ps P) (pstep ps n line).
Proof. exact pstep_shift. Qed.
Print Assumptions C06_step_shift.
(* the same with prefix statements that are themselves CONTINUED over several physical lines (Proofs/C06ShiftCont.v).
   gprefix pre P: the line front end turns the physical lines `pre` into complete logical lines (nothing pending at the end
   of pre), and the TEXT of each logical line is a simple statement (simple_text: classified as assignment / expression
   statement / label / jump / jumpif / return whose expression parses); P = their statements.  The line numbers move by the
   number of PHYSICAL lines |pre|.  C06_shift_simple is the special case of one physical line per statement. *)
Theorem C06_shift_simple_continued : forall pre P lines start, gprefix pre P ->
  parse_lines (pre ++ lines) start = map_sres (fun n => length pre + n) (fun s => P ++ s) (parse_lines lines start).
Proof. exact parse_lines_gprefix_shift. Qed.
Print Assumptions C06_shift_simple_continued.

Theorem C06_shift_simple_continued_script : forall c1 c2 pre P start, split_chunks c1 = ROk pre -> gprefix pre P ->
  parse_script (c1 ++ c2) start = map_sres (fun n => length pre + n) (fun s => P ++ s) (parse_script c2 start).
Proof. exact parse_script_gprefix_shift. Qed.
Print Assumptions C06_shift_simple_continued_script.

Theorem C06_shift_simple_is_continued_case : forall pre P, prefix_stmts pre P -> gprefix pre P.
Proof. exact prefix_stmts_gprefix. Qed.

(* The shift clause is now proved for comment / blank / simple statement lines (one-line or continued).  Outside the theorem,
   by design: `include` lines in front (an include line MERGES into a directly following include statement, so "changes
   nothing else" is false for them — kstep_shift needs a prefix that does not end in an include statement) and function /
   block statements (not "simple").  The oracle's `shift-*` classes keep checking the clause on the implementation. *)

(* ---- (4) totality: the only host exceptions the model can report ---- *)
Theorem C06_total_partial : forall chunks start w,
  parse_script chunks start = RHost w ->
  exists lines i line k,
    split_chunks chunks = ROk lines /\ In (i, line) (fst (llines lines 0 ls_init)) /\ classify line = ROk k /\
    ((kind_host k w /\ w = U "ValueError") \/ (k = KEndIf /\ w = U "model: pending jump not found")).
Proof. exact parse_script_host. Qed.
Print Assumptions C06_total_partial.
(* the two residual branches are closed below: (a) float() accepts every text matched by _R_EXPR_NUMBER (Proofs/NumLit.v);
   (b) the pending jump of an if-frame is where the frame says (Proofs/Total.v: an invariant on the POSITIONS of the pending
   jumps, preserved by every lowering step of every program, with no premise on user label names). *)

(* (a) the text captured by group 1 of the REGENERATED number-literal regex (sign? digit+ ('.' digit* )? ('e' sign digit+)?,
   Unicode decimal digits included) is always accepted by the model of Python's float(str).  The proof inverts the match on
   the regex VALUE of Gen/Regexes.v: a change of parser.py's _R_EXPR_NUMBER that changes its shape breaks this theorem. *)
Theorem C06_number_literal_parses : forall text e c,
  re_match UC R_EXPR_NUMBER text = MYes e c -> py_float (grp text c 1) <> None.
Proof. exact number_literal_parses. Qed.
Print Assumptions C06_number_literal_parses.

Example C06_ex_number_literal : exists e c,
  re_match UC R_EXPR_NUMBER (U "  -12.50e+3 + x") = MYes e c /\ grp (U "  -12.50e+3 + x") c 1 = U "-12.50e+3".
Proof. eexists. eexists. split; vm_compute; reflexivity. Qed.

(* the expression parser never lets a host exception (float()'s ValueError) escape *)
Theorem C06_expr_parser_no_host : forall text w, parse_expression text <> EHost w.
Proof. exact expr_parser_no_host. Qed.
Print Assumptions C06_expr_parser_no_host.

(* (b) one step never reports a host exception in a state reachable from the initial one (JInv: every open if/elif
   branch without else points at a conditional jump of the statement list under construction) *)
Theorem C06_step_invariant_init : JInv ps_init.
Proof. exact JInv_init. Qed.
Theorem C06_step_invariant_step : forall ps n line ps', JInv ps -> pstep ps n line = ROk ps' -> JInv ps'.
Proof. exact pstep_jinv. Qed.
Theorem C06_step_no_host : forall ps n line w, JInv ps -> pstep ps n line <> RHost w.
Proof. exact pstep_no_host. Qed.
Print Assumptions C06_step_no_host.

(* FULL totality clause: for EVERY input the parser model returns a script, a BareScriptParserError, or runs out of the
   model's fuel; no other exception escapes *)
Theorem C06_total : forall chunks start w, parse_script chunks start <> RHost w.
Proof. exact parse_script_total. Qed.
Print Assumptions C06_total.

(* ... and the model's OWN fuel never runs out (Proofs/ExprFuel.v, Proofs/TotalFuel.v): the regex engine never answers MFuel,
   re.sub / re.split never run out, and the expression parser's fuel 2*|text|+4 bounds its recursion depth (parse_unary needs
   2n+1, parse_binary 2n+2, parse_args 2n+3 on n characters; `((((` needs 2n+2) *)
Theorem C06_expr_parser_fuel_suffices : forall text, parse_expression text <> EFuel.
Proof. exact parse_expression_no_fuel. Qed.
Print Assumptions C06_expr_parser_fuel_suffices.

Theorem C06_no_fuel : forall chunks start, parse_script chunks start <> RFuel.
Proof. exact parse_script_no_fuel. Qed.
Print Assumptions C06_no_fuel.

(* so: for EVERY input, parse_script returns a script or a BareScriptParserError — nothing else *)
Theorem C06_total_returns : forall chunks start,
  (exists s, parse_script chunks start = ROk s) \/ (exists e, parse_script chunks start = RErr e).
Proof. exact parse_script_returns. Qed.
Print Assumptions C06_total_returns.

Theorem C06_expr_total_returns : forall text,
  (exists e, parse_expression text = EOk e) \/ (exists msg c, parse_expression text = EErr msg c).
Proof. exact parse_expression_returns. Qed.
Print Assumptions C06_expr_total_returns.

Theorem C06_no_index_error : forall chunks start, parse_script chunks start <> RHost (U "IndexError").
Proof. exact parse_script_no_index_error. Qed.
Print Assumptions C06_no_index_error.

(* ---- (5) caret: in the formatted message the caret sits under the character the column designates,
   in all three elision branches ---- *)
Theorem C06_caret : forall msg line col lineno,
  (1 <= col <= Z.of_nat (length line) + 1)%Z ->
  exists header shown k,
    perr_message msg line col lineno = header ++ [10%N] ++ shown ++ [10%N] ++ repeat 32%N k ++ [94%N; 10%N] /\
    k <= length shown /\
    nth_error shown k = nth_error line (Z.to_nat (col - 1)).
Proof. exact perr_message_caret. Qed.
Print Assumptions C06_caret.

Theorem C06_caret_of_parse_script : forall chunks start e,
  parse_script chunks start = RErr e ->
  exists header shown k,
    format_perr e = header ++ [10%N] ++ shown ++ [10%N] ++ repeat 32%N k ++ [94%N; 10%N] /\
    k <= length shown /\
    nth_error shown k = nth_error (e_line e) (e_col e - 1).
Proof. exact parse_script_caret. Qed.
Print Assumptions C06_caret_of_parse_script.

(* ---- non-vacuity ---- *)
Example C06_ex_accepts : exists s, parse_script [U "a = 1\00000aif a:\00000a  b = fn(2) \00005c\00000a    + 1\00000aendif\00000a"] 1 = ROk s /\ length s = 4.
Proof. eexists. split; [vm_compute; reflexivity | reflexivity]. Qed.

Example C06_ex_error_position :
  parse_script [U "a = 1\00000a# c\00000a  y = (2 +\00000a"] 7 =
  RErr {| e_msg := U "Syntax error"; e_line := U "  y = (2 +"; e_col := 11; e_lineno := Some 9 |}.
Proof. vm_compute. reflexivity. Qed.

Example C06_ex_open_block :
  parse_script [U "function f():\00000a  while x:\00000aendfunction\00000a"] 1 =
  RErr {| e_msg := U "Missing endwhile statement"; e_line := U "  while x:"; e_col := 1; e_lineno := Some 2 |}.
Proof. vm_compute. reflexivity. Qed.

Example C06_ex_dangling :
  parse_script [U "a = 1\00000ab = 2 + \00005c\00000a   3 \00005c"] 1 =
  RErr {| e_msg := U "Unexpected end of script in line continuation"; e_line := U "b = 2 + 3"; e_col := 1; e_lineno := Some 2 |}.
Proof. vm_compute. reflexivity. Qed.

Example C06_ex_column :
  no_lf (U "  jumpif (a + $ b) lbl ") /\
  exists e, pstep ps_init 3 (U "  jumpif (a + $ b) lbl ") = RErr e /\ e_col e = 14 /\ expr_error_at (U "  jumpif (a + $ b) lbl ") e.
Proof.
  assert (N : no_lf (U "  jumpif (a + $ b) lbl ")) by (vm_compute; intuition discriminate).
  assert (E : pstep ps_init 3 (U "  jumpif (a + $ b) lbl ") =
              RErr {| e_msg := U "Syntax error"; e_line := U "  jumpif (a + $ b) lbl "; e_col := 14; e_lineno := Some 3 |})
    by (vm_compute; reflexivity).
  split; [exact N|]. eexists. split; [exact E|]. split; [reflexivity|].
  destruct (pstep_err_column _ _ _ _ N E) as [H|H]; [discriminate H | exact H].
Qed.

Definition C06_ex_pre : list str :=
  [U "x = 1 + 2"; U "  # note"; U "fn(x, 'a')"; U ""; U "top:"; U "jumpif (x > 1) top"; U "jump top"; U "return x * 2"; U "return"].

Example C06_ex_prefix : exists P, prefix_stmts C06_ex_pre P /\ length P = 7.
Proof.
  eexists. split.
  - unfold C06_ex_pre.
    repeat first
      [ apply PS_nil
      | apply PS_comment; [vm_compute; reflexivity|]
      | eapply PS_simple; [split; [vm_compute; reflexivity | split; [vm_compute; reflexivity | eexists; split; [vm_compute; reflexivity | reflexivity]]]|] ].
  - reflexivity.
Qed.

(* the shift on a failing script, through the theorem: 9 lines in front, the error of line 2 of the rest is reported at 5 + 9 + 1 *)
Example C06_ex_shift_simple :
  parse_lines (C06_ex_pre ++ [U "if x:"; U "  y = (2 +"; U "endif"]) 5 =
  RErr {| e_msg := U "Syntax error"; e_line := U "  y = (2 +"; e_col := 11; e_lineno := Some 15 |}.
Proof.
  destruct C06_ex_prefix as (P & H & _).
  assert (E : parse_lines [U "if x:"; U "  y = (2 +"; U "endif"] 5 =
              RErr {| e_msg := U "Syntax error"; e_line := U "  y = (2 +"; e_col := 11; e_lineno := Some 6 |}) by (vm_compute; reflexivity).
  rewrite (parse_lines_prefix_err _ _ _ _ _ H E). reflexivity.
Qed.

Example C06_ex_gprefix : exists P,
  gprefix [U "x = 1 + \00005c"; U "   # inside"; U "    2"; U "fn(x, \00005c  "; U "  'a')"; U ""] P /\ length P = 2.
Proof.
  eexists. split.
  - eexists. eexists. split; [vm_compute; reflexivity|]. split; [reflexivity|].
    repeat (constructor; [eexists; split; [vm_compute; reflexivity | reflexivity]|]). constructor.
  - reflexivity.
Qed.

Example C06_ex_comment_lines : Forall (fun c => is_comment c = ROk true) [U ""; U "   "; U "  # c \00005c"; U "#"].
Proof. repeat constructor. Qed.

Example C06_ex_elision_middle :
  let line := repeat 97%N 150 ++ [64%N] ++ repeat 98%N 200 in
  exists shown c, elide line 151 = (shown, c) /\ length shown = 128 /\ nth_error shown (Z.to_nat (c - 1)) = Some 64%N.
Proof. eexists. eexists. split; [vm_compute; reflexivity | split; reflexivity]. Qed.
