(* Props/C10.v — property C10: source layout does not change the parsed program.
   ONLY statements; every proof is `exact <lemma of Proofs/C10.v>`.
   split_direct is the direct splitter of Model/ScriptX.v ("split at LF, drop one CR before it"); that it equals the
   regex-based split_lines of the shared model (`\r?\n` through the generic matcher) is PROVED for every text
   (C10_split_lines_is_the_direct_splitter, at the end of this file; Proofs/C10split.v) and still checked by the
   correspondence on every run.  parse_lines = parse_script after line splitting; llines = the logical lines. *)
From BS Require Import Model.Base Model.Regex Model.Num Model.ExprParser Model.Script Model.ScriptX Model.Lower
  Gen.Unicode Proofs.ScriptFacts Proofs.C06 Proofs.C10 Proofs.C10ws Proofs.C10wsExpr Proofs.C10wsIndent
  Proofs.ExprFuel Proofs.C10wsFull Proofs.RegexShiftG Proofs.C10wsIndent2 Proofs.C10wsReturn
  Proofs.C10tokLex Proofs.C10tokSpaced Proofs.RegexTrail Proofs.C10tokTrail Proofs.RegexTrail2
  Proofs.RegexTrail3 Proofs.C10stmtTrail Proofs.C10parseNoeq Proofs.C10classifyTrail Proofs.C10stmtGaps Proofs.C10stmtGaps2 Proofs.C10stmtGaps3
  Proofs.C10stmtGaps4 Proofs.C10stmtGaps5 Proofs.C10stmtGaps6 Proofs.C02str Proofs.C10stmtGaps7 Proofs.C10stmtGaps8 Proofs.C10stmtGaps9 Proofs.C10labelKw Proofs.C10stmtGaps10 Proofs.C10split.

(* ---- LF versus CRLF: both texts have the same lines ---- *)
Theorem C10_crlf : forall lines, lines <> [] -> Forall no_lf lines -> Forall (fun l => ends_cr l = false) lines ->
  split_direct (join_with [13%N; 10%N] lines) = lines /\ split_direct (join_with [10%N] lines) = lines.
Proof. intros. split; [apply split_join_crlf | apply split_join_lf]; assumption. Qed.
Print Assumptions C10_crlf.

Theorem C10_lines_have_no_lf : forall text, Forall no_lf (split_direct text).
Proof. exact split_direct_no_lf. Qed.
Print Assumptions C10_lines_have_no_lf.

(* ---- chunking at line boundaries: cutting a text at an LF (left piece not ending in CR) or at a CRLF and splitting the
   pieces separately gives the same lines; split_chunks concatenates the per-chunk splits ---- *)
Theorem C10_cut_lf : forall a b, last_cr a [] = false -> split_direct (a ++ 10%N :: b) = split_direct a ++ split_direct b.
Proof. exact split_cut_lf. Qed.
Print Assumptions C10_cut_lf.
Theorem C10_cut_crlf : forall a b, split_direct (a ++ 13%N :: 10%N :: b) = split_direct a ++ split_direct b.
Proof. exact split_cut_crlf. Qed.
Print Assumptions C10_cut_crlf.
Theorem C10_chunking : forall a b la lb,
  split_chunks a = ROk la -> split_chunks b = ROk lb -> split_chunks (a ++ b) = ROk (la ++ lb).
Proof. exact split_chunks_app. Qed.
Print Assumptions C10_chunking.

(* ---- comment / blank lines inserted anywhere (also between the parts of a continued line): the same logical line
   texts, hence the same model; errors keep their text, line text and column (g0 erases the line numbers) ---- *)
Theorem C10_comments_logical_lines : forall l l', ins_comments l l' -> forall ix ix' ls ls', l_cont ls = l_cont ls' ->
  map snd (fst (llines l ix ls)) = map snd (fst (llines l' ix' ls')) /\
  tail_same (snd (llines l ix ls)) (snd (llines l' ix' ls')).
Proof. exact llines_ins_comments. Qed.
Print Assumptions C10_comments_logical_lines.

Theorem C10_comments : forall l l' start start', ins_comments l l' ->
  map_sres g0 (fun s => s) (parse_lines l start) = map_sres g0 (fun s => s) (parse_lines l' start').
Proof. exact parse_lines_ins_comments. Qed.
Print Assumptions C10_comments.

Theorem C10_comments_model : forall l l' start start' s, ins_comments l l' ->
  parse_lines l start = ROk s -> parse_lines l' start' = ROk s.
Proof. exact parse_lines_ins_comments_ok. Qed.
Print Assumptions C10_comments_model.

(* ---- the model depends only on the sequence of logical line TEXTS ---- *)
Theorem C10_model_depends_on_logical_lines : forall l l' start start',
  map snd (fst (llines l 0 ls_init)) = map snd (fst (llines l' 0 ls_init)) ->
  tail_same (snd (llines l 0 ls_init)) (snd (llines l' 0 ls_init)) ->
  map_sres g0 (fun s => s) (parse_lines l start) = map_sres g0 (fun s => s) (parse_lines l' start').
Proof. exact parse_lines_texts. Qed.
Print Assumptions C10_model_depends_on_logical_lines.

(* ---- continuation: parts joined by single spaces, first part right-stripped, later parts stripped, numbered at the
   first part.  (continued (p, s): p is not a comment and the continuation regex turned p into s <> p) ---- *)
Theorem C10_continuation : forall p1 s1 mids pl ix,
  continued (p1, s1) -> Forall continued mids -> is_comment pl = ROk false -> strip_continuation pl = ROk pl ->
  llines (p1 :: map fst mids ++ [pl]) ix ls_init =
  ([(ix, join_with [32%N] (rstrip s1 :: map (fun ps => strip (snd ps)) mids ++ [strip pl]))], LDone {| l_cont := []; l_ix := ix |}).
Proof. exact continuation_many. Qed.
Print Assumptions C10_continuation.

(* ---- indentation / trailing whitespace of the keyword-only statements (statement classification of the shared model:
   Model/Lower.v `classify`, with pstep ps n line = sbind (classify n line) (kstep ps n line) by Proofs/C07eq.v).
   `white w`: every character of w is `\s` for the regex engine (no restriction to blanks/tabs; a line of parse_script
   never contains LF anyway).  keyword_lines = else: endif endwhile endfor endfunction break continue with their kinds.
   Proved through the REGENERATED regexes: the statement's own `^\s*kw\s*$` matches the padded text (the engine is complete
   for look-ahead free regexes and never runs out of fuel: Proofs/RegexComplete.v) and every EARLIER regex of the cascade
   does not match it (it requires a non-space character that is not in the text). ---- *)
Theorem C10_ws_keyword_lines : forall l k, In (l, k) keyword_lines ->
  forall n ws1 ws2, white ws1 -> white ws2 ->
  Lower.classify n (ws1 ++ l ++ ws2) = Lower.classify n l /\ Lower.classify n l = ROk k.
Proof. exact ws_keyword_lines. Qed.
Print Assumptions C10_ws_keyword_lines.

(* also whitespace before the colon of `else:` *)
Theorem C10_ws_else_gap : forall n ws1 ws2 ws3, white ws1 -> white ws2 -> white ws3 ->
  Lower.classify n (ws1 ++ U "else" ++ ws2 ++ U ":" ++ ws3) = ROk KElse.
Proof. exact classify_else_gap. Qed.
Print Assumptions C10_ws_else_gap.

(* ---- leading whitespace in front of an expression: parse_expression gives the same tree; an error keeps its text and
   its column moves with the text (c + |ws|), or stays 1 when the very first token is rejected (parser.py then reports the
   whole text as the remainder).  eres_ws d a b relates a = parse_expression text and b = parse_expression (ws ++ text).
   No fuel premise any more: the MODEL's fuel (2*|text|+4) always suffices (C10_expression_fuel_suffices, Proofs/ExprFuel.v:
   parse_unary needs 2n+1, parse_binary 2n+2 / 2n+1, parse_args 2n+3 / 2n+1 levels of recursion on a text of n characters,
   because `(`, a unary or binary operator and `,` read >= 1 character and `name(` >= 2 — computed on the regenerated regexes).
   Proved through the regenerated token regexes `^\s*B` (Proofs/RegexShift.v: the engine's answer on ws ++ text is its
   answer on text shifted by |ws|).  PARTIAL with respect to the clause: only a LEADING run, not the gaps between tokens. ---- *)
Theorem C10_expression_fuel_suffices : forall text, parse_expression text <> EFuel.
Proof. exact parse_expression_no_fuel. Qed.
Print Assumptions C10_expression_fuel_suffices.

Theorem C10_ws_expression_leading_partial : forall ws text, white ws ->
  eres_ws (length ws) (parse_expression text) (parse_expression (ws ++ text)).
Proof. exact parse_expression_ws_full. Qed.
Print Assumptions C10_ws_expression_leading_partial.

(* the error case spelled out *)
Theorem C10_ws_expression_leading_err : forall ws text msg c, white ws -> parse_expression text = EErr msg c ->
  parse_expression (ws ++ text) = EErr msg (c + length ws) \/ (c = 1 /\ parse_expression (ws ++ text) = EErr msg 1).
Proof. exact parse_expression_ws_err. Qed.
Print Assumptions C10_ws_expression_leading_err.

Theorem C10_ws_expression_leading_ok : forall ws text e, white ws ->
  parse_expression text = EOk e -> parse_expression (ws ++ text) = EOk e.
Proof. exact parse_expression_ws_ok. Qed.
Print Assumptions C10_ws_expression_leading_ok.

(* ---- INDENTATION of any statement line whose kind is not function-begin / jump / jumpif / return (indent_kind; an elif
   whose condition parses): the indented line is classified as the same statement with the same names and expression trees.
   (kstep, the lowering of Model/Lower.v, also receives the line TEXT, which it only stores for later error messages.)
   15 of the 18 statement regexes are `^\s*B`: the engine's answer on the indented line is its answer on the line, shifted;
   the 3 others have the `\s*` inside a group (`^(\s*async)?\s*function`, `^(\s*jump..)`, `^(\s*return..)`): for them only
   "still does not match" is proved (needed by every statement after them in the cascade), so their own kinds are excluded.
   PARTIAL: leading whitespace only. ---- *)
Theorem C10_ws_indentation_partial : forall n ws line k, white ws -> indent_kind k = true ->
  Lower.classify n line = ROk k -> Lower.classify n (ws ++ line) = ROk k.
Proof. exact classify_indent. Qed.
Print Assumptions C10_ws_indentation_partial.

(* ---- INDENTATION of EVERY statement line, also function-begin / jump / jumpif / return (Proofs/C10wsIndent2.v).  Their
   regexes open a capture group at the start of the line with the `\s*` inside it (`^(?P<jump>\s*(?:jump|jumpif..))`,
   `^(?P<return>\s*return..)`, `^(?P<async>\s*async)?\s*function`).  Proved operationally (Proofs/RegexShiftG.v): the ENGINE's
   answer on ws ++ line is its answer on line with every position moved by |ws| except the start of that outer group, which
   stays 0 — so all other captured texts (name, expr, args, ...) and "which groups matched" are unchanged; the outer group's
   own text only feeds the error column.  Only restriction left: an elif whose condition does NOT parse (its kind carries
   the parser error with the column).  PARTIAL w.r.t. the clause only in that it is about LEADING whitespace. ---- *)
Theorem C10_ws_indentation : forall n ws line k, white ws -> indent_kind_all k = true ->
  Lower.classify n line = ROk k -> Lower.classify n (ws ++ line) = ROk k.
Proof. exact classify_indent_all. Qed.
Print Assumptions C10_ws_indentation.

(* the engine-level statements behind it *)
Theorem C10_ws_indent_jump : forall ws line, white ws ->
  rxm Gen.Regexes.R_SCRIPT_JUMP (ws ++ line) = shiftrg (length ws) 1 (rxm Gen.Regexes.R_SCRIPT_JUMP line).
Proof. exact jump_shift. Qed.
Theorem C10_ws_indent_return : forall ws line, white ws ->
  rxm Gen.Regexes.R_SCRIPT_RETURN (ws ++ line) = shiftrg (length ws) 1 (rxm Gen.Regexes.R_SCRIPT_RETURN line).
Proof. exact return_shift. Qed.
Theorem C10_ws_indent_function_begin : forall ws line, white ws ->
  rxm Gen.Regexes.R_SCRIPT_FUNCTION_BEGIN (ws ++ line) = shiftrg (length ws) 1 (rxm Gen.Regexes.R_SCRIPT_FUNCTION_BEGIN line).
Proof. exact fn_begin_shift. Qed.
Print Assumptions C10_ws_indent_function_begin.

(* ---- a bare `return` with ANY indentation and ANY trailing whitespace is the statement `return` (the F19 regression as a
   theorem about the REGENERATED R_SCRIPT_RETURN: in every derivation the optional expr group is absent, because its first
   character `\S` would have to be one of the trailing whitespace characters) ---- *)
Theorem C10_ws_return_bare : forall n ws1 ws2, white ws1 -> white ws2 ->
  Lower.classify n (ws1 ++ U "return" ++ ws2) = ROk (KReturn None).
Proof. exact classify_return_bare. Qed.
Print Assumptions C10_ws_return_bare.

(* ---- white space BETWEEN the tokens of an expression (round 5, Proofs/C10tokLex.v, Proofs/C10tokSpaced.v).
   spaced t1 t2 (= sp PU t1 t2, an inductive relation between two TEXTS): both are the same sequence of token texts, every
   token preceded by its own arbitrary, possibly EMPTY, run of `\s` characters in t1 and in t2, plus arbitrary trailing
   white space.  The relation follows the order of tokens the grammar allows (operand position / after an operand / right
   after `name(`), which is why an empty gap is harmless: no two neighbours the grammar allows merge into a longer token.
   Tokens: ( ) , the unary ! and -, the fourteen binary operators (In op spec_ops), identifiers, calls `name (` (the
   regex itself allows white space between the name and its parenthesis; a one-letter name is never a call), number literals
   (numtok: the literal reading consumes all of the token; a leading `+` belongs to the literal, a leading `-` is the unary
   operator, exactly as the parser reads them), and OPAQUE atoms (atom_reads): a '...' or "..." literal or a [...] variable
   is any text that starts with the opening delimiter and that the atom's own regenerated regex reads completely, with the
   same captured text, in front of both remainders — its interior is never touched.
   White space is only inserted/removed BETWEEN tokens, never inside one (`< =`, `* *`, `1 .5`, `a b` for `ab`, `+ 1` for
   the literal `+1` are different texts: C10_ex_ws_tokens_inside).
   PARTIAL: (a) only the result EOk is related (hence, sp being symmetric, t1 parses iff t2 parses, to the same tree; the
   message/column of a rejected text is not related); (b) string / bracket atoms are characterised through their regex,
   not syntactically.
   Proved by running the parser on both texts in lockstep; the token regexes are read through the direct readings of
   Proofs/C02rx.v / C13rx.v (skip white space, then first-character test / longest run), the three atom regexes through
   their first literal. ---- *)
Theorem C10_ws_expression_tokens_partial : forall t1 t2 e, spaced t1 t2 ->
  parse_expression t1 = EOk e -> parse_expression t2 = EOk e.
Proof. exact spaced_parse. Qed.
Print Assumptions C10_ws_expression_tokens_partial.

Theorem C10_ws_spaced_symmetric : forall t1 t2, spaced t1 t2 -> spaced t2 t1.
Proof. exact (sp_sym PU). Qed.
Print Assumptions C10_ws_spaced_symmetric.

Theorem C10_ws_expression_tokens_iff_partial : forall t1 t2 e, spaced t1 t2 ->
  (parse_expression t1 = EOk e <-> parse_expression t2 = EOk e).
Proof. exact spaced_parse_iff. Qed.
Print Assumptions C10_ws_expression_tokens_iff_partial.

(* non-vacuity: one expression with every token kind (call, number, unary, variable, group, string, exponent literal, all
   operator lengths, empty argument list, bracket variable, double-quoted string), once with no white space at all and once
   with blanks / a tab / two blanks at every gap: related, and both parse to the same tree *)
Example C10_ex_ws_tokens :
  ex_tight = U "fn(1,-x)+'a b'*(y<=2.5e+3)||!gg()&&[k 1]!=""q""" /\
  ex_loose = U " fn ( 1 , - x )  + 'a b' *\000009( y <= 2.5e+3 ) || ! gg ( ) && [k 1] != ""q"" " /\
  exists e, parse_expression ex_tight = EOk e /\ parse_expression ex_loose = EOk e /\ spaced ex_tight ex_loose.
Proof. split; [reflexivity|]. split; [reflexivity|]. exact spaced_example_parse. Qed.

Example C10_ex_ws_tokens_inside :
  parse_expression (U "a<=b") <> parse_expression (U "a< =b") /\
  parse_expression (U "a**b") <> parse_expression (U "a* *b") /\
  parse_expression (U "ab") <> parse_expression (U "a b") /\
  parse_expression (U "x+1") = parse_expression (U "x + 1") /\
  parse_expression (U "+1") <> parse_expression (U "+ 1").
Proof. exact spaced_counterexamples. Qed.

(* ---- TRAILING white space of an expression (round 5, Proofs/RegexTrail.v, Proofs/C10tokTrail.v): FULL — every text
   (also a rejected one: same message and same column), every run of `\s` characters, an EQUALITY of results.
   Each of the eleven regenerated token regexes answers on s ++ ws exactly what it answers on s (C10_ws_token_regex_trailing):
   the eight that end with a literal non-space character through an operational lemma about the backtracking engine itself
   (appending white space to the subject changes nothing when the continuation refuses to stop inside the appended run:
   Proofs/RegexTrail.v m_trail / ev_trail — this covers the '...' "..." [...] regexes, whose stars over alternations have no
   direct reading), the four that end inside a capture group through their direct readings.  Then the three parser functions
   run in lockstep on s ++ ws and s; the final strip() ignores the run; columns are differences of lengths. ---- *)
Theorem C10_ws_expression_trailing : forall t ws, white ws -> parse_expression (t ++ ws) = parse_expression t.
Proof. exact parse_expression_trail. Qed.
Print Assumptions C10_ws_expression_trailing.

Theorem C10_ws_token_regex_trailing : forall R s ws, tokre R -> white ws -> rx R (s ++ ws) = rx R s.
Proof. exact rx_trail. Qed.
Print Assumptions C10_ws_token_regex_trailing.

Example C10_ex_ws_expression_trailing :
  white (U " \000009 ") /\ tokre Gen.Regexes.R_EXPR_STRING /\
  (exists e, parse_expression (U "fn(1, -x) + 'a' \000009 ") = EOk e /\ parse_expression (U "fn(1, -x) + 'a'") = EOk e) /\
  parse_expression (U "1 + ) \000009 ") = EErr (U "Syntax error") 4 /\ parse_expression (U "1 + )") = EErr (U "Syntax error") 4 /\
  parse_expression (U "'a \000009 ") = parse_expression (U "'a").
Proof.
  split; [intros c I; vm_compute in I; repeat (destruct I as [<-|I]; [reflexivity|]); contradiction|].
  split; [constructor|].
  split; [eexists; split; vm_compute; reflexivity|].
  repeat split; vm_compute; reflexivity.
Qed.

(* ---- TRAILING white space and the STATEMENT regexes, engine level (round 5, Proofs/RegexTrail2.v).  For the fifteen
   statement regexes that end with  X \s*$  after a literal non-space character X (stmt_tail_re: function begin / end, label,
   include, include <..>, if / elif / else / endif, for / endfor, while / endwhile, break, continue) the ENGINE's answer on
   line ++ ws is "no match" iff it is on line, and a match has the SAME capture table (which groups matched, where they start
   and end), so every captured text is the same; only the end of the whole match moves.  Proved operationally (m_trail2:
   Proofs/RegexTrail.v m_trail with "equal answers" weakened to "same captures"; ev_eol_tail: `\s*$` succeeds exactly on white
   subjects), for any run of `\s` characters.  PARTIAL with respect to "classify n (line ++ ws) = classify n line": the three
   other statement regexes are not covered — `(?P<expr>.+)$` (assignment) and `\S.*` (return expr) absorb the run, the name
   group of jump is followed directly by `\s*$`; those three are done in round 6 (C10_ws_assignment_regex_trailing,
   C10_ws_return_regex_trailing, C10_ws_jump_regex_trailing) and the classify theorem is C10_ws_trailing below. ---- *)
Theorem C10_ws_statement_regex_trailing_partial : forall R line ws, stmt_tail_re R -> white ws ->
  match rxm R line with
  | MNo => rxm R (line ++ ws) = MNo
  | MYes _ c => exists e', rxm R (line ++ ws) = MYes e' c /\ forall g, gtext (line ++ ws) c g = gtext line c g
  | MFuel => False
  end.
Proof. exact stmt_regex_trail_groups. Qed.
Print Assumptions C10_ws_statement_regex_trailing_partial.

Example C10_ex_ws_statement_regex_trailing :
  stmt_tail_re Gen.Regexes.R_SCRIPT_FOR_BEGIN /\ white (U " \000009") /\
  (exists e c, rxm Gen.Regexes.R_SCRIPT_FOR_BEGIN (U "for v, i in arr :") = MYes e c /\
               gtext (U "for v, i in arr :") c Gen.Regexes.R_SCRIPT_FOR_BEGIN__values = U "arr " /\
               exists e', rxm Gen.Regexes.R_SCRIPT_FOR_BEGIN (U "for v, i in arr : \000009") = MYes e' c /\ e' = e + 2) /\
  rxm Gen.Regexes.R_SCRIPT_LABEL (U "a b:") = MNo /\ rxm Gen.Regexes.R_SCRIPT_LABEL (U "a b: ") = MNo.
Proof.
  split; [constructor|].
  split; [intros c I; vm_compute in I; repeat (destruct I as [<-|I]; [reflexivity|]); contradiction|].
  split; [|split; vm_compute; reflexivity].
  eexists. eexists. split; [vm_compute; reflexivity|]. split; [vm_compute; reflexivity|].
  eexists. split; vm_compute; reflexivity.
Qed.

(* ---- TRAILING white space of a STATEMENT line, at the level of classify (round 6, Proofs/RegexTrail3.v, C10stmtTrail.v,
   C10parseNoeq.v, C10classifyTrail.v): EVERY statement kind — assignment, function begin / end, if / elif / else / endif,
   while / endwhile, for / endfor, break, continue, label, jump, jumpif, return (bare and with an expression), include (both
   forms), expression statement.  A line that classifies successfully as k is classified as the SAME k (same names, same
   expression trees) with any run of `\s` characters appended; only an elif whose condition does not parse is left out
   (indent_kind_all: that kind carries the parser's error record, which quotes the line).  Premise: no LF in the line and in
   the run (`.` does not read LF: `x = 1` ++ LF ++ ` ` is not an assignment; the lines parse_script produces never contain LF,
   C10_lines_have_no_lf).
   How: for the fifteen regexes `X \s*$` and for jump the ENGINE answers with the same captures; for assignment
   `(?P<expr>.+)$` and return `\S.*` the expr group absorbs the run (its text is the old text ++ ws: C10_ws_assignment_regex_trailing,
   C10_ws_return_regex_trailing) and parse_expression ignores a trailing run (C10_ws_expression_trailing).  `x =` is NOT an
   assignment while `x =  ` is one: "the assignment regex does not match" is preserved only for lines that do not end with
   `=`, and a line that classifies successfully never ends with `=` (C10_ws_classified_not_eq_end: the other regexes end with
   another character, and an expression that ends with `=` never parses: C10_expression_never_ends_eq). ---- *)
Theorem C10_ws_trailing : forall n line ws k, white ws -> ~ In 10%N ws -> ~ In 10%N line -> indent_kind_all k = true ->
  Lower.classify n line = ROk k -> Lower.classify n (line ++ ws) = ROk k.
Proof. exact classify_trail_nolf. Qed.
Print Assumptions C10_ws_trailing.

(* indentation and trailing run together *)
Theorem C10_ws_padding : forall n ws1 line ws2 k, white ws1 -> white ws2 -> ~ In 10%N ws1 -> ~ In 10%N ws2 -> ~ In 10%N line ->
  indent_kind_all k = true -> Lower.classify n line = ROk k -> Lower.classify n (ws1 ++ line ++ ws2) = ROk k.
Proof. exact classify_padded. Qed.
Print Assumptions C10_ws_padding.

Theorem C10_ws_classified_not_eq_end : forall n line k, ~ In 10%N line -> Lower.classify n line = ROk k ->
  forall pre, line <> pre ++ [61%N].
Proof. exact classify_ok_noeq_nolf. Qed.
Print Assumptions C10_ws_classified_not_eq_end.

Theorem C10_expression_never_ends_eq : forall t e, parse_expression (t ++ [61%N]) <> EOk e.
Proof. intros t e H. exact (parse_ok_noeq _ _ H t eq_refl). Qed.
Print Assumptions C10_expression_never_ends_eq.

(* the engine-level statements behind it.  RelA line ws a b: both MNo, or both a match whose capture tables differ only in
   the expr group 2, which ends at the end of the subject in both, and either its text on line ++ ws is its text on line
   followed by ws, or both texts are white space (`x =  `: the group backs off to the last blank).  RelR line ws a b: both
   MNo, or both a match with either the same capture table (bare return) or groups 1 (`return`) and 2 (expr) that end at the
   end of the subject in both and start at the same place.  sim: both MNo or both a match with the same capture table. *)
Theorem C10_ws_assignment_regex_trailing : forall line ws, white ws -> nolf ws -> nolf line -> noeq_end line ->
  RelA line ws (rxm Gen.Regexes.R_SCRIPT_ASSIGNMENT (line ++ ws)) (rxm Gen.Regexes.R_SCRIPT_ASSIGNMENT line).
Proof. exact assign_trail. Qed.
Print Assumptions C10_ws_assignment_regex_trailing.
Theorem C10_ws_return_regex_trailing : forall line ws, white ws -> nolf ws -> nolf line ->
  RelR line ws (rxm Gen.Regexes.R_SCRIPT_RETURN (line ++ ws)) (rxm Gen.Regexes.R_SCRIPT_RETURN line).
Proof. exact return_trail. Qed.
Print Assumptions C10_ws_return_regex_trailing.
Theorem C10_ws_jump_regex_trailing : forall line ws, white ws ->
  sim (rxm Gen.Regexes.R_SCRIPT_JUMP (line ++ ws)) (rxm Gen.Regexes.R_SCRIPT_JUMP line).
Proof. exact jump_trail. Qed.
Print Assumptions C10_ws_jump_regex_trailing.

(* non-vacuity: one line of every kind with the run blank, tab, blank appended; and the two counterexamples that shape the
   premises (`x =` / `x =  `, and an LF in the run) *)
Example C10_ex_ws_trailing :
  white (U " \000009 ") /\ ~ In 10%N (U " \000009 ") /\
  (forall l, In l [U "x = fn(1) + 2"; U "async function f(a, b...):"; U "endfunction"; U "if a < 1:"; U "elif b:"; U "else:";
                   U "endif"; U "while i < 3 :"; U "endwhile"; U "for v, i in arr:"; U "endfor"; U "break"; U "continue";
                   U "top:"; U "jump top"; U "jumpif (x > 1) top"; U "return"; U "return x + 1"; U "include 'a.bare'";
                   U "include <b.bare>"; U "fn(x, 'y')"] ->
     ~ In 10%N l /\ exists k, indent_kind_all k = true /\ Lower.classify 3 l = ROk k /\ Lower.classify 3 (l ++ U " \000009 ") = ROk k) /\
  (exists e, Lower.classify 1 (U "x =") = RErr e) /\ (exists k, Lower.classify 1 (U "x =  ") = RErr k) /\
  Lower.classify 1 (U "x =") <> Lower.classify 1 (U "x =  ") /\
  (exists k, Lower.classify 1 (U "x = 1") = ROk k /\ Lower.classify 1 (U "x = 1\00000a ") <> ROk k).
Proof.
  split; [intros c I; vm_compute in I; repeat (destruct I as [<-|I]; [reflexivity|]); contradiction|].
  split; [intros I; vm_compute in I; repeat (destruct I as [I|I]; [discriminate I|]); contradiction|].
  split.
  { intros l I. cbn [In] in I.
    repeat (destruct I as [<-|I];
      [split; [intros J; vm_compute in J; repeat (destruct J as [J|J]; [discriminate J|]); contradiction|];
       eexists; split; [|split; vm_compute; reflexivity]; reflexivity|]).
    contradiction. }
  split; [eexists; vm_compute; reflexivity|]. split; [eexists; vm_compute; reflexivity|].
  split; [vm_compute; discriminate|].
  eexists. split; [vm_compute; reflexivity | vm_compute; discriminate].
Qed.

(* ---- INNER gaps of a statement line (round 6, Proofs/C10stmtGaps.v, C10stmtGaps2.v, C10stmtGaps3.v): the white runs at the
   places where the statement regex has `\s*` / `\s+`.  PARTIAL: the kinds assignment, if, elif, while, return <expr>, jump,
   jumpif, include <url> (plus, from before, `else :` C10_ws_else_gap and the keyword-only lines), and — round 7, below:
   C10_ws_label_pieces, C10_ws_for_pieces, C10_ws_for_index_pieces, relation stmt_spaced3 — label and for, and
   C10_ws_include_quoted_pieces — include 'url', C10_ws_fn_begin_pieces — function begin: every statement kind now has
   a pieces theorem (the bare expression statement is the expression-token theorem).  For the first eight kinds the classification is computed from the PIECES of the line, for ALL white runs:
     w1 name w2 = T        ->  KAssign name e           w1 if w2 T : w4            ->  KIf e
     w1 elif w2 T : w4     ->  KElif (ROk e)            w1 while w2 T : w4         ->  KWhile e
     w1 return w2 T        ->  KReturn (Some e)         w1 jump w2 name w4         ->  KJump name None
     w1 jumpif g ( T ) w2 name w4  ->  KJump name (Some e)      w1 include w2 <url> w4     ->  KInclude url true
   (w1 w2 w4 g arbitrary runs of `\s` characters, w2 non-empty where the regex has `\s+`; name an identifier; T an LF-free text
   with parse_expression T = EOk e, starting with a non-space character after if / elif / while / return — in the assignment T
   includes the run after `=`, in jumpif the runs inside the parentheses; the run in front of the colon belongs to T: the greedy
   group `(.+)` takes it and the parser ignores it).
   stmt_spaced2 k l1 l2 relates two such layouts of the same pieces whose expression texts are related by `spaced` (white runs
   between the expression tokens, C10_ws_expression_tokens_partial); both lines are then classified as the same k.  The
   premise is "the expression text parses" instead of "l1 classifies successfully" (a decomposition of l1 into pieces is
   not unique a priori).  Proved by direct readings of the regenerated regexes (RegexEval.star_bt: greedy runs, the `(.+)`
   that backs off to the last colon / closing parenthesis), first-character rejection of the regexes tried earlier by
   classify, and: an expression never starts with `=` or `:` (otherwise `if =1:` would be an assignment to `if`,
   `return :` a label). ---- *)
Theorem C10_ws_statement_gaps_partial : forall n k l1 l2, stmt_spaced2 k l1 l2 ->
  Lower.classify n l1 = ROk k /\ Lower.classify n l2 = ROk k.
Proof. exact stmt_spaced2_classify. Qed.
Print Assumptions C10_ws_statement_gaps_partial.

Theorem C10_ws_statement_gaps_symmetric : forall k l1 l2, stmt_spaced2 k l1 l2 -> stmt_spaced2 k l2 l1.
Proof. exact stmt_spaced2_sym. Qed.
Print Assumptions C10_ws_statement_gaps_symmetric.

Theorem C10_ws_assignment_pieces : forall n w1 name w2 T e, white w1 -> white w2 -> ident name = true -> nolf T ->
  parse_expression T = EOk e -> Lower.classify n (w1 ++ name ++ w2 ++ U "=" ++ T) = ROk (KAssign name e).
Proof. exact classify_assign_shape. Qed.
Print Assumptions C10_ws_assignment_pieces.

Theorem C10_ws_if_pieces : forall n w1 w2 T w4 e, white w1 -> white w2 -> w2 <> [] -> white w4 -> nolf T -> hd_ok is_sp T ->
  parse_expression T = EOk e -> Lower.classify n (w1 ++ U "if" ++ w2 ++ T ++ U ":" ++ w4) = ROk (KIf e).
Proof. exact classify_if_shape. Qed.
Print Assumptions C10_ws_if_pieces.
Theorem C10_ws_elif_pieces : forall n w1 w2 T w4 e, white w1 -> white w2 -> w2 <> [] -> white w4 -> nolf T -> hd_ok is_sp T ->
  parse_expression T = EOk e -> Lower.classify n (w1 ++ U "elif" ++ w2 ++ T ++ U ":" ++ w4) = ROk (KElif (ROk e)).
Proof. exact classify_elif_shape. Qed.
Print Assumptions C10_ws_elif_pieces.
Theorem C10_ws_while_pieces : forall n w1 w2 T w4 e, white w1 -> white w2 -> w2 <> [] -> white w4 -> nolf T -> hd_ok is_sp T ->
  parse_expression T = EOk e -> Lower.classify n (w1 ++ U "while" ++ w2 ++ T ++ U ":" ++ w4) = ROk (KWhile e).
Proof. exact classify_while_shape. Qed.
Print Assumptions C10_ws_while_pieces.

Theorem C10_ws_return_pieces : forall n w1 w2 T e, white w1 -> white w2 -> w2 <> [] -> nolf w2 -> nolf T -> hd_ok is_sp T ->
  parse_expression T = EOk e -> Lower.classify n (w1 ++ U "return" ++ w2 ++ T) = ROk (KReturn (Some e)).
Proof. exact classify_return_shape. Qed.
Print Assumptions C10_ws_return_pieces.
Theorem C10_ws_jump_pieces : forall n w1 w2 name w4, white w1 -> white w2 -> w2 <> [] -> ident name = true -> white w4 ->
  Lower.classify n (w1 ++ U "jump" ++ w2 ++ name ++ w4) = ROk (KJump name None).
Proof. exact classify_jump_shape. Qed.
Print Assumptions C10_ws_jump_pieces.
Theorem C10_ws_jumpif_pieces : forall n w1 g T w2 name w4 e, white w1 -> white g -> nolf T -> white w2 -> w2 <> [] ->
  ident name = true -> white w4 -> parse_expression T = EOk e ->
  Lower.classify n (w1 ++ U "jumpif" ++ g ++ U "(" ++ T ++ U ")" ++ w2 ++ name ++ w4) = ROk (KJump name (Some e)).
Proof. exact classify_jumpif_shape. Qed.
Print Assumptions C10_ws_jumpif_pieces.

(* the system include: not part of stmt_spaced2 (there is no expression in it), stated by its pieces only *)
Theorem C10_ws_include_system_pieces : forall n w1 w2 url w4, white w1 -> white w2 -> w2 <> [] -> white w4 ->
  (forall c, In c url -> c <> 62%N) ->
  Lower.classify n (w1 ++ U "include" ++ w2 ++ U "<" ++ url ++ U ">" ++ w4) = ROk (KInclude url true).
Proof. exact classify_include_system_shape. Qed.
Print Assumptions C10_ws_include_system_pieces.

(* ---- round 7 (Proofs/C10stmtGaps4.v, C10stmtGaps5.v, C10stmtGaps6.v): the INNER gaps of label and for.
     w1 name w2 : w3                               ->  KLabel name        (name not one of  if elif else while)
     w1 for w2 v w5 in w6 T : w8                   ->  KFor v [] e
     w1 for w2 v w3 , w4 i w5 in w6 T : w8         ->  KFor v i e
   (all w white runs, ANY white characters including LF; w2 w5 w6 non-empty: the regex has `\s+` there; name v i
   identifiers; T LF-free, starting with a non-space character, parse_expression T = EOk e; the run in front of the colon
   belongs to T).
   The side condition of the label is exactly what classify's ORDER requires (label_keywords = [if; elif; else; while]):
   `else :` is KElse for every run; `if  :` / `elif  :` / `while  :` are an if / elif / while with a white expression text as
   soon as the run has a second character that is not LF (with at most one character they are labels: C10_ex_ws_label_keywords;
   the exact criterion is C10_ws_label_keyword_names below: a non-LF character behind the FIRST character of the run).
   EVERY other identifier is a label — also  endif endwhile endfor endfunction break continue for function jump return
   include  (`endif :` is a label; the six keyword-only regexes never match a line with a colon: a match of `^\s*KW\s*$`
   reads the whole line and none of its atoms reads a colon).
   for: the optional group `(?:\s*,\s*(ID))?` — without an index its body fails (on the `i` of `in`) and the engine goes on
   without it; with an index the body and the rest succeed, so the engine never falls back; the index group is unset and
   the model's gtext gives [] (m.group('index') is None in Python; KFor v [] e is the model's encoding).
   stmt_spaced3 extends stmt_spaced2 by these three shapes. ---- *)
Theorem C10_ws_label_pieces : forall n w1 name w2 w3, white w1 -> white w2 -> white w3 -> ident name = true ->
  ~ In name label_keywords -> Lower.classify n (w1 ++ name ++ w2 ++ U ":" ++ w3) = ROk (KLabel name).
Proof. exact classify_label_shape. Qed.
Print Assumptions C10_ws_label_pieces.

Theorem C10_ws_for_pieces : forall n w1 w2 v w5 w6 T w8 e, white w1 -> white w2 -> w2 <> [] -> ident v = true ->
  white w5 -> w5 <> [] -> white w6 -> w6 <> [] -> nolf T -> hd_ok is_sp T -> white w8 -> parse_expression T = EOk e ->
  Lower.classify n (w1 ++ U "for" ++ w2 ++ v ++ w5 ++ U "in" ++ w6 ++ T ++ U ":" ++ w8) = ROk (KFor v [] e).
Proof. exact classify_for_shape. Qed.
Print Assumptions C10_ws_for_pieces.

Theorem C10_ws_for_index_pieces : forall n w1 w2 v w5 w6 T w8 e, white w1 -> white w2 -> w2 <> [] -> ident v = true ->
  white w5 -> w5 <> [] -> white w6 -> w6 <> [] -> nolf T -> hd_ok is_sp T -> white w8 -> parse_expression T = EOk e ->
  forall w3 w4 i, white w3 -> white w4 -> ident i = true ->
  Lower.classify n (w1 ++ U "for" ++ w2 ++ v ++ w3 ++ U "," ++ w4 ++ i ++ w5 ++ U "in" ++ w6 ++ T ++ U ":" ++ w8) = ROk (KFor v i e).
Proof. exact classify_for_index_shape. Qed.
Print Assumptions C10_ws_for_index_pieces.

Theorem C10_ws_statement_gaps3_partial : forall n k l1 l2, stmt_spaced3 k l1 l2 ->
  Lower.classify n l1 = ROk k /\ Lower.classify n l2 = ROk k.
Proof. exact stmt_spaced3_classify. Qed.
Print Assumptions C10_ws_statement_gaps3_partial.

Theorem C10_ws_statement_gaps3_symmetric : forall k l1 l2, stmt_spaced3 k l1 l2 -> stmt_spaced3 k l2 l1.
Proof. exact stmt_spaced3_sym. Qed.
Print Assumptions C10_ws_statement_gaps3_symmetric.

(* a line with a colon is none of the six keyword-only statements, whatever else it contains *)
Theorem C10_colon_line_is_no_keyword_statement : forall pre post,
  rxm Gen.Regexes.R_SCRIPT_FUNCTION_END (pre ++ U ":" ++ post) = MNo /\ rxm Gen.Regexes.R_SCRIPT_IF_END (pre ++ U ":" ++ post) = MNo /\
  rxm Gen.Regexes.R_SCRIPT_WHILE_END (pre ++ U ":" ++ post) = MNo /\ rxm Gen.Regexes.R_SCRIPT_FOR_END (pre ++ U ":" ++ post) = MNo /\
  rxm Gen.Regexes.R_SCRIPT_BREAK (pre ++ U ":" ++ post) = MNo /\ rxm Gen.Regexes.R_SCRIPT_CONTINUE (pre ++ U ":" ++ post) = MNo.
Proof. exact kwonly_colon. Qed.
Print Assumptions C10_colon_line_is_no_keyword_statement.

(* non-vacuity: tight and loose layouts are related and classify computes the same kind on both; the label side condition
   is satisfiable and sharp *)
Example C10_ex_ws_statement_gaps3 :
  exists e, parse_expression (U "a<1") = EOk e /\
    stmt_spaced3 (KLabel (U "top")) (U "top:") (U " top\000009 :  ") /\
    stmt_spaced3 (KFor (U "v") [] e) (U "for v in a<1:") (U "  for \000009v  in  a <  1 : ") /\
    stmt_spaced3 (KFor (U "v") (U "i1") e) (U "for v,i1 in a<1:") (U "for  v , \000009i1  in \000009a <  1 :  ").
Proof. exact stmt_spaced3_examples. Qed.

Example C10_ex_ws_statement_gaps3_computed :
  Lower.classify 2 (U "top:") = ROk (KLabel (U "top")) /\ Lower.classify 2 (U " top\000009 :  ") = ROk (KLabel (U "top")) /\
  Lower.classify 2 (U "top\00000a:\00000a") = ROk (KLabel (U "top")) /\
  Lower.classify 2 (U "for v in a<1:") = Lower.classify 2 (U "  for \000009v  in  a <  1 : ") /\
  (exists e, Lower.classify 2 (U "for v,i1 in a<1:") = ROk (KFor (U "v") (U "i1") e) /\
             Lower.classify 2 (U "for  v , \000009i1  in \000009a <  1 :  ") = ROk (KFor (U "v") (U "i1") e)) /\
  (exists e, Lower.classify 2 (U "for v in a<1:") = ROk (KFor (U "v") [] e)) /\
  (* white space inside a piece, or a missing `\s+`, is outside the relation: *)
  Lower.classify 2 (U "for v in a<1:") <> Lower.classify 2 (U "for v ina<1:") /\
  Lower.classify 2 (U "top:") <> Lower.classify 2 (U "to p:").
Proof.
  split; [vm_compute; reflexivity|]. split; [vm_compute; reflexivity|]. split; [vm_compute; reflexivity|].
  split; [vm_compute; reflexivity|]. split; [eexists; split; vm_compute; reflexivity|]. split; [eexists; vm_compute; reflexivity|].
  split; vm_compute; discriminate.
Qed.

Example C10_ex_ws_label_keywords :
  Lower.classify 1 (U "if :") = ROk (KLabel (U "if")) /\ Lower.classify 1 (U "while:") = ROk (KLabel (U "while")) /\
  Lower.classify 1 (U "elif : ") = ROk (KLabel (U "elif")) /\
  Lower.classify 1 (U "else :") = ROk KElse /\ Lower.classify 1 (U "endif :") = ROk (KLabel (U "endif")) /\
  Lower.classify 1 (U "for :") = ROk (KLabel (U "for")) /\ Lower.classify 1 (U "function :") = ROk (KLabel (U "function")) /\
  (exists e, Lower.classify 1 (U "if  :") = RErr e).
Proof. exact label_kw_examples. Qed.

(* ---- round 8 (Proofs/C10labelKw.v): the label lines named  if / elif / while  (kw_names), which C10_ws_label_pieces leaves
   out:  w1 KW w2 : w3,  all runs white (any white characters, LF included).  The keyword regex `^\s*KW\s+(.+)\s*:\s*$` is tried
   before the label regex and matches exactly when w2 = a x <LF>* with a non-empty and x not LF (`\s+` = a, `(.+)` = x):
     LABEL  iff  every character of w2 behind its first is LF   (all_lf (tl w2) = true);
     for an LF-free run (every line parse_script produces): iff |w2| <= 1;
     otherwise the line is the keyword statement whose expression text is the single white character x = the LAST non-LF
     character of w2, which never parses: if / while -> RErr (Syntax error, column |w1| + |KW| + |a| + 1), elif ->
     ROk (KElif (RErr ...)) (kw_stmt; the elif error is delayed as in parser.py).
   (The round-7 note "label iff the run has at most one non-LF character" was imprecise: `if<LF> :` has one and is an if
   statement; the position matters, not the count.) ---- *)
Theorem C10_ws_label_keyword_names : forall n kw w1 w2 w3, In kw kw_names -> white w1 -> white w2 -> white w3 ->
  (all_lf (tl w2) = true -> Lower.classify n (w1 ++ kw ++ w2 ++ U ":" ++ w3) = ROk (KLabel kw)) /\
  (all_lf (tl w2) = false ->
     exists a x lfs, w2 = a ++ x :: lfs /\ a <> [] /\ x <> 10%N /\ all_lf lfs = true /\
       Lower.classify n (w1 ++ kw ++ w2 ++ U ":" ++ w3)
       = kw_stmt kw (err (U "Syntax error") (w1 ++ kw ++ w2 ++ U ":" ++ w3) (length w1 + length kw + length a + 1) n)).
Proof. exact classify_label_kw. Qed.
Print Assumptions C10_ws_label_keyword_names.

Theorem C10_ws_label_keyword_names_iff : forall n kw w1 w2 w3, In kw kw_names -> white w1 -> white w2 -> white w3 ->
  (Lower.classify n (w1 ++ kw ++ w2 ++ U ":" ++ w3) = ROk (KLabel kw) <-> all_lf (tl w2) = true).
Proof. exact classify_label_kw_iff. Qed.
Print Assumptions C10_ws_label_keyword_names_iff.

Theorem C10_ws_label_keyword_names_nolf : forall n kw w1 w2 w3, In kw kw_names -> white w1 -> white w2 -> white w3 -> nolf w2 ->
  (Lower.classify n (w1 ++ kw ++ w2 ++ U ":" ++ w3) = ROk (KLabel kw) <-> length w2 <= 1).
Proof. exact classify_label_kw_nolf. Qed.
Print Assumptions C10_ws_label_keyword_names_nolf.

(* the statement side by its pieces *)
Theorem C10_ws_keyword_white_expression_pieces : forall n w1 a x lfs w3, white w1 -> white a -> a <> [] -> is_sp x = true ->
  x <> 10%N -> all_lf lfs = true -> white w3 -> forall kw, In kw kw_names ->
  Lower.classify n (w1 ++ kw ++ (a ++ x :: lfs) ++ U ":" ++ w3)
  = kw_stmt kw (err (U "Syntax error") (w1 ++ kw ++ (a ++ x :: lfs) ++ U ":" ++ w3) (length w1 + length kw + length a + 1) n).
Proof. exact classify_kw_white. Qed.
Print Assumptions C10_ws_keyword_white_expression_pieces.

Example C10_ex_ws_label_keyword_names :
  kw_names = [U "if"; U "elif"; U "while"] /\
  (forall e, kw_stmt (U "if") e = RErr e /\ kw_stmt (U "elif") e = ROk (KElif (RErr e)) /\ kw_stmt (U "while") e = RErr e) /\
  Lower.classify 7 (U "if :") = ROk (KLabel (U "if")) /\ Lower.classify 7 (U " elif\000009: ") = ROk (KLabel (U "elif")) /\
  Lower.classify 7 (U "while \00000a\00000a:") = ROk (KLabel (U "while")) /\
  Lower.classify 7 (U " if  :") = RErr (err (U "Syntax error") (U " if  :") 5 7) /\
  Lower.classify 7 (U "elif \000009\00000a: ") = ROk (KElif (RErr (err (U "Syntax error") (U "elif \000009\00000a: ") 6 7))) /\
  Lower.classify 7 (U "while\00000a :") = RErr (err (U "Syntax error") (U "while\00000a :") 7 7) /\
  all_lf (tl (U " \00000a\00000a")) = true /\ all_lf (tl (U "\00000a ")) = false.
Proof.
  split; [reflexivity|]. split; [intros e; repeat split; reflexivity|].
  destruct label_kw_names_examples as (A & B & C & D & E & F & G & H). repeat split; assumption.
Qed.

(* ---- round 7 (Proofs/C10stmtGaps7.v): the quoted include  w1 include w2 'body' w4  ->  KInclude (un-escaped body) false,
   for all white runs (w2 non-empty) and every body whose quotes are all escaped (quotes_escaped: the greedy reading
   `\'` | [^'] of the body never meets a bare quote).  The group is a backtracking star over an alternation: when the body
   ends with a backslash (`include 'a\'`) the greedy reading first takes that backslash WITH the closing quote as the pair
   `\'`, runs to the end of the line, fails, and only the second alternative (the backslash as an ordinary character) lets
   the tail `'\s*$` succeed at the closing quote — group 2 is the body in both cases.  The un-escape pass is the direct
   function unescape_direct 39 of Proofs/C02str.v (C02_string_unescape). ---- *)
Theorem C10_ws_include_quoted_pieces : forall n w1 w2 body w4, white w1 -> white w2 -> w2 <> [] -> white w4 ->
  quotes_escaped body = true ->
  Lower.classify n (w1 ++ U "include" ++ w2 ++ U "'" ++ body ++ U "'" ++ w4) = ROk (KInclude (unescape_direct 39 body) false).
Proof. exact classify_include_quoted_direct. Qed.
Print Assumptions C10_ws_include_quoted_pieces.

Example C10_ex_ws_include_quoted :
  quotes_escaped (U "a b.bare") = true /\ quotes_escaped (U "it\00005c's") = true /\ quotes_escaped (U "a\00005c") = true /\
  quotes_escaped (U "it's") = false /\
  unesc Gen.Regexes.R_EXPR_STRING_ESCAPE (U "it\00005c's") = ROk (U "it's") /\ unesc Gen.Regexes.R_EXPR_STRING_ESCAPE (U "a\00005c") = ROk (U "a\00005c") /\
  Lower.classify 2 (U "include 'it\00005c's'") = ROk (KInclude (U "it's") false) /\
  Lower.classify 2 (U "  include \000009 'it\00005c's'  ") = ROk (KInclude (U "it's") false) /\
  Lower.classify 2 (U "include 'a\00005c'") = ROk (KInclude (U "a\00005c") false) /\
  Lower.classify 2 (U " include  'a\00005c' ") = ROk (KInclude (U "a\00005c") false).
Proof. exact include_quoted_examples. Qed.

(* ---- round 7 (Proofs/C10stmtGaps8.v): function begin.  The line is built from its pieces
     [w0 async] w1 function w2 name w3 ( w4 [a1 (u , v a_i)*] [w5 ...] w6 ) w7 : w8
   astext asy = w0 async (asy = Some w0) or nothing; atext args = a1 followed by  u , v a_i  for every further argument
   (args = Some (a1, [(u, v, a_i); ...])) or nothing; dtext dots = w5 ... (dots = Some w5) or nothing;
   CL w6 w7 w8 = w6 ) w7 : w8.  ALL runs white (w2 non-empty), name a1 a_i identifiers; the run after the parenthesis is
   maximal (hd_ok is_sp: without arguments w5, and without dots also w6, belong to w4).  The result has the name, async /
   `...` flags, and as argument list the model's split of the argument text atext args at `\s*,\s*` (fn_args: re_split
   on the captured text; the split itself is not read directly here: C10_ex_ws_fn_begin computes it on the example), or
   ROk None when there is no argument group.  Engine: two optional groups (RegexEval.ev_opt), a star over the group
   `(?:\s*,\s*ID)*` read by induction on the list of further arguments. ---- *)
Theorem C10_ws_fn_begin_pieces : forall n asy w1 w2 name w3 w4 args dots w6 w7 w8,
  awhite asy -> white w1 -> white w2 -> w2 <> [] -> ident name = true -> white w3 -> white w4 -> aok args -> dwhite dots ->
  white w6 -> white w7 -> white w8 -> hd_ok is_sp (atext args ++ dtext dots ++ CL w6 w7 w8) ->
  Lower.classify n (astext asy ++ w1 ++ U "function" ++ w2 ++ name ++ w3 ++ U "(" ++ w4 ++ atext args ++ dtext dots ++ CL w6 w7 w8)
  = ROk (KFnBegin name (fn_args args) (is_some asy) (is_some dots)).
Proof. exact classify_fn_begin_shape. Qed.
Print Assumptions C10_ws_fn_begin_pieces.

Example C10_ex_ws_fn_begin :
  Lower.classify 2 (U "  async \000009function  f1 ( a ,b1 \000009 , c  ... ) :  ")
    = ROk (KFnBegin (U "f1") (fn_args (Some (U "a", [(U " ", [], U "b1"); (U " \000009 ", U " ", U "c")]))) true true) /\
  fn_args (Some (U "a", [(U " ", [], U "b1"); (U " \000009 ", U " ", U "c")])) = ROk (Some [U "a"; U "b1"; U "c"]) /\
  Lower.classify 2 (U "async function f1(a,b1,c...):") = ROk (KFnBegin (U "f1") (ROk (Some [U "a"; U "b1"; U "c"])) true true) /\
  Lower.classify 2 (U "function g( ) :") = ROk (KFnBegin (U "g") (ROk None) false false) /\
  Lower.classify 2 (U "function g(  ...):") = ROk (KFnBegin (U "g") (ROk None) false true).
Proof. exact fn_begin_examples. Qed.

(* ---- round 8 (Proofs/C10stmtGaps9.v): the argument list of a function begin line IS the list of the names, for EVERY
   argument list: the model's re_split of the captured text  a1 u1 , v1 a2 u2 , v2 a3 ...  at `\s*,\s*` gives
   [a1; a2; a3; ...] (fn_names; name3 (u, v, a) = a), whatever the white runs u_i v_i are (also empty, also LF / form feed).
   The captured text never has a leading or trailing run: group 3 of the function-begin regex starts at the first
   character of a1 and ends behind the last name — a run in front of `...` belongs to the dots group, a run in front of `)`
   to the `\s*` of the regex (FB_ARGS_read in C10stmtGaps8.v) — so no piece is empty and nothing is stripped.  Without
   an argument group the model gives ROk None (Python: m.group('args') is None).
   C10_ws_fn_begin_names = C10_ws_fn_begin_pieces with the explicit list. ---- *)
Theorem C10_ws_fn_args_are_the_names : forall args, aok args -> fn_args args = ROk (fn_names args).
Proof. exact fn_args_names. Qed.
Print Assumptions C10_ws_fn_args_are_the_names.

Theorem C10_ws_fn_args_are_the_names_explicit :
  (forall a1 more, ident a1 = true -> mok more ->
     fn_args (Some (a1, more)) = ROk (Some (a1 :: map (fun x : arg3 => let '(u, v, a) := x in a) more))) /\
  fn_args None = ROk None.
Proof. split; [intros a1 more IA MO; exact (fn_args_names (Some (a1, more)) (conj IA MO)) | reflexivity]. Qed.
Print Assumptions C10_ws_fn_args_are_the_names_explicit.

Theorem C10_ws_fn_begin_names : forall n asy w1 w2 name w3 w4 args dots w6 w7 w8,
  awhite asy -> white w1 -> white w2 -> w2 <> [] -> ident name = true -> white w3 -> white w4 -> aok args -> dwhite dots ->
  white w6 -> white w7 -> white w8 -> hd_ok is_sp (atext args ++ dtext dots ++ CL w6 w7 w8) ->
  Lower.classify n (astext asy ++ w1 ++ U "function" ++ w2 ++ name ++ w3 ++ U "(" ++ w4 ++ atext args ++ dtext dots ++ CL w6 w7 w8)
  = ROk (KFnBegin name (ROk (fn_names args)) (is_some asy) (is_some dots)).
Proof. exact classify_fn_begin_names. Qed.
Print Assumptions C10_ws_fn_begin_names.

(* non-vacuity: the premise holds for a three-argument list with blank / tab / empty runs; the loose line classifies with
   the explicit names THROUGH the theorem; tight layouts computed; a blank inside a name is outside the shape *)
Example C10_ex_ws_fn_names :
  aok (Some (U "a", [(U " ", [], U "b1"); (U " \000009 ", U " ", U "c")])) /\
  fn_names (Some (U "a", [(U " ", [], U "b1"); (U " \000009 ", U " ", U "c")])) = Some [U "a"; U "b1"; U "c"] /\
  Lower.classify 2 (U "  async \000009function  f1 ( a ,b1 \000009 , c  ... ) :  ")
    = ROk (KFnBegin (U "f1") (ROk (Some [U "a"; U "b1"; U "c"])) true true) /\
  Lower.classify 2 (U "function f1(a,b1,c):") = ROk (KFnBegin (U "f1") (ROk (Some [U "a"; U "b1"; U "c"])) false false) /\
  Lower.classify 2 (U "function f1(a):") = ROk (KFnBegin (U "f1") (ROk (Some [U "a"])) false false) /\
  Lower.classify 2 (U "function f1(a b):") <> Lower.classify 2 (U "function f1(ab):").
Proof. exact fn_names_examples. Qed.

(* ---- round 8 (Proofs/C10stmtGaps10.v): ONE relation for every statement kind with inner gaps.  stmt_spaced4 = stmt_spaced3
   (assignment, if, elif, while, return <expr>, jump, jumpif, label, for, for with index) plus
     function begin : two layouts fb_layout (each with its own runs and its own separators `u , v` in the argument list),
                      the same name, the same argument NAMES (fn_names), async / `...` in both or in neither;
     include 'body' : the same body (every quote escaped);   include <url> : the same url (no `>`);
     a label named if / elif / while : both runs in front of the colon with only LF behind their first character.
   Related lines classify successfully and alike (same kind, names, flags, expression trees).  PARTIAL as before: the
   expression texts are related by `spaced` and the first one parses; rejected lines are not related. ---- *)
Theorem C10_ws_statement_gaps4_partial : forall n k l1 l2, stmt_spaced4 k l1 l2 ->
  Lower.classify n l1 = ROk k /\ Lower.classify n l2 = ROk k.
Proof. exact stmt_spaced4_classify. Qed.
Print Assumptions C10_ws_statement_gaps4_partial.

Theorem C10_ws_statement_gaps4_same : forall n k l1 l2, stmt_spaced4 k l1 l2 -> Lower.classify n l1 = Lower.classify n l2.
Proof. exact stmt_spaced4_same. Qed.
Print Assumptions C10_ws_statement_gaps4_same.

Theorem C10_ws_statement_gaps4_symmetric : forall k l1 l2, stmt_spaced4 k l1 l2 -> stmt_spaced4 k l2 l1.
Proof. exact stmt_spaced4_sym. Qed.
Print Assumptions C10_ws_statement_gaps4_symmetric.

(* the function-begin constructor spelled out (what ss4_fn_begin relates) *)
Theorem C10_ws_fn_begin_layouts : forall n name L1 L2, ident name = true -> fb_ok L1 -> fb_ok L2 ->
  fn_names (fb_args L1) = fn_names (fb_args L2) -> is_some (fb_asy L1) = is_some (fb_asy L2) ->
  is_some (fb_dots L1) = is_some (fb_dots L2) ->
  Lower.classify n (fb_line name L1) = ROk (KFnBegin name (ROk (fn_names (fb_args L1))) (is_some (fb_asy L1)) (is_some (fb_dots L1))) /\
  Lower.classify n (fb_line name L2) = Lower.classify n (fb_line name L1).
Proof.
  intros n name L1 L2 ID O1 O2 EN EA ED.
  destruct (stmt_spaced4_classify n _ _ _ (ss4_fn_begin name L1 L2 ID O1 O2 EN EA ED)) as [A B]. split; [exact A | rewrite A, B; reflexivity].
Qed.
Print Assumptions C10_ws_fn_begin_layouts.

(* non-vacuity: a tight and a loose layout of each new shape are related ... *)
Example C10_ex_ws_statement_gaps4 :
  fb_ok fb_tight /\ fb_ok fb_loose /\
  fb_line (U "f1") fb_tight = U "async function f1(a,b1,c...):" /\
  fb_line (U "f1") fb_loose = U "  async \000009function  f1 ( a ,b1 \000009 , c  ... ) :  " /\
  stmt_spaced4 (KFnBegin (U "f1") (ROk (Some [U "a"; U "b1"; U "c"])) true true)
    (U "async function f1(a,b1,c...):") (U "  async \000009function  f1 ( a ,b1 \000009 , c  ... ) :  ") /\
  stmt_spaced4 (KInclude (U "it's") false) (U "include 'it\00005c's'") (U "  include \000009 'it\00005c's'  ") /\
  stmt_spaced4 (KInclude (U "a b.bare") true) (U "include <a b.bare>") (U " include \000009 <a b.bare>  ") /\
  stmt_spaced4 (KLabel (U "while")) (U "while:") (U " while\000009: ") /\
  stmt_spaced4 (KLabel (U "top")) (U "top:") (U " top\000009 :  ").
Proof.
  destruct fb_examples_ok as (A & B & C & D). destruct stmt_spaced4_examples as (E & F & G & H & I).
  exact (conj A (conj B (conj C (conj D (conj E (conj F (conj G (conj H I)))))))).
Qed.

(* ... and classify COMPUTES the same kind on both; white space inside a piece is outside the relation *)
Example C10_ex_ws_statement_gaps4_computed :
  Lower.classify 2 (U "async function f1(a,b1,c...):") = ROk (KFnBegin (U "f1") (ROk (Some [U "a"; U "b1"; U "c"])) true true) /\
  Lower.classify 2 (U "  async \000009function  f1 ( a ,b1 \000009 , c  ... ) :  ") = Lower.classify 2 (U "async function f1(a,b1,c...):") /\
  Lower.classify 2 (U "  include \000009 'it\00005c's'  ") = Lower.classify 2 (U "include 'it\00005c's'") /\
  Lower.classify 2 (U "include 'it\00005c's'") = ROk (KInclude (U "it's") false) /\
  Lower.classify 2 (U " include \000009 <a b.bare>  ") = Lower.classify 2 (U "include <a b.bare>") /\
  Lower.classify 2 (U " while\000009: ") = Lower.classify 2 (U "while:") /\
  Lower.classify 2 (U "while:") = ROk (KLabel (U "while")) /\
  (* the run between `async` and `function` is a `\s*`: it may be empty *)
  Lower.classify 2 (U "asyncfunction f1():") = Lower.classify 2 (U "async function f1():") /\
  Lower.classify 2 (U "function f1(a,b1):") <> Lower.classify 2 (U "function f1(a,b 1):") /\
  Lower.classify 2 (U "function f1(a,b1):") <> Lower.classify 2 (U "function f1(a,b1. ..):") /\
  Lower.classify 2 (U "function f1():") <> Lower.classify 2 (U "functionf1():") /\
  Lower.classify 2 (U "include 'a'") <> Lower.classify 2 (U "include' a'") /\
  Lower.classify 2 (U "while:") <> Lower.classify 2 (U "while  :").
Proof.
  split; [vm_compute; reflexivity|]. split; [vm_compute; reflexivity|]. split; [vm_compute; reflexivity|].
  split; [vm_compute; reflexivity|]. split; [vm_compute; reflexivity|]. split; [vm_compute; reflexivity|].
  split; [vm_compute; reflexivity|]. split; [vm_compute; reflexivity|].
  repeat split; vm_compute; discriminate.
Qed.

Theorem C10_expression_never_starts_eq : forall t e, parse_expression (U "=" ++ t) <> EOk e.
Proof. exact parse_hd_noeq. Qed.
Print Assumptions C10_expression_never_starts_eq.

(* non-vacuity: a tight and a loose layout of each of the four kinds are related, and classify computes the same kind on both *)
Example C10_ex_ws_statement_gaps :
  exists e, parse_expression (U "a<1") = EOk e /\
    stmt_spaced2 (KAssign (U "x1") e) (U "x1=a<1") (U " x1\000009 =  a <  1 ") /\
    stmt_spaced2 (KIf e) (U "if a<1:") (U "  if \000009a <  1 : ") /\
    stmt_spaced2 (KElif (ROk e)) (U "elif a<1:") (U "elif  a <  1 :") /\
    stmt_spaced2 (KWhile e) (U "while a<1:") (U "\000009while a <  1 :  ") /\
    stmt_spaced2 (KReturn (Some e)) (U "return a<1") (U "  return \000009a <  1 ") /\
    stmt_spaced2 (KJump (U "top") None) (U "jump top") (U " jump  top\000009") /\
    stmt_spaced2 (KJump (U "top") (Some e)) (U "jumpif(a<1) top") (U "  jumpif ( a<1 )\000009top ").
Proof.
  destruct stmt_spaced_examples as (e & PE & A & B & C & D). destruct stmt_spaced2_examples as (e' & PE' & R & J & JI).
  assert (e' = e) by congruence. subst e'. exists e. split; [exact PE|].
  exact (conj (ss2_base _ _ _ A) (conj (ss2_base _ _ _ B) (conj (ss2_base _ _ _ C) (conj (ss2_base _ _ _ D) (conj R (conj J JI)))))).
Qed.

Example C10_ex_ws_statement_gaps_computed :
  Lower.classify 2 (U "x1=a<1") = Lower.classify 2 (U " x1\000009 =  a <  1 ") /\
  Lower.classify 2 (U "if a<1:") = Lower.classify 2 (U "  if \000009a <  1 : ") /\
  (exists e, Lower.classify 2 (U "while a<1:") = ROk (KWhile e) /\ Lower.classify 2 (U "\000009while a <  1 :  ") = ROk (KWhile e)) /\
  Lower.classify 2 (U "jumpif(a<1) top") = Lower.classify 2 (U "  jumpif ( a<1 )\000009top ") /\
  Lower.classify 2 (U "return a<1") = Lower.classify 2 (U "  return \000009a <  1 ") /\
  Lower.classify 2 (U "include <a b.bare>") = ROk (KInclude (U "a b.bare") true) /\
  Lower.classify 2 (U " include \000009 <a b.bare>  ") = ROk (KInclude (U "a b.bare") true) /\
  (* white space inside a piece is outside the relation: *)
  Lower.classify 2 (U "if a<1:") <> Lower.classify 2 (U "i f a<1:") /\
  Lower.classify 2 (U "ifa<1:") <> Lower.classify 2 (U "if a<1:").
Proof.
  split; [vm_compute; reflexivity|]. split; [vm_compute; reflexivity|].
  split; [eexists; split; vm_compute; reflexivity|]. split; [vm_compute; reflexivity|]. split; [vm_compute; reflexivity|].
  split; [vm_compute; reflexivity|]. split; [vm_compute; reflexivity|].
  split; vm_compute; discriminate.
Qed.

(* C10_ws_tokens_partial — the FULL clause "breaking a line at any point where a space is allowed / changing indentation or
   trailing whitespace yields the same statement" needs whitespace-insensitivity of EVERY statement regex and of the
   expression lexer at EVERY gap.  PROVED:
   * indentation of EVERY statement kind (C10_ws_indentation);
   * round 6: TRAILING white space of EVERY statement kind at the level of classify (C10_ws_trailing; with indentation:
     C10_ws_padding) — LF-free line and run; only an elif whose condition does not parse is excluded (its kind quotes the
     line); behind it the engine-level theorems C10_ws_statement_regex_trailing_partial (fifteen regexes `X \s*$`),
     C10_ws_assignment_regex_trailing, C10_ws_return_regex_trailing, C10_ws_jump_regex_trailing, and
     C10_ws_classified_not_eq_end / C10_expression_never_ends_eq (`x =` versus `x =  `);
   * the expression inside a statement: a leading run (C10_ws_expression_leading_partial / _err / _ok, no fuel premise),
     runs BETWEEN the tokens — all token kinds, string / bracket atoms opaque, result EOk only
     (C10_ws_expression_tokens_partial, _iff_partial, C10_ws_spaced_symmetric), a TRAILING run, every text, equality of results
     (C10_ws_expression_trailing, C10_ws_token_regex_trailing);
   * round 6: the INNER gaps of the statement regexes (`\s*` / `\s+` between keyword, names, `=`, parentheses, colon) for
     assignment, if, elif, while, return <expr>, jump, jumpif: C10_ws_statement_gaps_partial (relation stmt_spaced2) and the
     per-kind C10_ws_*_pieces; include <url>: C10_ws_include_system_pieces; round 7: label (`name :`, name not one of
     if elif else while) and for (`for v in e :`, `for v , i in e :`): C10_ws_label_pieces, C10_ws_for_pieces,
     C10_ws_for_index_pieces, C10_ws_statement_gaps3_partial (relation stmt_spaced3); include 'url' (every quote of the url
     escaped): C10_ws_include_quoted_pieces; function begin: C10_ws_fn_begin_pieces; from before: the keyword-only statements and the bare `return` with any indentation and
     trailing whitespace (C10_ws_keyword_lines, C10_ws_return_bare) and `else :` (C10_ws_else_gap).
   * round 8: the split of a function's argument text IS the list of the names, for every argument list
     (C10_ws_fn_args_are_the_names, C10_ws_fn_begin_names); the labels named if / elif / while (C10_ws_label_keyword_names,
     _iff, _nolf: label iff only LF behind the first character of the run, else the keyword statement with a one-character
     white expression text, i.e. a syntax error); ONE relation stmt_spaced4 for all statement kinds with inner gaps, function
     begin / include '...' / include <...> / keyword-named labels included (C10_ws_statement_gaps4_partial, _same, _symmetric).
   NOT proved (oracle only):
   * C10_ws_statement_gaps_partial has the premise "the expression text parses" (it yields that BOTH layouts classify as
     the same kind) rather than "the first layout classifies successfully"; rejected lines are not related (their error
     record quotes the line, so it differs by construction; that the message and the column relative to the first token
     agree is not stated);
   * the expression-token theorem relates only EOk results; LF inside a run is excluded in C10_ws_trailing (`.` does not
     read LF; parse_script never produces such a line: C10_lines_have_no_lf).
   These stay checked metamorphically by the direct oracle (harness/c10_oracle.py) at every inter-token gap of every
   statement kind.
   C10_stateless: parse_script / parse_expression of the model are Gallina functions, so determinism and absence
   of state between calls are definitional; on the implementation they are tested by interleaved repeated calls. *)

(* ---- non-vacuity ---- *)
Example C10_ex_split : split_direct (U "a = 1\00000d\00000ab\00000a\00000d\00000ac\00000d") = [U "a = 1"; U "b"; U ""; U "c\00000d"]
  /\ split_lines (U "a = 1\00000d\00000ab\00000a\00000d\00000ac\00000d") = ROk (split_direct (U "a = 1\00000d\00000ab\00000a\00000d\00000ac\00000d")).
Proof. split; vm_compute; reflexivity. Qed.

Example C10_ex_comments :
  ins_comments [U "x = 1 + \00005c"; U "  2"; U "fn(x)"] [U "# a"; U "x = 1 + \00005c"; U ""; U "   # in the middle \00005c"; U "  2"; U "fn(x)"; U "  "].
Proof. repeat (first [apply ins_nil | apply ins_keep | apply ins_add; [vm_compute; reflexivity|]]). Qed.

Example C10_ex_continuation :
  continued (U "x = 1 + \00005c  ", U "x = 1 + ") /\ continued (U "  fn( \00005c", U "  fn( ") /\
  is_comment (U " 2)") = ROk false /\ strip_continuation (U " 2)") = ROk (U " 2)") /\
  llines [U "x = 1 + \00005c  "; U "  fn( \00005c"; U " 2)"] 4 ls_init = ([(4, U "x = 1 + fn( 2)")], LDone {| l_cont := []; l_ix := 4 |}).
Proof. repeat split; vm_compute; reflexivity. Qed.

Example C10_ex_same_model :
  exists s, parse_lines [U "if a:"; U "  b = 1 + \00005c"; U "   2"; U "endif"] 1 = ROk s /\
            parse_lines [U "# c"; U "if a:"; U ""; U "  b = 1 + \00005c"; U "  # inside"; U "   2"; U "endif"; U ""] 5 = ROk s /\ length s = 3.
Proof. eexists. split; [vm_compute; reflexivity | split; [vm_compute; reflexivity | reflexivity]]. Qed.

Example C10_ex_ws_keyword :
  white (U "   ") /\ white (U "  \000009") /\ In (U "else:", KElse) keyword_lines /\
  Lower.classify 1 (U "   else:  \000009") = ROk KElse /\ Lower.classify 1 (U "\000009else  :") = ROk KElse /\
  Lower.classify 7 (U "    endfunction ") = ROk KFnEnd /\ Lower.classify 7 (U "  continue\00000c") = ROk KContinue /\
  Lower.classify 1 (U " else: x") <> ROk KElse.
Proof.
  repeat split; try (vm_compute; reflexivity).
  - intros c I. vm_compute in I. repeat (destruct I as [<-|I]; [reflexivity|]). contradiction.
  - intros c I. vm_compute in I. repeat (destruct I as [<-|I]; [reflexivity|]). contradiction.
  - left. reflexivity.
  - vm_compute. discriminate.
Qed.

Example C10_ex_ws_expression :
  white (U " \000009 ") /\ parse_expression (U "fn(1, -x) + 'a'") <> EFuel /\
  (exists e, parse_expression (U "fn(1, -x) + 'a'") = EOk e /\ parse_expression (U " \000009 fn(1, -x) + 'a'") = EOk e) /\
  parse_expression (U "1 + )") = EErr (U "Syntax error") 4 /\ parse_expression (U "  1 + )") = EErr (U "Syntax error") 6 /\
  parse_expression (U ")") = EErr (U "Syntax error") 1 /\ parse_expression (U "  )") = EErr (U "Syntax error") 1.
Proof.
  split; [intros c I; vm_compute in I; repeat (destruct I as [<-|I]; [reflexivity|]); contradiction|].
  split; [vm_compute; discriminate|].
  split; [eexists; split; vm_compute; reflexivity|].
  repeat split; vm_compute; reflexivity.
Qed.

Example C10_ex_ws_indentation_all :
  (exists k, indent_kind_all k = true /\ Lower.classify 3 (U "jumpif (x > 1) top") = ROk k /\ Lower.classify 3 (U " \000009 jumpif (x > 1) top") = ROk k) /\
  (exists k, indent_kind_all k = true /\ Lower.classify 3 (U "jump top") = ROk k /\ Lower.classify 3 (U "    jump top") = ROk k) /\
  (exists k, indent_kind_all k = true /\ Lower.classify 3 (U "return x + 1") = ROk k /\ Lower.classify 3 (U "  return x + 1") = ROk k) /\
  (exists k, indent_kind_all k = true /\ Lower.classify 3 (U "async function f(a, b...):") = ROk k /\ Lower.classify 3 (U "   async function f(a, b...):") = ROk k) /\
  (exists k, indent_kind_all k = true /\ Lower.classify 3 (U "function g():") = ROk k /\ Lower.classify 3 (U "\000009function g():") = ROk k).
Proof. repeat split; (eexists; split; [|split; vm_compute; reflexivity]; reflexivity). Qed.

Example C10_ex_ws_indentation :
  (exists k, indent_kind k = true /\ Lower.classify 3 (U "x = fn(1) + 2") = ROk k /\ Lower.classify 3 (U " \000009  x = fn(1) + 2") = ROk k) /\
  (exists k, indent_kind k = true /\ Lower.classify 3 (U "for v, i in arr:") = ROk k /\ Lower.classify 3 (U "    for v, i in arr:") = ROk k) /\
  (exists k, indent_kind k = true /\ Lower.classify 3 (U "elif a < 1:") = ROk k /\ Lower.classify 3 (U "  elif a < 1:") = ROk k) /\
  (exists k, indent_kind k = true /\ Lower.classify 3 (U "include 'a.bare'") = ROk k /\ Lower.classify 3 (U "  include 'a.bare'") = ROk k) /\
  (exists k, indent_kind k = true /\ Lower.classify 3 (U "fn(x, 'y')") = ROk k /\ Lower.classify 3 (U "  fn(x, 'y')") = ROk k).
Proof. repeat split; (eexists; split; [|split; vm_compute; reflexivity]; reflexivity). Qed.

(* ---- the regex-based splitter of the shared model IS the direct splitter (Proofs/C10split.v) ----
   split_lines runs the regenerated `\r?\n` through the backtracking engine's re_split; for EVERY text the result is ROk of
   the direct splitter's lines: no fuel premise (re_split's own fuel S|text| and the engine's fuel_for always suffice), no
   side condition.  Hence every line theorem above that is stated about split_direct (C10_crlf, C10_cut_lf, C10_cut_crlf,
   C10_lines_have_no_lf) is a theorem about the shared model's split_lines / split_chunks. *)
Theorem C10_split_lines_is_the_direct_splitter : forall text, split_lines text = ROk (split_direct text).
Proof. exact split_lines_is_split_direct. Qed.
Print Assumptions C10_split_lines_is_the_direct_splitter.

Theorem C10_split_chunks_is_the_direct_splitter : forall chunks,
  split_chunks chunks = ROk (concat (map split_direct chunks)).
Proof. exact split_chunks_is_split_direct. Qed.
Print Assumptions C10_split_chunks_is_the_direct_splitter.

(* the physical lines of the shared model's front end are LF-free ... *)
Theorem C10_split_chunks_lines_have_no_lf : forall chunks lines, split_chunks chunks = ROk lines -> Forall no_lf lines.
Proof. exact split_chunks_no_lf. Qed.
Print Assumptions C10_split_chunks_lines_have_no_lf.

(* ... and so are the LOGICAL lines (the comment filter drops lines; the continuation join deletes characters — a
   substitution by the empty string and strip — and inserts single spaces): the hypothesis `no_lf line` of
   C06_offsets / C06_column_points_at_remainder holds for every line parse_script hands to its statement step *)
Theorem C10_logical_lines_have_no_lf : forall chunks lines, split_chunks chunks = ROk lines ->
  forall ix line, In (ix, line) (fst (llines lines 0 ls_init)) -> no_lf line.
Proof. exact logical_lines_no_lf. Qed.
Print Assumptions C10_logical_lines_have_no_lf.

(* non-vacuity: CRLF, a lone CR inside a line, LF LF (an empty line), CR CR LF (one CR stays), no trailing newline;
   computed through the regex engine and through the direct splitter, and the chunked form *)
Example C10_ex_split_lines_is_direct :
  split_lines (U "a = 1\00000d\00000ab\00000dc\00000a\00000ad\00000d\00000d\00000ae")
    = ROk [U "a = 1"; U "b\00000dc"; U ""; U "d\00000d"; U "e"] /\
  split_direct (U "a = 1\00000d\00000ab\00000dc\00000a\00000ad\00000d\00000d\00000ae")
    = [U "a = 1"; U "b\00000dc"; U ""; U "d\00000d"; U "e"] /\
  split_chunks [U "a = 1\00000d\00000ab\00000d"; U "\00000ac\00000a\00000a"; U "d"]
    = ROk [U "a = 1"; U "b\00000d"; U ""; U "c"; U ""; U ""; U "d"] /\
  concat (map split_direct [U "a = 1\00000d\00000ab\00000d"; U "\00000ac\00000a\00000a"; U "d"])
    = [U "a = 1"; U "b\00000d"; U ""; U "c"; U ""; U ""; U "d"].
Proof. repeat split; vm_compute; reflexivity. Qed.
