(* Props/C17.v — property C17: includes resolve relative to the including file and run in global scope.
   ONLY statements; every proof is `exact <lemma of Proofs/C17.v>`.
   Model/Url.v: url_file_relative with the pathlib / posixpath pieces it uses, over the REGENERATED `_R_URL` regex
   (Gen/Regexes.v); the include statement of runtime.py as a pure function [run] over a virtual file system [vfs]
   and an abstract script (include statements, observable marks, return, function calls).
   The clause "global scope / locals = None of included statements" is stated on the interpreter model (end of this file).
   NOT modelled (checked on the implementation by the direct oracle of harness/c17.py): the text of the error messages, the parser on the fetched text. *)
From Coq Require Import ZArith List Bool.
From BS Require Import Model.Base Model.Regex Model.Url Gen.Unicode Gen.Regexes Proofs.C17.
From BS Require Model.Script Model.Interp Proofs.C17scope.
Module I := BS.Model.Interp. Module S := BS.Model.Script.

(* ---- the URL test, for ALL strings: the regenerated regex `^[a-z]+:` never runs out of fuel and is exactly
   "one or more lower-case ASCII letters, then a colon" ---- *)
Theorem C17_is_url : forall s, is_url s = Some (is_url_spec s).
Proof. exact is_url_is_spec. Qed.
Print Assumptions C17_is_url.

(* ---- resolution, by cases, for ALL (base, reference): an absolute URL unchanged; an absolute path unchanged up to
   pathlib normalisation; relative against a URL base = the base through its last slash ++ the reference; relative
   against a path base = os.path.join(dirname(base), normalised reference).  Total (never None). ---- *)
Theorem C17_resolution : forall base u,
  url_file_relative base u =
  Some (if is_url_spec u then u
        else if starts_with_slash u then path_str u
        else if is_url_spec base then dir_prefix base ++ u
        else path_join (dirname base) (path_str u)).
Proof. exact ufr_resolution. Qed.
Print Assumptions C17_resolution.

(* absolute references are resolved the same from every includer *)
Theorem C17_absolute_independent_of_includer : forall b1 b2 u, is_url_spec u || starts_with_slash u = true ->
  url_file_relative b1 u = url_file_relative b2 u.
Proof. exact ufr_absolute_any_base. Qed.
Print Assumptions C17_absolute_independent_of_includer.

(* a resolved absolute location is a fixed point of resolution (pathlib normalisation is idempotent): handing it down
   the include tree, or resolving it again from any includer, does not change it *)
Theorem C17_path_normalisation_idempotent : forall p, path_str (path_str p) = path_str p.
Proof. exact path_str_idempotent. Qed.
Print Assumptions C17_path_normalisation_idempotent.

Theorem C17_absolute_path_fixed : forall b1 b2 u, starts_with_slash u = true ->
  exists r, url_file_relative b1 u = Some r /\ url_file_relative b2 r = Some r /\ starts_with_slash r = true.
Proof. exact ufr_absolute_path_fixed. Qed.
Print Assumptions C17_absolute_path_fixed.

Theorem C17_absolute_url_fixed : forall b1 b2 u, is_url_spec u = true ->
  url_file_relative b1 u = Some u /\ url_file_relative b2 u = Some u.
Proof. exact ufr_absolute_url_fixed. Qed.
Print Assumptions C17_absolute_url_fixed.

(* relative references stay inside the includer's directory ... *)
Theorem C17_relative_url_base : forall base u,
  is_url_spec u = false -> starts_with_slash u = false -> is_url_spec base = true ->
  url_file_relative base u = Some (dir_prefix base ++ u) /\ str_prefix (dir_prefix base) (dir_prefix base ++ u) = true.
Proof. exact ufr_relative_url_base. Qed.
Print Assumptions C17_relative_url_base.

Theorem C17_relative_path_base : forall base u,
  is_url_spec u = false -> starts_with_slash u = false -> is_url_spec base = false ->
  url_file_relative base u = Some (path_join (dirname base) (path_str u)) /\
  str_prefix (dirname base) (path_join (dirname base) (path_str u)) = true.
Proof. exact ufr_relative_path_base. Qed.
Print Assumptions C17_relative_path_base.

(* ... compositionally, level after level: the directory of the resolved location is the includer's directory followed
   by the reference's own directory part, and a URL base with a directory part stays a URL down the tree *)
Theorem C17_url_base_compositional : forall base u, dir_prefix (dir_prefix base ++ u) = dir_prefix base ++ dir_prefix u.
Proof. exact url_base_compositional. Qed.
Print Assumptions C17_url_base_compositional.

Theorem C17_url_base_stays_url : forall base u, is_url_spec base = true -> has_slash base = true ->
  is_url_spec (dir_prefix base ++ u) = true.
Proof. exact url_base_stays_url. Qed.
Print Assumptions C17_url_base_stays_url.

(* which base an include entry is resolved against: the system prefix for a system include when one is configured,
   else the includer's location, else (top level without location) the reference as written *)
Theorem C17_resolve_include : forall o url system,
  resolve_include o (url, system) =
  match (if system then o_sys_prefix o else None), o_url_base o with
  | Some prefix, _ => Some (resolve_spec prefix url)
  | None, Some base => Some (resolve_spec base url)
  | None, None => Some url
  end.
Proof. exact resolve_include_cases. Qed.
Print Assumptions C17_resolve_include.

(* ---- the include tree, for ALL file systems, options, scripts and nesting fuel ----
   [forest] is the tree of RESOLVED locations: each entry of a file resolved against that file's own resolved
   location, whatever was included before it (siblings share the parent's base).  The locations handed to fetchFn,
   in order, are a prefix of the DFS pre-order of that tree - all of it when the run completes: once per statement,
   in program order, an included script completely before the includer's next entry.  A failure names the location
   fetched last, and that location is the missing (resp. syntactically broken) one. *)
Theorem C17_fetch_order : forall fs fuel o body,
  (exists rest, flat_map preorder (forest fuel fs o body) = fetches (fst (run fuel fs o body)) ++ rest /\
                (snd (run fuel fs o body) = IDone -> rest = [])) /\
  (forall u, snd (run fuel fs o body) = IFailed u ->
             (exists ev', fst (run fuel fs o body) = ev' ++ [EFetch u]) /\ vfetch fs u = FMissing) /\
  (forall u, snd (run fuel fs o body) = IParseError u ->
             (exists ev', fst (run fuel fs o body) = ev' ++ [EFetch u]) /\ vfetch fs u = FBroken).
Proof. exact run_spec. Qed.
Print Assumptions C17_fetch_order.

(* after a completed include the next entry of the same statement (and, [o] being an argument of the statement loop,
   every later statement) is resolved with the includer's own options: the included script ran with a COPY whose base
   is the resolved url.  Definitional in a functional model - stated so that the copy semantics is visible. *)
Theorem C17_base_restored : forall fs rec o inc more url sub ev,
  resolve_include o inc = Some url -> vfetch fs url = FText sub -> rec (child_opts o url) sub = (ev, IDone) ->
  run_incs fs rec o (inc :: more) = (EFetch url :: ev ++ fst (run_incs fs rec o more), snd (run_incs fs rec o more)).
Proof. exact base_restored. Qed.
Print Assumptions C17_base_restored.

(* a `return` ends the script (or function body) that contains it, nothing after it runs - and by C17_base_restored
   the includer goes on *)
Theorem C17_return_local : forall fs rec o pre_ post,
  run_stmts fs rec o (pre_ ++ IRet :: post) = run_stmts fs rec o pre_.
Proof. exact return_is_local. Qed.
Print Assumptions C17_return_local.

(* ---- "run in global scope", on the REAL interpreter model (Model/Interp.v exec; any library, options, fuel) ----
   The abstract include model above has no variables, so this clause is stated about the interpreter model that the C01-C09
   theorems are about (tied to runtime.py by their correspondence checks): an include statement executed with ANY locals (top
   level, or inside a script function) hands its includes to run_incs - which takes no locals - and goes on with its own locals
   unchanged; every included script that is fetched and parses runs as a new statement list from statement 0 with locals = None
   (so its assignments write the globals: C04_assign_at_top_level_is_global) under the resolved url as the new base. *)
Theorem C17_include_statement_scope : forall cfg lib url_rel lint_lines f code pc cache loc um w incs,
  nth_error code pc = Some (S.SInclude incs) ->
  ((0 <? I.c_max cfg)%Z && (I.c_max cfg <? I.w_count w + 1)%Z)%bool = false ->
  I.exec cfg lib url_rel lint_lines (Datatypes.S f) code pc cache loc um w =
  match I.run_incs cfg url_rel lint_lines (I.exec cfg lib url_rel lint_lines f) um incs (I.upd_count w (I.w_count w + 1)%Z) with
  | (None, w1) => I.exec cfg lib url_rel lint_lines f code (Datatypes.S pc) cache loc um w1
  | (Some o, w1) => (o, loc, w1)
  end.
Proof. exact C17scope.include_statement_scope. Qed.
Print Assumptions C17_include_statement_scope.

Theorem C17_included_script_runs_in_global_scope : forall cfg url_rel lint_lines ex um u sys t w0 fetch txt sc,
  I.c_fetch cfg = Some fetch ->
  let url := match sys, I.c_sysprefix cfg with
             | true, Some p => url_rel p u
             | _, _ => if I.has_urlfn cfg um then I.apply_urlfn cfg url_rel um u else u
             end in
  fetch url = Some txt -> S.parse_script [txt] 1 = S.ROk sc -> (I.c_debug cfg && I.c_haslog cfg)%bool = false ->
  I.run_incs cfg url_rel lint_lines ex um ((u, sys) :: t) w0 =
  match ex sc 0%nat [] None (I.UBase url) (I.add_fetched w0 url) with
  | (I.OVal _, _, w3) => I.run_incs cfg url_rel lint_lines ex um t w3
  | (o, _, w3) => (Some o, w3)
  end.
Proof. exact C17scope.included_script_runs_in_global_scope. Qed.
Print Assumptions C17_included_script_runs_in_global_scope.

(* non-vacuity *)
Example C17_nonvacuous_tree :
  run 5 ex_fs ex_opts ex_body =
  ([EFetch (U "lib/a.bare"); EEmit (U "a"); EFetch (U "system/util.bare"); EEmit (U "u"); EFetch (U "system/helper.bare"); EEmit (U "h");
    EFetch (U "lib/sub/c.bare"); EEmit (U "c"); EEmit (U "a.end"); EFetch (U "b.bare"); EEmit (U "b"); EEmit (U "end")], IDone).
Proof. exact ex_run. Qed.

Example C17_nonvacuous_failure :
  run 5 ex_fs ex_opts [IInc [(U "lib/a.bare", false)]; ICall [IInc [(U "lib/../gone.bare", false)]]; IEmit (U "unreached")] =
  ([EFetch (U "lib/a.bare"); EEmit (U "a"); EFetch (U "system/util.bare"); EEmit (U "u"); EFetch (U "system/helper.bare"); EEmit (U "h");
    EFetch (U "lib/sub/c.bare"); EEmit (U "c"); EEmit (U "a.end"); EFetch (U "lib/../gone.bare")], IFailed (U "lib/../gone.bare")).
Proof. exact ex_missing. Qed.

Example C17_nonvacuous_resolution :
  url_file_relative (U "http://h.local/pkg/main.bare") (U "sub/./x.bare") = Some (U "http://h.local/pkg/sub/./x.bare") /\
  url_file_relative (U "app/main.bare") (U "sub/.//x.bare") = Some (U "app/sub/x.bare") /\
  url_file_relative (U "app/main.bare") (U "/abs//x.bare") = Some (U "/abs/x.bare") /\
  url_file_relative (U "app/main.bare") (U "https://o.org/x.bare") = Some (U "https://o.org/x.bare") /\
  url_file_relative (U ":bare-include:/") (U "diff.bare") = Some (U ":bare-include:/diff.bare").
Proof. exact ex_resolution. Qed.
