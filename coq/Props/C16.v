(* Props/C16.v — property C16: datetime construction, arithmetic and ISO text are correct in any time zone.
   ONLY statements; every proof is `exact <lemma of Proofs/C16.v>`.  Model: Model/Calendar.v
   (validation bounds and roll-over divisors REGENERATED from library.py into Gen/CalendarTables.v).

   Datetime values are naive local wall times counted in microseconds; [DExc] is a Python exception (null at script
   level), [DFuel] an exhausted loop bound (proved unreachable).  The spec calendar steps ONE DAY AT A TIME
   ([next_day]/[prev_day], [shift_days]); it contains no month-length shortcut and no day-number formula. *)
From Coq Require Import ZArith List Bool.
From BS Require Import Model.Base Model.Calendar Gen.CalendarTables Proofs.C16 Proofs.C16Float.
Local Open Scope Z_scope.

(* the validation datetimeNew performs (regenerated from _DATETIME_NEW_ARGS) *)
Theorem C16_validation : forall y mo d h mi s ms,
  dtnew_args_ok y mo d h mi s ms = true <-> (100 <= y /\ -10000 <= d <= 10000).
Proof. exact args_ok_iff. Qed.
Print Assumptions C16_validation.

(* clause 1 — datetimeNew normalises out-of-range components exactly as calendar arithmetic does.
   For EVERY validated argument list (any integers for month/hour/minute/second/millisecond, no bound):
   the result is the datetime constructor applied to the fields obtained by taking the first of the normalised month
   (year + (month-1) div 12, (month-1) mod 12 + 1), and moving  total_ms div 86400000  days one day at a time, where
   total_ms = ((((day-1)*24 + hour)*60 + minute)*60 + second)*1000 + millisecond; the time of day is total_ms mod 86400000.
   The result is [DExc] exactly when that year leaves 1..9999. *)
Theorem C16_new_is_calendar_arithmetic : forall y mo d h mi s ms,
  dtnew_args_ok y mo d h mi s ms = true ->
  datetime_new y mo d h mi s ms = py_datetime (dn_spec_fields y mo d h mi s ms).
Proof. exact new_is_calendar_arithmetic. Qed.
Print Assumptions C16_new_is_calendar_arithmetic.

(* the same result as a count of microseconds: midnight of the first of the normalised month (closed-form day number)
   plus the signed total of the remaining components *)
Theorem C16_new_value : forall y mo d h mi s ms w,
  datetime_new y mo d h mi s ms = DOk w ->
  w = days_from_civil (norm_year y mo, norm_month mo, 1) * US_DAY + dn_total_ms d h mi s ms * 1000.
Proof. exact new_value. Qed.
Print Assumptions C16_new_value.

(* the loops never exhaust their bound (fuel = |day| + 1 suffices for every integer input) *)
Theorem C16_new_terminates : forall y mo d h mi s ms, datetime_new y mo d h mi s ms <> DFuel.
Proof. exact new_never_fuel. Qed.
Print Assumptions C16_new_terminates.

(* the day-by-day spec calendar agrees with the closed-form day numbers used to represent values *)
Theorem C16_spec_calendar_is_day_number : forall k c,
  valid_date c = true -> shift_days k c = civil_from_days (days_from_civil c + k).
Proof. exact shift_is_day_number. Qed.
Print Assumptions C16_spec_calendar_is_day_number.

(* clause 2 — the component getters return the parts of the normalised instant *)
Theorem C16_fields_of_fields : forall f, valid_fields f = true -> fields (of_fields f) = f.
Proof. exact fields_of_fields. Qed.
Print Assumptions C16_fields_of_fields.

Theorem C16_of_fields_fields : forall w, of_fields (fields w) = w.
Proof. exact of_fields_fields. Qed.
Print Assumptions C16_of_fields_fields.

Theorem C16_getters : forall y mo d h mi s ms w,
  datetime_new y mo d h mi s ms = DOk w ->
  let f := dn_spec_fields y mo d h mi s ms in
  get_year w = f_year f /\ get_month w = f_month f /\ get_day w = f_day f /\ get_hour w = f_hour f /\
  get_minute w = f_minute f /\ get_second w = f_second f /\
  get_millisecond w = dn_total_ms d h mi s ms mod 1000 /\ in_range w = true.
Proof. exact getters_of_new. Qed.
Print Assumptions C16_getters.

(* clause 3 — adding an integral number n of milliseconds and subtracting the original gives n (exact, in Z) *)
Theorem C16_add_sub : forall w n w', dt_add_ms w n = DOk w' -> dt_sub_ms w' w = n.
Proof. exact add_sub_exact. Qed.
Print Assumptions C16_add_sub.

(* ... and the SAME holds on the binary64 path the code actually takes.  [dt_sub_float] is
     value_round_number((a - b).total_seconds() * 1000, 0):
   microseconds / 10^6 correctly rounded (int / int), * 1000.0 correctly rounded, + 0.5 (or - 0.5) correctly rounded, int().
   Proved for ALL w, n in Proofs/C16Float.v by a rounding-error analysis carried out in Z (every binary64 value scaled by
   2^1074 is an integer; each of the three roundings has relative error <= 2^-53: Proofs/FloatFacts.v, about the standard
   library's SpecFloat functions themselves, no real numbers, no axioms).
   The bound proved is |n| <= 10^15 (the statement first wanted had 10^12), and it is implied by the operands being datetimes
   (second theorem: no bound on n at all).  Without either hypothesis the statement is FALSE: see the last Example. *)
Theorem C16_sub_rounding : forall w n w',
  Z.abs n <= 10 ^ 15 -> dt_add_ms w n = DOk w' -> dt_sub_float w' w = Some n.
Proof. exact sub_float_exact. Qed.
Print Assumptions C16_sub_rounding.

Theorem C16_sub_rounding_in_range : forall w n w',
  in_range w = true -> dt_add_ms w n = DOk w' -> dt_sub_float w' w = Some n.
Proof. exact sub_float_exact_in_range. Qed.
Print Assumptions C16_sub_rounding_in_range.

(* non-vacuity: a datetime plus one year and one millisecond *)
Example C16_sub_rounding_nonvacuous :
  in_range 1700000000000000 = true /\ Z.abs 31536000001 <= 10 ^ 15 /\
  dt_add_ms 1700000000000000 31536000001 = DOk 1731536000001000 /\
  dt_sub_float 1731536000001000 1700000000000000 = Some 31536000001.
Proof. exact sub_float_nonvacuous. Qed.
(* beyond the datetime range (a difference of 4398076898823855 ms, about 139 000 years) the float path is off by one *)
Example C16_sub_rounding_refuted_beyond_range :
  dt_sub_float (4398076898823855 * 1000) 0 = Some 4398076898823856.
Proof. exact sub_float_refuted_beyond_range. Qed.

(* clause 4 — ISO round trip for EVERY pair of offset functions (the process time zone is a parameter) *)
Theorem C16_iso_roundtrip : forall (off_local off_utc : Z -> Z) w,
  in_range w = true ->
  exists_in_zone off_local off_utc w = true ->
  (Z.abs (off_local w) <? 86400) = true -> (off_local w mod 60 =? 0) = true ->
  in_range (w - off_local w * US_SEC) = true ->
  (off_utc (trunc_ms w - off_local w * US_SEC) =? off_utc (w - off_local w * US_SEC)) = true ->
  exists s, iso_format off_local off_utc w = DOk s /\ iso_parse off_utc s = Some (trunc_ms w).
Proof. exact iso_roundtrip. Qed.
Print Assumptions C16_iso_roundtrip.

(* "exists in the zone" is the round trip naive -> aware -> UTC -> aware -> naive giving the same wall time back
   (the definition the direct oracle uses on the implementation side) *)
Theorem C16_exists_in_zone_meaning : forall (off_local off_utc : Z -> Z) w,
  in_range w = true -> in_range (w - off_local w * US_SEC) = true ->
  (exists_in_zone off_local off_utc w = true <-> exists o, astimezone_naive off_local off_utc w = DOk (w, o)).
Proof. exact exists_iff_astimezone_fixpoint. Qed.
Print Assumptions C16_exists_in_zone_meaning.

Theorem C16_iso_roundtrip_whole_ms : forall (off_local off_utc : Z -> Z) w,
  in_range w = true -> w mod 1000 = 0 ->
  exists_in_zone off_local off_utc w = true ->
  (Z.abs (off_local w) <? 86400) = true -> (off_local w mod 60 =? 0) = true ->
  in_range (w - off_local w * US_SEC) = true ->
  exists s, iso_format off_local off_utc w = DOk s /\ iso_parse off_utc s = Some w.
Proof. exact iso_roundtrip_whole_ms. Qed.
Print Assumptions C16_iso_roundtrip_whole_ms.

(* without the existence hypothesis: parse (format w) is the zone's own normalisation of w (the wall time astimezone()
   reports, e.g. 03:30 for a 02:30 that falls into a DST gap), truncated to the millisecond *)
Theorem C16_iso_format_parse_general : forall (off_local off_utc : Z -> Z) w l o,
  astimezone_naive off_local off_utc w = DOk (l, o) ->
  (Z.abs o <? 86400) = true -> (o mod 60 =? 0) = true ->
  (off_utc (trunc_ms l - o * US_SEC) =? o) = true ->
  exists s, iso_format off_local off_utc w = DOk s /\ iso_parse off_utc s = Some (trunc_ms l).
Proof. exact iso_format_parse_general. Qed.
Print Assumptions C16_iso_format_parse_general.

Theorem C16_iso_date_roundtrip : forall (off_utc : Z -> Z) w,
  in_range w = true -> iso_parse off_utc (iso_format_date w) = Some (w - w mod US_DAY).
Proof. exact iso_date_roundtrip. Qed.
Print Assumptions C16_iso_date_roundtrip.

(* clause 5 — parsing never fails: null or a representable whole-millisecond datetime, for every text and zone;
   well-shaped text with impossible field values (2024-02-30, 24:00:00, ...) gives null *)
Theorem C16_parse_total : forall (off_utc : Z -> Z) s,
  iso_parse off_utc s = None \/ exists w, iso_parse off_utc s = Some w /\ in_range w = true /\ w mod 1000 = 0.
Proof. exact parse_total. Qed.
Print Assumptions C16_parse_total.

(* invalid text => null, declaratively: whatever parses to a datetime is a text of the grammar
     YYYY-MM-DD            (decimal digits as Python's \d / int() read them, optionally one final newline)
   | YYYY-MM-DDTHH:MM:SS[.f{1,6}](Z | +HH:MM | -HH:MM)      (ASCII digits)
   ([is_date_text], [is_datetime_text] in Proofs/C16.v are existential statements about the characters, written
   without reference to the parser) *)
Theorem C16_parse_non_iso_is_null : forall (off_utc : Z -> Z) s,
  ~ (is_date_text s \/ is_datetime_text s) -> iso_parse off_utc s = None.
Proof. exact parse_non_iso_is_null. Qed.
Print Assumptions C16_parse_non_iso_is_null.

Theorem C16_parse_rejects_invalid_fields : forall (off_utc : Z -> Z) f o,
  0 <= f_year f < 10000 -> 0 <= f_month f < 100 -> 0 <= f_day f < 100 -> 0 <= f_hour f < 100 ->
  0 <= f_minute f < 100 -> 0 <= f_second f < 100 -> 0 <= f_us f < 1000000 -> Z.abs o < 86400 -> o mod 60 = 0 ->
  valid_fields f = false -> iso_parse off_utc (datetime_text f o) = None.
Proof. exact parse_rejects_invalid_fields. Qed.
Print Assumptions C16_parse_rejects_invalid_fields.

Theorem C16_format_total : forall (off_local off_utc : Z -> Z) w,
  (exists s, iso_format off_local off_utc w = DOk s) \/
  (iso_format off_local off_utc w = DExc /\
   (in_range (w - off_local w * US_SEC) = false \/
    in_range (w - off_local w * US_SEC + off_utc (w - off_local w * US_SEC) * US_SEC) = false)).
Proof. exact iso_format_total. Qed.
Print Assumptions C16_format_total.

(* non-vacuity: a zone with a DST gap; a wall time satisfying every hypothesis of the round trip, one in the gap *)
Theorem C16_nonvacuous :
  in_range ex_w_before = true /\ exists_in_zone ex_off_local ex_off_utc ex_w_before = true /\
  (Z.abs (ex_off_local ex_w_before) <? 86400) = true /\ (ex_off_local ex_w_before mod 60 =? 0) = true /\
  in_range (ex_w_before - ex_off_local ex_w_before * US_SEC) = true /\
  (ex_off_utc (trunc_ms ex_w_before - ex_off_local ex_w_before * US_SEC) =? ex_off_utc (ex_w_before - ex_off_local ex_w_before * US_SEC)) = true /\
  iso_format ex_off_local ex_off_utc ex_w_before = DOk (U "2024-03-10T01:30:00.123-05:00") /\
  iso_parse ex_off_utc (U "2024-03-10T01:30:00.123-05:00") = Some (trunc_ms ex_w_before) /\
  exists_in_zone ex_off_local ex_off_utc ex_w_gap = false /\
  iso_format ex_off_local ex_off_utc ex_w_gap = DOk (U "2024-03-10T03:30:00-04:00") /\
  exists_in_zone ex_off_local ex_off_utc ex_w_after = true.
Proof. exact ex_roundtrip_hyps. Qed.

(* ------------------------------------------------------------------------------------------------------------------
   The REGENERATED regular expressions of value.py (Gen/Regexes.v), run through the backtracking engine of
   Model/Regex.v, read directly for EVERY string (Proofs/C16rx.v); consequence: the statement-by-statement regex
   version of value_parse_datetime (Model/CalendarRx.v, iso_parse_rx) IS the direct function iso_parse that the
   theorems above are about. *)
From BS Require Import Model.Regex Model.CalendarRx Gen.Unicode Gen.Regexes Proofs.C16rx.

(* _R_DATE.match: the strings  dddd-dd-dd  (d = any Unicode decimal digit), optionally one final newline; a match
   always ends at 10 with the groups year = [0,4), month = [5,7), day = [8,10) *)
Theorem C16_date_regex_reading : forall s,
  re_match UC R_DATE s = if date_rx_shape s then MYes 10 date_caps else MNo.
Proof. exact date_regex_answer. Qed.
Print Assumptions C16_date_regex_reading.

(* ... and the date branch of the direct function reads exactly these strings and exactly int() of the group texts:
   NO difference (Unicode digits and the final newline are accepted on both sides; int() never raises) *)
Theorem C16_date_regex_is_parse_date_form : forall s,
  match re_match UC R_DATE s with
  | MYes e c => exists y m d, parse_date_form s = Some (y, m, d) /\
                  py_int_digits (gtext s c R_DATE__year) 0 = Some y /\
                  py_int_digits (gtext s c R_DATE__month) 0 = Some m /\
                  py_int_digits (gtext s c R_DATE__day) 0 = Some d
  | MNo => parse_date_form s = None
  | MFuel => False
  end.
Proof. exact date_branch_agrees. Qed.
Print Assumptions C16_date_regex_is_parse_date_form.

Example C16_date_regex_reading_ex :
  date_rx_shape (U "2024-02-29") = true /\ date_rx_shape (U "2024-02-29\00000a") = true /\
  date_rx_shape (U "\000662\000660\000662\000664-\000660\000662-\000662\000669") = true /\
  date_rx_shape (U "2024-2-29") = false /\ date_rx_shape (U " 2024-02-29") = false /\
  date_rx_shape (U "2024-02-29\00000a\00000a") = false /\
  iso_parse_rx (fun _ => 0) (U "\000662\000660\000662\000664-\000660\000662-\000662\000669") =
    DOk (iso_parse (fun _ => 0) (U "2024-02-29")) /\ iso_parse (fun _ => 0) (U "2024-02-29") <> None.
Proof. vm_compute. repeat split; discriminate. Qed.

(* _R_DATETIME.match: dddd-dd-ddTdd:dd:dd, an optional '.' with 1..6 digits, then Z or [+-]dd:dd, optionally one
   final newline (datetime_rx_len = the number of characters before that newline) *)
Theorem C16_datetime_regex_reading : forall s,
  re_match UC R_DATETIME s = match datetime_rx_len s with Some e => MYes e [] | None => MNo end.
Proof. exact datetime_regex_answer. Qed.
Print Assumptions C16_datetime_regex_reading.

Example C16_datetime_regex_reading_ex :
  datetime_rx_len (U "2024-03-10T01:30:00.123-05:00") = Some 29%nat /\
  datetime_rx_len (U "2024-03-10T01:30:00Z\00000a") = Some 20%nat /\
  datetime_rx_len (U "2024-03-10T01:30:00.1234567Z") = None /\ datetime_rx_len (U "2024-03-10T01:30:00.Z") = None /\
  datetime_rx_len (U "2024-03-10T01:30:00") = None.
Proof. vm_compute. repeat split. Qed.

(* _R_DATETIME_ZULU.sub('+00:00', text): the Z that ends the text (or stands before one final newline) *)
Theorem C16_zulu_regex_reading : forall s,
  re_sub UC R_DATETIME_ZULU (fun _ _ => U "+00:00") s = Some (zulu s).
Proof. exact zulu_sub_answer. Qed.
Print Assumptions C16_zulu_regex_reading.

Example C16_zulu_regex_reading_ex :
  zulu (U "2024-03-10T01:30:00Z") = U "2024-03-10T01:30:00+00:00" /\ zulu (U "ZZ\00000a") = U "Z+00:00\00000a" /\
  zulu (U "Z1") = U "Z1".
Proof. vm_compute. repeat split. Qed.

(* the substitution never changes what the direct datetime recogniser reads, and whatever it reads _R_DATETIME matches *)
Theorem C16_zulu_is_transparent : forall s, parse_datetime_form (zulu s) = parse_datetime_form s.
Proof. exact zulu_parse_datetime_form. Qed.
Print Assumptions C16_zulu_is_transparent.

Theorem C16_datetime_form_is_matched : forall s x, parse_datetime_form s = Some x -> datetime_rx_len s <> None.
Proof. exact datetime_form_matches. Qed.
Print Assumptions C16_datetime_form_is_matched.

(* value_parse_datetime run on the regenerated regexes = the direct function, for EVERY string and EVERY zone:
   never out of fuel, never an uncaught exception, the same value *)
Theorem C16_parse_rx_is_parse : forall (off_utc : Z -> Z) s, iso_parse_rx off_utc s = DOk (iso_parse off_utc s).
Proof. exact iso_parse_rx_is_iso_parse. Qed.
Print Assumptions C16_parse_rx_is_parse.

Example C16_parse_rx_is_parse_ex :
  iso_parse_rx ex_off_utc (U "2024-03-10T01:30:00.123-05:00") = DOk (Some (trunc_ms ex_w_before)) /\
  iso_parse_rx ex_off_utc (U "2024-03-10T06:30:00.123Z") = DOk (Some (trunc_ms ex_w_before)) /\
  iso_parse_rx ex_off_utc (U "2024-03-10T06:30:00.123Z\00000a") = DOk None.
Proof. vm_compute. repeat split. Qed.

(* value_string, datetime branch: _R_DATETIME_MICROSECOND.search (the first '.' followed by six digits) and
   _R_DATETIME_TZ_CLEANUP.sub(r'\1') ([+-]dd:dd:dd at the end loses its :dd), for EVERY text *)
Theorem C16_microsecond_regex_reading : forall s,
  re_search UC R_DATETIME_MICROSECOND s =
  match us_find 0 s with
  | Some b => MYes (7 + b) [(0%nat, (b, (7 + b)%nat)); (1%nat, (S b, (7 + b)%nat))]
  | None => MNo
  end.
Proof. exact microsecond_search_answer. Qed.
Print Assumptions C16_microsecond_regex_reading.

Theorem C16_tz_cleanup_regex_reading : forall s,
  re_sub UC R_DATETIME_TZ_CLEANUP (fun whole c => gtext whole c 1) s = Some (tz_cleanup s).
Proof. exact tz_cleanup_sub_answer. Qed.
Print Assumptions C16_tz_cleanup_regex_reading.

Theorem C16_value_string_tail_reading : forall iso, value_string_tail iso = DOk (tz_cleanup (us_to_ms iso)).
Proof. exact value_string_tail_answer. Qed.
Print Assumptions C16_value_string_tail_reading.

Example C16_value_string_tail_reading_ex :
  us_find 0 (U "2024-03-10T01:30:00.123456-05:00") = Some 19%nat /\
  tz_cleanup (us_to_ms (U "2024-03-10T01:30:00.123456-05:00")) = U "2024-03-10T01:30:00.123-05:00" /\
  tz_cleanup (us_to_ms (U "1897-05-31T00:00:00+10:04:52")) = U "1897-05-31T00:00:00+10:04" /\
  us_find 0 (U "1.12345") = None.
Proof. vm_compute. repeat split. Qed.

(* on the text aware_datetime.isoformat() produces (py_isoformat: six-digit fraction only when non-zero, offset seconds
   only when non-zero) the two rewrites give exactly datetime_text: `.ffffff` -> `.mmm` by truncation, `:SS` removed *)
Theorem C16_value_string_tail_of_isoformat : forall f o,
  0 <= f_year f < 10000 -> 0 <= f_month f < 100 -> 0 <= f_day f < 100 -> 0 <= f_hour f < 100 ->
  0 <= f_minute f < 100 -> 0 <= f_second f < 100 -> 0 <= f_us f < 1000000 -> Z.abs o < 360000 ->
  value_string_tail (py_isoformat f o) = DOk (datetime_text f o).
Proof. exact value_string_tail_isoformat. Qed.
Print Assumptions C16_value_string_tail_of_isoformat.

(* value_string(datetime) run on the regenerated regexes = the direct function iso_format of the theorems above, for
   EVERY value and every zone whose UTC offsets are below 24 hours (Python's own bound for a utcoffset) *)
Theorem C16_format_rx_is_format : forall (off_local off_utc : Z -> Z) w,
  (forall u, Z.abs (off_utc u) < 86400) -> iso_format_rx off_local off_utc w = iso_format off_local off_utc w.
Proof. exact iso_format_rx_is_iso_format. Qed.
Print Assumptions C16_format_rx_is_format.

Example C16_format_rx_is_format_ex :
  (forall u, Z.abs (ex_off_utc u) < 86400) /\
  iso_format_rx ex_off_local ex_off_utc ex_w_before = DOk (U "2024-03-10T01:30:00.123-05:00") /\
  value_string_tail (py_isoformat (mkf 1897 5 31 0 0 0 0) 36292) = DOk (U "1897-05-31T00:00:00+10:04").
Proof.
  split; [|vm_compute; split; reflexivity].
  intros u. unfold ex_off_utc. destruct (u <? ex_T); vm_compute; reflexivity.
Qed.
