(* Props/C01.v — C01: structured control flow runs with its source-level meaning.  Statements and `exact` only;
   proofs in Proofs/Fuel.v, Proofs/C01.v, Proofs/C01b.v.

   The theorems are about the REAL statement type and the REAL interpreter model (Model/Interp.v exec) on the code that
   [compile] produces; [compile] is the lowering of parse_script for this fragment (if / elif / else chains with the
   endif retargeting, while as it is lowered, break, continue, sequencing, assignment, expression statement, return),
   PROVED equal to the parser model's pure lowering step folded over the tree's line kinds (C01_compile_is_the_parser_lowering,
   C01_parse_is_compile); that the printed text classifies to those kinds is decided per case inside Coq by the check.

   PARTIAL, named: (1) `for` is not in the proved fragment (it needs the library contracts of arrayLength/arrayGet and the
   reserved temporaries) - decided by the check only; (2) `continue` inside `while` is excluded by the hypothesis [guard]:
   that is known finding F7 (the lowering skips the re-test), see C01_F7_witness below; (3) function definitions are
   statements of the enclosing scope and calls are evaluated by the same evaluator on both sides, so the theorem is per scope
   (global list or one function body), for any call depth inside expressions; (4) premises on the LIBRARY only (C01_simulation_library_premises_partial): monotone in the
   termination of its callbacks, and it does not read options['statementCount']; both proved for the modelled library. *)
From Coq Require Import List.
From BS Require Import Model.Base Model.Num Model.Arith Model.ExprParser Model.Script Model.Interp Model.LibCore Model.RunC01
                       Model.ScriptX Model.Lower Proofs.Fuel Proofs.C01 Proofs.C01b Proofs.C01c Proofs.C01d Proofs.Blind Proofs.C07 Proofs.C09 Proofs.C01lim Model.LibAll Model.LibPartial Proofs.LibAll Proofs.LibPartial.

Lemma real_lab_inj : forall k n k' n', real_lab k n = real_lab k' n' -> k = k' /\ n = n'.
Proof.
  intros k n k' n' H. unfold real_lab in H.
  assert (Hin : forall k0, In (match k0 with C01.KIf => L_If | C01.KDone => L_Done | C01.KLoop => L_Loop end) LABEL_PREFIXES).
  { intros []; cbn; auto. }
  destruct (lbl_inj _ _ _ _ (Hin k) (Hin k') H) as [HP Hn]. split; [|exact Hn].
  destruct k, k'; try reflexivity; vm_compute in HP; discriminate.
Qed.

(* fuel is only the model's stand-in for "the Python call returns": a run that does not run out of fuel gives the same result
   with any larger fuel (for every library that is monotone in the termination of its callbacks) *)
Theorem C01_fuel_monotone : forall cfg lib url_rel lint_lines, lib_fuel_monotone lib ->
  forall f f' code pc cache loc um w r, f <= f' ->
  exec cfg lib url_rel lint_lines f code pc cache loc um w = r -> fst (fst r) <> OFuel ->
  exec cfg lib url_rel lint_lines f' code pc cache loc um w = r.
Proof. exact exec_fuel_le. Qed.
Print Assumptions C01_fuel_monotone.

(* the lowered code never reuses a label: every label it defines is defined once (so every jump finds its own target) *)
Theorem C01_compiled_labels_unique : forall ctx n s, NoDup (labels (fst (compile real_lab ctx n s))).
Proof. exact (compile_NoDup real_lab real_lab_inj). Qed.
Print Assumptions C01_compiled_labels_unique.

(* SIMULATION, one scope: whenever the structured (big-step) reading of a statement tree ends - normally, by return, or by a
   runtime error - the interpreter run on the lowered code, from statement 0, on any world that differs at most in the statement
   counter, ends with the same result, the same locals and (up to the counter) the same world: same globals, heap and log.
   In the structured semantics (Proofs/C01.v SExec) a loop condition is re-tested before every iteration, break and continue bind
   to the innermost loop, and an if chain runs exactly the first branch whose condition is truthy. *)
Theorem C01_simulation_partial : forall cfg, c_max cfg = 0%Z ->
  forall lib url_rel lint_lines, lib_fuel_monotone lib ->
  forall um,
  (forall e loc w o w' wm, Ev cfg lib url_rel lint_lines um e loc w o w' -> weq w wm ->
     exists wm', Ev cfg lib url_rel lint_lines um e loc wm o wm' /\ weq w' wm') ->
  forall s loc w o loc' w', SExec cfg lib url_rel lint_lines um s (loc, w) o (loc', w') ->
  wf false s = true -> guard s = true ->
  forall n wm, weq w wm ->
  exists out wm', scope_result o = Some out /\ weq w' wm' /\
    Run cfg lib url_rel lint_lines um (fst (compile real_lab None n s)) 0 loc wm (out, loc', wm').
Proof. intros cfg Hunl lib url_rel lint_lines Hlib um Hb. exact (scope_sim cfg Hunl lib url_rel lint_lines Hlib um real_lab real_lab_inj Hb). Qed.
Print Assumptions C01_simulation_partial.

(* the same with the premise on evaluation discharged: with an unlimited budget the interpreter never reads the statement
   counter (Proofs/Blind.v, mutual induction over eval/call/exec), provided the LIBRARY does not read it *)
Theorem C01_simulation_library_premises_partial : forall cfg, c_max cfg = 0%Z ->
  forall lib url_rel lint_lines, lib_fuel_monotone lib -> lib_count_blind lib ->
  forall um s loc w o loc' w', SExec cfg lib url_rel lint_lines um s (loc, w) o (loc', w') ->
  wf false s = true -> guard s = true ->
  forall n wm, weq w wm ->
  exists out wm', scope_result o = Some out /\ weq w' wm' /\
    Run cfg lib url_rel lint_lines um (fst (compile real_lab None n s)) 0 loc wm (out, loc', wm').
Proof.
  intros cfg Hunl lib url_rel lint_lines Hf Hb um.
  exact (scope_sim cfg Hunl lib url_rel lint_lines Hf um real_lab real_lab_inj (Ev_blind_holds cfg Hunl lib url_rel lint_lines Hb um)).
Qed.
Print Assumptions C01_simulation_library_premises_partial.

(* ... and under a POSITIVE statement limit: the structured reading is taken with the limit lifted; the interpreter run under the
   limit on the lowered code either ends with the same result, locals and world (up to the counter), or it is cut short by
   exactly the statement-budget error, and then the full run starts more than the limit's worth of statements.  (Composition
   with the lock step of Props/C09.v; four premises on the library, all proved for the modelled library.) *)
Theorem C01_simulation_under_a_limit_partial : forall cfg, (0 < c_max cfg)%Z ->
  forall lib url_rel lint_lines, lib_fuel_monotone lib -> lib_count_blind lib -> lib_monotone lib -> lib_lockstep lib cfg ->
  forall um s loc w o loc' w', SExec (unlimited cfg) lib url_rel lint_lines um s (loc, w) o (loc', w') ->
  wf false s = true -> guard s = true ->
  forall n wm, weq w wm ->
  exists out wm' fuel, scope_result o = Some out /\ weq w' wm' /\ out <> OFuel /\
    let r := exec cfg lib url_rel lint_lines fuel (fst (compile real_lab None n s)) 0 [] loc um wm in
    r = (out, loc', wm') \/ (fst (fst r) = ORt (msg_exceeded (c_max cfg)) /\ (c_max cfg < w_count wm')%Z).
Proof.
  intros cfg Hpos lib url_rel lint_lines Hf Hb Hm Hl um.
  exact (scope_sim_limited cfg Hpos lib url_rel lint_lines Hf Hb Hm Hl um real_lab real_lab_inj).
Qed.
Print Assumptions C01_simulation_under_a_limit_partial.

(* both library premises hold for the modelled library functions (non-vacuity) *)
Theorem C01_premises_hold_for_modelled_library : forall cfg, lib_fuel_monotone (libcore cfg) /\ lib_count_blind (libcore cfg).
Proof. intros cfg. split; [exact (libcore_fuel_monotone cfg)|exact (libcore_count_blind cfg)]. Qed.
Print Assumptions C01_premises_hold_for_modelled_library.

(* ... and for the COMBINED library the check runs (Model/LibAll.v: LibCore overlaid with the lifted array / object / string
   functions of Model/LibSeq.v, arraySort of Model/LibCall.v, which CALLS BACK into script code, and systemPartial closures of
   Model/LibPartial.v, whose call is one raw call through the callback): all four premises *)
Theorem C01_premises_hold_for_combined_library : forall cfg,
  lib_fuel_monotone (libfull2 cfg) /\ lib_count_blind (libfull2 cfg) /\ lib_monotone (libfull2 cfg) /\ lib_lockstep (libfull2 cfg) cfg.
Proof.
  intros cfg. split; [exact (libfull2_fuel_monotone cfg)|]. split; [exact (libfull2_count_blind cfg)|].
  split; [exact (libfull2_monotone cfg)|exact (libfull2_lockstep cfg)].
Qed.
Print Assumptions C01_premises_hold_for_combined_library.

(* [compile] IS the parser's lowering: folding the parser's pure lowering step (Model/Lower.v kstep; Props/C07.v proves
   pstep = classify ; kstep) over the line kinds of a tree, from the parser's initial state and whatever the line numbers and
   texts are, appends exactly compile(tree), and leaves no open block *)
Theorem C01_compile_is_the_parser_lowering : forall ann s, wf false s = true -> guard s = true ->
  kfold ann 0 ps_init (kinds s) = ROk (gstate (fst (compile real_lab None 0 s)) 0 [] (snd (compile real_lab None 0 s))).
Proof. intros ann s Hwf Hg. exact (lowering_of_a_scope ann s Hwf (guard_wf_no_continue s Hwf Hg)). Qed.
Print Assumptions C01_compile_is_the_parser_lowering.

(* ... hence: whenever the logical lines of a text classify (statement regexes + expression parser) to the line kinds of the
   tree, the parser model's result for that text is compile(tree).  (That the PRINTED text of a tree classifies to its kinds is
   the regex-level fact the check decides per case inside Coq: Model/RunC01.v check_lowering.) *)
Theorem C01_parse_is_compile : forall lines start s lls ls',
  wf false s = true -> guard s = true ->
  llines lines 0 {| l_cont := []; l_ix := 0 |} = (lls, LDone ls') -> l_cont ls' = [] ->
  Forall2 (fun il k => classify (start + fst il) (snd il) = ROk k) lls (kinds s) ->
  match ploop lines 0 {| l_cont := []; l_ix := 0 |} ps_init start with
  | ROk (ls, ps) => pfinish ls ps start
  | RErr e => RErr e | RHost w => RHost w | RFuel => RFuel
  end = ROk (fst (compile real_lab None 0 s)).
Proof. exact parse_is_compile. Qed.
Print Assumptions C01_parse_is_compile.

(* the structured reading is executable: a sound interpreter for SExec (run inside Coq against the implementation by the check) *)
Theorem C01_structured_interpreter_sound : forall cfg lib url_rel lint_lines um fuel s st o st',
  sexec cfg lib url_rel lint_lines um fuel s st = Some (o, st') -> SExec cfg lib url_rel lint_lines um s st o st'.
Proof. exact sexec_sound. Qed.
Print Assumptions C01_structured_interpreter_sound.

(* non-vacuity, and the known finding F7 as a machine-checked witness: on
       i = 0 / while i < 3: / i = i + 1 / if i == 3: continue endif / systemLog('i=' + i) / endwhile
   the structured reading logs i=1, i=2 and stops; the lowered code (continue -> the loop label, past the test) logs i=1, i=2, i=4 *)
Definition f7_prog : sstmt :=
  TSeq (TAssign (U "i") (ENum (NInt 0)))
       (TWhile (EBin (U "<") (EVar (U "i")) (ENum (NInt 3)))
               (TSeq (TAssign (U "i") (EBin (U "+") (EVar (U "i")) (ENum (NInt 1))))
                     (TSeq (TIf (EBin (U "==") (EVar (U "i")) (ENum (NInt 3))) TContinue TSkip)
                           (TExpr (ECall (U "systemLog") [EBin (U "+") (EStr (U "i=")) (EVar (U "i"))]))))).
Definition f7_cfg := Run.mkcfg 0 false true.
Definition f7_world := upd_globals (world0 []) (inject_library []).

Example C01_F7_witness :
  (* the structured reading *)
  option_map (fun r => rev (w_log (snd (snd r)))) (sexec f7_cfg (libcore f7_cfg) Run.no_url Run.no_lint UHost 200 f7_prog (None, f7_world))
    = Some [U "i=1"; U "i=2"] /\
  (* the implementation's lowering of the same tree, run by the interpreter model *)
  rev (w_log (snd (exec f7_cfg (libcore f7_cfg) Run.no_url Run.no_lint 400 (fst (compile real_lab None 0 f7_prog)) 0 [] None UHost f7_world)))
    = [U "i=1"; U "i=2"; U "i=4"] /\
  guard f7_prog = false /\ wf false f7_prog = true.
Proof. vm_compute. repeat split. Qed.

(* ... and a program inside the guarded fragment, on which both sides agree (hypotheses are satisfiable) *)
Definition ok_prog : sstmt :=
  TSeq (TAssign (U "i") (ENum (NInt 0)))
       (TSeq (TWhile (EBin (U "<") (EVar (U "i")) (ENum (NInt 5)))
                     (TSeq (TAssign (U "i") (EBin (U "+") (EVar (U "i")) (ENum (NInt 1))))
                           (TIf (EBin (U "==") (EVar (U "i")) (ENum (NInt 2))) (TExpr (ECall (U "systemLog") [EStr (U "two")]))
                                (TIf (EBin (U "==") (EVar (U "i")) (ENum (NInt 4))) TBreak
                                     (TElse (TExpr (ECall (U "systemLog") [EBin (U "+") (EStr (U "i=")) (EVar (U "i"))])))))))
             (TReturn (Some (EVar (U "i"))))).
Example C01_nonvacuous :
  guard ok_prog = true /\ wf false ok_prog = true /\
  option_map (fun r => rev (w_log (snd (snd r)))) (sexec f7_cfg (libcore f7_cfg) Run.no_url Run.no_lint UHost 200 ok_prog (None, f7_world))
    = Some [U "i=1"; U "two"; U "i=3"] /\
  rev (w_log (snd (exec f7_cfg (libcore f7_cfg) Run.no_url Run.no_lint 400 (fst (compile real_lab None 0 ok_prog)) 0 [] None UHost f7_world)))
    = [U "i=1"; U "two"; U "i=3"].
Proof. vm_compute. repeat split. Qed.

(* ------------------------------------------------------------------------------------------------------------------------
   `for` loops (Proofs/C01for.v, Proofs/C01forReal.v).

   FULL STATEMENT (not proved in full): as C01_simulation_partial, for statement trees in which `for` may occur at any nesting
   depth, over any value of the loop expression.

   PROVED (C01_for_simulation_partial): one `for` loop whose body is any statement tree of the fragment above (if / elif / else,
   while, break, continue, return, assignment, expression statement; [wf true], [guard]).  [compile_for_real n x idx e body] is
   the statement list parse_script emits for   for x[, idx] in e: body endfor   with label index n
   (C01_for_compile_is_the_parser_lowering for bodies without `continue`; with `continue` the check decides it per case inside
   Coq: Model/RunC01for.v check_lowering_for).  FExec (Proofs/C01for.v) is the structured reading: the loop expression is
   evaluated once, the length is taken once, iteration i binds x to element i of the array as it is in the heap then, `break`
   ends the loop, `continue` and normal completion go to the next element (for `for`, continue IS right: its label sits before the
   increment), return / error end the loop.  Whenever that reading ends, the interpreter run on the lowered code ends with the
   same result, the same locals and (up to the statement counter) the same world.

   PREMISES: on the library, the two of C01_simulation_library_premises_partial plus the contracts of the two functions the
   lowering calls (arrayLength, arrayGet), all four PROVED for the modelled library (C01_for_premises_hold_for_modelled_library);
   [names_okb]: the temporaries are pairwise distinct and none is null / true / false (holds for the reserved names for every n:
   C01_for_reserved_names_ok; a premise only when the source names its own index variable).
   DEFINEDNESS side conditions inside the rules of FExec (Proofs/C01for.v): `arrayLength` / `arrayGet` still resolve to the library
   functions when the loop calls them, the body leaves the three temporaries alone, and element i exists when iteration i starts.

   MISSING, named: in THIS theorem the loop is not nested (for-in-for and statements around loops: C01_nested_for_simulation_partial
   below; a `for` inside an if branch or a while body: not proved); a loop expression whose value is not an array (the loop is skipped after a failed arrayLength argument check); a body that
   shrinks the array under the index; the syntactic criterion "the body never assigns a __bareScript name" for the side
   condition on the temporaries. *)
From BS Require Import Model.RunC01for Proofs.C01for Proofs.C01forReal.

Theorem C01_for_simulation_partial : forall cfg, c_max cfg = 0%Z ->
  forall lib url_rel lint_lines, lib_fuel_monotone lib -> lib_count_blind lib ->
  arrayLength_contract lib -> arrayGet_contract lib ->
  forall um n x idxo e b,
  names_okb (lbl L_Values n) (lbl L_Length n) (for_index n idxo) = true -> wf true b = true -> guard b = true ->
  forall loc w o loc' w',
  FExec cfg lib url_rel lint_lines um (lbl L_Values n) (lbl L_Length n) (for_index n idxo) x e b (loc, w) o (loc', w') ->
  forall wm, weq w wm ->
  exists out wm', scope_result o = Some out /\ weq w' wm' /\
    Run cfg lib url_rel lint_lines um (fst (compile_for_real n x idxo e b)) 0 loc wm (out, loc', wm').
Proof. exact for_simulation. Qed.
Print Assumptions C01_for_simulation_partial.

(* the same at any position of a larger statement list (continuation form, composable with C01's [sim]); here the premise
   on evaluation is left as in C01_simulation_partial *)
Theorem C01_for_simulation_in_context_partial : forall cfg, c_max cfg = 0%Z ->
  forall lib url_rel lint_lines, lib_fuel_monotone lib ->
  forall um lab labc,
  (forall e loc w o w' wm, Ev cfg lib url_rel lint_lines um e loc w o w' -> weq w wm ->
     exists wm', Ev cfg lib url_rel lint_lines um e loc wm o wm' /\ weq w' wm') ->
  arrayLength_contract lib -> arrayGet_contract lib ->
  forall vals len idx x e b, names_okb vals len idx = true -> wf true b = true -> guard b = true ->
  forall st o st', FExec cfg lib url_rel lint_lines um vals len idx x e b st o st' ->
  forall code cpos n pc wm, NoDup (labels code) -> code_at code pc (fst (compile_for lab labc vals len idx x e b n)) -> weq (snd st) wm ->
  exists wm', weq (snd st') wm' /\
    post cfg lib url_rel lint_lines um code cpos (pc + length (fst (compile_for lab labc vals len idx x e b n))) o (fst st') wm' pc (fst st) wm.
Proof. exact for_sim. Qed.
Print Assumptions C01_for_simulation_in_context_partial.

(* all four library premises hold for the modelled library functions (non-vacuity) *)
Theorem C01_for_premises_hold_for_modelled_library : forall cfg,
  lib_fuel_monotone (libcore cfg) /\ lib_count_blind (libcore cfg) /\ arrayLength_contract (libcore cfg) /\ arrayGet_contract (libcore cfg).
Proof.
  intros cfg. split; [exact (libcore_fuel_monotone cfg)|split; [exact (libcore_count_blind cfg)|split; [exact (libcore_arrayLength cfg)|exact (libcore_arrayGet cfg)]]].
Qed.
Print Assumptions C01_for_premises_hold_for_modelled_library.

(* ... and for the combined library the check runs (LibCore + arraySort with callbacks + lifted LibSeq + systemPartial closures) *)
Theorem C01_for_premises_hold_for_combined_library : forall cfg,
  lib_fuel_monotone (libfull2 cfg) /\ lib_count_blind (libfull2 cfg) /\ arrayLength_contract (libfull2 cfg) /\ arrayGet_contract (libfull2 cfg).
Proof.
  intros cfg. split; [exact (libfull2_fuel_monotone cfg)|split; [exact (libfull2_count_blind cfg)|split; [exact (libfull2_arrayLength cfg)|exact (libfull2_arrayGet cfg)]]].
Qed.
Print Assumptions C01_for_premises_hold_for_combined_library.

Theorem C01_for_reserved_names_ok : forall n, names_okb (lbl L_Values n) (lbl L_Length n) (for_index n None) = true.
Proof. exact reserved_names_ok. Qed.
Print Assumptions C01_for_reserved_names_ok.

(* the labels the lowered loop defines are defined once *)
Theorem C01_for_compiled_labels_unique : forall n x idxo e b, NoDup (labels (fst (compile_for_real n x idxo e b))).
Proof. intros n x idxo e b. exact (compile_for_NoDup real_lab real_labc _ _ _ x e b real_lab_inj' real_labc_fresh n). Qed.
Print Assumptions C01_for_compiled_labels_unique.

(* [compile_for_real] IS the parser's lowering of  for .. endfor  (bodies without `continue`, the fragment of Proofs/C01c.v):
   folding the parser's pure lowering step over the line kinds of the loop appends exactly compile_for_real and restores the
   frame stack, from any parser state of the global scope *)
Theorem C01_for_compile_is_the_parser_lowering : forall ann i code depth fr n x idxo e b,
  idxo <> Some [] -> wf true b = true -> no_continue b = true ->
  kfold ann i (gstate code depth fr n) (for_kinds x idxo e b) =
  ROk (gstate (code ++ fst (compile_for_real n x idxo e b)) depth fr (snd (compile_for_real n x idxo e b))).
Proof. exact for_lowering_is_compile_for. Qed.
Print Assumptions C01_for_compile_is_the_parser_lowering.

(* the structured reading of a for loop is executable: a sound interpreter for FExec *)
Theorem C01_for_structured_interpreter_sound : forall cfg lib url_rel lint_lines um vals len idx x e b fuel st o st',
  fexec cfg lib url_rel lint_lines um vals len idx x e b fuel st = Some (o, st') ->
  FExec cfg lib url_rel lint_lines um vals len idx x e b st o st'.
Proof. exact fexec_sound. Qed.
Print Assumptions C01_for_structured_interpreter_sound.

(* non-vacuity: a for loop over a 3-element array, with an index variable and a `continue`:
       for v, i in arr: / if v == 20: / continue / endif / systemLog('v=' + v + ' i=' + i) / endfor
   all hypotheses of C01_for_simulation_partial hold, the structured reading (hence FExec, by C01_for_structured_interpreter_sound)
   ends normally with log v=10 i=0, v=30 i=2, the parser model lowers the text to compile_for_real, and the interpreter on the
   lowered code gives the same log *)
Definition for_text : str := U "for v, i in arr:
    if v == 20:
        continue
    endif
    systemLog('v=' + v + ' i=' + i)
endfor
".
Definition for_body : sstmt :=
  TSeq (TIf (EBin (U "==") (EVar (U "v")) (ENum (NFlt (Z_to_sf 20)))) TContinue TSkip)
       (TExpr (ECall (U "systemLog") [EBin (U "+") (EBin (U "+") (EBin (U "+") (EStr (U "v=")) (EVar (U "v"))) (EStr (U " i="))) (EVar (U "i"))])).
Definition for_world : world :=
  upd_arrs (world0 (inject_library [(U "arr", VArr 0)])) [[VNum (NInt 10); VNum (NInt 20); VNum (NInt 30)]].

Example C01_for_nonvacuous :
  names_okb (lbl L_Values 0) (lbl L_Length 0) (for_index 0 (Some (U "i"))) = true /\ wf true for_body = true /\ guard for_body = true /\
  has_cont for_body = true /\
  check_lowering_for for_text (U "v") (Some (U "i")) (EVar (U "arr")) for_body = true /\
  option_map (fun r => (fst r, rev (w_log (snd (snd r)))))
    (fexec f7_cfg (libcore f7_cfg) Run.no_url Run.no_lint UHost (lbl L_Values 0) (lbl L_Length 0) (for_index 0 (Some (U "i"))) (U "v")
           (EVar (U "arr")) for_body 200 (None, for_world))
    = Some (SNormal, [U "v=10 i=0"; U "v=30 i=2"]) /\
  rev (w_log (snd (exec f7_cfg (libcore f7_cfg) Run.no_url Run.no_lint 400
                        (fst (compile_for_real 0 (U "v") (Some (U "i")) (EVar (U "arr")) for_body)) 0 [] None UHost for_world)))
    = [U "v=10 i=0"; U "v=30 i=2"].
Proof. vm_compute. repeat split. Qed.

(* ------------------------------------------------------------------------------------------------------------------------
   NESTED for loops (Proofs/C01forN.v).  Source trees [ustmt]: statement trees of the fragment above, sequencing, and
   for loops whose body is again such a tree - for-in-for to any depth, statements before / after / between loops, `break` /
   `continue` (outside any while) binding to the innermost enclosing for.  [annotate] gives every loop the names the parser gives
   its three temporaries (label counter in source order); [compile_u] is the lowering; GExec is the structured reading (the rules
   of FExec with the body an annotated tree; same definedness side conditions, per loop).

   STILL MISSING, named: a `for` INSIDE an if branch or inside a while body (that needs `for` inside the statement trees of
   Proofs/C01.v themselves); non-array loop values; array-shrinking bodies; [compile_u] = the parser's lowering is decided per
   case inside Coq by the check (Model/RunC01for.v check_lowering_u), proved only for a single loop without `continue`
   (C01_for_compile_is_the_parser_lowering). *)
From BS Require Import Proofs.C01forN.

Theorem C01_nested_for_simulation_partial : forall cfg, c_max cfg = 0%Z ->
  forall lib url_rel lint_lines, lib_fuel_monotone lib -> lib_count_blind lib ->
  arrayLength_contract lib -> arrayGet_contract lib ->
  forall um n u loc w o loc' w',
  GExec cfg lib url_rel lint_lines um (fst (annotate n u)) (loc, w) o (loc', w') ->
  gwf false (fst (annotate n u)) = true -> gguard (fst (annotate n u)) = true ->
  forall wm, weq w wm ->
  exists out wm', scope_result o = Some out /\ weq w' wm' /\
    Run cfg lib url_rel lint_lines um (compile_u n u) 0 loc wm (out, loc', wm').
Proof. exact nested_for_simulation. Qed.
Print Assumptions C01_nested_for_simulation_partial.

(* all labels of the lowered code are defined once *)
Theorem C01_nested_for_compiled_labels_unique : forall ctx n f, NoDup (labels (fst (gcompile real_lab real_labc ctx n f))).
Proof. intros ctx n f. exact (gcompile_NoDup real_lab real_labc real_lab_inj' real_labc_inj real_labc_fresh ctx n f). Qed.
Print Assumptions C01_nested_for_compiled_labels_unique.

(* the single loop of C01_for_simulation_partial is the special case FFor .. (FS body): same code, and its reading is a GExec *)
Theorem C01_nested_for_extends_single : forall cfg lib url_rel lint_lines um lab labc vals len idx x e b,
  (forall ctx n, gcompile lab labc ctx n (FFor vals len idx x e (FS b)) = compile_for lab labc vals len idx x e b n) /\
  (forall st o st', FExec cfg lib url_rel lint_lines um vals len idx x e b st o st' ->
                    GExec cfg lib url_rel lint_lines um (FFor vals len idx x e (FS b)) st o st').
Proof.
  intros cfg lib url_rel lint_lines um lab labc vals len idx x e b.
  split; [intros ctx n; exact (gcompile_single lab labc vals len idx x e b n ctx)|exact (FExec_GExec cfg lib url_rel lint_lines um vals len idx x e b)].
Qed.
Print Assumptions C01_nested_for_extends_single.

Theorem C01_nested_for_structured_interpreter_sound : forall cfg lib url_rel lint_lines um fuel f st o st',
  gexec cfg lib url_rel lint_lines um fuel f st = Some (o, st') -> GExec cfg lib url_rel lint_lines um f st o st'.
Proof. exact gexec_sound. Qed.
Print Assumptions C01_nested_for_structured_interpreter_sound.

(* non-vacuity: for-in-for with continue and break of the inner loop, statements after the inner loop and after the outer loop *)
Definition nest_text : str := U "for a in outer:
    for b, j in inner:
        if b == 2:
            continue
        endif
        if a == 20:
            break
        endif
        systemLog('a=' + a + ' b=' + b + ' j=' + j)
    endfor
    systemLog('end ' + a)
endfor
return 'done'
".
Definition nest_prog : ustmt :=
  USeq (UFor (U "a") None (EVar (U "outer"))
         (USeq (UFor (U "b") (Some (U "j")) (EVar (U "inner"))
                  (US (TSeq (TIf (EBin (U "==") (EVar (U "b")) (ENum (NFlt (Z_to_sf 2)))) TContinue TSkip)
                      (TSeq (TIf (EBin (U "==") (EVar (U "a")) (ENum (NFlt (Z_to_sf 20)))) TBreak TSkip)
                            (TExpr (ECall (U "systemLog")
                               [EBin (U "+") (EBin (U "+") (EBin (U "+") (EBin (U "+") (EBin (U "+") (EStr (U "a=")) (EVar (U "a"))) (EStr (U " b=")))
                                     (EVar (U "b"))) (EStr (U " j="))) (EVar (U "j"))]))))))
               (US (TExpr (ECall (U "systemLog") [EBin (U "+") (EStr (U "end ")) (EVar (U "a"))])))))
       (US (TReturn (Some (EStr (U "done"))))).
Definition nest_world : world :=
  upd_arrs (world0 (inject_library [(U "outer", VArr 0); (U "inner", VArr 1)]))
           [[VNum (NInt 10); VNum (NInt 20)]; [VNum (NInt 1); VNum (NInt 2); VNum (NInt 3)]].
Definition nest_log : list str := [U "a=10 b=1 j=0"; U "a=10 b=3 j=2"; U "end 10"; U "end 20"].

Example C01_nested_for_nonvacuous :
  gwf false (fst (annotate 0 nest_prog)) = true /\ gguard (fst (annotate 0 nest_prog)) = true /\
  check_lowering_u nest_text nest_prog = true /\
  option_map (fun r => (fst r, rev (w_log (snd (snd r)))))
    (gexec f7_cfg (libcore f7_cfg) Run.no_url Run.no_lint UHost 300 (fst (annotate 0 nest_prog)) (None, nest_world))
    = Some (SStop (OVal (VStr (U "done"))), nest_log) /\
  (let r := exec f7_cfg (libcore f7_cfg) Run.no_url Run.no_lint 600 (compile_u 0 nest_prog) 0 [] None UHost nest_world in
   (fst (fst r), rev (w_log (snd r)))) = (OVal (VStr (U "done")), nest_log).
Proof. vm_compute. repeat split. Qed.

(* ------------------------------------------------------------------------------------------------------------------------
   THE WHOLE BLOCK-STRUCTURED LANGUAGE IN ONE THEOREM (Proofs/C01u.v, Proofs/C01uReal.v).

   [unistmt]: skip, sequencing, assignment, expression statement, return, break, continue, if / elif / else chains, while AND for,
   nested arbitrarily (a for inside an if branch inside a while body inside a for ...): this closes the gap named above ("a `for`
   INSIDE an if branch or inside a while body").  Source trees write a for loop as [NForS x idx e body] (idx = [] for no index
   variable); [uname] gives every loop the names the parser gives its three temporaries (one label counter in source order, one
   index per if / elif / while / for: C01_unified_naming_follows_the_lowering); [ucompile_real n s] is the lowering; [UExec] is
   the structured reading (rules of SExec for if / while, rules of GExec for for; same definedness side conditions per for loop).

   FULL STATEMENT (not proved in full): for EVERY well-formed tree, whenever UExec ends, the interpreter run on the lowered code
   ends with the same result, the same locals and (up to the statement counter) the same world.

   PROVED (C01_unified_simulation_partial): the same under [uguard s = true].  It is `partial` ONLY because of
     (1) the guard of known finding F7: no `continue` whose innermost enclosing loop is a `while` (a `continue` inside a for inside
         a while is allowed) - without it the statement is FALSE for the implementation (C01_F7_continue_in_while above);
     (2) the definedness side conditions inside the for rules of UExec (arrayLength / arrayGet resolve to the library functions,
         the body leaves the three temporaries alone, element i exists when iteration i starts; non-array loop values and
         array-shrinking bodies have no rule);
     (3) [uwf false]: break / continue only inside loops, the rest position of an if holds endif / else / elif, the temporaries
         of every for have fine names ([names_okb]; automatic unless the source names its own index variable).
   Premises on the library only (fuel monotone, counter blind, contracts of arrayLength / arrayGet: all proved for the modelled
   library, C01_for_premises_hold_for_combined_library).
   [ucompile_real] IS the parser's lowering, PROVED for the whole language including `continue` and `for`
   (C01_unified_compile_is_the_parser_lowering: the parser's pure lowering step folded over the tree's line kinds;
   C01_unified_parse_is_compile: hence the parser model's output whenever the lines classify to those kinds;
   C01_unified_end_to_end_partial: parse, then run = the structured reading).  That the PRINTED text of a tree classifies to its
   kinds is the regex-level fact the check decides per case inside Coq (Model/RunC01u.v check_lowering_n, family `ucore`). *)
From BS Require Import Model.RunC01u Proofs.C01u Proofs.C01uReal Proofs.C01uLower.

Theorem C01_unified_simulation_partial : forall cfg, c_max cfg = 0%Z ->
  forall lib url_rel lint_lines, lib_fuel_monotone lib -> lib_count_blind lib ->
  arrayLength_contract lib -> arrayGet_contract lib ->
  forall um n s loc w o loc' w',
  UExec cfg lib url_rel lint_lines um (fst (uname n s)) (loc, w) o (loc', w') ->
  uwf false (fst (uname n s)) = true -> uguard s = true ->
  forall wm, weq w wm ->
  exists out wm', scope_result o = Some out /\ weq w' wm' /\
    Run cfg lib url_rel lint_lines um (ucompile_real n s) 0 loc wm (out, loc', wm').
Proof. exact unified_simulation. Qed.
Print Assumptions C01_unified_simulation_partial.

(* the same at any position of a larger statement list with unique labels, inside any enclosing loop (continuation form [post] of
   C01_for_simulation_in_context_partial; abstract label names) *)
Theorem C01_unified_simulation_in_context_partial : forall cfg, c_max cfg = 0%Z ->
  forall lib url_rel lint_lines, lib_fuel_monotone lib ->
  forall um lab labc,
  (forall e loc w o w' wm, Ev cfg lib url_rel lint_lines um e loc w o w' -> weq w wm ->
     exists wm', Ev cfg lib url_rel lint_lines um e loc wm o wm' /\ weq w' wm') ->
  arrayLength_contract lib -> arrayGet_contract lib ->
  forall s st o st', UExec cfg lib url_rel lint_lines um s st o st' ->
  forall code ctx cpos n pc wm, NoDup (labels code) -> cont_ok code ctx cpos -> uwf (is_some ctx) s = true -> uguard s = true ->
    code_at code pc (fst (ucompile lab labc ctx n s)) -> weq (snd st) wm ->
    exists wm', weq (snd st') wm' /\
      post cfg lib url_rel lint_lines um code cpos (pc + length (fst (ucompile lab labc ctx n s))) o (fst st') wm' pc (fst st) wm.
Proof. exact usim. Qed.
Print Assumptions C01_unified_simulation_in_context_partial.

(* all labels of the lowered code are defined once *)
Theorem C01_unified_compiled_labels_unique : forall ctx n s, NoDup (labels (fst (ucompile real_lab real_labc ctx n s))).
Proof. exact ucompile_real_NoDup. Qed.
Print Assumptions C01_unified_compiled_labels_unique.

(* the structured reading is executable: a sound interpreter for UExec *)
Theorem C01_unified_structured_interpreter_sound : forall cfg lib url_rel lint_lines um fuel s st o st',
  uexec cfg lib url_rel lint_lines um fuel s st = Some (o, st') -> UExec cfg lib url_rel lint_lines um s st o st'.
Proof. exact uexec_sound. Qed.
Print Assumptions C01_unified_structured_interpreter_sound.

(* [uname] advances the label counter exactly as the lowering does, and changes neither the F7 guard nor which `continue`s bind
   to the enclosing loop *)
Theorem C01_unified_naming_follows_the_lowering : forall s n, ushape s = true ->
  (forall ctx, snd (ucompile real_lab real_labc ctx n (fst (uname n s))) = snd (uname n s)) /\
  uguard (fst (uname n s)) = uguard s /\ uhas_cont (fst (uname n s)) = uhas_cont s.
Proof.
  intros s n Hs. split; [exact (proj1 (uname_counter s n Hs))|split; [exact (uname_guard s n)|exact (uname_has_cont s n)]].
Qed.
Print Assumptions C01_unified_naming_follows_the_lowering.

(* the fragment of C01_simulation_partial is the for-free special case: same code, and its reading is a UExec *)
Theorem C01_unified_extends_fragment : forall cfg lib url_rel lint_lines um lab labc s,
  (forall ctx n, ucompile lab labc ctx n (of_sstmt s) = compile lab ctx n s) /\
  (forall st o st', SExec cfg lib url_rel lint_lines um s st o st' -> UExec cfg lib url_rel lint_lines um (of_sstmt s) st o st').
Proof.
  intros cfg lib url_rel lint_lines um lab labc s.
  split; [exact (proj1 (ucompile_of_sstmt lab labc s))|exact (SExec_UExec cfg lib url_rel lint_lines um s)].
Qed.
Print Assumptions C01_unified_extends_fragment.

(* [ucompile_real] IS the parser's lowering, for every well-shaped source tree ([uwfs]: break / continue inside loops, if chains
   well-shaped; no condition on names - the parser chooses them - and NO exclusion of `continue`): folding the parser's pure lowering
   step (Model/Lower.v kstep; Props/C07.v proves pstep = classify ; kstep) over the line kinds of the tree, from the parser's initial
   state and whatever the line numbers and texts are, gives exactly ucompile_real(tree), the counter of [uname], and no open block *)
Theorem C01_unified_compile_is_the_parser_lowering : forall ann s, uwfs false s = true ->
  kfold ann 0 ps_init (ukinds s) = ROk (gstate (ucompile_real 0 s) 0 [] (snd (uname 0 s))).
Proof. exact ulowering_of_a_scope. Qed.
Print Assumptions C01_unified_compile_is_the_parser_lowering.

(* ... at any parser state of the global scope: the code is appended, the counter advances as [uname] says, and the frame stack is
   as before except that the innermost loop frame is marked `has continue` iff the tree has a `continue` binding to it *)
Theorem C01_unified_lowering_in_context : forall s ann i code depth fr n, uwfs (is_some (ctx_of fr)) s = true ->
  kfold ann i (gstate code depth fr n) (ukinds s) =
  ROk (gstate (code ++ fst (ucompile real_lab real_labc (ctx_of fr) n (fst (uname n s)))) depth (markf (uhas_cont s) fr) (snd (uname n s))).
Proof. intros s. exact (proj1 (ulower_is_ucompile s)). Qed.
Print Assumptions C01_unified_lowering_in_context.

(* ... hence: whenever the logical lines of a text classify (statement regexes + expression parser) to the line kinds of the
   tree, the parser model's result for that text is ucompile_real(tree) *)
Theorem C01_unified_parse_is_compile : forall lines start s lls ls',
  uwfs false s = true ->
  llines lines 0 {| l_cont := []; l_ix := 0 |} = (lls, LDone ls') -> l_cont ls' = [] ->
  Forall2 (fun il k => classify (start + fst il) (snd il) = ROk k) lls (ukinds s) ->
  match ploop lines 0 {| l_cont := []; l_ix := 0 |} ps_init start with
  | ROk (ls, ps) => pfinish ls ps start
  | RErr e => RErr e | RHost w => RHost w | RFuel => RFuel
  end = ROk (ucompile_real 0 s).
Proof. exact uparse_is_ucompile. Qed.
Print Assumptions C01_unified_parse_is_compile.

(* END TO END (the property itself, for one scope): a text whose logical lines classify to the line kinds of a source tree parses
   to a statement list on which the interpreter does what the structured reading of the tree says.  `partial` for the same three
   reasons as C01_unified_simulation_partial (F7 guard, definedness side conditions of for, uwf). *)
Theorem C01_unified_end_to_end_partial : forall cfg, c_max cfg = 0%Z ->
  forall lib url_rel lint_lines, lib_fuel_monotone lib -> lib_count_blind lib ->
  arrayLength_contract lib -> arrayGet_contract lib ->
  forall um lines start s lls ls',
  llines lines 0 {| l_cont := []; l_ix := 0 |} = (lls, LDone ls') -> l_cont ls' = [] ->
  Forall2 (fun il k => classify (start + fst il) (snd il) = ROk k) lls (ukinds s) ->
  forall loc w o loc' w',
  UExec cfg lib url_rel lint_lines um (fst (uname 0 s)) (loc, w) o (loc', w') ->
  uwf false (fst (uname 0 s)) = true -> uguard s = true ->
  forall wm, weq w wm ->
  exists code out wm',
    match ploop lines 0 {| l_cont := []; l_ix := 0 |} ps_init start with
    | ROk (ls, ps) => pfinish ls ps start
    | RErr e => RErr e | RHost w => RHost w | RFuel => RFuel
    end = ROk code /\
    scope_result o = Some out /\ weq w' wm' /\ Run cfg lib url_rel lint_lines um code 0 loc wm (out, loc', wm').
Proof. exact unified_end_to_end. Qed.
Print Assumptions C01_unified_end_to_end_partial.

(* non-vacuity: a `for` (with index variable, `continue` and `break`) inside an if / else inside a `while` (with `break`), statements
   around them: all hypotheses of C01_unified_simulation_partial hold, the parser model lowers the text to ucompile_real, and the
   structured reading and the interpreter on the lowered code both log the same four lines and return 'done' *)
Definition uni_text : str := U "i = 0
while i < 3:
    i = i + 1
    if i != 2:
        for v, k in arr:
            if v == 20:
                continue
            endif
            if v == 30 && i == 3:
                break
            endif
            systemLog('i=' + i + ' v=' + v + ' k=' + k)
        endfor
    else:
        systemLog('skip ' + i)
    endif
    if i == 3:
        break
    endif
endwhile
return 'done'
".
Definition uni_lit (k : Z) : expr := ENum (NFlt (Z_to_sf k)).
Definition uni_prog : unistmt :=
  NSeq (NAssign (U "i") (uni_lit 0))
  (NSeq (NWhile (EBin (U "<") (EVar (U "i")) (uni_lit 3))
     (NSeq (NAssign (U "i") (EBin (U "+") (EVar (U "i")) (uni_lit 1)))
     (NSeq (NIf (EBin (U "!=") (EVar (U "i")) (uni_lit 2))
              (NForS (U "v") (U "k") (EVar (U "arr"))
                 (NSeq (NIf (EBin (U "==") (EVar (U "v")) (uni_lit 20)) NContinue NSkip)
                 (NSeq (NIf (EBin (U "&&") (EBin (U "==") (EVar (U "v")) (uni_lit 30)) (EBin (U "==") (EVar (U "i")) (uni_lit 3))) NBreak NSkip)
                       (NExpr (ECall (U "systemLog")
                          [EBin (U "+") (EBin (U "+") (EBin (U "+") (EBin (U "+") (EBin (U "+") (EStr (U "i=")) (EVar (U "i"))) (EStr (U " v=")))
                                (EVar (U "v"))) (EStr (U " k="))) (EVar (U "k"))])))))
              (NElse (NExpr (ECall (U "systemLog") [EBin (U "+") (EStr (U "skip ")) (EVar (U "i"))]))))
           (NIf (EBin (U "==") (EVar (U "i")) (uni_lit 3)) NBreak NSkip))))
  (NReturn (Some (EStr (U "done"))))).
Definition uni_world : world :=
  upd_arrs (world0 (inject_library [(U "arr", VArr 0)])) [[VNum (NInt 10); VNum (NInt 20); VNum (NInt 30)]].
Definition uni_log : list str := [U "i=1 v=10 k=0"; U "i=1 v=30 k=2"; U "skip 2"; U "i=3 v=10 k=0"].

Example C01_unified_nonvacuous :
  uwf false (fst (uname 0 uni_prog)) = true /\ uguard uni_prog = true /\ ushape uni_prog = true /\ uwfs false uni_prog = true /\
  check_lowering_n uni_text uni_prog = true /\
  option_map (fun r => (fst r, rev (w_log (snd (snd r)))))
    (uexec f7_cfg (libcore f7_cfg) Run.no_url Run.no_lint UHost 300 (fst (uname 0 uni_prog)) (None, uni_world))
    = Some (SStop (OVal (VStr (U "done"))), uni_log) /\
  (let r := exec f7_cfg (libcore f7_cfg) Run.no_url Run.no_lint 600 (ucompile_real 0 uni_prog) 0 [] None UHost uni_world in
   (fst (fst r), rev (w_log (snd r)))) = (OVal (VStr (U "done")), uni_log).
Proof. vm_compute. repeat split. Qed.

(* ================================================================================================================================
   THE DEFINEDNESS SIDE CONDITIONS OF THE FOR RULES (Proofs/C01side.v, C01side2.v, C01sideReal.v).

   C01_unified_simulation_partial is partial by (1) the F7 guard, (2) the definedness side conditions built into the for rules of
   UExec, (3) [uwf].  This part works on (2).

   [XExec EV chk] / [XLoop EV chk] (Proofs/C01side.v): ALL rules of UExec / ULoop, PLUS the two behaviours of the real lowering
   that had no rule:
     - the loop expression's value is NOT an array (Y_ForNotArr): arrayLength fails its argument check, the call wrapper returns
       the fallback 0 (and logs in debug mode): the body never runs, the value variable is not bound, the values / length
       temporaries ARE assigned;
     - the body SHRINKS the array under the index (IX_gone): arrayGet out of range fails, the wrapper returns null (and logs in
       debug mode): the loop still runs the number of iterations taken at the start, the value variable is null from there on.
   [chk] switches the remaining side conditions ([is_lib]: arrayLength / arrayGet resolve to the library functions; [Inv3]: after
   the body the three bookkeeping variables still hold array / length / index): XExec EV true has them, XExec EV false does not
   ("the expression evaluates; iterate over the live array").  [EV] is the evaluation relation for expressions: [Ev] itself, or
   [EvQ Q] = Ev restricted to evaluations satisfying Q.

   PROVED
     C01_unified_simulation_extended_for_rules_partial: the simulation for XExec Ev true (contains UExec:
       C01_extended_reading_contains_unified).  New premises on the library: the two failing-case contracts (proved for the
       modelled libraries: C01_extended_premises_hold_for_modelled_libraries).
     C01_for_side_conditions_automatic: a run of XExec (EvQ (Keeps (protected ..))) false - NO side conditions; every expression
       evaluation of the run leaves the PROTECTED GLOBALS as they are - is a run of XExec Ev true, provided
         [no_temp_assign s] (syntactic): per for, its three bookkeeping names are pairwise distinct plain names, the value variable
           is none of them, and neither an assignment statement nor a nested for (through its bookkeeping names, value or index
           variable) of its body targets one of them (with the parser's names: the program assigns no __bareScript... name and a
           nested loop does not reuse / assign the index variable of an enclosing loop);
         [no_shadow s] (syntactic): nothing in the tree assigns `arrayLength` or `arrayGet`;
         [LibOK st] (start): the two names resolve to the library functions in the initial scope.
       PROTECTED GLOBALS = `arrayLength`, `arrayGet`; at TOP LEVEL also the bookkeeping names of the tree's loops.  INSIDE A FUNCTION
       the bookkeeping variables are locals of the frame, which no callee can touch: nothing is asked about them.
       This residual premise is about calls inside expressions (systemGlobalSet, function definitions, includes can write any
       global); it is void for call-free expressions (C01_call_free_expressions_keep_globals) and NECESSARY at top level
       (C01_for_residual_premise_needed_at_top_level).
     C01_unified_simulation_total_for_rules_partial: hence the simulation for the reading without side conditions;
     C01_unified_simulation_total_for_rules_function_scope_partial: its function-scope instance with the premises spelled out.
   STILL PARTIAL: (1) the F7 guard; (3) uwf; of (2) only: the residual premise above, and a loop value that is a DANGLING array
   reference (no rule; arrays are never freed, so no run produces one). *)
From BS Require Import Proofs.C01side Proofs.C01side2 Proofs.C01sideReal.

Theorem C01_unified_simulation_extended_for_rules_partial : forall cfg, c_max cfg = 0%Z ->
  forall lib url_rel lint_lines, lib_fuel_monotone lib -> lib_count_blind lib ->
  arrayLength_contract lib -> arrayGet_contract lib ->
  forall len_msg get_msg, arrayLength_fail_contract lib len_msg -> arrayGet_range_contract lib get_msg ->
  forall um n s loc w o loc' w',
  XExec cfg len_msg get_msg (Ev cfg lib url_rel lint_lines um) true (fst (uname n s)) (loc, w) o (loc', w') ->
  uwf false (fst (uname n s)) = true -> uguard s = true ->
  forall wm, weq w wm ->
  exists out wm', scope_result o = Some out /\ weq w' wm' /\
    Run cfg lib url_rel lint_lines um (ucompile_real n s) 0 loc wm (out, loc', wm').
Proof. exact extended_simulation. Qed.
Print Assumptions C01_unified_simulation_extended_for_rules_partial.

(* the same at any position of a larger statement list with unique labels (continuation form, abstract label names) *)
Theorem C01_unified_simulation_extended_in_context_partial : forall cfg, c_max cfg = 0%Z ->
  forall lib url_rel lint_lines, lib_fuel_monotone lib ->
  forall um lab labc len_msg get_msg,
  (forall e loc w o w' wm, Ev cfg lib url_rel lint_lines um e loc w o w' -> weq w wm ->
     exists wm', Ev cfg lib url_rel lint_lines um e loc wm o wm' /\ weq w' wm') ->
  arrayLength_contract lib -> arrayGet_contract lib -> arrayLength_fail_contract lib len_msg -> arrayGet_range_contract lib get_msg ->
  forall s st o st', XExec cfg len_msg get_msg (Ev cfg lib url_rel lint_lines um) true s st o st' ->
  forall code ctx cpos n pc wm, NoDup (labels code) -> cont_ok code ctx cpos -> uwf (is_some ctx) s = true -> uguard s = true ->
    code_at code pc (fst (ucompile lab labc ctx n s)) -> weq (snd st) wm ->
    exists wm', weq (snd st') wm' /\
      post cfg lib url_rel lint_lines um code cpos (pc + length (fst (ucompile lab labc ctx n s))) o (fst st') wm' pc (fst st) wm.
Proof. exact xsim. Qed.
Print Assumptions C01_unified_simulation_extended_in_context_partial.

(* every run of the reading of C01_unified_simulation_partial is a run of the extended reading with the side conditions on; and
   dropping the side conditions / enlarging the evaluation relation keeps a run *)
Theorem C01_extended_reading_contains_unified : forall cfg lib url_rel lint_lines um len_msg get_msg,
  (forall s st o st', UExec cfg lib url_rel lint_lines um s st o st' ->
     XExec cfg len_msg get_msg (Ev cfg lib url_rel lint_lines um) true s st o st') /\
  (forall EV s st o st', XExec cfg len_msg get_msg EV true s st o st' -> XExec cfg len_msg get_msg EV false s st o st') /\
  (forall (Q : evrel) chk s st o st', XExec cfg len_msg get_msg (EvQ cfg lib url_rel lint_lines um Q) chk s st o st' ->
     XExec cfg len_msg get_msg (Ev cfg lib url_rel lint_lines um) chk s st o st').
Proof.
  intros cfg lib url_rel lint_lines um len_msg get_msg. split; [|split].
  - exact (UExec_XExec cfg lib url_rel lint_lines um len_msg get_msg).
  - intros EV. exact (proj1 (XExec_weaken_both cfg len_msg get_msg EV)).
  - intros Q chk. apply (XExec_mono_both cfg len_msg get_msg). intros e loc w o w1 [He _]. exact He.
Qed.
Print Assumptions C01_extended_reading_contains_unified.

(* THE SYNTACTIC CRITERION (abstract names): without side conditions + syntactic criterion + start condition + the run's
   evaluations keep the protected globals  ==>  with side conditions *)
Theorem C01_for_side_conditions_automatic : forall cfg lib url_rel lint_lines um len_msg get_msg s st o st',
  XExec cfg len_msg get_msg (EvQ cfg lib url_rel lint_lines um (Keeps (protected (fscope st) s))) false s st o st' ->
  no_temp_assign s = true -> no_shadow s = true -> LibOK st ->
  XExec cfg len_msg get_msg (Ev cfg lib url_rel lint_lines um) true s st o st'.
Proof. exact side_conditions_automatic. Qed.
Print Assumptions C01_for_side_conditions_automatic.

Theorem C01_unified_simulation_total_for_rules_partial : forall cfg, c_max cfg = 0%Z ->
  forall lib url_rel lint_lines, lib_fuel_monotone lib -> lib_count_blind lib ->
  arrayLength_contract lib -> arrayGet_contract lib ->
  forall len_msg get_msg, arrayLength_fail_contract lib len_msg -> arrayGet_range_contract lib get_msg ->
  forall um n s loc w o loc' w',
  XExec cfg len_msg get_msg (EvQ cfg lib url_rel lint_lines um (Keeps (protected (fscope (loc, w)) (fst (uname n s)))))
        false (fst (uname n s)) (loc, w) o (loc', w') ->
  uwf false (fst (uname n s)) = true -> uguard s = true ->
  no_temp_assign (fst (uname n s)) = true -> no_shadow (fst (uname n s)) = true -> LibOK (loc, w) ->
  forall wm, weq w wm ->
  exists out wm', scope_result o = Some out /\ weq w' wm' /\
    Run cfg lib url_rel lint_lines um (ucompile_real n s) 0 loc wm (out, loc', wm').
Proof. exact total_for_rules_simulation. Qed.
Print Assumptions C01_unified_simulation_total_for_rules_partial.

(* inside a function: the only globals the run's evaluations must leave alone are arrayLength and arrayGet *)
Theorem C01_unified_simulation_total_for_rules_function_scope_partial : forall cfg, c_max cfg = 0%Z ->
  forall lib url_rel lint_lines, lib_fuel_monotone lib -> lib_count_blind lib ->
  arrayLength_contract lib -> arrayGet_contract lib ->
  forall len_msg get_msg, arrayLength_fail_contract lib len_msg -> arrayGet_range_contract lib get_msg ->
  forall um n s l w o loc' w',
  XExec cfg len_msg get_msg (EvQ cfg lib url_rel lint_lines um (Keeps [ARRLEN; ARRGET])) false (fst (uname n s)) (Some l, w) o (loc', w') ->
  uwf false (fst (uname n s)) = true -> uguard s = true ->
  no_temp_assign (fst (uname n s)) = true -> no_shadow (fst (uname n s)) = true ->
  env_get ARRLEN l = None -> env_get ARRGET l = None ->
  env_get ARRLEN (w_globals w) = Some (VFun (FLib ARRLEN)) -> env_get ARRGET (w_globals w) = Some (VFun (FLib ARRGET)) ->
  forall wm, weq w wm ->
  exists out wm', scope_result o = Some out /\ weq w' wm' /\
    Run cfg lib url_rel lint_lines um (ucompile_real n s) 0 (Some l) wm (out, loc', wm').
Proof. exact total_for_rules_simulation_function_scope. Qed.
Print Assumptions C01_unified_simulation_total_for_rules_function_scope_partial.

(* an expression without calls does not touch the world: each of its evaluations keeps every global *)
Theorem C01_call_free_expressions_keep_globals : forall cfg lib url_rel lint_lines um P e loc w o w1,
  call_free e = true -> Ev cfg lib url_rel lint_lines um e loc w o w1 -> Keeps P e loc w o w1.
Proof. exact call_free_keeps. Qed.
Print Assumptions C01_call_free_expressions_keep_globals.

(* all six library premises hold for the modelled library, for the combined library the check runs, and for the example library
   with arrayPop (non-vacuity of the contracts) *)
Theorem C01_extended_premises_hold_for_modelled_libraries : forall cfg,
  (lib_fuel_monotone (libcore cfg) /\ lib_count_blind (libcore cfg) /\ arrayLength_contract (libcore cfg) /\ arrayGet_contract (libcore cfg) /\
   arrayLength_fail_contract (libcore cfg) (U "args") /\ arrayGet_range_contract (libcore cfg) (U "index")) /\
  (lib_fuel_monotone (libfull2 cfg) /\ lib_count_blind (libfull2 cfg) /\ arrayLength_contract (libfull2 cfg) /\ arrayGet_contract (libfull2 cfg) /\
   arrayLength_fail_contract (libfull2 cfg) (U "args") /\ arrayGet_range_contract (libfull2 cfg) (U "index")) /\
  (lib_fuel_monotone (libpop cfg) /\ lib_count_blind (libpop cfg) /\ arrayLength_contract (libpop cfg) /\ arrayGet_contract (libpop cfg) /\
   arrayLength_fail_contract (libpop cfg) (U "args") /\ arrayGet_range_contract (libpop cfg) (U "index")).
Proof.
  intros cfg. split; [|split].
  - exact (conj (libcore_fuel_monotone cfg) (conj (libcore_count_blind cfg) (conj (libcore_arrayLength cfg) (conj (libcore_arrayGet cfg)
             (conj (libcore_arrayLength_fail cfg) (libcore_arrayGet_range cfg)))))).
  - exact (conj (libfull2_fuel_monotone cfg) (conj (libfull2_count_blind cfg) (conj (libfull2_arrayLength cfg) (conj (libfull2_arrayGet cfg)
             (conj (libfull2_arrayLength_fail cfg) (libfull2_arrayGet_range cfg)))))).
  - exact (conj (libpop_fuel_monotone cfg) (conj (libpop_count_blind cfg) (conj (libpop_arrayLength cfg) (conj (libpop_arrayGet cfg)
             (conj (libpop_arrayLength_fail cfg) (libpop_arrayGet_range cfg)))))).
Qed.
Print Assumptions C01_extended_premises_hold_for_modelled_libraries.

(* the extended reading is executable: [xexec qb chk] is a sound interpreter for XExec (EvQ Q) chk when qb decides Q *)
Theorem C01_extended_structured_interpreter_sound : forall cfg lib url_rel lint_lines um len_msg get_msg (Q : evrel) qb,
  (forall e loc w o w1, qb e loc w o w1 = true -> Q e loc w o w1) ->
  forall chk fuel s st o st', xexec cfg lib url_rel lint_lines um len_msg get_msg qb chk fuel s st = Some (o, st') ->
  XExec cfg len_msg get_msg (EvQ cfg lib url_rel lint_lines um Q) chk s st o st'.
Proof. exact xexec_sound. Qed.
Print Assumptions C01_extended_structured_interpreter_sound.

(* non-vacuity 1: a `for` over a NUMBER, debug mode.  All hypotheses of C01_unified_simulation_total_for_rules_partial hold (incl. a run
   of the reading without side conditions whose evaluations keep the protected globals); the parser model lowers the text to
   ucompile_real; reading and interpreter agree: the body is skipped, the wrapper's failure line is logged, 'after' is returned,
   __bareScriptValues0 = 5, __bareScriptLength0 = 0, no index variable, `v` unbound. *)
Definition dbg_cfg := Run.mkcfg 0 true true.
Definition side_show (g : env) := (env_get (lbl L_Values 0) g, env_get (lbl L_Length 0) g, env_get (lbl L_Index 0) g, env_get (U "v") g).
Definition num_text : str := U "for v in 5:
    systemLog('never')
endfor
return 'after'
".
Definition num_prog : unistmt :=
  NSeq (NForS (U "v") [] (uni_lit 5) (NExpr (ECall (U "systemLog") [EStr (U "never")])))
       (NReturn (Some (EStr (U "after")))).
Definition num_named : unistmt := fst (uname 0 num_prog).
Definition num_world : world := world0 (inject_library []).
Definition num_log : list str := [U "BareScript: Function ""arrayLength"" failed with error: args"].
Definition num_vars := (Some (VNum (NFlt (Z_to_sf 5))), Some (VNum (NInt 0)), @None value, @None value).

Example C01_for_over_non_array_nonvacuous :
  uwf false num_named = true /\ uguard num_prog = true /\ no_temp_assign num_named = true /\ no_shadow num_named = true /\
  is_libb ARRLEN (None, num_world) = true /\ is_libb ARRGET (None, num_world) = true /\
  check_lowering_n num_text num_prog = true /\
  option_map (fun r => (fst r, rev (w_log (snd (snd r))), side_show (w_globals (snd (snd r)))))
    (xexec dbg_cfg (libcore dbg_cfg) Run.no_url Run.no_lint UHost (U "args") (U "index") (keepsb (protected false num_named)) false 100
           num_named (None, num_world))
    = Some (SStop (OVal (VStr (U "after"))), num_log, num_vars) /\
  (let r := exec dbg_cfg (libcore dbg_cfg) Run.no_url Run.no_lint 200 (ucompile_real 0 num_prog) 0 [] None UHost num_world in
   (fst (fst r), rev (w_log (snd r)), side_show (w_globals (snd r)))) = (OVal (VStr (U "after")), num_log, num_vars).
Proof. vm_compute. repeat split. Qed.

Example C01_for_over_non_array_run_exists : exists st',
  XExec dbg_cfg (U "args") (U "index") (EvQ dbg_cfg (libcore dbg_cfg) Run.no_url Run.no_lint UHost (Keeps (protected (fscope (None, num_world)) num_named)))
        false num_named (None, num_world) (SStop (OVal (VStr (U "after")))) st' /\ LibOK (None, num_world).
Proof.
  destruct (xexec dbg_cfg (libcore dbg_cfg) Run.no_url Run.no_lint UHost (U "args") (U "index") (keepsb (protected false num_named)) false 100
                  num_named (None, num_world)) as [[o st']|] eqn:E; [|vm_compute in E; discriminate E].
  assert (Ho : o = SStop (OVal (VStr (U "after")))) by (vm_compute in E; injection E as <- _; reflexivity). subst o.
  exists st'. split.
  - eapply (xexec_sound dbg_cfg (libcore dbg_cfg) Run.no_url Run.no_lint UHost (U "args") (U "index") _ _ (keepsb_sound _)). exact E.
  - split; apply is_libb_sound; vm_compute; reflexivity.
Qed.
Print Assumptions C01_for_over_non_array_run_exists.

(* non-vacuity 2: a `for` whose body POPS the array it iterates over (library: libcore + arrayPop), debug mode.  arr = [10, 20, 30]:
   iterations 0 and 1 see 10 and 20; iteration 2 finds no element 2 any more: arrayGet fails, the wrapper logs and returns null;
   three iterations in all (the length taken at the start); reading and interpreter agree on result, log, bookkeeping variables
   (values = the array, length = 3, index = 3, v = null) and the heap (the array is empty). *)
Definition pop_text : str := U "for v in arr:
    arrayPop(arr)
    systemLog('v=' + v)
endfor
return 'done'
".
Definition pop_prog : unistmt :=
  NSeq (NForS (U "v") [] (EVar (U "arr"))
          (NSeq (NExpr (ECall (U "arrayPop") [EVar (U "arr")]))
                (NExpr (ECall (U "systemLog") [EBin (U "+") (EStr (U "v=")) (EVar (U "v"))]))))
       (NReturn (Some (EStr (U "done")))).
Definition pop_named : unistmt := fst (uname 0 pop_prog).
Definition pop_world : world :=
  upd_arrs (world0 (inject_library [(U "arr", VArr 0)])) [[VNum (NInt 10); VNum (NInt 20); VNum (NInt 30)]].
Definition pop_log : list str := [U "v=10"; U "v=20"; U "BareScript: Function ""arrayGet"" failed with error: index"; U "v=null"].
Definition pop_vars := (Some (VArr 0), Some (VNum (NInt 3)), Some (VNum (NInt 3)), Some VNull).

Example C01_for_body_pops_the_array_nonvacuous :
  uwf false pop_named = true /\ uguard pop_prog = true /\ no_temp_assign pop_named = true /\ no_shadow pop_named = true /\
  is_libb ARRLEN (None, pop_world) = true /\ is_libb ARRGET (None, pop_world) = true /\
  check_lowering_n pop_text pop_prog = true /\
  option_map (fun r => (fst r, rev (w_log (snd (snd r))), side_show (w_globals (snd (snd r))), w_arrs (snd (snd r))))
    (xexec dbg_cfg (libpop dbg_cfg) Run.no_url Run.no_lint UHost (U "args") (U "index") (keepsb (protected false pop_named)) false 100
           pop_named (None, pop_world))
    = Some (SStop (OVal (VStr (U "done"))), pop_log, pop_vars, [[]]) /\
  (let r := exec dbg_cfg (libpop dbg_cfg) Run.no_url Run.no_lint 200 (ucompile_real 0 pop_prog) 0 [] None UHost pop_world in
   (fst (fst r), rev (w_log (snd r)), side_show (w_globals (snd r)), w_arrs (snd r))) = (OVal (VStr (U "done")), pop_log, pop_vars, [[]]).
Proof. vm_compute. repeat split. Qed.

Example C01_for_body_pops_the_array_run_exists : exists st',
  XExec dbg_cfg (U "args") (U "index") (EvQ dbg_cfg (libpop dbg_cfg) Run.no_url Run.no_lint UHost (Keeps (protected (fscope (None, pop_world)) pop_named)))
        false pop_named (None, pop_world) (SStop (OVal (VStr (U "done")))) st' /\ LibOK (None, pop_world).
Proof.
  destruct (xexec dbg_cfg (libpop dbg_cfg) Run.no_url Run.no_lint UHost (U "args") (U "index") (keepsb (protected false pop_named)) false 100
                  pop_named (None, pop_world)) as [[o st']|] eqn:E; [|vm_compute in E; discriminate E].
  assert (Ho : o = SStop (OVal (VStr (U "done")))) by (vm_compute in E; injection E as <- _; reflexivity). subst o.
  exists st'. split.
  - eapply (xexec_sound dbg_cfg (libpop dbg_cfg) Run.no_url Run.no_lint UHost (U "args") (U "index") _ _ (keepsb_sound _)). exact E.
  - split; apply is_libb_sound; vm_compute; reflexivity.
Qed.
Print Assumptions C01_for_body_pops_the_array_run_exists.

(* the residual premise is NEEDED at top level: a body that overwrites the loop's index variable through systemGlobalSet.  The
   syntactic criterion holds (no assignment statement targets a reserved name), the reading without side conditions over the
   UNRESTRICTED evaluation relation runs three iterations, the interpreter on the lowered code leaves the loop after the first;
   the restricted reading (evaluations keep the protected globals) has no run: the checker rejects the evaluation. *)
Definition clob_prog : unistmt :=
  NSeq (NForS (U "v") [] (EVar (U "arr"))
          (NSeq (NExpr (ECall (U "systemLog") [EBin (U "+") (EStr (U "v=")) (EVar (U "v"))]))
                (NExpr (ECall (U "systemGlobalSet") [EStr (lbl L_Index 0); uni_lit 7]))))
       (NReturn (Some (EStr (U "done")))).
Definition clob_named : unistmt := fst (uname 0 clob_prog).

Example C01_for_residual_premise_needed_at_top_level :
  uwf false clob_named = true /\ uguard clob_prog = true /\ no_temp_assign clob_named = true /\ no_shadow clob_named = true /\
  option_map (fun r => (fst r, rev (w_log (snd (snd r)))))
    (xexec dbg_cfg (libcore dbg_cfg) Run.no_url Run.no_lint UHost (U "args") (U "index") (fun _ _ _ _ _ => true) false 100
           clob_named (None, pop_world))
    = Some (SStop (OVal (VStr (U "done"))), [U "v=10"; U "v=20"; U "v=30"]) /\
  (let r := exec dbg_cfg (libcore dbg_cfg) Run.no_url Run.no_lint 200 (ucompile_real 0 clob_prog) 0 [] None UHost pop_world in
   (fst (fst r), rev (w_log (snd r)))) = (OVal (VStr (U "done")), [U "v=10"]) /\
  xexec dbg_cfg (libcore dbg_cfg) Run.no_url Run.no_lint UHost (U "args") (U "index") (keepsb (protected false clob_named)) false 100
        clob_named (None, pop_world) = None /\
  xexec dbg_cfg (libcore dbg_cfg) Run.no_url Run.no_lint UHost (U "args") (U "index") (fun _ _ _ _ _ => true) true 100
        clob_named (None, pop_world) = None.
Proof. vm_compute. repeat split. Qed.

(* THE CRITERION ON SOURCE TREES (Proofs/C01side3.v): [user_ok s] = the names the source assigns itself (assignment targets, value
   variables, the index variables it names: [uassigned]) are not of the reserved form `__bareScript...`; a named index variable is a
   plain name, differs from its value variable and is not assigned in its loop's body.  Then the named tree satisfies
   [no_temp_assign] for every start value of the label counter; and [no_shadow] when the source does not assign arrayLength / arrayGet. *)
From BS Require Import Proofs.C01side3.

Theorem C01_source_criterion_gives_no_temp_assign : forall s n, user_ok s = true ->
  no_temp_assign (fst (uname n s)) = true /\
  (~ In ARRLEN (uassigned s) -> ~ In ARRGET (uassigned s) -> no_shadow (fst (uname n s)) = true).
Proof. intros s n H. split; [exact (user_ok_no_temp_assign s n H)|exact (user_ok_no_shadow s n H)]. Qed.
Print Assumptions C01_source_criterion_gives_no_temp_assign.

Theorem C01_unified_simulation_total_for_rules_source_criterion_partial : forall cfg, c_max cfg = 0%Z ->
  forall lib url_rel lint_lines, lib_fuel_monotone lib -> lib_count_blind lib ->
  arrayLength_contract lib -> arrayGet_contract lib ->
  forall len_msg get_msg, arrayLength_fail_contract lib len_msg -> arrayGet_range_contract lib get_msg ->
  forall um n s loc w o loc' w',
  XExec cfg len_msg get_msg (EvQ cfg lib url_rel lint_lines um (Keeps (protected (fscope (loc, w)) (fst (uname n s)))))
        false (fst (uname n s)) (loc, w) o (loc', w') ->
  uwf false (fst (uname n s)) = true -> uguard s = true ->
  user_ok s = true -> ~ In ARRLEN (uassigned s) -> ~ In ARRGET (uassigned s) -> LibOK (loc, w) ->
  forall wm, weq w wm ->
  exists out wm', scope_result o = Some out /\ weq w' wm' /\
    Run cfg lib url_rel lint_lines um (ucompile_real n s) 0 loc wm (out, loc', wm').
Proof. exact total_for_rules_simulation_source. Qed.
Print Assumptions C01_unified_simulation_total_for_rules_source_criterion_partial.

(* non-vacuity: the example programs (a for with a named index variable inside if / while; the for over a number; the popping body)
   satisfy the source criterion; a loop that names the reserved index variable of its own loop as a target does not *)
Example C01_source_criterion_nonvacuous :
  user_ok uni_prog = true /\ user_ok num_prog = true /\ user_ok pop_prog = true /\ user_ok clob_prog = true /\
  user_ok (NForS (U "v") [] (EVar (U "arr")) (NAssign (lbl L_Index 0) (uni_lit 7))) = false /\
  user_ok (NForS (U "v") (U "i") (EVar (U "arr")) (NForS (U "w") (U "i") (EVar (U "arr")) NSkip)) = false.
Proof. vm_compute. repeat split. Qed.
