(* Props/C01.v — C01: structured control flow runs with its source-level meaning.  Statements and `exact` only;
   proofs in Proofs/Fuel.v, Proofs/C01.v, Proofs/C01b.v.

   The theorems are about the REAL statement type and the REAL interpreter model (Model/Interp.v exec) on the code that
   [compile] produces; [compile] is the lowering of parse_script for this fragment (if / elif / else chains with the
   endif retargeting, while as it is lowered, break, continue, sequencing, assignment, expression statement, return),
   PROVED equal to the parser model's pure lowering step folded over the tree's line kinds (C01_compile_is_the_parser_lowering,
   C01_parse_is_compile); that the printed text classifies to those kinds is decided per case inside Coq by the check.

   PARTIAL, named: (1) `for` is not in the proved fragment (it needs the library contracts of arrayLength/arrayGet and the
   reserved temporaries) - decided by the check only; (2) `continue` inside `while` is excluded by the hypothesis [guard]:
   that is known finding F7 (the lowering skips the re-test), see C01_F7_witness below; (3) function definitions are
   statements of the enclosing scope and calls are evaluated by the same evaluator on both sides, so the theorem is per scope
   (global list or one function body), for any call depth inside expressions; (4) premises on the LIBRARY only (C01_simulation_library_premises_partial): monotone in the
   termination of its callbacks, and it does not read options['statementCount']; both proved for the modelled library. *)
From Coq Require Import List.
From BS Require Import Model.Base Model.Num Model.Arith Model.ExprParser Model.Script Model.Interp Model.LibCore Model.RunC01
                       Model.ScriptX Model.Lower Proofs.Fuel Proofs.C01 Proofs.C01b Proofs.C01c Proofs.C01d Proofs.Blind Proofs.C07 Proofs.C09 Proofs.C01lim Model.LibAll Model.LibPartial Proofs.LibAll Proofs.LibPartial.

Lemma real_lab_inj : forall k n k' n', real_lab k n = real_lab k' n' -> k = k' /\ n = n'.
Proof.
  intros k n k' n' H. unfold real_lab in H.
  assert (Hin : forall k0, In (match k0 with C01.KIf => L_If | C01.KDone => L_Done | C01.KLoop => L_Loop end) LABEL_PREFIXES).
  { intros []; cbn; auto. }
  destruct (lbl_inj _ _ _ _ (Hin k) (Hin k') H) as [HP Hn]. split; [|exact Hn].
  destruct k, k'; try reflexivity; vm_compute in HP; discriminate.
Qed.

(* fuel is only the model's stand-in for "the Python call returns": a run that does not run out of fuel gives the same result
   with any larger fuel (for every library that is monotone in the termination of its callbacks) *)
Theorem C01_fuel_monotone : forall cfg lib url_rel lint_lines, lib_fuel_monotone lib ->
  forall f f' code pc cache loc um w r, f <= f' ->
  exec cfg lib url_rel lint_lines f code pc cache loc um w = r -> fst (fst r) <> OFuel ->
  exec cfg lib url_rel lint_lines f' code pc cache loc um w = r.
Proof. exact exec_fuel_le. Qed.
Print Assumptions C01_fuel_monotone.

(* the lowered code never reuses a label: every label it defines is defined once (so every jump finds its own target) *)
Theorem C01_compiled_labels_unique : forall ctx n s, NoDup (labels (fst (compile real_lab ctx n s))).
Proof. exact (compile_NoDup real_lab real_lab_inj). Qed.
Print Assumptions C01_compiled_labels_unique.

(* SIMULATION, one scope: whenever the structured (big-step) reading of a statement tree ends - normally, by return, or by a
   runtime error - the interpreter run on the lowered code, from statement 0, on any world that differs at most in the statement
   counter, ends with the same result, the same locals and (up to the counter) the same world: same globals, heap and log.
   In the structured semantics (Proofs/C01.v SExec) a loop condition is re-tested before every iteration, break and continue bind
   to the innermost loop, and an if chain runs exactly the first branch whose condition is truthy. *)
Theorem C01_simulation_partial : forall cfg, c_max cfg = 0%Z ->
  forall lib url_rel lint_lines, lib_fuel_monotone lib ->
  forall um,
  (forall e loc w o w' wm, Ev cfg lib url_rel lint_lines um e loc w o w' -> weq w wm ->
     exists wm', Ev cfg lib url_rel lint_lines um e loc wm o wm' /\ weq w' wm') ->
  forall s loc w o loc' w', SExec cfg lib url_rel lint_lines um s (loc, w) o (loc', w') ->
  wf false s = true -> guard s = true ->
  forall n wm, weq w wm ->
  exists out wm', scope_result o = Some out /\ weq w' wm' /\
    Run cfg lib url_rel lint_lines um (fst (compile real_lab None n s)) 0 loc wm (out, loc', wm').
Proof. intros cfg Hunl lib url_rel lint_lines Hlib um Hb. exact (scope_sim cfg Hunl lib url_rel lint_lines Hlib um real_lab real_lab_inj Hb). Qed.
Print Assumptions C01_simulation_partial.

(* the same with the premise on evaluation discharged: with an unlimited budget the interpreter never reads the statement
   counter (Proofs/Blind.v, mutual induction over eval/call/exec), provided the LIBRARY does not read it *)
Theorem C01_simulation_library_premises_partial : forall cfg, c_max cfg = 0%Z ->
  forall lib url_rel lint_lines, lib_fuel_monotone lib -> lib_count_blind lib ->
  forall um s loc w o loc' w', SExec cfg lib url_rel lint_lines um s (loc, w) o (loc', w') ->
  wf false s = true -> guard s = true ->
  forall n wm, weq w wm ->
  exists out wm', scope_result o = Some out /\ weq w' wm' /\
    Run cfg lib url_rel lint_lines um (fst (compile real_lab None n s)) 0 loc wm (out, loc', wm').
Proof.
  intros cfg Hunl lib url_rel lint_lines Hf Hb um.
  exact (scope_sim cfg Hunl lib url_rel lint_lines Hf um real_lab real_lab_inj (Ev_blind_holds cfg Hunl lib url_rel lint_lines Hb um)).
Qed.
Print Assumptions C01_simulation_library_premises_partial.

(* ... and under a POSITIVE statement limit: the structured reading is taken with the limit lifted; the interpreter run under the
   limit on the lowered code either ends with the same result, locals and world (up to the counter), or it is cut short by
   exactly the statement-budget error, and then the full run starts more than the limit's worth of statements.  (Composition
   with the lock step of Props/C09.v; four premises on the library, all proved for the modelled library.) *)
Theorem C01_simulation_under_a_limit_partial : forall cfg, (0 < c_max cfg)%Z ->
  forall lib url_rel lint_lines, lib_fuel_monotone lib -> lib_count_blind lib -> lib_monotone lib -> lib_lockstep lib cfg ->
  forall um s loc w o loc' w', SExec (unlimited cfg) lib url_rel lint_lines um s (loc, w) o (loc', w') ->
  wf false s = true -> guard s = true ->
  forall n wm, weq w wm ->
  exists out wm' fuel, scope_result o = Some out /\ weq w' wm' /\ out <> OFuel /\
    let r := exec cfg lib url_rel lint_lines fuel (fst (compile real_lab None n s)) 0 [] loc um wm in
    r = (out, loc', wm') \/ (fst (fst r) = ORt (msg_exceeded (c_max cfg)) /\ (c_max cfg < w_count wm')%Z).
Proof.
  intros cfg Hpos lib url_rel lint_lines Hf Hb Hm Hl um.
  exact (scope_sim_limited cfg Hpos lib url_rel lint_lines Hf Hb Hm Hl um real_lab real_lab_inj).
Qed.
Print Assumptions C01_simulation_under_a_limit_partial.

(* both library premises hold for the modelled library functions (non-vacuity) *)
Theorem C01_premises_hold_for_modelled_library : forall cfg, lib_fuel_monotone (libcore cfg) /\ lib_count_blind (libcore cfg).
Proof. intros cfg. split; [exact (libcore_fuel_monotone cfg)|exact (libcore_count_blind cfg)]. Qed.
Print Assumptions C01_premises_hold_for_modelled_library.

(* ... and for the COMBINED library the check runs (Model/LibAll.v: LibCore overlaid with the lifted array / object / string
   functions of Model/LibSeq.v, arraySort of Model/LibCall.v, which CALLS BACK into script code, and systemPartial closures of
   Model/LibPartial.v, whose call is one raw call through the callback): all four premises *)
Theorem C01_premises_hold_for_combined_library : forall cfg,
  lib_fuel_monotone (libfull2 cfg) /\ lib_count_blind (libfull2 cfg) /\ lib_monotone (libfull2 cfg) /\ lib_lockstep (libfull2 cfg) cfg.
Proof.
  intros cfg. split; [exact (libfull2_fuel_monotone cfg)|]. split; [exact (libfull2_count_blind cfg)|].
  split; [exact (libfull2_monotone cfg)|exact (libfull2_lockstep cfg)].
Qed.
Print Assumptions C01_premises_hold_for_combined_library.

(* [compile] IS the parser's lowering: folding the parser's pure lowering step (Model/Lower.v kstep; Props/C07.v proves
   pstep = classify ; kstep) over the line kinds of a tree, from the parser's initial state and whatever the line numbers and
   texts are, appends exactly compile(tree), and leaves no open block *)
Theorem C01_compile_is_the_parser_lowering : forall ann s, wf false s = true -> guard s = true ->
  kfold ann 0 ps_init (kinds s) = ROk (gstate (fst (compile real_lab None 0 s)) 0 [] (snd (compile real_lab None 0 s))).
Proof. intros ann s Hwf Hg. exact (lowering_of_a_scope ann s Hwf (guard_wf_no_continue s Hwf Hg)). Qed.
Print Assumptions C01_compile_is_the_parser_lowering.

(* ... hence: whenever the logical lines of a text classify (statement regexes + expression parser) to the line kinds of the
   tree, the parser model's result for that text is compile(tree).  (That the PRINTED text of a tree classifies to its kinds is
   the regex-level fact the check decides per case inside Coq: Model/RunC01.v check_lowering.) *)
Theorem C01_parse_is_compile : forall lines start s lls ls',
  wf false s = true -> guard s = true ->
  llines lines 0 {| l_cont := []; l_ix := 0 |} = (lls, LDone ls') -> l_cont ls' = [] ->
  Forall2 (fun il k => classify (start + fst il) (snd il) = ROk k) lls (kinds s) ->
  match ploop lines 0 {| l_cont := []; l_ix := 0 |} ps_init start with
  | ROk (ls, ps) => pfinish ls ps start
  | RErr e => RErr e | RHost w => RHost w | RFuel => RFuel
  end = ROk (fst (compile real_lab None 0 s)).
Proof. exact parse_is_compile. Qed.
Print Assumptions C01_parse_is_compile.

(* the structured reading is executable: a sound interpreter for SExec (run inside Coq against the implementation by the check) *)
Theorem C01_structured_interpreter_sound : forall cfg lib url_rel lint_lines um fuel s st o st',
  sexec cfg lib url_rel lint_lines um fuel s st = Some (o, st') -> SExec cfg lib url_rel lint_lines um s st o st'.
Proof. exact sexec_sound. Qed.
Print Assumptions C01_structured_interpreter_sound.

(* non-vacuity, and the known finding F7 as a machine-checked witness: on
       i = 0 / while i < 3: / i = i + 1 / if i == 3: continue endif / systemLog('i=' + i) / endwhile
   the structured reading logs i=1, i=2 and stops; the lowered code (continue -> the loop label, past the test) logs i=1, i=2, i=4 *)
Definition f7_prog : sstmt :=
  TSeq (TAssign (U "i") (ENum (NInt 0)))
       (TWhile (EBin (U "<") (EVar (U "i")) (ENum (NInt 3)))
               (TSeq (TAssign (U "i") (EBin (U "+") (EVar (U "i")) (ENum (NInt 1))))
                     (TSeq (TIf (EBin (U "==") (EVar (U "i")) (ENum (NInt 3))) TContinue TSkip)
                           (TExpr (ECall (U "systemLog") [EBin (U "+") (EStr (U "i=")) (EVar (U "i"))]))))).
Definition f7_cfg := Run.mkcfg 0 false true.
Definition f7_world := upd_globals (world0 []) (inject_library []).

Example C01_F7_witness :
  (* the structured reading *)
  option_map (fun r => rev (w_log (snd (snd r)))) (sexec f7_cfg (libcore f7_cfg) Run.no_url Run.no_lint UHost 200 f7_prog (None, f7_world))
    = Some [U "i=1"; U "i=2"] /\
  (* the implementation's lowering of the same tree, run by the interpreter model *)
  rev (w_log (snd (exec f7_cfg (libcore f7_cfg) Run.no_url Run.no_lint 400 (fst (compile real_lab None 0 f7_prog)) 0 [] None UHost f7_world)))
    = [U "i=1"; U "i=2"; U "i=4"] /\
  guard f7_prog = false /\ wf false f7_prog = true.
Proof. vm_compute. repeat split. Qed.

(* ... and a program inside the guarded fragment, on which both sides agree (hypotheses are satisfiable) *)
Definition ok_prog : sstmt :=
  TSeq (TAssign (U "i") (ENum (NInt 0)))
       (TSeq (TWhile (EBin (U "<") (EVar (U "i")) (ENum (NInt 5)))
                     (TSeq (TAssign (U "i") (EBin (U "+") (EVar (U "i")) (ENum (NInt 1))))
                           (TIf (EBin (U "==") (EVar (U "i")) (ENum (NInt 2))) (TExpr (ECall (U "systemLog") [EStr (U "two")]))
                                (TIf (EBin (U "==") (EVar (U "i")) (ENum (NInt 4))) TBreak
                                     (TElse (TExpr (ECall (U "systemLog") [EBin (U "+") (EStr (U "i=")) (EVar (U "i"))])))))))
             (TReturn (Some (EVar (U "i"))))).
Example C01_nonvacuous :
  guard ok_prog = true /\ wf false ok_prog = true /\
  option_map (fun r => rev (w_log (snd (snd r)))) (sexec f7_cfg (libcore f7_cfg) Run.no_url Run.no_lint UHost 200 ok_prog (None, f7_world))
    = Some [U "i=1"; U "two"; U "i=3"] /\
  rev (w_log (snd (exec f7_cfg (libcore f7_cfg) Run.no_url Run.no_lint 400 (fst (compile real_lab None 0 ok_prog)) 0 [] None UHost f7_world)))
    = [U "i=1"; U "two"; U "i=3"].
Proof. vm_compute. repeat split. Qed.

(* ------------------------------------------------------------------------------------------------------------------------
   `for` loops (Proofs/C01for.v, Proofs/C01forReal.v).

   FULL STATEMENT (not proved in full): as C01_simulation_partial, for statement trees in which `for` may occur at any nesting
   depth, over any value of the loop expression.

   PROVED (C01_for_simulation_partial): one `for` loop whose body is any statement tree of the fragment above (if / elif / else,
   while, break, continue, return, assignment, expression statement; [wf true], [guard]).  [compile_for_real n x idx e body] is
   the statement list parse_script emits for   for x[, idx] in e: body endfor   with label index n
   (C01_for_compile_is_the_parser_lowering for bodies without `continue`; with `continue` the check decides it per case inside
   Coq: Model/RunC01for.v check_lowering_for).  FExec (Proofs/C01for.v) is the structured reading: the loop expression is
   evaluated once, the length is taken once, iteration i binds x to element i of the array as it is in the heap then, `break`
   ends the loop, `continue` and normal completion go to the next element (for `for`, continue IS right: its label sits before the
   increment), return / error end the loop.  Whenever that reading ends, the interpreter run on the lowered code ends with the
   same result, the same locals and (up to the statement counter) the same world.

   PREMISES: on the library, the two of C01_simulation_library_premises_partial plus the contracts of the two functions the
   lowering calls (arrayLength, arrayGet), all four PROVED for the modelled library (C01_for_premises_hold_for_modelled_library);
   [names_okb]: the temporaries are pairwise distinct and none is null / true / false (holds for the reserved names for every n:
   C01_for_reserved_names_ok; a premise only when the source names its own index variable).
   DEFINEDNESS side conditions inside the rules of FExec (Proofs/C01for.v): `arrayLength` / `arrayGet` still resolve to the library
   functions when the loop calls them, the body leaves the three temporaries alone, and element i exists when iteration i starts.

   MISSING, named: in THIS theorem the loop is not nested (for-in-for and statements around loops: C01_nested_for_simulation_partial
   below; a `for` inside an if branch or a while body: not proved); a loop expression whose value is not an array (the loop is skipped after a failed arrayLength argument check); a body that
   shrinks the array under the index; the syntactic criterion "the body never assigns a __bareScript name" for the side
   condition on the temporaries. *)
From BS Require Import Model.RunC01for Proofs.C01for Proofs.C01forReal.

Theorem C01_for_simulation_partial : forall cfg, c_max cfg = 0%Z ->
  forall lib url_rel lint_lines, lib_fuel_monotone lib -> lib_count_blind lib ->
  arrayLength_contract lib -> arrayGet_contract lib ->
  forall um n x idxo e b,
  names_okb (lbl L_Values n) (lbl L_Length n) (for_index n idxo) = true -> wf true b = true -> guard b = true ->
  forall loc w o loc' w',
  FExec cfg lib url_rel lint_lines um (lbl L_Values n) (lbl L_Length n) (for_index n idxo) x e b (loc, w) o (loc', w') ->
  forall wm, weq w wm ->
  exists out wm', scope_result o = Some out /\ weq w' wm' /\
    Run cfg lib url_rel lint_lines um (fst (compile_for_real n x idxo e b)) 0 loc wm (out, loc', wm').
Proof. exact for_simulation. Qed.
Print Assumptions C01_for_simulation_partial.

(* the same at any position of a larger statement list (continuation form, composable with C01's [sim]); here the premise
   on evaluation is left as in C01_simulation_partial *)
Theorem C01_for_simulation_in_context_partial : forall cfg, c_max cfg = 0%Z ->
  forall lib url_rel lint_lines, lib_fuel_monotone lib ->
  forall um lab labc,
  (forall e loc w o w' wm, Ev cfg lib url_rel lint_lines um e loc w o w' -> weq w wm ->
     exists wm', Ev cfg lib url_rel lint_lines um e loc wm o wm' /\ weq w' wm') ->
  arrayLength_contract lib -> arrayGet_contract lib ->
  forall vals len idx x e b, names_okb vals len idx = true -> wf true b = true -> guard b = true ->
  forall st o st', FExec cfg lib url_rel lint_lines um vals len idx x e b st o st' ->
  forall code cpos n pc wm, NoDup (labels code) -> code_at code pc (fst (compile_for lab labc vals len idx x e b n)) -> weq (snd st) wm ->
  exists wm', weq (snd st') wm' /\
    post cfg lib url_rel lint_lines um code cpos (pc + length (fst (compile_for lab labc vals len idx x e b n))) o (fst st') wm' pc (fst st) wm.
Proof. exact for_sim. Qed.
Print Assumptions C01_for_simulation_in_context_partial.

(* all four library premises hold for the modelled library functions (non-vacuity) *)
Theorem C01_for_premises_hold_for_modelled_library : forall cfg,
  lib_fuel_monotone (libcore cfg) /\ lib_count_blind (libcore cfg) /\ arrayLength_contract (libcore cfg) /\ arrayGet_contract (libcore cfg).
Proof.
  intros cfg. split; [exact (libcore_fuel_monotone cfg)|split; [exact (libcore_count_blind cfg)|split; [exact (libcore_arrayLength cfg)|exact (libcore_arrayGet cfg)]]].
Qed.
Print Assumptions C01_for_premises_hold_for_modelled_library.

(* ... and for the combined library the check runs (LibCore + arraySort with callbacks + lifted LibSeq + systemPartial closures) *)
Theorem C01_for_premises_hold_for_combined_library : forall cfg,
  lib_fuel_monotone (libfull2 cfg) /\ lib_count_blind (libfull2 cfg) /\ arrayLength_contract (libfull2 cfg) /\ arrayGet_contract (libfull2 cfg).
Proof.
  intros cfg. split; [exact (libfull2_fuel_monotone cfg)|split; [exact (libfull2_count_blind cfg)|split; [exact (libfull2_arrayLength cfg)|exact (libfull2_arrayGet cfg)]]].
Qed.
Print Assumptions C01_for_premises_hold_for_combined_library.

Theorem C01_for_reserved_names_ok : forall n, names_okb (lbl L_Values n) (lbl L_Length n) (for_index n None) = true.
Proof. exact reserved_names_ok. Qed.
Print Assumptions C01_for_reserved_names_ok.

(* the labels the lowered loop defines are defined once *)
Theorem C01_for_compiled_labels_unique : forall n x idxo e b, NoDup (labels (fst (compile_for_real n x idxo e b))).
Proof. intros n x idxo e b. exact (compile_for_NoDup real_lab real_labc _ _ _ x e b real_lab_inj' real_labc_fresh n). Qed.
Print Assumptions C01_for_compiled_labels_unique.

(* [compile_for_real] IS the parser's lowering of  for .. endfor  (bodies without `continue`, the fragment of Proofs/C01c.v):
   folding the parser's pure lowering step over the line kinds of the loop appends exactly compile_for_real and restores the
   frame stack, from any parser state of the global scope *)
Theorem C01_for_compile_is_the_parser_lowering : forall ann i code depth fr n x idxo e b,
  idxo <> Some [] -> wf true b = true -> no_continue b = true ->
  kfold ann i (gstate code depth fr n) (for_kinds x idxo e b) =
  ROk (gstate (code ++ fst (compile_for_real n x idxo e b)) depth fr (snd (compile_for_real n x idxo e b))).
Proof. exact for_lowering_is_compile_for. Qed.
Print Assumptions C01_for_compile_is_the_parser_lowering.

(* the structured reading of a for loop is executable: a sound interpreter for FExec *)
Theorem C01_for_structured_interpreter_sound : forall cfg lib url_rel lint_lines um vals len idx x e b fuel st o st',
  fexec cfg lib url_rel lint_lines um vals len idx x e b fuel st = Some (o, st') ->
  FExec cfg lib url_rel lint_lines um vals len idx x e b st o st'.
Proof. exact fexec_sound. Qed.
Print Assumptions C01_for_structured_interpreter_sound.

(* non-vacuity: a for loop over a 3-element array, with an index variable and a `continue`:
       for v, i in arr: / if v == 20: / continue / endif / systemLog('v=' + v + ' i=' + i) / endfor
   all hypotheses of C01_for_simulation_partial hold, the structured reading (hence FExec, by C01_for_structured_interpreter_sound)
   ends normally with log v=10 i=0, v=30 i=2, the parser model lowers the text to compile_for_real, and the interpreter on the
   lowered code gives the same log *)
Definition for_text : str := U "for v, i in arr:
    if v == 20:
        continue
    endif
    systemLog('v=' + v + ' i=' + i)
endfor
".
Definition for_body : sstmt :=
  TSeq (TIf (EBin (U "==") (EVar (U "v")) (ENum (NFlt (Z_to_sf 20)))) TContinue TSkip)
       (TExpr (ECall (U "systemLog") [EBin (U "+") (EBin (U "+") (EBin (U "+") (EStr (U "v=")) (EVar (U "v"))) (EStr (U " i="))) (EVar (U "i"))])).
Definition for_world : world :=
  upd_arrs (world0 (inject_library [(U "arr", VArr 0)])) [[VNum (NInt 10); VNum (NInt 20); VNum (NInt 30)]].

Example C01_for_nonvacuous :
  names_okb (lbl L_Values 0) (lbl L_Length 0) (for_index 0 (Some (U "i"))) = true /\ wf true for_body = true /\ guard for_body = true /\
  has_cont for_body = true /\
  check_lowering_for for_text (U "v") (Some (U "i")) (EVar (U "arr")) for_body = true /\
  option_map (fun r => (fst r, rev (w_log (snd (snd r)))))
    (fexec f7_cfg (libcore f7_cfg) Run.no_url Run.no_lint UHost (lbl L_Values 0) (lbl L_Length 0) (for_index 0 (Some (U "i"))) (U "v")
           (EVar (U "arr")) for_body 200 (None, for_world))
    = Some (SNormal, [U "v=10 i=0"; U "v=30 i=2"]) /\
  rev (w_log (snd (exec f7_cfg (libcore f7_cfg) Run.no_url Run.no_lint 400
                        (fst (compile_for_real 0 (U "v") (Some (U "i")) (EVar (U "arr")) for_body)) 0 [] None UHost for_world)))
    = [U "v=10 i=0"; U "v=30 i=2"].
Proof. vm_compute. repeat split. Qed.

(* ------------------------------------------------------------------------------------------------------------------------
   NESTED for loops (Proofs/C01forN.v).  Source trees [ustmt]: statement trees of the fragment above, sequencing, and
   for loops whose body is again such a tree - for-in-for to any depth, statements before / after / between loops, `break` /
   `continue` (outside any while) binding to the innermost enclosing for.  [annotate] gives every loop the names the parser gives
   its three temporaries (label counter in source order); [compile_u] is the lowering; GExec is the structured reading (the rules
   of FExec with the body an annotated tree; same definedness side conditions, per loop).

   STILL MISSING, named: a `for` INSIDE an if branch or inside a while body (that needs `for` inside the statement trees of
   Proofs/C01.v themselves); non-array loop values; array-shrinking bodies; [compile_u] = the parser's lowering is decided per
   case inside Coq by the check (Model/RunC01for.v check_lowering_u), proved only for a single loop without `continue`
   (C01_for_compile_is_the_parser_lowering). *)
From BS Require Import Proofs.C01forN.

Theorem C01_nested_for_simulation_partial : forall cfg, c_max cfg = 0%Z ->
  forall lib url_rel lint_lines, lib_fuel_monotone lib -> lib_count_blind lib ->
  arrayLength_contract lib -> arrayGet_contract lib ->
  forall um n u loc w o loc' w',
  GExec cfg lib url_rel lint_lines um (fst (annotate n u)) (loc, w) o (loc', w') ->
  gwf false (fst (annotate n u)) = true -> gguard (fst (annotate n u)) = true ->
  forall wm, weq w wm ->
  exists out wm', scope_result o = Some out /\ weq w' wm' /\
    Run cfg lib url_rel lint_lines um (compile_u n u) 0 loc wm (out, loc', wm').
Proof. exact nested_for_simulation. Qed.
Print Assumptions C01_nested_for_simulation_partial.

(* all labels of the lowered code are defined once *)
Theorem C01_nested_for_compiled_labels_unique : forall ctx n f, NoDup (labels (fst (gcompile real_lab real_labc ctx n f))).
Proof. intros ctx n f. exact (gcompile_NoDup real_lab real_labc real_lab_inj' real_labc_inj real_labc_fresh ctx n f). Qed.
Print Assumptions C01_nested_for_compiled_labels_unique.

(* the single loop of C01_for_simulation_partial is the special case FFor .. (FS body): same code, and its reading is a GExec *)
Theorem C01_nested_for_extends_single : forall cfg lib url_rel lint_lines um lab labc vals len idx x e b,
  (forall ctx n, gcompile lab labc ctx n (FFor vals len idx x e (FS b)) = compile_for lab labc vals len idx x e b n) /\
  (forall st o st', FExec cfg lib url_rel lint_lines um vals len idx x e b st o st' ->
                    GExec cfg lib url_rel lint_lines um (FFor vals len idx x e (FS b)) st o st').
Proof.
  intros cfg lib url_rel lint_lines um lab labc vals len idx x e b.
  split; [intros ctx n; exact (gcompile_single lab labc vals len idx x e b n ctx)|exact (FExec_GExec cfg lib url_rel lint_lines um vals len idx x e b)].
Qed.
Print Assumptions C01_nested_for_extends_single.

Theorem C01_nested_for_structured_interpreter_sound : forall cfg lib url_rel lint_lines um fuel f st o st',
  gexec cfg lib url_rel lint_lines um fuel f st = Some (o, st') -> GExec cfg lib url_rel lint_lines um f st o st'.
Proof. exact gexec_sound. Qed.
Print Assumptions C01_nested_for_structured_interpreter_sound.

(* non-vacuity: for-in-for with continue and break of the inner loop, statements after the inner loop and after the outer loop *)
Definition nest_text : str := U "for a in outer:
    for b, j in inner:
        if b == 2:
            continue
        endif
        if a == 20:
            break
        endif
        systemLog('a=' + a + ' b=' + b + ' j=' + j)
    endfor
    systemLog('end ' + a)
endfor
return 'done'
".
Definition nest_prog : ustmt :=
  USeq (UFor (U "a") None (EVar (U "outer"))
         (USeq (UFor (U "b") (Some (U "j")) (EVar (U "inner"))
                  (US (TSeq (TIf (EBin (U "==") (EVar (U "b")) (ENum (NFlt (Z_to_sf 2)))) TContinue TSkip)
                      (TSeq (TIf (EBin (U "==") (EVar (U "a")) (ENum (NFlt (Z_to_sf 20)))) TBreak TSkip)
                            (TExpr (ECall (U "systemLog")
                               [EBin (U "+") (EBin (U "+") (EBin (U "+") (EBin (U "+") (EBin (U "+") (EStr (U "a=")) (EVar (U "a"))) (EStr (U " b=")))
                                     (EVar (U "b"))) (EStr (U " j="))) (EVar (U "j"))]))))))
               (US (TExpr (ECall (U "systemLog") [EBin (U "+") (EStr (U "end ")) (EVar (U "a"))])))))
       (US (TReturn (Some (EStr (U "done"))))).
Definition nest_world : world :=
  upd_arrs (world0 (inject_library [(U "outer", VArr 0); (U "inner", VArr 1)]))
           [[VNum (NInt 10); VNum (NInt 20)]; [VNum (NInt 1); VNum (NInt 2); VNum (NInt 3)]].
Definition nest_log : list str := [U "a=10 b=1 j=0"; U "a=10 b=3 j=2"; U "end 10"; U "end 20"].

Example C01_nested_for_nonvacuous :
  gwf false (fst (annotate 0 nest_prog)) = true /\ gguard (fst (annotate 0 nest_prog)) = true /\
  check_lowering_u nest_text nest_prog = true /\
  option_map (fun r => (fst r, rev (w_log (snd (snd r)))))
    (gexec f7_cfg (libcore f7_cfg) Run.no_url Run.no_lint UHost 300 (fst (annotate 0 nest_prog)) (None, nest_world))
    = Some (SStop (OVal (VStr (U "done"))), nest_log) /\
  (let r := exec f7_cfg (libcore f7_cfg) Run.no_url Run.no_lint 600 (compile_u 0 nest_prog) 0 [] None UHost nest_world in
   (fst (fst r), rev (w_log (snd r)))) = (OVal (VStr (U "done")), nest_log).
Proof. vm_compute. repeat split. Qed.
