(* Props/C01.v — C01: structured control flow runs with its source-level meaning.  Statements and `exact` only;
   proofs in Proofs/Fuel.v, Proofs/C01.v, Proofs/C01b.v.

   The theorems are about the REAL statement type and the REAL interpreter model (Model/Interp.v exec) on the code that
   [compile] produces; [compile] is the lowering of parse_script for this fragment (if / elif / else chains with the
   endif retargeting, while as it is lowered, break, continue, sequencing, assignment, expression statement, return),
   PROVED equal to the parser model's pure lowering step folded over the tree's line kinds (C01_compile_is_the_parser_lowering,
   C01_parse_is_compile); that the printed text classifies to those kinds is decided per case inside Coq by the check.

   PARTIAL, named: (1) `for` is not in the proved fragment (it needs the library contracts of arrayLength/arrayGet and the
   reserved temporaries) - decided by the check only; (2) `continue` inside `while` is excluded by the hypothesis [guard]:
   that is known finding F7 (the lowering skips the re-test), see C01_F7_witness below; (3) function definitions are
   statements of the enclosing scope and calls are evaluated by the same evaluator on both sides, so the theorem is per scope
   (global list or one function body), for any call depth inside expressions; (4) premises on the LIBRARY only (C01_simulation_library_premises_partial): monotone in the
   termination of its callbacks, and it does not read options['statementCount']; both proved for the modelled library. *)
From Coq Require Import List.
From BS Require Import Model.Base Model.Num Model.Arith Model.ExprParser Model.Script Model.Interp Model.LibCore Model.RunC01
                       Model.ScriptX Model.Lower Proofs.Fuel Proofs.C01 Proofs.C01b Proofs.C01c Proofs.C01d Proofs.Blind Proofs.C07 Proofs.C09 Proofs.C01lim Model.LibAll Proofs.LibAll.

Lemma real_lab_inj : forall k n k' n', real_lab k n = real_lab k' n' -> k = k' /\ n = n'.
Proof.
  intros k n k' n' H. unfold real_lab in H.
  assert (Hin : forall k0, In (match k0 with C01.KIf => L_If | C01.KDone => L_Done | C01.KLoop => L_Loop end) LABEL_PREFIXES).
  { intros []; cbn; auto. }
  destruct (lbl_inj _ _ _ _ (Hin k) (Hin k') H) as [HP Hn]. split; [|exact Hn].
  destruct k, k'; try reflexivity; vm_compute in HP; discriminate.
Qed.

(* fuel is only the model's stand-in for "the Python call returns": a run that does not run out of fuel gives the same result
   with any larger fuel (for every library that is monotone in the termination of its callbacks) *)
Theorem C01_fuel_monotone : forall cfg lib url_rel lint_lines, lib_fuel_monotone lib ->
  forall f f' code pc cache loc um w r, f <= f' ->
  exec cfg lib url_rel lint_lines f code pc cache loc um w = r -> fst (fst r) <> OFuel ->
  exec cfg lib url_rel lint_lines f' code pc cache loc um w = r.
Proof. exact exec_fuel_le. Qed.
Print Assumptions C01_fuel_monotone.

(* the lowered code never reuses a label: every label it defines is defined once (so every jump finds its own target) *)
Theorem C01_compiled_labels_unique : forall ctx n s, NoDup (labels (fst (compile real_lab ctx n s))).
Proof. exact (compile_NoDup real_lab real_lab_inj). Qed.
Print Assumptions C01_compiled_labels_unique.

(* SIMULATION, one scope: whenever the structured (big-step) reading of a statement tree ends - normally, by return, or by a
   runtime error - the interpreter run on the lowered code, from statement 0, on any world that differs at most in the statement
   counter, ends with the same result, the same locals and (up to the counter) the same world: same globals, heap and log.
   In the structured semantics (Proofs/C01.v SExec) a loop condition is re-tested before every iteration, break and continue bind
   to the innermost loop, and an if chain runs exactly the first branch whose condition is truthy. *)
Theorem C01_simulation_partial : forall cfg, c_max cfg = 0%Z ->
  forall lib url_rel lint_lines, lib_fuel_monotone lib ->
  forall um,
  (forall e loc w o w' wm, Ev cfg lib url_rel lint_lines um e loc w o w' -> weq w wm ->
     exists wm', Ev cfg lib url_rel lint_lines um e loc wm o wm' /\ weq w' wm') ->
  forall s loc w o loc' w', SExec cfg lib url_rel lint_lines um s (loc, w) o (loc', w') ->
  wf false s = true -> guard s = true ->
  forall n wm, weq w wm ->
  exists out wm', scope_result o = Some out /\ weq w' wm' /\
    Run cfg lib url_rel lint_lines um (fst (compile real_lab None n s)) 0 loc wm (out, loc', wm').
Proof. intros cfg Hunl lib url_rel lint_lines Hlib um Hb. exact (scope_sim cfg Hunl lib url_rel lint_lines Hlib um real_lab real_lab_inj Hb). Qed.
Print Assumptions C01_simulation_partial.

(* the same with the premise on evaluation discharged: with an unlimited budget the interpreter never reads the statement
   counter (Proofs/Blind.v, mutual induction over eval/call/exec), provided the LIBRARY does not read it *)
Theorem C01_simulation_library_premises_partial : forall cfg, c_max cfg = 0%Z ->
  forall lib url_rel lint_lines, lib_fuel_monotone lib -> lib_count_blind lib ->
  forall um s loc w o loc' w', SExec cfg lib url_rel lint_lines um s (loc, w) o (loc', w') ->
  wf false s = true -> guard s = true ->
  forall n wm, weq w wm ->
  exists out wm', scope_result o = Some out /\ weq w' wm' /\
    Run cfg lib url_rel lint_lines um (fst (compile real_lab None n s)) 0 loc wm (out, loc', wm').
Proof.
  intros cfg Hunl lib url_rel lint_lines Hf Hb um.
  exact (scope_sim cfg Hunl lib url_rel lint_lines Hf um real_lab real_lab_inj (Ev_blind_holds cfg Hunl lib url_rel lint_lines Hb um)).
Qed.
Print Assumptions C01_simulation_library_premises_partial.

(* ... and under a POSITIVE statement limit: the structured reading is taken with the limit lifted; the interpreter run under the
   limit on the lowered code either ends with the same result, locals and world (up to the counter), or it is cut short by
   exactly the statement-budget error, and then the full run starts more than the limit's worth of statements.  (Composition
   with the lock step of Props/C09.v; four premises on the library, all proved for the modelled library.) *)
Theorem C01_simulation_under_a_limit_partial : forall cfg, (0 < c_max cfg)%Z ->
  forall lib url_rel lint_lines, lib_fuel_monotone lib -> lib_count_blind lib -> lib_monotone lib -> lib_lockstep lib cfg ->
  forall um s loc w o loc' w', SExec (unlimited cfg) lib url_rel lint_lines um s (loc, w) o (loc', w') ->
  wf false s = true -> guard s = true ->
  forall n wm, weq w wm ->
  exists out wm' fuel, scope_result o = Some out /\ weq w' wm' /\ out <> OFuel /\
    let r := exec cfg lib url_rel lint_lines fuel (fst (compile real_lab None n s)) 0 [] loc um wm in
    r = (out, loc', wm') \/ (fst (fst r) = ORt (msg_exceeded (c_max cfg)) /\ (c_max cfg < w_count wm')%Z).
Proof.
  intros cfg Hpos lib url_rel lint_lines Hf Hb Hm Hl um.
  exact (scope_sim_limited cfg Hpos lib url_rel lint_lines Hf Hb Hm Hl um real_lab real_lab_inj).
Qed.
Print Assumptions C01_simulation_under_a_limit_partial.

(* both library premises hold for the modelled library functions (non-vacuity) *)
Theorem C01_premises_hold_for_modelled_library : forall cfg, lib_fuel_monotone (libcore cfg) /\ lib_count_blind (libcore cfg).
Proof. intros cfg. split; [exact (libcore_fuel_monotone cfg)|exact (libcore_count_blind cfg)]. Qed.
Print Assumptions C01_premises_hold_for_modelled_library.

(* ... and for the COMBINED library the check runs (Model/LibAll.v: LibCore overlaid with the lifted array / object / string
   functions of Model/LibSeq.v, and arraySort of Model/LibCall.v, which CALLS BACK into script code): all four premises *)
Theorem C01_premises_hold_for_combined_library : forall cfg,
  lib_fuel_monotone (libfull cfg) /\ lib_count_blind (libfull cfg) /\ lib_monotone (libfull cfg) /\ lib_lockstep (libfull cfg) cfg.
Proof.
  intros cfg. split; [exact (libfull_fuel_monotone cfg)|]. split; [exact (libfull_count_blind cfg)|].
  split; [exact (libfull_monotone cfg)|exact (libfull_lockstep cfg)].
Qed.
Print Assumptions C01_premises_hold_for_combined_library.

(* [compile] IS the parser's lowering: folding the parser's pure lowering step (Model/Lower.v kstep; Props/C07.v proves
   pstep = classify ; kstep) over the line kinds of a tree, from the parser's initial state and whatever the line numbers and
   texts are, appends exactly compile(tree), and leaves no open block *)
Theorem C01_compile_is_the_parser_lowering : forall ann s, wf false s = true -> guard s = true ->
  kfold ann 0 ps_init (kinds s) = ROk (gstate (fst (compile real_lab None 0 s)) 0 [] (snd (compile real_lab None 0 s))).
Proof. intros ann s Hwf Hg. exact (lowering_of_a_scope ann s Hwf (guard_wf_no_continue s Hwf Hg)). Qed.
Print Assumptions C01_compile_is_the_parser_lowering.

(* ... hence: whenever the logical lines of a text classify (statement regexes + expression parser) to the line kinds of the
   tree, the parser model's result for that text is compile(tree).  (That the PRINTED text of a tree classifies to its kinds is
   the regex-level fact the check decides per case inside Coq: Model/RunC01.v check_lowering.) *)
Theorem C01_parse_is_compile : forall lines start s lls ls',
  wf false s = true -> guard s = true ->
  llines lines 0 {| l_cont := []; l_ix := 0 |} = (lls, LDone ls') -> l_cont ls' = [] ->
  Forall2 (fun il k => classify (start + fst il) (snd il) = ROk k) lls (kinds s) ->
  match ploop lines 0 {| l_cont := []; l_ix := 0 |} ps_init start with
  | ROk (ls, ps) => pfinish ls ps start
  | RErr e => RErr e | RHost w => RHost w | RFuel => RFuel
  end = ROk (fst (compile real_lab None 0 s)).
Proof. exact parse_is_compile. Qed.
Print Assumptions C01_parse_is_compile.

(* the structured reading is executable: a sound interpreter for SExec (run inside Coq against the implementation by the check) *)
Theorem C01_structured_interpreter_sound : forall cfg lib url_rel lint_lines um fuel s st o st',
  sexec cfg lib url_rel lint_lines um fuel s st = Some (o, st') -> SExec cfg lib url_rel lint_lines um s st o st'.
Proof. exact sexec_sound. Qed.
Print Assumptions C01_structured_interpreter_sound.

(* non-vacuity, and the known finding F7 as a machine-checked witness: on
       i = 0 / while i < 3: / i = i + 1 / if i == 3: continue endif / systemLog('i=' + i) / endwhile
   the structured reading logs i=1, i=2 and stops; the lowered code (continue -> the loop label, past the test) logs i=1, i=2, i=4 *)
Definition f7_prog : sstmt :=
  TSeq (TAssign (U "i") (ENum (NInt 0)))
       (TWhile (EBin (U "<") (EVar (U "i")) (ENum (NInt 3)))
               (TSeq (TAssign (U "i") (EBin (U "+") (EVar (U "i")) (ENum (NInt 1))))
                     (TSeq (TIf (EBin (U "==") (EVar (U "i")) (ENum (NInt 3))) TContinue TSkip)
                           (TExpr (ECall (U "systemLog") [EBin (U "+") (EStr (U "i=")) (EVar (U "i"))]))))).
Definition f7_cfg := Run.mkcfg 0 false true.
Definition f7_world := upd_globals (world0 []) (inject_library []).

Example C01_F7_witness :
  (* the structured reading *)
  option_map (fun r => rev (w_log (snd (snd r)))) (sexec f7_cfg (libcore f7_cfg) Run.no_url Run.no_lint UHost 200 f7_prog (None, f7_world))
    = Some [U "i=1"; U "i=2"] /\
  (* the implementation's lowering of the same tree, run by the interpreter model *)
  rev (w_log (snd (exec f7_cfg (libcore f7_cfg) Run.no_url Run.no_lint 400 (fst (compile real_lab None 0 f7_prog)) 0 [] None UHost f7_world)))
    = [U "i=1"; U "i=2"; U "i=4"] /\
  guard f7_prog = false /\ wf false f7_prog = true.
Proof. vm_compute. repeat split. Qed.

(* ... and a program inside the guarded fragment, on which both sides agree (hypotheses are satisfiable) *)
Definition ok_prog : sstmt :=
  TSeq (TAssign (U "i") (ENum (NInt 0)))
       (TSeq (TWhile (EBin (U "<") (EVar (U "i")) (ENum (NInt 5)))
                     (TSeq (TAssign (U "i") (EBin (U "+") (EVar (U "i")) (ENum (NInt 1))))
                           (TIf (EBin (U "==") (EVar (U "i")) (ENum (NInt 2))) (TExpr (ECall (U "systemLog") [EStr (U "two")]))
                                (TIf (EBin (U "==") (EVar (U "i")) (ENum (NInt 4))) TBreak
                                     (TElse (TExpr (ECall (U "systemLog") [EBin (U "+") (EStr (U "i=")) (EVar (U "i"))])))))))
             (TReturn (Some (EVar (U "i"))))).
Example C01_nonvacuous :
  guard ok_prog = true /\ wf false ok_prog = true /\
  option_map (fun r => rev (w_log (snd (snd r)))) (sexec f7_cfg (libcore f7_cfg) Run.no_url Run.no_lint UHost 200 ok_prog (None, f7_world))
    = Some [U "i=1"; U "two"; U "i=3"] /\
  rev (w_log (snd (exec f7_cfg (libcore f7_cfg) Run.no_url Run.no_lint 400 (fst (compile real_lab None 0 ok_prog)) 0 [] None UHost f7_world)))
    = [U "i=1"; U "two"; U "i=3"].
Proof. vm_compute. repeat split. Qed.
