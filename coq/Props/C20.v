(* Props/C20.v — property C20: diffLines from the shipped include library reconstructs both inputs; every shipped
   include parses.  ONLY statements; every proof is `exact <lemma of Proofs/C20*.v>`.
   Model/Diff.v is the hand transliteration of diff.bare's diffLines as lowered by the parser (while + continue jumps
   past the condition re-test, F7); its line-split regex and the include texts are REGENERATED from the tree on every
   run (Gen/Includes.v, Gen/Inc_*.v).  The tie of [diff_lines] to the script is the correspondence of harness/c20.py. *)
From BS Require Import Model.Base Model.Regex Model.Script Model.Diff Model.Includes Gen.Unicode Gen.Includes
  Proofs.C20 Proofs.C20inc Proofs.C20lint Model.Lower Model.Lint.

(* ---- line arrays: for ALL line lists, no size bound ---- *)

(* the fuel |L| + |R| + 1 is never exhausted and no null flows into the result: diff_lines is total *)
Theorem C20_terminates : forall L R, exists d, diff_lines L R = DOk d.
Proof. exact diff_total. Qed.
Print Assumptions C20_terminates.

(* Identical+Remove blocks concatenate to the left lines, Identical+Add blocks to the right lines, in order;
   every block has a non-empty line list *)
Theorem C20_reconstruct : forall L R d, diff_lines L R = DOk d ->
  left_of d = L /\ right_of d = R /\ Forall (fun b => b_lines b <> []) d.
Proof. exact diff_reconstruct. Qed.
Print Assumptions C20_reconstruct.

(* identical inputs: exactly one Identical block with all the lines (no block for no lines) ... *)
Theorem C20_identical : forall L,
  diff_lines L L = DOk (match L with [] => [] | _ :: _ => [mk Identical L] end).
Proof. exact diff_identical. Qed.
Print Assumptions C20_identical.

(* ... hence never an Add or Remove block; and conversely a result without Add/Remove means equal inputs *)
Theorem C20_identical_no_add_remove : forall L d, diff_lines L L = DOk d -> Forall (fun b => b_kind b = Identical) d.
Proof. exact diff_identical_only_identical. Qed.
Print Assumptions C20_identical_no_add_remove.

Theorem C20_only_identical_iff_equal : forall L R d, diff_lines L R = DOk d ->
  (forallb (fun b => kind_eqb (b_kind b) Identical) d = true <-> L = R).
Proof. exact diff_only_identical_iff. Qed.
Print Assumptions C20_only_identical_iff_equal.

(* ---- text inputs: the regenerated line-split regex is the LF/CRLF line split, for ALL strings ---- *)
Theorem C20_split_is_lf_crlf : forall s, split_lines s = DOk (split_spec s []).
Proof. exact split_lines_spec. Qed.
Print Assumptions C20_split_is_lf_crlf.

(* splitting undoes the joining of CR/LF-free lines with any mixture of LF and CRLF endings *)
Theorem C20_split_unsplit : forall ls last,
  forallb clean_line (map fst ls) = true -> clean_line last = true ->
  split_spec (unsplit ls last) [] = map fst ls ++ [last].
Proof. exact split_spec_unsplit. Qed.
Print Assumptions C20_split_unsplit.

(* texts and arrays of texts: total, and the blocks reconstruct the LF/CRLF lines of both arguments *)
Theorem C20_inputs_reconstruct : forall a b, exists d, diff_inputs a b = DOk d /\
  left_of d = spec_lines a /\ right_of d = spec_lines b /\ forallb nonempty_block d = true.
Proof. exact diff_inputs_spec. Qed.
Print Assumptions C20_inputs_reconstruct.

(* the same lines with different line endings (or a text against its line array): only Identical blocks *)
Theorem C20_inputs_same_lines : forall a b d, diff_inputs a b = DOk d -> spec_lines a = spec_lines b ->
  Forall (fun b => b_kind b = Identical) d.
Proof. exact diff_inputs_same_lines. Qed.
Print Assumptions C20_inputs_same_lines.

(* ---- every shipped include parses (finite domain, enumerated completely: the files as they are now) ---- *)
(* full clause: "parses, validates against the schema and is lint-clean".  Proved here with the MODEL parser: parses.
   (kept: the earlier partial form; the full clause is C20_includes_valid_and_lint_clean below) *)
Theorem C20_includes_parse_partial : forallb (fun nt => include_parses (snd nt)) gen_include_texts = true.
Proof. exact includes_parse. Qed.
Print Assumptions C20_includes_parse_partial.

(* FULL clause: every shipped include parses, validates against the schema and is lint-clean.  The domain is the REGENERATED list
   of include texts, enumerated completely; parse and lint are evaluated by the kernel's vm on the model parser and on the model
   linter (Model/Lint.v, tied to lint_script by property C18's correspondence); schema validity of a parse result is the theorem
   C07_schema.  A change to an include file, to the parser regexes or to the lint rules re-runs this computation. *)
Theorem C20_includes_valid_and_lint_clean : forall name text, In (name, text) gen_include_texts ->
  exists sc, parse_script [text] 1 = ROk sc /\ script_schema sc = true /\ lint sc = [].
Proof. exact includes_valid_and_lint_clean. Qed.
Print Assumptions C20_includes_valid_and_lint_clean.

(* non-vacuity *)
Example C20_nonvacuous_diff :
  diff_lines [U "a"; U "b"; U "c"] [U "a"; U "x"; U "c"] =
  DOk [mk Identical [U "a"]; mk Remove [U "b"]; mk Add [U "x"]; mk Identical [U "c"]].
Proof. exact diff_example. Qed.

Example C20_nonvacuous_crlf :
  diff_inputs (InText (U "a\00000d\00000ab\00000d\00000a")) (InParts [U "a\00000ab"; U ""]) =
  DOk [mk Identical [U "a"; U "b"; U ""]].
Proof. exact diff_example_crlf. Qed.

Example C20_nonvacuous_includes : length gen_include_texts = 7 /\ defined_functions inc_diff = [U "diffLines"].
Proof. split; [reflexivity | exact diff_bare_defines_diffLines]. Qed.
