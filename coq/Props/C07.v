(* Props/C07.v — property C07: lowered code is well formed (schema-valid, intact and unique jump targets).
   ONLY statements; every proof is `exact <lemma of Proofs/C07*.v>`.
   Model: Model/Script.v (parse_script over the REGENERATED regexes) factored by Model/Lower.v into
   classify (regexes, expression parsing) and the pure lowering kstep.  Vocabulary (Model/Lower.v):
     reserved l        l starts with "__bareScript"
     defs l c / refs l c   number of `label l` statements / of jumps to l in the statement list c
     user_clean        no  `name:` / `jump name` / `jumpif (..) name`  line of the program names a reserved label
     is_scope code c   c is the global statement list or the body of a function of the script (Proofs/C07.v) *)
From BS Require Import Model.Base Model.Regex Model.Num Model.ExprParser Model.Script Model.Lower Gen.Regexes Proofs.C07eq Proofs.C07 Proofs.C07schema.

(* the tie: one step of the tied model = classification followed by the pure lowering step *)
Theorem C07_step_factors : forall ps n line, pstep ps n line = sbind (classify n line) (kstep ps n line).
Proof. exact pstep_classify. Qed.
Print Assumptions C07_step_factors.

(* generated label names: distinct (prefix, counter) pairs give distinct strings, all with the reserved prefix *)
Theorem C07_label_names_injective : forall P n P' n',
  In P LABEL_PREFIXES -> In P' LABEL_PREFIXES -> lbl P n = lbl P' n' -> P = P' /\ n = n'.
Proof. exact lbl_inj. Qed.
Print Assumptions C07_label_names_injective.

Theorem C07_label_names_reserved : forall P n, In P LABEL_PREFIXES -> reserved (lbl P n) = true.
Proof. exact lbl_reserved. Qed.
Print Assumptions C07_label_names_reserved.

(* the invariant (Proofs/C07.v, PInv: per-scope frame invariant, frames split at the function floor) is
   preserved by the lowering of ANY line kind in ANY state satisfying it — arbitrary sequences, not only
   printed structured programs *)
Theorem C07_invariant_init : PInv ps_init.
Proof. exact PInv_init. Qed.
Print Assumptions C07_invariant_init.

Theorem C07_invariant_step : forall ps lineno line k ps',
  kind_clean k = true -> PInv ps -> kstep ps lineno line k = ROk ps' -> PInv ps'.
Proof. exact kstep_inv. Qed.
Print Assumptions C07_invariant_step.

(* C07, label clause: in every scope of every parsed script, every reserved-prefix jump targets a label defined
   exactly once in that scope, and every reserved-prefix label is the target of at least one jump *)
Theorem C07_wf : forall chunks start code,
  parse_script chunks start = ROk code -> user_clean chunks start = true ->
  forall c, is_scope code c -> forall l, reserved l = true ->
    (1 <= refs l c -> defs l c = 1) /\ (1 <= defs l c -> 1 <= refs l c).
Proof. exact parse_script_scopes_wf. Qed.
Print Assumptions C07_wf.

(* the same as the boolean static check that the harness also runs on the implementation's output *)
Theorem C07_wf_check : forall chunks start code,
  parse_script chunks start = ROk code -> user_clean chunks start = true -> script_wfb code = true.
Proof. exact parse_script_wfb. Qed.
Print Assumptions C07_wf_check.

Theorem C07_wf_check_sound : forall c, script_wfb c = true <-> script_wf c.
Proof. exact script_wfb_iff. Qed.
Print Assumptions C07_wf_check_sound.

(* hence: runtime.py's label lookup for a reserved jump always finds its label (no "Unknown jump label") *)
Corollary C07_no_unknown_label : forall chunks start code,
  parse_script chunks start = ROk code -> user_clean chunks start = true ->
  forall c l cnd, is_scope code c -> In (SJump l cnd) c -> reserved l = true -> exists j, find_first_label l c 0 = Some j.
Proof. exact parse_script_no_unknown_label. Qed.
Print Assumptions C07_no_unknown_label.

(* hence: lint_script's redefined / unused / unknown label checks never name a reserved label *)
Corollary C07_lint_quiet : forall chunks start code,
  parse_script chunks start = ROk code -> user_clean chunks start = true ->
  forall c l, is_scope code c -> In l (lint_labels c) -> reserved l = false.
Proof. exact parse_script_lint_quiet. Qed.
Print Assumptions C07_lint_quiet.

(* C07, schema clause, FULL: every script the model accepts satisfies the schema predicate (Model/Lower.v
   script_schema: non-empty args / includes arrays, nesting, operators of the two enums in every expression) —
   no premise on the program.  Proofs/C07schema.v: the text captured by group 1 of a match of the REGENERATED
   R_EXPR_BINARY_OP / R_EXPR_UNARY_OP is one of the literal alternatives of that regex (inversion of the match
   relation of Proofs/RegexFacts.v), these alternatives are inside the enums (C07_operator_regexes_are_the_enums
   below — breaks if parser.py's operator regexes and the schema enums drift apart), the precedence rotation
   `insert` only rearranges nodes, induction on the fuel of parse_binary / parse_unary / parse_args. *)
Theorem C07_schema : forall chunks start code,
  parse_script chunks start = ROk code -> script_schema code = true.
Proof. exact parse_script_schema_full. Qed.
Print Assumptions C07_schema.

(* the operator token of a successful match of the two operator regexes is in the schema enum *)
Theorem C07_binary_op_token : forall text e c,
  rx R_EXPR_BINARY_OP text = MYes e c -> str_mem (grp text c 1) BIN_OPS = true.
Proof. exact binary_op_group. Qed.
Print Assumptions C07_binary_op_token.

Theorem C07_unary_op_token : forall text e c,
  rx R_EXPR_UNARY_OP text = MYes e c -> str_mem (grp text c 1) UN_OPS = true.
Proof. exact unary_op_group. Qed.
Print Assumptions C07_unary_op_token.

(* every expression the expression parser returns uses operators of the two enums *)
Theorem C07_parsed_expr_schema : forall text e, parse_expression text = EOk e -> expr_schema e = true.
Proof. exact parse_expression_schema. Qed.
Print Assumptions C07_parsed_expr_schema.

(* hence the premise of C07_schema_partial holds for every program *)
Theorem C07_user_exprs_schema : forall chunks start, user_exprs_schema chunks start = true.
Proof. exact user_exprs_schema_always. Qed.
Print Assumptions C07_user_exprs_schema.

(* the literal alternatives of the two regenerated operator regexes are exactly the schema enums (as sets) *)
Example C07_operator_regexes_are_the_enums :
  lang binop_inner = Some BIN_OPS /\ lang unop_inner = Some [U "!"; U "-"] /\ UN_OPS = [U "-"; U "!"].
Proof. vm_compute. auto. Qed.

(* non-vacuity of the two token theorems and of C07_parsed_expr_schema: real matches, a real parse with
   both unary operators, a rotation (a * b ** c + d) and a call *)
Example C07_op_tokens_example :
  (match rx R_EXPR_BINARY_OP (U "  ** 2") with MYes e c => str_eqb (grp (U "  ** 2") c 1) (U "**") && Nat.eqb e 4 | _ => false end) &&
  (match rx R_EXPR_BINARY_OP (U "|| x") with MYes e c => str_eqb (grp (U "|| x") c 1) (U "||") | _ => false end) &&
  (match rx R_EXPR_UNARY_OP (U " !x") with MYes e c => str_eqb (grp (U " !x") c 1) (U "!") | _ => false end) &&
  (match parse_expression (U "-a * !b ** fn(c, 1 <= d) + d") with
   | EOk (EBin o1 (EBin o2 (EUn o3 _) (EBin o4 (EUn o5 _) _)) _) =>
       str_eqb o1 (U "+") && str_eqb o2 (U "*") && str_eqb o3 (U "-") && str_eqb o4 (U "**") && str_eqb o5 (U "!")
   | _ => false end) = true.
Proof. vm_compute. reflexivity. Qed.

(* the earlier, conditional form (kept: it is what Proofs/C07.v proves about the lowering alone, for ANY source of
   expressions satisfying the enum predicate) *)
Theorem C07_schema_partial : forall chunks start code,
  parse_script chunks start = ROk code -> user_exprs_schema chunks start = true -> script_schema code = true.
Proof. exact parse_script_schema. Qed.
Print Assumptions C07_schema_partial.

(* the model's endif always finds the jump it retargets (the RHost "pending jump not found" outcome is dead) *)
Theorem C07_endif_retarget_defined : forall ps n line w, PInv ps -> kstep ps n line KEndif <> RHost w.
Proof. exact endif_finds_its_jump. Qed.
Print Assumptions C07_endif_retarget_defined.

(* ---- non-vacuity: a 43-line script using every construct (includes, async function with args and a rest
   argument, for with index, if/elif/else, break, continue, a function opened inside an open if, while,
   for without index, user labels and jumps, a line continuation, return), through the real parse_script ---- *)
Definition ex_script : list str :=
  [(U "# every construct");
  (U "include <args.bare>");
  (U "include 'util.bare'");
  (U "async function getItems(url, rest...):");
  (U "    items = arrayNew()");
  (U "    for item, ix in rest:");
  (U "        if ix > 10:");
  (U "            break");
  (U "        elif item == null:");
  (U "            continue");
  (U "        else:");
  (U "            arrayPush(items, item)");
  (U "        endif");
  (U "    endfor");
  (U "    return items");
  (U "endfunction");
  (U "count = 0");
  (U "if count == 0:");
  (U "    function inner():");
  (U "        while true:");
  (U "            break");
  (U "        endwhile");
  (U "    endfunction");
  (U "    count = 1");
  (U "endif");
  (U "while count < 5:");
  (U "    count = count + 1");
  (U "    if count == 2:");
  (U "        continue");
  (U "    endif");
  (U "    for v in arrayNew(1, 2):");
  (U "        if v:");
  (U "            continue");
  (U "        endif");
  (U "        jumpif (v > 3) userDone");
  (U "    endfor");
  (U "endwhile");
  (U "userDone:");
  (U "jump userEnd");
  (U "userEnd:");
  (U "systemLog('n=' + \00005c");
  (U "   count)");
  (U "return")].

Example C07_example_parses :
  match parse_script ex_script 1 with
  | ROk code =>
      user_clean ex_script 1 && user_exprs_schema ex_script 1 && script_wfb code && script_schema code
      && Nat.eqb (length code) 34
      && Nat.eqb (length (fbodies code)) 2                                   (* two function scopes *)
      && Nat.eqb (refs (lbl L_Continue 0) (nth 0 (fbodies code) [])) 1       (* continue in the for of getItems *)
      && Nat.eqb (defs (lbl L_Done 5) code) 1 && Nat.leb 1 (refs (lbl L_Done 5) code)
      && negb (str_mem (lbl L_Done 5) (lint_labels code))
  | _ => false
  end = true.
Proof. vm_compute. reflexivity. Qed.

(* and the checker is not trivially true: dropping the final label of a lowered loop is rejected *)
Example C07_check_rejects :
  scope_wfb [SJump (lbl L_Done 0) None; SLabel (lbl L_Loop 0); SJump (lbl L_Loop 0) None] = false /\
  scope_wfb [SLabel (lbl L_Done 0)] = false /\
  scope_wfb [SJump (lbl L_Done 0) None; SLabel (lbl L_Done 0); SLabel (lbl L_Done 0)] = false.
Proof. vm_compute. auto. Qed.
