(* Props/C14.v — property C14: JSON serialisation is faithful.  ONLY statements. *)
From BS Require Import Model.Base Model.Regex Model.Json Model.JsonRe Gen.Regexes Proofs.C14.

Theorem C14_regex_pinned_to_scanner :
  forallb cleanup_agree (all_strings [34; 92; 46; 48; 44; 97; 10]%N 5) = true.
Proof. exact cleanup_regex_is_scanner_small. Qed.
Print Assumptions C14_regex_pinned_to_scanner.
