(* Props/C14.v — property C14: JSON serialisation is faithful:
   jsonParse(jsonStringify(v)) equals v.  ONLY statements; every proof is `exact <lemma of Proofs/C14*.v>`.
   Model: Model/Json.v (encode = sort_keys, CPython ensure_ascii escaping, compact/indented layout,
   the clean-up pass as a scanner; decode = RFC 8259 reader).  The scanner is PROVED equal, on every text, to the
   regex REGENERATED from value.py run through the regex engine (first theorem; Proofs/C14rx.v), so every theorem
   below also holds for [encode_re], the text as the code computes it (block "_re" at the end).
   Domain (wf): number tokens of the JSON grammar (every CPython repr of a finite number),
   strings and keys of Unicode scalar values (no surrogate code points); any nesting, any indent. *)
From BS Require Import Model.Base Model.Regex Model.Json Model.JsonRe Gen.Regexes
  Proofs.C14a Proofs.C14b Proofs.C14c Proofs.C14 Proofs.C14rx.

(* THE TIE IS A THEOREM: for EVERY text s, value.py's clean-up regex (as regenerated now, incl. its look-ahead) applied by
   re.sub with the callback `m.group(1) or ''` through the engine of Model/Regex.v  =  the scanner.  Stated about the
   generated constant R_VALUE_JSON_NUMBER_CLEANUP: a change of the pattern in value.py breaks the proof. *)
Theorem C14_regex_is_scanner : forall s, cleanup_re s = Some (cleanup s).
Proof. exact cleanup_re_is_cleanup. Qed.
Print Assumptions C14_regex_is_scanner.
Theorem C14_encode_re_is_encode : forall indent v, encode_re indent v = Some (encode indent v).
Proof. exact encode_re_is_encode. Qed.
Print Assumptions C14_encode_re_is_encode.

(* FORMER PIN (now an instance of C14_regex_is_scanner; kept because it fails first, by computation, when the pattern
   changes): the same on all 19608 strings of length <= 5 over {quote, backslash, point, zero, comma, a, newline} *)
Theorem C14_regex_pinned_to_scanner :
  forallb cleanup_agree (all_strings [34; 92; 46; 48; 44; 97; 10]%N 5) = true.
Proof. exact cleanup_regex_is_scanner_small. Qed.
Print Assumptions C14_regex_pinned_to_scanner.

(* ROUND TRIP, unbounded depth and length, with or without indentation: the reader maps the text back to
   the value with keys sorted and all-zero fractions dropped *)
Theorem C14_roundtrip : forall indent v, wf v = true -> decode (encode indent v) = DecOk (canon v).
Proof. exact roundtrip. Qed.
Print Assumptions C14_roundtrip.

(* ... and canon v is the same JSON value as v: same scalars and strings, arrays elementwise, objects the same
   members up to order, numbers the same decimal value *)
Theorem C14_canon_is_the_same_value : forall v, same_value v (canon v).
Proof. exact canon_same_value. Qed.
Print Assumptions C14_canon_is_the_same_value.

Theorem C14_stripped_number_has_the_same_value : forall n,
  (num_exp10 n <= num_exp10 (strip_num n))%Z /\
  num_mant n = (num_mant (strip_num n) * 10 ^ (num_exp10 (strip_num n) - num_exp10 n))%Z.
Proof. exact strip_num_value. Qed.
Print Assumptions C14_stripped_number_has_the_same_value.

(* two values with the same text are the same value *)
Theorem C14_injective : forall indent v1 v2, wf v1 = true -> wf v2 = true ->
  encode indent v1 = encode indent v2 -> canon v1 = canon v2.
Proof. exact encode_injective. Qed.
Print Assumptions C14_injective.

(* the text is exactly the layout of canon v: the clean-up pass changes nothing but the dropped fractions *)
Theorem C14_text_is_layout_of_canon : forall indent v, wf v = true ->
  encode indent v = render (norm_indent indent) 0 (canon v).
Proof. exact encode_is_render_canon. Qed.
Print Assumptions C14_text_is_layout_of_canon.

(* object keys in sorted (code point) order at every object; no all-zero fraction is left on any number *)
Theorem C14_keys_sorted : forall v, all_sorted (canon v) = true.
Proof. exact canon_sorted. Qed.
Print Assumptions C14_keys_sorted.
Theorem C14_integral_no_fraction : forall v, no_zero_fraction (canon v) = true.
Proof. exact canon_no_zero_fraction. Qed.
Print Assumptions C14_integral_no_fraction.

(* no character of any string is altered: the escaping is inverted by the string reader (all scalar strings,
   whatever follows), the clean-up pass copies ANY escaped string token unchanged (no hypothesis on s:
   points, zeros, commas, brackets, quotes, backslashes inside do not matter), the token is printable ASCII *)
Theorem C14_string_escape_roundtrip : forall s rest, scalar_str s = true ->
  parse_string (esc_body s ++ 34%N :: rest) = Some (s, rest).
Proof. exact parse_esc_body. Qed.
Print Assumptions C14_string_escape_roundtrip.
Theorem C14_strings_untouched : forall s r, cleanup (esc_string s ++ r) = esc_string s ++ cleanup r.
Proof. exact scan_string. Qed.
Print Assumptions C14_strings_untouched.
Theorem C14_escape_is_printable_ascii : forall s, forallb printable (esc_body s) = true.
Proof. exact esc_body_printable. Qed.
Print Assumptions C14_escape_is_printable_ascii.

(* the pass strips exactly the all-zero fraction of a number token that is followed by , } ] newline or the end *)
Theorem C14_cleanup_on_number : forall n r, num_ok n = true -> look_ok r = true ->
  cleanup (num_text n ++ r) = num_text (strip_num n) ++ cleanup r.
Proof. exact scan_num. Qed.
Print Assumptions C14_cleanup_on_number.

(* ---- the same theorems about [encode_re] / [cleanup_re]: the pass RUN BY THE ENGINE on the regenerated regex ---- *)
Theorem C14_roundtrip_re : forall indent v, wf v = true -> exists t, encode_re indent v = Some t /\ decode t = DecOk (canon v).
Proof. exact roundtrip_re. Qed.
Print Assumptions C14_roundtrip_re.
Theorem C14_injective_re : forall indent v1 v2, wf v1 = true -> wf v2 = true ->
  encode_re indent v1 = encode_re indent v2 -> canon v1 = canon v2.
Proof. exact encode_re_injective. Qed.
Print Assumptions C14_injective_re.
Theorem C14_text_is_layout_of_canon_re : forall indent v, wf v = true ->
  encode_re indent v = Some (render (norm_indent indent) 0 (canon v)).
Proof. exact encode_re_is_render_canon. Qed.
Print Assumptions C14_text_is_layout_of_canon_re.
Theorem C14_strings_untouched_re : forall s r,
  exists t, cleanup_re r = Some t /\ cleanup_re (esc_string s ++ r) = Some (esc_string s ++ t).
Proof. exact cleanup_re_string. Qed.
Print Assumptions C14_strings_untouched_re.
Theorem C14_cleanup_on_number_re : forall n r, num_ok n = true -> look_ok r = true ->
  exists t, cleanup_re r = Some t /\ cleanup_re (num_text n ++ r) = Some (num_text (strip_num n) ++ t).
Proof. exact cleanup_re_num. Qed.
Print Assumptions C14_cleanup_on_number_re.

(* the guard is needed: two adjacent surrogate code points (not a Unicode string; constructible with
   stringFromCharCode(55357, 56832)) encode like the single astral character and cannot come back *)
Theorem C14_surrogate_pair_refuted :
  wf (JStr [55357; 56832]%N) = false /\
  decode (encode None (JStr [55357; 56832]%N)) = DecOk (JStr [128512%N]).
Proof. exact surrogate_pair_witness. Qed.
Print Assumptions C14_surrogate_pair_refuted.

(* non-vacuity: a nested value with every kind of member satisfies wf, and the statement evaluates *)
Theorem C14_nonvacuous :
  wf nonvac_value = true /\ decode (encode (Some 3%nat) nonvac_value) = DecOk (canon nonvac_value)
  /\ jvalue_eqb (canon nonvac_value) nonvac_value = false /\ encode None nonvac_value = nonvac_text.
Proof. exact nonvacuous. Qed.
Print Assumptions C14_nonvacuous.
