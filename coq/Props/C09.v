(* Props/C09.v — C09: the statement budget is exact, complete and monotone.
   Only statements and `exact`; proofs in Proofs/C09.v.  The theorems hold for EVERY program, every initial world, every
   URL resolver / lint renderer and every library that satisfies the two stated PREMISES (visible hypotheses, not axioms):
     lib_monotone : the library changes options['statementCount'] only through the callbacks it is handed;
     lib_lockstep : handed callbacks that run in lock step, the library stays in lock step and passes a budget error on.
   Both are proved for the modelled library functions (non-vacuity).  On the code side they are what fix F13 (data
   helpers copy the count back) and the seeded mutant C09-m2 (arraySort swallowing the budget error) are about; the
   correspondence and the direct oracle exercise them on the real library. *)
From Coq Require Import ZArith.
From BS Require Import Model.Base Model.Num Model.Arith Model.ExprParser Model.Script Model.Interp Model.LibCore Model.LibAll Proofs.C09 Proofs.LibAll.
Local Open Scope Z_scope.

(* EXACT (1): the limit is tested at the head of every statement, after counting it: with L statements started, statement
   L+1 is not run - the run is aborted with exactly the budget error *)
Theorem C09_abort_exactly_at_limit : forall lib url_rel lint_lines cfg fuel code pc cache loc um w st,
  nth_error code pc = Some st -> 0 < c_max cfg -> c_max cfg <= w_count w ->
  exec cfg lib url_rel lint_lines (S fuel) code pc cache loc um w =
  (ORt (msg_exceeded (c_max cfg)), loc, upd_count w (w_count w + 1)).
Proof. exact abort_exactly_at_limit. Qed.
Print Assumptions C09_abort_exactly_at_limit.

(* COMPLETE: every statement that starts is counted, wherever it runs (top level, script functions however invoked,
   included scripts), and the counter never goes down *)
Theorem C09_every_started_statement_counts : forall lib url_rel lint_lines, lib_monotone lib ->
  forall cfg fuel code pc cache loc um w st,
  nth_error code pc = Some st ->
  w_count w + 1 <= w_count (snd (exec cfg lib url_rel lint_lines (S fuel) code pc cache loc um w)).
Proof. exact statement_start_counts_one. Qed.
Print Assumptions C09_every_started_statement_counts.

Theorem C09_count_monotone : forall lib url_rel lint_lines, lib_monotone lib ->
  forall cfg fuel code pc cache loc um w,
  w_count w <= w_count (snd (exec cfg lib url_rel lint_lines fuel code pc cache loc um w)).
Proof. exact count_monotone_exec. Qed.
Print Assumptions C09_count_monotone.

(* EXACT (2) + PREFIX: under a limit L the run is in lock step with the unlimited run until it is aborted: either both give
   the same result, log, globals and count, or the limited run ends with exactly the budget error and the unlimited run
   goes on to start more than L statements.  Nothing else can happen. *)
Theorem C09_limited_run_agrees_or_is_aborted : forall lib url_rel lint_lines, lib_monotone lib ->
  forall cfg, 0 < c_max cfg -> lib_lockstep lib cfg ->
  forall fuel sc w,
  let r1 := execute_script cfg lib url_rel lint_lines fuel sc w in
  let r0 := execute_script (unlimited cfg) lib url_rel lint_lines fuel sc w in
  r1 = r0 \/ (fst r1 = ORt (msg_exceeded (c_max cfg)) /\ c_max cfg < w_count (snd r0)).
Proof. exact limited_run_agrees_or_is_aborted. Qed.
Print Assumptions C09_limited_run_agrees_or_is_aborted.

(* MONOTONE: a run that completes after N statements behaves identically under every limit L >= N *)
Theorem C09_limit_at_or_above_N_is_invisible : forall lib url_rel lint_lines, lib_monotone lib ->
  forall cfg, 0 < c_max cfg -> lib_lockstep lib cfg ->
  forall fuel sc w o w',
  execute_script (unlimited cfg) lib url_rel lint_lines fuel sc w = (o, w') ->
  w_count w' <= c_max cfg ->
  execute_script cfg lib url_rel lint_lines fuel sc w = (o, w').
Proof. exact limit_above_N_is_invisible. Qed.
Print Assumptions C09_limit_at_or_above_N_is_invisible.

(* non-vacuity: the modelled library functions satisfy both premises *)
Theorem C09_premises_hold_for_modelled_library : forall cfg, lib_monotone (libcore cfg) /\ lib_lockstep (libcore cfg) cfg.
Proof. intros cfg. split; [exact (libcore_monotone cfg)|exact (libcore_lockstep cfg)]. Qed.
Print Assumptions C09_premises_hold_for_modelled_library.

Theorem C09_premises_hold_for_combined_library : forall cfg, lib_monotone (libfull cfg) /\ lib_lockstep (libfull cfg) cfg.
Proof. intros cfg. split; [exact (libfull_monotone cfg)|exact (libfull_lockstep cfg)]. Qed.
Print Assumptions C09_premises_hold_for_combined_library.

(* "no script runs forever": with a positive limit the counter bounds the number of statements that start
   (C09_abort_exactly_at_limit + C09_every_started_statement_counts); that the FUEL of the model run then always suffices
   (a measure over the remaining budget and the expression size) is NOT proved here - C09_terminates is the partial clause. *)
