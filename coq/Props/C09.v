(* Props/C09.v — C09: the statement budget is exact, complete and monotone.
   Only statements and `exact`; proofs in Proofs/C09.v.  The theorems hold for EVERY program, every initial world, every
   URL resolver / lint renderer and every library that satisfies the two stated PREMISES (visible hypotheses, not axioms):
     lib_monotone : the library changes options['statementCount'] only through the callbacks it is handed;
     lib_lockstep : handed callbacks that run in lock step, the library stays in lock step and passes a budget error on.
   Both are proved for the modelled library functions (non-vacuity).  On the code side they are what fix F13 (data
   helpers copy the count back) and the seeded mutant C09-m2 (arraySort swallowing the budget error) are about; the
   correspondence and the direct oracle exercise them on the real library. *)
From Coq Require Import ZArith List Lia.
From BS Require Import Model.Base Model.Num Model.Arith Model.ExprParser Model.Script Model.Interp Model.LibCore Model.LibAll Model.LibPartial Model.Run Proofs.C09 Proofs.LibAll Proofs.LibPartial Proofs.C09term Proofs.C09termLib.
From BS Require Import Proofs.C09termFull Proofs.C09termG Proofs.C09termFullG Proofs.C09termClosure.
From BS Require Import Model.LibMore Model.LibCall Model.LibLift Proofs.C09clInv Proofs.C09clLib Proofs.C09clSim Proofs.C09clTower Proofs.C09clMore Proofs.C09clSeq Proofs.C09clEnc Proofs.C09clMain.
Local Open Scope Z_scope.

(* EXACT (1): the limit is tested at the head of every statement, after counting it: with L statements started, statement
   L+1 is not run - the run is aborted with exactly the budget error *)
Theorem C09_abort_exactly_at_limit : forall lib url_rel lint_lines cfg fuel code pc cache loc um w st,
  nth_error code pc = Some st -> 0 < c_max cfg -> c_max cfg <= w_count w ->
  exec cfg lib url_rel lint_lines (S fuel) code pc cache loc um w =
  (ORt (msg_exceeded (c_max cfg)), loc, upd_count w (w_count w + 1)).
Proof. exact abort_exactly_at_limit. Qed.
Print Assumptions C09_abort_exactly_at_limit.

(* COMPLETE: every statement that starts is counted, wherever it runs (top level, script functions however invoked,
   included scripts), and the counter never goes down *)
Theorem C09_every_started_statement_counts : forall lib url_rel lint_lines, lib_monotone lib ->
  forall cfg fuel code pc cache loc um w st,
  nth_error code pc = Some st ->
  w_count w + 1 <= w_count (snd (exec cfg lib url_rel lint_lines (S fuel) code pc cache loc um w)).
Proof. exact statement_start_counts_one. Qed.
Print Assumptions C09_every_started_statement_counts.

Theorem C09_count_monotone : forall lib url_rel lint_lines, lib_monotone lib ->
  forall cfg fuel code pc cache loc um w,
  w_count w <= w_count (snd (exec cfg lib url_rel lint_lines fuel code pc cache loc um w)).
Proof. exact count_monotone_exec. Qed.
Print Assumptions C09_count_monotone.

(* EXACT (2) + PREFIX: under a limit L the run is in lock step with the unlimited run until it is aborted: either both give
   the same result, log, globals and count, or the limited run ends with exactly the budget error and the unlimited run
   goes on to start more than L statements.  Nothing else can happen. *)
Theorem C09_limited_run_agrees_or_is_aborted : forall lib url_rel lint_lines, lib_monotone lib ->
  forall cfg, 0 < c_max cfg -> lib_lockstep lib cfg ->
  forall fuel sc w,
  let r1 := execute_script cfg lib url_rel lint_lines fuel sc w in
  let r0 := execute_script (unlimited cfg) lib url_rel lint_lines fuel sc w in
  r1 = r0 \/ (fst r1 = ORt (msg_exceeded (c_max cfg)) /\ c_max cfg < w_count (snd r0)).
Proof. exact limited_run_agrees_or_is_aborted. Qed.
Print Assumptions C09_limited_run_agrees_or_is_aborted.

(* MONOTONE: a run that completes after N statements behaves identically under every limit L >= N *)
Theorem C09_limit_at_or_above_N_is_invisible : forall lib url_rel lint_lines, lib_monotone lib ->
  forall cfg, 0 < c_max cfg -> lib_lockstep lib cfg ->
  forall fuel sc w o w',
  execute_script (unlimited cfg) lib url_rel lint_lines fuel sc w = (o, w') ->
  w_count w' <= c_max cfg ->
  execute_script cfg lib url_rel lint_lines fuel sc w = (o, w').
Proof. exact limit_above_N_is_invisible. Qed.
Print Assumptions C09_limit_at_or_above_N_is_invisible.

(* non-vacuity: the modelled library functions satisfy both premises *)
Theorem C09_premises_hold_for_modelled_library : forall cfg, lib_monotone (libcore cfg) /\ lib_lockstep (libcore cfg) cfg.
Proof. intros cfg. split; [exact (libcore_monotone cfg)|exact (libcore_lockstep cfg)]. Qed.
Print Assumptions C09_premises_hold_for_modelled_library.

Theorem C09_premises_hold_for_combined_library : forall cfg, lib_monotone (libfull2 cfg) /\ lib_lockstep (libfull2 cfg) cfg.
Proof. intros cfg. split; [exact (libfull2_monotone cfg)|exact (libfull2_lockstep cfg)]. Qed.
Print Assumptions C09_premises_hold_for_combined_library.

(* ======================= "... so no script can run forever" =======================
   FULL statement as designed (DESIGN.md, C09_terminates) - kept visible:
       forall cfg lib url_rel lint_lines, 0 < c_max cfg -> (premises on lib) ->
       forall sc w, exists fuel, fst (execute_script cfg lib url_rel lint_lines fuel sc w) <> OFuel.
   It is not what is proved, because OFuel is also the model's way of DECLINING inside a library function (LFuel: e.g. the fuelled
   deep equality of the lifted arrayIndexOf on a value that contains itself) and inside the parser model (RFuel; dead by C06_total):
   for an arbitrary library the shape is false.  (Until the repair F29 the comparison operators themselves were such a source:
   `a = arrayNew() ; arrayPush(a, a) ; return a == a` raised RecursionError out of execute_script, which the model reported as OFuel
   for every fuel; the operator handler now contains it and the model answers null - C09_example_cyclic_compare_is_null below.)

   What is proved: the recursion of the interpreter never runs out.  The tower eval/call/exec is taken with its depth-0 answer
   as a parameter `bot` (Proofs/C09term.v evalB/callB/execB, execute_script_bot: a copy of the model's tower that answers `bot`
   where the model answers OFuel at fuel 0; with bot = OFuel it IS the model's tower, C09_bot_OFuel_is_the_model, by reflexivity).
   Under a positive limit, for every program and initial world there is a fuel from which on the answer is the same for every
   fuel AND every `bot`: the depth-0 case was never consulted, the run terminated.  (An endless loop answers `bot`, so it is
   excluded; plain "the answer settles" would not exclude it.)  Includes are covered (any c_fetch).

   PARTIAL in this respect only - premise lib_ranked: library functions carry ranks and a library function's answer depends
   on its callback only at script functions, non-functions and library functions of LOWER rank.  The real library lets any
   function value be passed, also e.g. arraySort(a, arraySort) or arraySort's compare function being arrayFind-like again of the
   same rank (a callback-taking library function called back by a callback-taking library function): such statement-free
   recursion through the library is cut by Python's RecursionError, not by the statement budget, and the model has no
   outcome for it.  Premise lib_terminates is the expected one (handed callbacks that terminate, a library function
   terminates).  Both hold for the modelled library (C09_termination_premises_hold_for_modelled_library). *)

(* the premise lib_terminates, spelled out *)
Theorem C09_lib_terminates_spelled : forall lib,
  lib_terminates lib <->
  (forall (J : Type) (c : Z) (cb : J -> nat -> caller),
     (forall fv a w, c <= w_count w ->
        exists r, (exists f0 : nat, forall j f, (f0 <= f)%nat -> cb j f fv a w = r) /\ w_count w <= w_count (snd r)) ->
     forall name args w, c <= w_count w ->
        exists r, (exists f0 : nat, forall j f, (f0 <= f)%nat -> lib (cb j f) name args w = r) /\ w_count w <= w_count (snd r)).
Proof. intros lib. split; intros H; exact H. Qed.
Print Assumptions C09_lib_terminates_spelled.

(* the premise lib_ranked, spelled out *)
Theorem C09_lib_ranked_spelled : forall lib rank,
  lib_ranked lib rank <->
  (forall name (cb cb' : caller),
     (forall fv a w, match fv with VFun (FLib nm) => (rank nm < rank name)%nat | _ => True end -> cb fv a w = cb' fv a w) ->
     forall args w, lib cb name args w = lib cb' name args w).
Proof. intros lib rank. split; intros H; exact H. Qed.
Print Assumptions C09_lib_ranked_spelled.

Theorem C09_bot_OFuel_is_the_model : forall cfg lib url_rel lint_lines,
  execute_script_bot cfg lib url_rel lint_lines OFuel = execute_script cfg lib url_rel lint_lines /\
  evalB cfg lib url_rel lint_lines OFuel = eval cfg lib url_rel lint_lines /\
  callB cfg lib url_rel lint_lines OFuel = call cfg lib url_rel lint_lines /\
  execB cfg lib url_rel lint_lines OFuel = exec cfg lib url_rel lint_lines.
Proof. intros. repeat split. Qed.
Print Assumptions C09_bot_OFuel_is_the_model.

(* THE CLAUSE *)
Theorem C09_terminates_partial : forall cfg lib url_rel lint_lines,
  0 < c_max cfg -> lib_terminates lib -> forall rank, lib_ranked lib rank ->
  forall sc w, exists fuel r, forall bot fuel', (fuel <= fuel')%nat ->
    execute_script_bot cfg lib url_rel lint_lines bot fuel' sc w = r.
Proof. exact terminates. Qed.
Print Assumptions C09_terminates_partial.

(* ... the same for every statement list / expression / function call, in any state (locals, label cache, urlFn mode) *)
Theorem C09_every_exec_terminates_partial : forall cfg lib url_rel lint_lines,
  0 < c_max cfg -> lib_terminates lib -> forall rank, lib_ranked lib rank ->
  forall code pc cache loc um w, exists fuel r, forall bot fuel', (fuel <= fuel')%nat ->
    execB cfg lib url_rel lint_lines bot fuel' code pc cache loc um w = r.
Proof. exact exec_terminates_bot. Qed.
Print Assumptions C09_every_exec_terminates_partial.

Theorem C09_every_eval_terminates_partial : forall cfg lib url_rel lint_lines,
  0 < c_max cfg -> lib_terminates lib -> forall rank, lib_ranked lib rank ->
  forall e loc bi um w, exists fuel r, forall bot fuel', (fuel <= fuel')%nat ->
    evalB cfg lib url_rel lint_lines bot fuel' e loc bi um w = r.
Proof. exact eval_terminates_bot. Qed.
Print Assumptions C09_every_eval_terminates_partial.

Theorem C09_every_call_terminates_partial : forall cfg lib url_rel lint_lines,
  0 < c_max cfg -> lib_terminates lib -> forall rank, lib_ranked lib rank ->
  forall fv a um w, exists fuel r, forall bot fuel', (fuel <= fuel')%nat ->
    callB cfg lib url_rel lint_lines bot fuel' fv a um w = r.
Proof. exact call_terminates_bot. Qed.
Print Assumptions C09_every_call_terminates_partial.

(* consequences for the model's own run (bot = OFuel): at enough fuel its answer is the answer of every other tower ... *)
Theorem C09_answer_never_from_fuel_partial : forall cfg lib url_rel lint_lines,
  0 < c_max cfg -> lib_terminates lib -> forall rank, lib_ranked lib rank ->
  forall sc w, exists fuel, forall fuel', (fuel <= fuel')%nat -> forall bot,
    execute_script_bot cfg lib url_rel lint_lines bot fuel' sc w = execute_script cfg lib url_rel lint_lines fuel' sc w.
Proof. exact answer_never_from_fuel. Qed.
Print Assumptions C09_answer_never_from_fuel_partial.

(* ... it no longer depends on the fuel (the plain form, weaker) ... *)
Theorem C09_settles_partial : forall cfg lib url_rel lint_lines,
  0 < c_max cfg -> lib_terminates lib -> forall rank, lib_ranked lib rank ->
  forall sc w, exists fuel, forall fuel', (fuel <= fuel')%nat ->
    execute_script cfg lib url_rel lint_lines fuel' sc w = execute_script cfg lib url_rel lint_lines fuel sc w.
Proof. exact settles. Qed.
Print Assumptions C09_settles_partial.

(* ... and the designed conclusion holds unless OFuel is the run's proper answer (given by every tower: a leaf's own fuel) *)
Theorem C09_answers_or_declines_partial : forall cfg lib url_rel lint_lines,
  0 < c_max cfg -> lib_terminates lib -> forall rank, lib_ranked lib rank ->
  forall sc w,
  (exists fuel, fst (execute_script cfg lib url_rel lint_lines fuel sc w) <> OFuel) \/
  (exists fuel, forall bot fuel', (fuel <= fuel')%nat -> fst (execute_script_bot cfg lib url_rel lint_lines bot fuel' sc w) = OFuel).
Proof. exact answers_or_declines. Qed.
Print Assumptions C09_answers_or_declines_partial.

(* non-vacuity: the modelled library functions satisfy both premises *)
Theorem C09_termination_premises_hold_for_modelled_library : forall cfg,
  lib_terminates (libcore cfg) /\ lib_ranked (libcore cfg) (fun _ => O).
Proof. intros cfg. split; [exact (libcore_terminates cfg)|exact (libcore_ranked cfg)]. Qed.
Print Assumptions C09_termination_premises_hold_for_modelled_library.

(* ... and so does a library with a function that DOES call back (Proofs/C09termLib.v libcb = libcore + `__each(array, f)`,
   which calls f(x) for each element, passes the first non-value outcome on and refuses itself as f; rank 1, all others 0) *)
Theorem C09_termination_premises_hold_for_a_library_with_callbacks : forall cfg,
  lib_terminates (libcb cfg) /\ lib_ranked (libcb cfg) rank_cb.
Proof. intros cfg. split; [exact (libcb_terminates cfg)|exact (libcb_ranked cfg)]. Qed.
Print Assumptions C09_termination_premises_hold_for_a_library_with_callbacks.

(* ======================= the library the checks run (Model/LibPartial.v libfull2) and the termination premises =======================
   libfull2 = LibCore + arraySort (calls its comparator back) + the lifted functions + systemPartial closures (calling one is one raw
   call of the bound function).
   (1) lib_terminates holds for it, with no restriction (Proofs/C09termFull.v). *)
Theorem C09_lib_terminates_holds_for_combined_library : forall cfg, lib_terminates (libfull2 cfg) /\ lib_terminates (libfull cfg).
Proof. intros cfg. split; [exact (libfull2_terminates cfg)|exact (libfull_terminates cfg)]. Qed.
Print Assumptions C09_lib_terminates_holds_for_combined_library.

(* (2) lib_ranked FAILS for it, whatever the ranks: arraySort's answer depends on what its callback does at arraySort *)
Theorem C09_lib_ranked_fails_for_combined_library : forall cfg rank,
  ~ lib_ranked (libfull2 cfg) rank /\ ~ lib_ranked (libfull cfg) rank.
Proof. intros cfg rank. split; [exact (libfull2_not_ranked cfg rank)|exact (libfull_not_ranked cfg rank)]. Qed.
Print Assumptions C09_lib_ranked_fails_for_combined_library.

(* (3) THE CLAUSE under a weaker premise (Proofs/C09termG.v).  Instead of a rank per NAME: a measure [mu] of the library CALL (name,
   arguments, world at the call) and a predicate [Post] every answer of a library function satisfies; a library call must terminate
   as soon as its callbacks terminate on non-library values and on library calls of SMALLER measure (answering within Post). *)
Theorem C09_lib_wf_spelled : forall lib mu Post,
  (lib_post lib Post <-> forall (cb : caller) name args w, Post name (wrap (lib cb name args w))) /\
  (lib_wf lib mu Post <->
   forall (J : Type) (c : Z) (cb : J -> nat -> caller) name args w, c <= w_count w ->
     (forall fv a' w', c <= w_count w' -> (forall nm, fv <> VFun (FLib nm)) ->
        exists r, (exists f0 : nat, forall j f, (f0 <= f)%nat -> cb j f fv a' w' = r) /\ w_count w' <= w_count (snd r)) ->
     (forall nm a' w', c <= w_count w' -> (mu nm a' w' < mu name args w)%nat ->
        exists r, (exists f0 : nat, forall j f, (f0 <= f)%nat -> cb j f (VFun (FLib nm)) a' w' = r) /\ w_count w' <= w_count (snd r) /\ Post nm r) ->
     exists r, (exists f0 : nat, forall j f, (f0 <= f)%nat -> lib (cb j f) name args w = r) /\ w_count w <= w_count (snd r)).
Proof. intros lib mu Post. split; split; intros H; exact H. Qed.
Print Assumptions C09_lib_wf_spelled.

Theorem C09_terminates_measured_partial : forall cfg lib url_rel lint_lines mu Post,
  0 < c_max cfg -> lib_post lib Post -> lib_wf lib mu Post ->
  forall sc w, exists fuel r, forall bot fuel', (fuel <= fuel')%nat ->
    execute_script_bot cfg lib url_rel lint_lines bot fuel' sc w = r.
Proof. exact terminatesG. Qed.
Print Assumptions C09_terminates_measured_partial.

Theorem C09_every_call_terminates_measured_partial : forall cfg lib url_rel lint_lines mu Post,
  0 < c_max cfg -> lib_post lib Post -> lib_wf lib mu Post ->
  forall fv a um w, exists fuel r, forall bot fuel', (fuel <= fuel')%nat ->
    callB cfg lib url_rel lint_lines bot fuel' fv a um w = r.
Proof. exact call_terminates_botG. Qed.
Print Assumptions C09_every_call_terminates_measured_partial.

(* it IS weaker: the two premises of C09_terminates_partial imply it (mu = the rank of the name, Post = True) *)
Theorem C09_ranked_premises_imply_measured : forall lib rank, lib_terminates lib -> lib_ranked lib rank ->
  lib_post lib (fun _ _ => True) /\ lib_wf lib (fun nm _ _ => rank nm) (fun _ _ => True).
Proof. exact lib_wf_of_ranked. Qed.
Print Assumptions C09_ranked_premises_imply_measured.

(* (4) libfull - everything of libfull2 but the closures - meets the weaker premise in EVERY world, arraySort handed arraySort (or any
   other function value) included: a sort whose comparator is arraySort makes ONE comparator call (the answer is an array, `array < 0`
   raises), and a list is empty while it is sorted, so each level of a nest takes one list of >= 2 elements out of the heap
   (Proofs/C09termFullG.v mu_sort, post_sort) *)
Theorem C09_combined_library_without_closures_meets_the_weaker_premise : forall cfg,
  lib_post (libfull cfg) post_sort /\ lib_wf (libfull cfg) mu_sort post_sort.
Proof. intros cfg. split; [exact (libfull_post cfg)|exact (libfull_wf cfg)]. Qed.
Print Assumptions C09_combined_library_without_closures_meets_the_weaker_premise.

(* ... so with libfull THE CLAUSE holds with no premise on the library left (cfg' = the library's own options record) *)
Theorem C09_terminates_combined_library_without_closures : forall cfg cfg' url_rel lint_lines,
  0 < c_max cfg ->
  forall sc w, exists fuel r, forall bot fuel', (fuel <= fuel')%nat ->
    execute_script_bot cfg (libfull cfg') url_rel lint_lines bot fuel' sc w = r.
Proof. exact libfull_run_terminates. Qed.
Print Assumptions C09_terminates_combined_library_without_closures.

(* (5) closures: over ARBITRARY worlds the clause is FALSE for libfull2.  In the world whose hidden array 0 holds its own closure
   (p = FLib [0; 0], heap [[p]], global p), `return p()` answers the depth-0 answer of the tower at every fuel.  No run from an empty
   heap builds that world (a closure's hidden array is allocated before the closure value exists and no script value refers to it),
   but the theorem quantifies over worlds; so for libfull2 the clause needs that invariant of reachable states, and no measure makes
   lib_wf true of libfull2 as it stands.  The clause for libfull2 from worlds that satisfy the reachability invariant: (7) below. *)
Theorem C09_closures_forged_world_refutes_the_clause :
  let cfg := mkcfg 10 false true in
  let p := VFun (FLib [0%N; 0%N]) in
  let w := upd_arrs (upd_globals (world0 []) [(U "p", p)]) [[p]] in
  ~ exists fuel r, forall bot fuel', (fuel <= fuel')%nat ->
      execute_script_bot cfg (libfull2 cfg) no_url no_lint bot fuel' [SReturn (Some (ECall (U "p") []))] w = r.
Proof. exact libfull2_forged_world_never_terminates. Qed.
Print Assumptions C09_closures_forged_world_refutes_the_clause.

Theorem C09_no_measure_for_closures_over_all_worlds : forall mu Post,
  ~ (lib_post (libfull2 (mkcfg 10 false true)) Post /\ lib_wf (libfull2 (mkcfg 10 false true)) mu Post).
Proof. exact libfull2_not_wf. Qed.
Print Assumptions C09_no_measure_for_closures_over_all_worlds.

(* (6) what the missing invariant buys (Proofs/C09termClosure.v).  [closure_ok w l]: the hidden array l has a head and at least one
   bound argument, and a head that is itself a closure has a SMALLER location - the shape systemPartial gives it.  [libfull2g] is
   libfull2 with that shape as a guard: calling a closure whose hidden array fails it is declined (LOracle).  Where the guard holds
   the two libraries are the same function; for libfull2g THE CLAUSE holds in every world with no premise on the library.  That the
   guard holds at every closure call of a run of libfull2 from a world without closure values is the invariant of (7) below. *)
Theorem C09_guarded_library_is_the_combined_library_where_the_guard_holds : forall cfg cb name args w,
  (forall l, partial_loc name = Some l -> closure_ok w l = true) -> libfull2g cfg cb name args w = libfull2 cfg cb name args w.
Proof. exact libfull2g_same. Qed.
Print Assumptions C09_guarded_library_is_the_combined_library_where_the_guard_holds.

Theorem C09_terminates_combined_library_with_guarded_closures : forall cfg cfg' url_rel lint_lines,
  0 < c_max cfg ->
  forall sc w, exists fuel r, forall bot fuel', (fuel <= fuel')%nat ->
    execute_script_bot cfg (libfull2g cfg') url_rel lint_lines bot fuel' sc w = r.
Proof. exact libfull2g_run_terminates. Qed.
Print Assumptions C09_terminates_combined_library_with_guarded_closures.

(* the hidden array systemPartial allocates passes the guard, provided a bound function that is a closure is one that exists already *)
Theorem C09_fresh_closure_passes_the_guard : forall args w v w1 l,
  lib_partial_new args w = (LVal v, w1) -> v = VFun (FLib (partial_name l)) ->
  (forall nm l', nth_error args 0 = Some (VFun (FLib nm)) -> partial_loc nm = Some l' -> (l' < length (w_arrs w))%nat) ->
  closure_ok w1 l = true.
Proof. exact partial_new_guard. Qed.
Print Assumptions C09_fresh_closure_passes_the_guard.

(* (7) THE REACHABILITY INVARIANT (Proofs/C09clInv.v) and the clause for libfull2 itself.
   [closures_wf w]: there is a set H of HIDDEN array locations such that
     * every l in H is an array of w of the shape systemPartial gives: head :: bound1 :: ..., and a head that is a closure is a
       closure of a SMALLER location (hence closure_ok w l, C09_invariant_gives_the_guard);
     * every value stored in w (globals, cells of ALL arrays - the hidden ones too -, cells of objects) is [val_ok H #arrays]:
         VArr l            : l < #arrays and l is NOT hidden  (no value names a hidden array; none dangles),
         VFun (FLib [0;l]) : l is hidden,
         VFun (FLib nm), nm no closure name : every code point of nm + 1 < 1114113 (what the lifting's numeral encoding of
                             function values needs to give the name back; a forged name [1114113 + l] would come back as the closure l).
   Both extra conditions are NEEDED: with a dangling `x = VArr 5` in the globals of an empty heap, the sixth array a script allocates
   by systemPartial is named by x, and arraySet(x, 0, <that closure>) builds the self-referential hidden array of (5).
   The invariant is inductive because no value names a hidden array, so no library function can be handed one to write into; from
   state to state H only grows, by fresh locations (Proofs/C09clInv.v ext), and every val_ok value stays val_ok (val_ok_mono) - that
   carries interpreter locals, argument lists in flight and the list arraySort is permuting. *)
Theorem C09_closures_wf_spelled : forall w,
  closures_wf w <->
  exists H : nat -> Prop,
    (forall l, H l -> exists f b bs, nth_error (w_arrs w) l = Some (f :: b :: bs) /\
                      forall nm l', f = VFun (FLib nm) -> partial_loc nm = Some l' -> (l' < l)%nat) /\
    Forall (fun p => val_ok H (length (w_arrs w)) (snd p)) (w_globals w) /\
    Forall (Forall (val_ok H (length (w_arrs w)))) (w_arrs w) /\
    Forall (Forall (fun p => val_ok H (length (w_arrs w)) (snd p))) (w_objs w).
Proof. intros w. split; intros X; exact X. Qed.
Print Assumptions C09_closures_wf_spelled.

Theorem C09_val_ok_spelled : forall (H : nat -> Prop) na v,
  val_ok H na v <->
  match v with
  | VArr l => (l < na)%nat /\ ~ H l
  | VFun (FLib nm) => match partial_loc nm with Some l => H l | None => Forall (fun c => (c + 1 < 1114113)%N) nm end
  | _ => True
  end.
Proof. intros H na v. destruct v; split; intros X; exact X. Qed.
Print Assumptions C09_val_ok_spelled.

(* (7.1) it holds of every world without closure values, dangling array references and ill-coded function names *)
Theorem C09_closure_free_worlds_are_wf : forall w,
  (let plain := fun v => match v with
                         | VArr l => (l < length (w_arrs w))%nat
                         | VFun (FLib nm) => partial_loc nm = None /\ Forall (fun c => (c + 1 < 1114113)%N) nm
                         | _ => True end in
   Forall (fun p => plain (snd p)) (w_globals w) /\ Forall (Forall plain) (w_arrs w) /\
   Forall (Forall (fun p => plain (snd p))) (w_objs w)) ->
  closures_wf w.
Proof. intros w X. exists (fun _ => False). apply closure_free_wf. exact X. Qed.
Print Assumptions C09_closure_free_worlds_are_wf.

Example C09_example_initial_worlds_are_wf :
  closures_wf (world0 []) /\
  closures_wf (upd_arrs (world0 [(U "a", VArr 0); (U "f", VFun (FLib (U "arraySort"))); (U "n", VNum (NInt 3))]) [[VStr (U "x"); VArr 0]]).
Proof.
  split; apply C09_closure_free_worlds_are_wf; cbn; repeat constructor; cbn; try lia.
Qed.

(* (7.2) the invariant gives the guard of (6) at every hidden location *)
Theorem C09_invariant_gives_the_guard : forall H w l, wf H w -> H l -> closure_ok w l = true.
Proof. exact wf_closure_ok. Qed.
Print Assumptions C09_invariant_gives_the_guard.

(* (7.3) library functions that do not call back PRESERVE it: a later hidden set H' (ext), a well-formed world, a well-formed answer.
   Proved for every function of LibCore (arrayPush / arraySet / objectSet / systemGlobalSet store argument values, which are
   well-formed; they cannot be handed a hidden array), for systemPartial (the fresh hidden array joins H) and for every function of
   LibMore (jsonParse allocates fresh arrays of plain values; the others answer numbers, strings, booleans, datetimes, null). *)
Theorem C09_invariant_preserved_by_the_core_library : forall cfg (cb : caller) H name args w,
  wf H w -> Forall (val_ok H (length (w_arrs w))) args ->
  let r := libcore cfg cb name args w in
  exists H', ext H (length (w_arrs w)) H' (length (w_arrs (snd r))) /\ wf H' (snd r) /\
             match fst r with LVal v | LArgs v _ => val_ok H' (length (w_arrs (snd r))) v | _ => True end.
Proof. intros cfg cb H name args w Hw Ha. exact (libcore_pres cfg cb H name args w Hw Ha). Qed.
Print Assumptions C09_invariant_preserved_by_the_core_library.

Theorem C09_invariant_preserved_by_systemPartial : forall H args w,
  wf H w -> Forall (val_ok H (length (w_arrs w))) args ->
  let r := lib_partial_new args w in
  exists H', ext H (length (w_arrs w)) H' (length (w_arrs (snd r))) /\ wf H' (snd r) /\
             match fst r with LVal v | LArgs v _ => val_ok H' (length (w_arrs (snd r))) v | _ => True end.
Proof. intros H args w Hw Ha. exact (partial_new_pres H args w Hw Ha). Qed.
Print Assumptions C09_invariant_preserved_by_systemPartial.

Theorem C09_invariant_preserved_by_the_further_library : forall cfg H name args w,
  wf H w -> Forall (val_ok H (length (w_arrs w))) args ->
  let r := libmore cfg name args w in
  exists H', ext H (length (w_arrs w)) H' (length (w_arrs (snd r))) /\ wf H' (snd r) /\
             match fst r with LVal v | LArgs v _ => val_ok H' (length (w_arrs (snd r))) v | _ => True end.
Proof. intros cfg H name args w Hw Ha. exact (libmore_pres cfg H name args w Hw Ha). Qed.
Print Assumptions C09_invariant_preserved_by_the_further_library.

(* (7.4) ... and so do the lifted LibSeq functions (Model/LibAll.v lift_seq: the ~37 array / object / string functions, run on LibSeq's
   single heap after a change of representation).  On LibSeq's side (Proofs/C09clSeqV.v) every function of Q.lib keeps well-formed
   cells well-formed, never writes a hidden position (it is never handed one), answers with an argument value, a stored value or a
   fresh cell; reading the heap back RE-ENCODES every array through of_v . to_v, the hidden ones too (Proofs/C09clSeq.v), and the
   numeral coding of function values gives a well-formed function reference back as itself - or, for a closure whose location does
   not fit one code point, as a sane name that is not a closure name (Proofs/C09clEnc.v fn_roundtrip_holds). *)
Theorem C09_invariant_preserved_by_the_lifted_library : forall cfg (H : nat -> Prop) name args w,
  wf H w -> Forall (val_ok H (length (w_arrs w))) args ->
  let r := lift_seq cfg name args w in
  exists H', ext H (length (w_arrs w)) H' (length (w_arrs (snd r))) /\ wf H' (snd r) /\
             match fst r with LVal v | LArgs v _ => val_ok H' (length (w_arrs (snd r))) v | _ => True end.
Proof. intros cfg H name args w Hw Ha. exact (lift_seq_pres_holds cfg H name args w Hw Ha). Qed.
Print Assumptions C09_invariant_preserved_by_the_lifted_library.

Theorem C09_function_value_coding_round_trip : forall fr,
  match fr with FLib nm => partial_loc nm <> None \/ Forall (fun c => (c + 1 < 1114113)%N) nm | FScript _ => True end ->
  dec_fn (enc_fn fr) = fr \/
  exists nm, dec_fn (enc_fn fr) = FLib nm /\ partial_loc nm = None /\ Forall (fun c => (c + 1 < 1114113)%N) nm.
Proof. exact fn_roundtrip_holds. Qed.
Print Assumptions C09_function_value_coding_round_trip.

(* (7.5) one library call, callbacks in step (the guarded tower answers ORt poison at depth 0, the unguarded one anything): under the
   invariant the guarded and the unguarded library give the same answer, well-formed again - or the guarded one passes the poison on.
   arraySort with any comparator: the list being permuted and the stop reason are carried along the growing hidden set
   (Proofs/C09clSim.v lib_sort_sim); the closure call: the guard holds by the invariant (partial_call_sim). *)
Theorem C09_combined_library_in_step_with_guarded :
  forall poison cfg cbT cbU,
  (forall H fv a w, wf H w -> val_ok H (length (w_arrs w)) fv -> Forall (val_ok H (length (w_arrs w))) a ->
     fst (cbT fv a w) = ORt poison \/
     (cbU fv a w = cbT fv a w /\
      exists H', ext H (length (w_arrs w)) H' (length (w_arrs (snd (cbT fv a w)))) /\ wf H' (snd (cbT fv a w)) /\
                 match fst (cbT fv a w) with OVal v | OExc v _ => val_ok H' (length (w_arrs (snd (cbT fv a w)))) v | _ => True end)) ->
  forall H name args w, wf H w -> val_ok H (length (w_arrs w)) (VFun (FLib name)) -> Forall (val_ok H (length (w_arrs w))) args ->
  let rT := libfull2g cfg cbT name args w in
  fst rT = LRt poison \/
  (libfull2 cfg cbU name args w = rT /\
   exists H', ext H (length (w_arrs w)) H' (length (w_arrs (snd rT))) /\ wf H' (snd rT) /\
              match fst rT with LVal v | LArgs v _ => val_ok H' (length (w_arrs (snd rT))) v | _ => True end).
Proof.
  intros poison cfg cbT cbU Hcb H name args w Hw Hn Ha.
  exact (libfull2_in_step poison cfg cbT cbU Hcb H name args w Hw Hn Ha).
Qed.
Print Assumptions C09_combined_library_in_step_with_guarded.

(* (7.6) THE CLAUSE for the combined library libfull2, NO premise on the library: from every world that satisfies the invariant - in
   particular from every world without closure values, dangling array references and ill-coded function names (7.1) - every run
   under a positive statement limit terminates (the answer is the same from some fuel on, whatever the fuel and whatever the tower
   answers at depth 0), and the final world satisfies the invariant again.  The invariant is preserved by eval / call / exec
   (Proofs/C09clTower.v, one lemma per body function, locals and argument lists in flight carried by val_ok_mono) given (7.3)-(7.5).
   Method: by induction on the fuel, from every well-formed state, "the guarded tower's answer is ORt poison, or both towers answer the
   same and well-formed again"; poison passes through every construct unchanged; at a fuel where the guarded run (6) has settled to
   an answer independent of its depth-0 answer, a poison different from that answer excludes the first case. *)
Theorem C09_terminates_combined_library : forall cfg cfg' url_rel lint_lines, 0 < c_max cfg ->
  forall sc w, closures_wf w ->
  exists fuel r, (forall bot fuel', (fuel <= fuel')%nat ->
                    execute_script_bot cfg (libfull2 cfg') url_rel lint_lines bot fuel' sc w = r) /\
                 closures_wf (snd r).
Proof. exact libfull2_run_terminates. Qed.
Print Assumptions C09_terminates_combined_library.

(* non-vacuity: every program, started in the empty world (execute_script injects the library's function values itself) *)
Example C09_example_every_program_from_the_empty_world : forall cfg sc, 0 < c_max cfg ->
  exists fuel r, (forall bot fuel', (fuel <= fuel')%nat ->
                    execute_script_bot cfg (libfull2 cfg) no_url no_lint bot fuel' sc (world0 []) = r) /\
                 closures_wf (snd r).
Proof.
  intros cfg sc Hpos. apply (C09_terminates_combined_library cfg cfg no_url no_lint Hpos sc (world0 [])).
  apply C09_example_initial_worlds_are_wf.
Qed.

(* ... and that run IS the run with the guarded library of (6) *)
Theorem C09_combined_library_run_is_the_guarded_run : forall cfg cfg' url_rel lint_lines, 0 < c_max cfg ->
  forall sc w, closures_wf w ->
  exists fuel, forall bot fuel', (fuel <= fuel')%nat ->
    execute_script_bot cfg (libfull2 cfg') url_rel lint_lines bot fuel' sc w =
    execute_script_bot cfg (libfull2g cfg') url_rel lint_lines bot fuel' sc w.
Proof. exact libfull2_run_is_guarded_run. Qed.
Print Assumptions C09_combined_library_run_is_the_guarded_run.

(* the forged world of (5) is exactly what the invariant excludes: its hidden array 0 would have to hold a closure of a smaller location *)
Theorem C09_forged_world_is_not_wf :
  let p := VFun (FLib [0%N; 0%N]) in
  ~ closures_wf (upd_arrs (upd_globals (world0 []) [(U "p", p)]) [[p]]).
Proof.
  intros p [H (A & B & _)]. cbn in B. apply Forall_cons_iff in B. destruct B as [B _]. cbn in B.
  destruct (A 0%nat B) as (f & b & bs & E & _). cbn in E. discriminate E.
Qed.
Print Assumptions C09_forged_world_is_not_wf.

(* closures at work under maxStatements = 20: a closure of a closure over arraySort, called with a script comparator that logs
     function cmp(a, b): systemLog('c'); return b - a endfunction
     a = arrayNew(1, 2, 3)   p = systemPartial(arraySort, a)   q = systemPartial(systemPartial, p)   r = q(cmp)   r()   return arrayGet(a, 0)
   -> 3, logged twice, 11 statements; the guarded and the unguarded library agree, for every fuel >= 30 and every tower *)
Example C09_example_closures : forall bot fuel,
  let cfg := mkcfg 20 false true in
  let prog := [ SFunction (U "cmp") (Some [U "a"; U "b"]) false false
                  [SExpr None (ECall (U "systemLog") [EStr (U "c")]); SReturn (Some (EBin (U "-") (EVar (U "b")) (EVar (U "a"))))];
                SExpr (Some (U "a")) (ECall (U "arrayNew") [ENum (NInt 1); ENum (NInt 2); ENum (NInt 3)]);
                SExpr (Some (U "p")) (ECall (U "systemPartial") [EVar (U "arraySort"); EVar (U "a")]);
                SExpr (Some (U "q")) (ECall (U "systemPartial") [EVar (U "systemPartial"); EVar (U "p")]);
                SExpr (Some (U "r")) (ECall (U "q") [EVar (U "cmp")]);
                SExpr None (ECall (U "r") []);
                SReturn (Some (ECall (U "arrayGet") [EVar (U "a"); ENum (NInt 0)])) ] in
  let r1 := execute_script_bot cfg (libfull2g cfg) no_url no_lint bot (30 + fuel) prog (world0 []) in
  let r2 := execute_script_bot cfg (libfull2 cfg) no_url no_lint bot (30 + fuel) prog (world0 []) in
  r1 = r2 /\ fst r1 = OVal (VNum (NInt 3)) /\ w_log (snd r1) = [U "c"; U "c"] /\ w_count (snd r1) = 11.
Proof. intros bot fuel. vm_compute. repeat split. Qed.

(* the nest at work (maxStatements = 10, libfull2):  b = arrayNew(3, 1, 2)   a = arrayNew(arraySort, b)   return arraySort(a, arraySort)
   -> the outer sort's first comparison is arraySort(b, arraySort), whose first comparison arraySort(1, 3) fails on its arguments; the
   failure passes through both sorts to the call handler: null, 3 statements, both lists as they were (the implementation: the same) *)
Example C09_example_sort_handed_sort : forall bot fuel,
  let cfg := mkcfg 10 false true in
  let r := execute_script_bot cfg (libfull2 cfg) no_url no_lint bot (20 + fuel)
             [ SExpr (Some (U "b")) (ECall (U "arrayNew") [ENum (NInt 3); ENum (NInt 1); ENum (NInt 2)]);
               SExpr (Some (U "a")) (ECall (U "arrayNew") [EVar (U "arraySort"); EVar (U "b")]);
               SReturn (Some (ECall (U "arraySort") [EVar (U "a"); EVar (U "arraySort")])) ] (world0 []) in
  fst r = OVal VNull /\ w_count (snd r) = 3 /\
  w_arrs (snd r) = [[VNum (NInt 3); VNum (NInt 1); VNum (NInt 2)]; [VFun (FLib (U "arraySort")); VArr 0]].
Proof. exact nest_example. Qed.

(* under maxStatements = 10, with `__each` bound in the globals:
     function g(x): systemLog('g') endfunction   return __each(arrayNew(1, 2), g)   -> logs g, g; 4 statements
     function h(x): L: jump L endfunction        return __each(arrayNew(1, 2), h)   -> the budget error comes out of the library *)
Example C09_example_callbacks_through_the_library : forall bot fuel,
  let cfg := mkcfg 10 false true in
  let w := upd_globals (world0 []) [(U "__each", VFun (FLib (U "__each")))] in
  let arr := ECall (U "arrayNew") [ENum (NInt 1); ENum (NInt 2)] in
  let r1 := execute_script_bot cfg (libcb cfg) no_url no_lint bot (20 + fuel)
              [ SFunction (U "g") (Some [U "x"]) false false [SExpr None (ECall (U "systemLog") [EStr (U "g")])];
                SReturn (Some (ECall (U "__each") [arr; EVar (U "g")])) ] w in
  let r2 := execute_script_bot cfg (libcb cfg) no_url no_lint bot (40 + fuel)
              [ SFunction (U "h") (Some [U "x"]) false false [SLabel (U "L"); SJump (U "L") None];
                SReturn (Some (ECall (U "__each") [arr; EVar (U "h")])) ] w in
  (fst r1 = OVal VNull /\ w_log (snd r1) = [U "g"; U "g"] /\ w_count (snd r1) = 4) /\
  (fst r2 = ORt (msg_exceeded 10) /\ w_count (snd r2) = 11).
Proof. exact each_examples. Qed.

(* non-vacuity / the budget at work: `L: jump L` (while true) and `function f(): return f() endfunction  return f()` under
   maxStatements = 10 stop with the budget error after 11 statement starts, for every fuel from a bound on and every bot *)
Example C09_example_while_true_stops : forall bot fuel,
  let r := execute_script_bot (mkcfg 10 false true) (libcore (mkcfg 10 false true)) no_url no_lint bot (12 + fuel)
             [SLabel (U "L"); SJump (U "L") None] (world0 []) in
  fst r = ORt (msg_exceeded 10) /\ w_count (snd r) = 11.
Proof. exact loop_stops. Qed.

Example C09_example_unbounded_recursion_stops : forall bot fuel,
  let r := execute_script_bot (mkcfg 10 false true) (libcore (mkcfg 10 false true)) no_url no_lint bot (40 + fuel)
             [ SFunction (U "f") (Some []) false false [SReturn (Some (ECall (U "f") []))];
               SReturn (Some (ECall (U "f") [])) ] (world0 []) in
  fst r = ORt (msg_exceeded 10) /\ w_count (snd r) = 11.
Proof. exact rec_stops. Qed.

(* comparing a value that contains itself: null (the RecursionError is contained, F29), whatever the fuel beyond 6 and the tower *)
Example C09_example_cyclic_compare_is_null : forall bot fuel,
  fst (execute_script_bot (mkcfg 100 false true) (libcore (mkcfg 100 false true)) no_url no_lint bot (6 + fuel)
     [ SExpr (Some (U "a")) (ECall (U "arrayNew") []);
       SExpr None (ECall (U "arrayPush") [EVar (U "a"); EVar (U "a")]);
       SReturn (Some (EBin (U "==") (EVar (U "a")) (EVar (U "a")))) ] (world0 [])) = OVal VNull.
Proof. intros bot fuel. vm_compute. reflexivity. Qed.
