(* Props/C09.v — C09: the statement budget is exact, complete and monotone.
   Only statements and `exact`; proofs in Proofs/C09.v.  The theorems hold for EVERY program, every initial world, every
   URL resolver / lint renderer and every library that satisfies the two stated PREMISES (visible hypotheses, not axioms):
     lib_monotone : the library changes options['statementCount'] only through the callbacks it is handed;
     lib_lockstep : handed callbacks that run in lock step, the library stays in lock step and passes a budget error on.
   Both are proved for the modelled library functions (non-vacuity).  On the code side they are what fix F13 (data
   helpers copy the count back) and the seeded mutant C09-m2 (arraySort swallowing the budget error) are about; the
   correspondence and the direct oracle exercise them on the real library. *)
From Coq Require Import ZArith.
From BS Require Import Model.Base Model.Num Model.Arith Model.ExprParser Model.Script Model.Interp Model.LibCore Model.LibAll Model.LibPartial Model.Run Proofs.C09 Proofs.LibAll Proofs.LibPartial Proofs.C09term Proofs.C09termLib.
Local Open Scope Z_scope.

(* EXACT (1): the limit is tested at the head of every statement, after counting it: with L statements started, statement
   L+1 is not run - the run is aborted with exactly the budget error *)
Theorem C09_abort_exactly_at_limit : forall lib url_rel lint_lines cfg fuel code pc cache loc um w st,
  nth_error code pc = Some st -> 0 < c_max cfg -> c_max cfg <= w_count w ->
  exec cfg lib url_rel lint_lines (S fuel) code pc cache loc um w =
  (ORt (msg_exceeded (c_max cfg)), loc, upd_count w (w_count w + 1)).
Proof. exact abort_exactly_at_limit. Qed.
Print Assumptions C09_abort_exactly_at_limit.

(* COMPLETE: every statement that starts is counted, wherever it runs (top level, script functions however invoked,
   included scripts), and the counter never goes down *)
Theorem C09_every_started_statement_counts : forall lib url_rel lint_lines, lib_monotone lib ->
  forall cfg fuel code pc cache loc um w st,
  nth_error code pc = Some st ->
  w_count w + 1 <= w_count (snd (exec cfg lib url_rel lint_lines (S fuel) code pc cache loc um w)).
Proof. exact statement_start_counts_one. Qed.
Print Assumptions C09_every_started_statement_counts.

Theorem C09_count_monotone : forall lib url_rel lint_lines, lib_monotone lib ->
  forall cfg fuel code pc cache loc um w,
  w_count w <= w_count (snd (exec cfg lib url_rel lint_lines fuel code pc cache loc um w)).
Proof. exact count_monotone_exec. Qed.
Print Assumptions C09_count_monotone.

(* EXACT (2) + PREFIX: under a limit L the run is in lock step with the unlimited run until it is aborted: either both give
   the same result, log, globals and count, or the limited run ends with exactly the budget error and the unlimited run
   goes on to start more than L statements.  Nothing else can happen. *)
Theorem C09_limited_run_agrees_or_is_aborted : forall lib url_rel lint_lines, lib_monotone lib ->
  forall cfg, 0 < c_max cfg -> lib_lockstep lib cfg ->
  forall fuel sc w,
  let r1 := execute_script cfg lib url_rel lint_lines fuel sc w in
  let r0 := execute_script (unlimited cfg) lib url_rel lint_lines fuel sc w in
  r1 = r0 \/ (fst r1 = ORt (msg_exceeded (c_max cfg)) /\ c_max cfg < w_count (snd r0)).
Proof. exact limited_run_agrees_or_is_aborted. Qed.
Print Assumptions C09_limited_run_agrees_or_is_aborted.

(* MONOTONE: a run that completes after N statements behaves identically under every limit L >= N *)
Theorem C09_limit_at_or_above_N_is_invisible : forall lib url_rel lint_lines, lib_monotone lib ->
  forall cfg, 0 < c_max cfg -> lib_lockstep lib cfg ->
  forall fuel sc w o w',
  execute_script (unlimited cfg) lib url_rel lint_lines fuel sc w = (o, w') ->
  w_count w' <= c_max cfg ->
  execute_script cfg lib url_rel lint_lines fuel sc w = (o, w').
Proof. exact limit_above_N_is_invisible. Qed.
Print Assumptions C09_limit_at_or_above_N_is_invisible.

(* non-vacuity: the modelled library functions satisfy both premises *)
Theorem C09_premises_hold_for_modelled_library : forall cfg, lib_monotone (libcore cfg) /\ lib_lockstep (libcore cfg) cfg.
Proof. intros cfg. split; [exact (libcore_monotone cfg)|exact (libcore_lockstep cfg)]. Qed.
Print Assumptions C09_premises_hold_for_modelled_library.

Theorem C09_premises_hold_for_combined_library : forall cfg, lib_monotone (libfull2 cfg) /\ lib_lockstep (libfull2 cfg) cfg.
Proof. intros cfg. split; [exact (libfull2_monotone cfg)|exact (libfull2_lockstep cfg)]. Qed.
Print Assumptions C09_premises_hold_for_combined_library.

(* ======================= "... so no script can run forever" =======================
   FULL statement as designed (DESIGN.md, C09_terminates) - kept visible:
       forall cfg lib url_rel lint_lines, 0 < c_max cfg -> (premises on lib) ->
       forall sc w, exists fuel, fst (execute_script cfg lib url_rel lint_lines fuel sc w) <> OFuel.
   It is not what is proved, because OFuel is also the model's way of DECLINING inside a library function (LFuel: e.g. the fuelled
   deep equality of the lifted arrayIndexOf on a value that contains itself) and inside the parser model (RFuel; dead by C06_total):
   for an arbitrary library the shape is false.  (Until the repair F29 the comparison operators themselves were such a source:
   `a = arrayNew() ; arrayPush(a, a) ; return a == a` raised RecursionError out of execute_script, which the model reported as OFuel
   for every fuel; the operator handler now contains it and the model answers null - C09_example_cyclic_compare_is_null below.)

   What is proved: the recursion of the interpreter never runs out.  The tower eval/call/exec is taken with its depth-0 answer
   as a parameter `bot` (Proofs/C09term.v evalB/callB/execB, execute_script_bot: a copy of the model's tower that answers `bot`
   where the model answers OFuel at fuel 0; with bot = OFuel it IS the model's tower, C09_bot_OFuel_is_the_model, by reflexivity).
   Under a positive limit, for every program and initial world there is a fuel from which on the answer is the same for every
   fuel AND every `bot`: the depth-0 case was never consulted, the run terminated.  (An endless loop answers `bot`, so it is
   excluded; plain "the answer settles" would not exclude it.)  Includes are covered (any c_fetch).

   PARTIAL in this respect only - premise lib_ranked: library functions carry ranks and a library function's answer depends
   on its callback only at script functions, non-functions and library functions of LOWER rank.  The real library lets any
   function value be passed, also e.g. arraySort(a, arraySort) or arraySort's compare function being arrayFind-like again of the
   same rank (a callback-taking library function called back by a callback-taking library function): such statement-free
   recursion through the library is cut by Python's RecursionError, not by the statement budget, and the model has no
   outcome for it.  Premise lib_terminates is the expected one (handed callbacks that terminate, a library function
   terminates).  Both hold for the modelled library (C09_termination_premises_hold_for_modelled_library). *)

(* the premise lib_terminates, spelled out *)
Theorem C09_lib_terminates_spelled : forall lib,
  lib_terminates lib <->
  (forall (J : Type) (c : Z) (cb : J -> nat -> caller),
     (forall fv a w, c <= w_count w ->
        exists r, (exists f0 : nat, forall j f, (f0 <= f)%nat -> cb j f fv a w = r) /\ w_count w <= w_count (snd r)) ->
     forall name args w, c <= w_count w ->
        exists r, (exists f0 : nat, forall j f, (f0 <= f)%nat -> lib (cb j f) name args w = r) /\ w_count w <= w_count (snd r)).
Proof. intros lib. split; intros H; exact H. Qed.
Print Assumptions C09_lib_terminates_spelled.

(* the premise lib_ranked, spelled out *)
Theorem C09_lib_ranked_spelled : forall lib rank,
  lib_ranked lib rank <->
  (forall name (cb cb' : caller),
     (forall fv a w, match fv with VFun (FLib nm) => (rank nm < rank name)%nat | _ => True end -> cb fv a w = cb' fv a w) ->
     forall args w, lib cb name args w = lib cb' name args w).
Proof. intros lib rank. split; intros H; exact H. Qed.
Print Assumptions C09_lib_ranked_spelled.

Theorem C09_bot_OFuel_is_the_model : forall cfg lib url_rel lint_lines,
  execute_script_bot cfg lib url_rel lint_lines OFuel = execute_script cfg lib url_rel lint_lines /\
  evalB cfg lib url_rel lint_lines OFuel = eval cfg lib url_rel lint_lines /\
  callB cfg lib url_rel lint_lines OFuel = call cfg lib url_rel lint_lines /\
  execB cfg lib url_rel lint_lines OFuel = exec cfg lib url_rel lint_lines.
Proof. intros. repeat split. Qed.
Print Assumptions C09_bot_OFuel_is_the_model.

(* THE CLAUSE *)
Theorem C09_terminates_partial : forall cfg lib url_rel lint_lines,
  0 < c_max cfg -> lib_terminates lib -> forall rank, lib_ranked lib rank ->
  forall sc w, exists fuel r, forall bot fuel', (fuel <= fuel')%nat ->
    execute_script_bot cfg lib url_rel lint_lines bot fuel' sc w = r.
Proof. exact terminates. Qed.
Print Assumptions C09_terminates_partial.

(* ... the same for every statement list / expression / function call, in any state (locals, label cache, urlFn mode) *)
Theorem C09_every_exec_terminates_partial : forall cfg lib url_rel lint_lines,
  0 < c_max cfg -> lib_terminates lib -> forall rank, lib_ranked lib rank ->
  forall code pc cache loc um w, exists fuel r, forall bot fuel', (fuel <= fuel')%nat ->
    execB cfg lib url_rel lint_lines bot fuel' code pc cache loc um w = r.
Proof. exact exec_terminates_bot. Qed.
Print Assumptions C09_every_exec_terminates_partial.

Theorem C09_every_eval_terminates_partial : forall cfg lib url_rel lint_lines,
  0 < c_max cfg -> lib_terminates lib -> forall rank, lib_ranked lib rank ->
  forall e loc bi um w, exists fuel r, forall bot fuel', (fuel <= fuel')%nat ->
    evalB cfg lib url_rel lint_lines bot fuel' e loc bi um w = r.
Proof. exact eval_terminates_bot. Qed.
Print Assumptions C09_every_eval_terminates_partial.

Theorem C09_every_call_terminates_partial : forall cfg lib url_rel lint_lines,
  0 < c_max cfg -> lib_terminates lib -> forall rank, lib_ranked lib rank ->
  forall fv a um w, exists fuel r, forall bot fuel', (fuel <= fuel')%nat ->
    callB cfg lib url_rel lint_lines bot fuel' fv a um w = r.
Proof. exact call_terminates_bot. Qed.
Print Assumptions C09_every_call_terminates_partial.

(* consequences for the model's own run (bot = OFuel): at enough fuel its answer is the answer of every other tower ... *)
Theorem C09_answer_never_from_fuel_partial : forall cfg lib url_rel lint_lines,
  0 < c_max cfg -> lib_terminates lib -> forall rank, lib_ranked lib rank ->
  forall sc w, exists fuel, forall fuel', (fuel <= fuel')%nat -> forall bot,
    execute_script_bot cfg lib url_rel lint_lines bot fuel' sc w = execute_script cfg lib url_rel lint_lines fuel' sc w.
Proof. exact answer_never_from_fuel. Qed.
Print Assumptions C09_answer_never_from_fuel_partial.

(* ... it no longer depends on the fuel (the plain form, weaker) ... *)
Theorem C09_settles_partial : forall cfg lib url_rel lint_lines,
  0 < c_max cfg -> lib_terminates lib -> forall rank, lib_ranked lib rank ->
  forall sc w, exists fuel, forall fuel', (fuel <= fuel')%nat ->
    execute_script cfg lib url_rel lint_lines fuel' sc w = execute_script cfg lib url_rel lint_lines fuel sc w.
Proof. exact settles. Qed.
Print Assumptions C09_settles_partial.

(* ... and the designed conclusion holds unless OFuel is the run's proper answer (given by every tower: a leaf's own fuel) *)
Theorem C09_answers_or_declines_partial : forall cfg lib url_rel lint_lines,
  0 < c_max cfg -> lib_terminates lib -> forall rank, lib_ranked lib rank ->
  forall sc w,
  (exists fuel, fst (execute_script cfg lib url_rel lint_lines fuel sc w) <> OFuel) \/
  (exists fuel, forall bot fuel', (fuel <= fuel')%nat -> fst (execute_script_bot cfg lib url_rel lint_lines bot fuel' sc w) = OFuel).
Proof. exact answers_or_declines. Qed.
Print Assumptions C09_answers_or_declines_partial.

(* non-vacuity: the modelled library functions satisfy both premises *)
Theorem C09_termination_premises_hold_for_modelled_library : forall cfg,
  lib_terminates (libcore cfg) /\ lib_ranked (libcore cfg) (fun _ => O).
Proof. intros cfg. split; [exact (libcore_terminates cfg)|exact (libcore_ranked cfg)]. Qed.
Print Assumptions C09_termination_premises_hold_for_modelled_library.

(* ... and so does a library with a function that DOES call back (Proofs/C09termLib.v libcb = libcore + `__each(array, f)`,
   which calls f(x) for each element, passes the first non-value outcome on and refuses itself as f; rank 1, all others 0) *)
Theorem C09_termination_premises_hold_for_a_library_with_callbacks : forall cfg,
  lib_terminates (libcb cfg) /\ lib_ranked (libcb cfg) rank_cb.
Proof. intros cfg. split; [exact (libcb_terminates cfg)|exact (libcb_ranked cfg)]. Qed.
Print Assumptions C09_termination_premises_hold_for_a_library_with_callbacks.

(* under maxStatements = 10, with `__each` bound in the globals:
     function g(x): systemLog('g') endfunction   return __each(arrayNew(1, 2), g)   -> logs g, g; 4 statements
     function h(x): L: jump L endfunction        return __each(arrayNew(1, 2), h)   -> the budget error comes out of the library *)
Example C09_example_callbacks_through_the_library : forall bot fuel,
  let cfg := mkcfg 10 false true in
  let w := upd_globals (world0 []) [(U "__each", VFun (FLib (U "__each")))] in
  let arr := ECall (U "arrayNew") [ENum (NInt 1); ENum (NInt 2)] in
  let r1 := execute_script_bot cfg (libcb cfg) no_url no_lint bot (20 + fuel)
              [ SFunction (U "g") (Some [U "x"]) false false [SExpr None (ECall (U "systemLog") [EStr (U "g")])];
                SReturn (Some (ECall (U "__each") [arr; EVar (U "g")])) ] w in
  let r2 := execute_script_bot cfg (libcb cfg) no_url no_lint bot (40 + fuel)
              [ SFunction (U "h") (Some [U "x"]) false false [SLabel (U "L"); SJump (U "L") None];
                SReturn (Some (ECall (U "__each") [arr; EVar (U "h")])) ] w in
  (fst r1 = OVal VNull /\ w_log (snd r1) = [U "g"; U "g"] /\ w_count (snd r1) = 4) /\
  (fst r2 = ORt (msg_exceeded 10) /\ w_count (snd r2) = 11).
Proof. exact each_examples. Qed.

(* non-vacuity / the budget at work: `L: jump L` (while true) and `function f(): return f() endfunction  return f()` under
   maxStatements = 10 stop with the budget error after 11 statement starts, for every fuel from a bound on and every bot *)
Example C09_example_while_true_stops : forall bot fuel,
  let r := execute_script_bot (mkcfg 10 false true) (libcore (mkcfg 10 false true)) no_url no_lint bot (12 + fuel)
             [SLabel (U "L"); SJump (U "L") None] (world0 []) in
  fst r = ORt (msg_exceeded 10) /\ w_count (snd r) = 11.
Proof. exact loop_stops. Qed.

Example C09_example_unbounded_recursion_stops : forall bot fuel,
  let r := execute_script_bot (mkcfg 10 false true) (libcore (mkcfg 10 false true)) no_url no_lint bot (40 + fuel)
             [ SFunction (U "f") (Some []) false false [SReturn (Some (ECall (U "f") []))];
               SReturn (Some (ECall (U "f") [])) ] (world0 []) in
  fst r = ORt (msg_exceeded 10) /\ w_count (snd r) = 11.
Proof. exact rec_stops. Qed.

(* comparing a value that contains itself: null (the RecursionError is contained, F29), whatever the fuel beyond 6 and the tower *)
Example C09_example_cyclic_compare_is_null : forall bot fuel,
  fst (execute_script_bot (mkcfg 100 false true) (libcore (mkcfg 100 false true)) no_url no_lint bot (6 + fuel)
     [ SExpr (Some (U "a")) (ECall (U "arrayNew") []);
       SExpr None (ECall (U "arrayPush") [EVar (U "a"); EVar (U "a")]);
       SReturn (Some (EBin (U "==") (EVar (U "a")) (EVar (U "a")))) ] (world0 [])) = OVal VNull.
Proof. intros bot fuel. vm_compute. reflexivity. Qed.
