(* Props/C04.v — C04: scoping, calling convention and host globals.  Statements and `exact` only. *)
From BS Require Import Model.Base Model.Num Model.Arith Model.ExprParser Model.Script Model.Interp Gen.Library Proofs.C04 Proofs.C04dup.

(* parameters are bound positionally, missing ones null, a trailing "..." parameter collects the remaining arguments in a
   FRESH array (empty when none are left); stated for pairwise different parameter names *)
Theorem C04_bind_args : forall names n ix last args w acc i p,
  NoDup names ->
  nth_error names i = Some p ->
  let r := bind_args names n ix last args w acc in
  exists v, env_get p (fst r) = Some v /\ binding_is (snd r) v (expected_binding n last args (ix + i)).
Proof. exact bind_args_spec. Qed.
Print Assumptions C04_bind_args.

(* ... and without that restriction: a name that occurs more than once in the parameter list (the parser accepts it, the schema
   allows it) holds what its LAST position receives - the dict assignment of _script_function overwrites *)
Theorem C04_bind_args_any_names : forall names n ix last args w acc i p,
  nth_error names i = Some p -> ~ In p (skipn (S i) names) ->
  let r := bind_args names n ix last args w acc in
  exists v, env_get p (fst r) = Some v /\ binding_is (snd r) v (expected_binding n last args (ix + i)).
Proof. exact bind_args_spec_last. Qed.
Print Assumptions C04_bind_args_any_names.

Theorem C04_surplus_arguments_ignored : forall (names : list str) last args extra i,
  (i < length names)%nat -> (length names <= length args)%nat -> last = false ->
  expected_binding (length names) last (args ++ extra) i = expected_binding (length names) last args i.
Proof. exact surplus_arguments_ignored. Qed.

(* reads see locals before globals; a call resolves locals, then globals, then (expression mode only) the built-ins *)
Theorem C04_read_local_first : forall x l w v,
  op_is x "null" = false -> op_is x "false" = false -> op_is x "true" = false ->
  env_get x l = Some v -> lookup_var x (Some l) w = v.
Proof. exact lookup_var_local_first. Qed.
Theorem C04_read_global_otherwise : forall x loc w,
  op_is x "null" = false -> op_is x "false" = false -> op_is x "true" = false ->
  (match loc with Some l => env_get x l | None => None end) = None ->
  lookup_var x loc w = match env_get x (w_globals w) with Some v => v | None => VNull end.
Proof. exact lookup_var_global_otherwise. Qed.
Theorem C04_call_local_first : forall name l bi w v, env_get name l = Some v -> lookup_fn name (Some l) bi w = Some v.
Proof. exact lookup_fn_local_first. Qed.
Theorem C04_no_builtins_in_script_mode : forall name loc w,
  (match loc with Some l => env_get name l | None => None end) = None ->
  env_get name (w_globals w) = None -> lookup_fn name loc false w = None.
Proof. exact lookup_fn_no_builtins_in_script_mode. Qed.
Print Assumptions C04_read_global_otherwise.

(* inside a script function an assignment creates or updates only that call's locals; at top level it writes the globals *)
Theorem C04_assign_in_function_is_local : forall cfg lib url_rel lint_lines f code pc cache l um w x e v w1,
  nth_error code pc = Some (SExpr (Some x) e) ->
  ((0 <? c_max cfg)%Z && (c_max cfg <? w_count w + 1)%Z)%bool = false ->
  eval cfg lib url_rel lint_lines f e (Some l) false um (upd_count w (w_count w + 1)) = (OVal v, w1) ->
  exec cfg lib url_rel lint_lines (S f) code pc cache (Some l) um w =
  exec cfg lib url_rel lint_lines f code (S pc) cache (Some (env_set x v l)) um w1.
Proof. exact assign_in_function_is_local. Qed.
Theorem C04_assign_at_top_level_is_global : forall cfg lib url_rel lint_lines f code pc cache um w x e v w1,
  nth_error code pc = Some (SExpr (Some x) e) ->
  ((0 <? c_max cfg)%Z && (c_max cfg <? w_count w + 1)%Z)%bool = false ->
  eval cfg lib url_rel lint_lines f e None false um (upd_count w (w_count w + 1)) = (OVal v, w1) ->
  exec cfg lib url_rel lint_lines (S f) code pc cache None um w =
  exec cfg lib url_rel lint_lines f code (S pc) cache None um (upd_globals w1 (env_set x v (w_globals w1))).
Proof. exact assign_at_top_level_is_global. Qed.
Print Assumptions C04_assign_in_function_is_local.

(* the library is added to the globals without overwriting any name the caller supplied, and every other library name
   (GENERATED table) is bound to the library function of that name *)
Theorem C04_inject_preserves_host : forall g k v, env_get k g = Some v -> env_get k (inject_library g) = Some v.
Proof. exact inject_preserves_host. Qed.
Theorem C04_inject_adds_missing : forall g k, env_get k g = None -> str_mem k gen_script_functions = true ->
  env_get k (inject_library g) = Some (VFun (FLib k)).
Proof. exact inject_adds_missing. Qed.
Print Assumptions C04_inject_adds_missing.
(* "a script-defined function replaces a library function of the same name" is C08_function_statement_binds_global:
   the function statement writes globals[name] unconditionally. *)

Example C04_example_binding :
  expected_binding 3 true [VNull; VBool true; VBool false; VNull] 2 = BRest [VBool false; VNull] /\
  expected_binding 3 false [VBool true] 1 = BVal VNull.
Proof. vm_compute. split; reflexivity. Qed.
