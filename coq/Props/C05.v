(* Props/C05.v — C05: runtime errors are contained.  Statements and `exact` only; proofs in Proofs/C05.v.
   Outcomes of the model: a value, BareScriptRuntimeError (ORt), BareScriptParserError from an include (OParse), "any other
   Python exception in flight" (OExc), out of fuel, model declined.  Containment = OExc never comes out of eval / exec,
   for EVERY library behaviour (the library is universally quantified: it may raise anything, on any arguments). *)
From BS Require Import Model.Base Model.Num Model.Arith Model.ExprParser Model.Script Model.Interp Proofs.C05 Proofs.Total.

(* PREMISE parser_contained: parsing an included text never lets a host exception escape (C06's territory; Props/C06.v
   C06_total proves it for the parser model; it is discharged below in C05_parser_contained / C05_contained_unconditional). *)
Theorem C05_contained : forall cfg lib url_rel lint_lines, parser_contained ->
  forall fuel,
    (forall e loc bi um w r m, fst (eval cfg lib url_rel lint_lines fuel e loc bi um w) <> OExc r m) /\
    (forall code pc cache loc um w r m, fst (fst (exec cfg lib url_rel lint_lines fuel code pc cache loc um w)) <> OExc r m).
Proof.
  intros cfg lib url_rel lint_lines Hp fuel. destruct (contained cfg lib url_rel lint_lines Hp fuel) as [He Hx].
  split; intros; [apply He|apply Hx].
Qed.
Print Assumptions C05_contained.

(* the premise holds for the parser model (C06_total: parse_script never reports a host exception) ... *)
Theorem C05_parser_contained : parser_contained.
Proof. intros txt what. exact (parse_script_total [txt] 1 what). Qed.
Print Assumptions C05_parser_contained.

(* ... hence containment without any premise *)
Corollary C05_contained_unconditional : forall cfg lib url_rel lint_lines fuel,
    (forall e loc bi um w r m, fst (eval cfg lib url_rel lint_lines fuel e loc bi um w) <> OExc r m) /\
    (forall code pc cache loc um w r m, fst (fst (exec cfg lib url_rel lint_lines fuel code pc cache loc um w)) <> OExc r m).
Proof. intros cfg lib url_rel lint_lines. exact (C05_contained cfg lib url_rel lint_lines C05_parser_contained). Qed.
Print Assumptions C05_contained_unconditional.

(* expression evaluation needs no premise at all when no include can run: stated for the operators alone *)
Theorem C05_operators_never_raise : forall op w a b r m, binop op w a b <> OExc r m.
Proof. intros op w a b. exact (binop_no_exc op w a b). Qed.
Print Assumptions C05_operators_never_raise.

(* a failure inside a library or host function makes that call evaluate to null (or the documented failure value), is
   reported through logFn in debug mode, and execution continues *)
Theorem C05_failed_call_is_null_and_continues : forall cfg lib url_rel lint_lines f name args loc bi um w vs w1 fv ret msg w2,
  op_is name "if" = false ->
  eval_args (eval cfg lib url_rel lint_lines f) loc bi um args w [] = (inr vs, w1) ->
  lookup_fn name loc bi w1 = Some fv -> fv <> VNull ->
  call cfg lib url_rel lint_lines f fv vs um w1 = (OExc ret msg, w2) ->
  eval cfg lib url_rel lint_lines (S f) (ECall name args) loc bi um w =
  (OVal ret, log_if cfg (c_debug cfg) w2 (msg_fn_failed name msg)).
Proof. exact failed_call_is_null_and_continues. Qed.
Print Assumptions C05_failed_call_is_null_and_continues.

Theorem C05_args_error_gives_failure_value : forall cfg lib url_rel lint_lines f name args um w ret msg w1,
  lib (fun fv' args' w' => call cfg lib url_rel lint_lines f fv' args' um w') name args w = (LArgs ret msg, w1) ->
  call cfg lib url_rel lint_lines (S f) (VFun (FLib name)) args um w = (OExc ret msg, w1).
Proof. exact lib_args_error_is_failure_value. Qed.

Theorem C05_raise_gives_null : forall cfg lib url_rel lint_lines f name args um w msg w1,
  lib (fun fv' args' w' => call cfg lib url_rel lint_lines f fv' args' um w') name args w = (LRaise msg, w1) ->
  call cfg lib url_rel lint_lines (S f) (VFun (FLib name)) args um w = (OExc VNull msg, w1).
Proof. exact lib_raise_is_null. Qed.
