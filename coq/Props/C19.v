(* Props/C19.v — property C19: data functions implement their relational meaning; CSV typing round-trips.
   ONLY statements; every proof is `exact <lemma of Proofs/C19*.v>`.

   Model: Model/Data.v (tables = lists of rows, rows = insertion-ordered key-unique item lists over the value trees [cv]
   of Model/Compare.v) and Model/DataCsv.v (validate_data, cell rendering).  No theorem has a bound on the number of
   rows or fields.  [eval_row] is the per-row evaluation of the parsed expression: ANY function (so: every expression).
   [keyf] is the grouping key of a row (value_json of its category values / of its join expression value): the
   structural theorems hold for ANY key function; the key theorems say what equality of value_json keys means. *)
From Coq Require Import Permutation Sorted.
From Coq Require Import SpecFloat.
From BS Require Import Model.Base Model.Num Model.Compare Model.Json Model.Data Proofs.C11 Proofs.C14b Proofs.C19.
From BS Require Import Proofs.FloatRound Proofs.C19Float.
Local Open Scope Z_scope.

(* ---- dataFilter: exactly the rows whose expression is truthy, in order (the rows themselves: the result is a sub-list) *)
Theorem C19_filter : forall eval_row data, filter_data eval_row data = filter (fun r => truthy (eval_row r)) data.
Proof. exact filter_data_is_filter. Qed.
Print Assumptions C19_filter.

(* ---- dataCalculatedField: every row gets field := value of the expression on that row (before the update), nothing else
   changes, the field keeps its position or is appended, keys stay distinct *)
Theorem C19_calculated : forall eval_row field data,
  length (add_calculated_field eval_row field data) = length data /\
  forall i r, nth_error data i = Some r ->
    exists r', nth_error (add_calculated_field eval_row field data) i = Some r' /\
      row_get r' field = eval_row r /\
      (forall k, k <> field -> assoc k r' = assoc k r) /\
      map fst r' = (if row_has field r then map fst r else map fst r ++ [field]) /\
      (NoDup (map fst r) -> NoDup (map fst r')).
Proof. exact calc_spec. Qed.
Print Assumptions C19_calculated.

(* ---- dataSort: a stable ordered permutation under the row comparator (keys in order, `desc` flips a key, a missing field
   is null); by C11_sort_unique it is THE stable ordered permutation, whatever algorithm list.sort runs *)
Theorem C19_sort : forall tz sorts data, Forall row_ok data ->
  stable_sorted_perm row_ok (row_compare tz sorts) data (sort_data tz data sorts).
Proof. exact data_sort_spec. Qed.
Print Assumptions C19_sort.

(* ---- grouping: the buckets a scan builds are the classes of "same key", one per distinct key in first-appearance
   order, each holding its rows in table order; they partition the table *)
Theorem C19_groups : forall (keyf : row -> str) data,
  buckets keyf data = map (fun k => (k, filter (fun r => str_eqb (keyf r) k) data)) (dedup (map keyf data)).
Proof. exact (fun keyf data => buckets_are_groups keyf data). Qed.
Print Assumptions C19_groups.
Theorem C19_groups_partition : forall (keyf : row -> str) data,
  NoDup (dedup (map keyf data)) /\
  (forall k, In k (dedup (map keyf data)) <-> exists r, In r data /\ keyf r = k) /\
  Permutation (flat_map (fun k => filter (fun r => str_eqb (keyf r) k) data) (dedup (map keyf data))) data.
Proof. exact classes_partition. Qed.
Print Assumptions C19_groups_partition.

(* ---- dataTop: the first n rows of each category, categories in first-appearance order *)
Theorem C19_top : forall (keyf : row -> str) n data,
  top_data keyf n data = flat_map (fun k => firstn (Z.to_nat n) (filter (fun r => str_eqb (keyf r) k) data)) (dedup (map keyf data)).
Proof. exact top_data_spec. Qed.
Print Assumptions C19_top.

(* ---- dataAggregate: one output row per class, in first-appearance order: the category fields with the values of the
   class's first row, then one field per measure computed over the non-null values of the measure field in that class *)
Theorem C19_aggregate : forall keyf cats ms data out, aggregate_data keyf cats ms data = Some out ->
  agg_names_ok cats ms = true /\
  Forall2 (fun k orow =>
    exists r0 rest mcells, filter (fun r => str_eqb (keyf r) k) data = r0 :: rest /\
      orow = map (fun kv => (fst kv, AV (snd kv))) (agg_cat_part cats r0) ++ mcells /\
      Forall2 (fun m cell => exists c, cell = (out_name m, c) /\
                 agg_measure (m_fn m) (measure_values (m_field m) (r0 :: rest)) = Some c) ms mcells)
    (dedup (map keyf data)) out.
Proof.
  intros keyf cats ms data out H. destruct (aggregate_spec keyf cats ms data out H) as [H1 H2]. split; [exact H1|].
  eapply Forall2_impl'; [|exact H2]. intros k orow [r0 [rest [mc [E [E2 F]]]]]. exists r0, rest, mc.
  unfold in_class in E. split; [exact E|]. split; [exact E2|]. rewrite <- E. exact F.
Qed.
Print Assumptions C19_aggregate.
Theorem C19_aggregate_categories : forall cs r0,
  NoDup (map fst (agg_cat_part (Some cs) r0)) /\
  (forall c, In c (map fst (agg_cat_part (Some cs) r0)) <-> In c cs) /\
  (forall c, In c cs -> assoc c (agg_cat_part (Some cs) r0) = Some (row_get r0 c)).
Proof. exact agg_cat_part_spec. Qed.
Theorem C19_measure_values : forall field rows v,
  In v (measure_values field rows) <-> v <> CNull /\ exists r, In r rows /\ row_get r field = v.
Proof. exact measure_values_spec. Qed.
(* the measures: no non-null value -> null; count; sum (exact); max / min = the first greatest / least under value_compare *)
Theorem C19_measure_empty : forall fn, agg_measure fn [] = Some (AV CNull).
Proof. exact agg_measure_empty. Qed.
Theorem C19_measure_count : forall v t, agg_measure ACount (v :: t) = Some (AV (CNum (NInt (Z.of_nat (length (v :: t)))))).
Proof. exact agg_measure_count. Qed.
Theorem C19_measure_sum : forall vs c, agg_sum vs = Some c ->
  exists zs, Forall2 (fun v z => int_of v = Some z) vs zs /\
    ((forallb is_int_num vs = true /\ c = CNum (NInt (zsum zs))) \/
     (forallb is_int_num vs = false /\ c = CNum (NFlt (Z_to_sf (zsum zs))) /\ Z.abs (zsum zs) <= Arith.two53)).
Proof. exact agg_sum_spec. Qed.
Print Assumptions C19_measure_sum.
Theorem C19_measure_max : forall tz v t, one_kind (v :: t) ->
  py_max_loop v t = Some (math_max tz (v :: t)) /\ py_min_loop v t = Some (math_min tz (v :: t)).
Proof. intros tz v t K. split; [apply py_max_is_math_max|apply py_min_is_math_min]; exact K. Qed.
Print Assumptions C19_measure_max.
(* ---- average / stddev against exact rational arithmetic (Proofs/FloatRound.v, Proofs/C19Float.v: Z only, no real numbers).
   Every value of the class is decoded exactly as (an integer) * 2^(its exponent) ([dyadics]); with E the least exponent (E <= 0),
   S the sum of the values in units of 2^E, n the count:   exact mean = S / den,   den = n * 2^(-E).
   Binary64 numbers are written scaled by 2^1074, which makes each an integer: [sfZs f] = f * 2^1074 (0 for inf / NaN);
   [valid_binary prec emax] is the standard library's "is a binary64 datum" (53-bit canonical mantissa, exponent range).

   average.  All-int data with an integral mean stay an int (exact).  Otherwise the result is a float f which is
     - +-infinity exactly when |mean| >= 2^1024 - 2^970 (the largest binary64 plus half an ulp), and otherwise
     - a binary64 +-m * 2^e (zero when m = 0) with |mean - f| <= 2^e / 2, a tie only when m is even, canonical
       (m < 2^52 only at e = -1074), and at a power of two (m = 2^52, where the spacing below is half as wide) mean >= f - 2^e / 4;
     - NEAREST: no binary64 number g is closer to the exact mean than f.   Whole range: subnormal, normal, overflow. *)
Theorem C19_measure_average : forall vs ds, dyadics vs = Some ds -> vs <> [] ->
  let n := Z.of_nat (length vs) in
  let E := min_exp ds in
  let S := zsum (scaled E ds) in
  let den := n * 2 ^ (- E) in
  Forall2 (fun v d => exists x, as_pynum v = Some x /\ num_dyadic x = Some d) vs ds /\
  E <= 0 /\ (forall d, In d ds -> E <= snd d) /\ 0 < den /\
  ((forallb is_int_num vs = true /\ S mod n = 0 /\ E = 0 /\ agg_average vs = Some (CNum (NInt (S / n)))) \/
   ((forallb is_int_num vs = false \/ S mod n <> 0) /\
    exists f, agg_average vs = Some (CNum (NFlt f)) /\
      ((2 ^ 1024 - 2 ^ 970) * den <= Z.abs S -> f = S754_infinity (S <? 0)) /\
      (Z.abs S < (2 ^ 1024 - 2 ^ 970) * den ->
         valid_binary prec emax f = true /\
         (exists m e,
            (0 <= m < 2 ^ 53 /\ -1074 <= e /\ (m < 2 ^ 52 -> e = -1074) /\
             2 * Z.abs (Z.abs S * 2 ^ 1074 - m * 2 ^ (e + 1074) * den) <= 2 ^ (e + 1074) * den /\
             (2 * Z.abs (Z.abs S * 2 ^ 1074 - m * 2 ^ (e + 1074) * den) = 2 ^ (e + 1074) * den -> Z.even m = true) /\
             (m = 2 ^ 52 -> -1074 < e -> 4 * (m * 2 ^ (e + 1074) * den - Z.abs S * 2 ^ 1074) <= 2 ^ (e + 1074) * den)) /\
            e <= 971 /\
            f = if m =? 0 then S754_zero (S <? 0) else S754_finite (S <? 0) (Z.to_pos m) e) /\
         forall g, valid_binary prec emax g = true ->
           Z.abs (S * 2 ^ 1074 - sfZs f * den) <= Z.abs (S * 2 ^ 1074 - sfZs g * den)))).
Proof. exact agg_average_spec. Qed.
Print Assumptions C19_measure_average.

(* the same about [ratio_to_sf] itself (Model/Num.v: float(Fraction), true division of ints, the decimal-to-binary conversion):
   for 0 < a, 0 < b it returns the binary64 nearest to a/b, ties to even; infinity exactly from 2^1024 - 2^970 on *)
Theorem C19_ratio_to_sf_nearest : forall neg a b, 0 < a -> 0 < b ->
  ((2 ^ 1024 - 2 ^ 970) * b <= a -> ratio_to_sf neg a b = S754_infinity neg) /\
  (a < (2 ^ 1024 - 2 ^ 970) * b ->
     valid_binary prec emax (ratio_to_sf neg a b) = true /\
     (exists m e,
        (0 <= m < 2 ^ 53 /\ -1074 <= e /\ (m < 2 ^ 52 -> e = -1074) /\
         2 * Z.abs (a * 2 ^ 1074 - m * 2 ^ (e + 1074) * b) <= 2 ^ (e + 1074) * b /\
         (2 * Z.abs (a * 2 ^ 1074 - m * 2 ^ (e + 1074) * b) = 2 ^ (e + 1074) * b -> Z.even m = true) /\
         (m = 2 ^ 52 -> -1074 < e -> 4 * (m * 2 ^ (e + 1074) * b - a * 2 ^ 1074) <= 2 ^ (e + 1074) * b)) /\
        e <= 971 /\ (b <= a * 2 ^ 1022 -> 2 ^ 52 <= m) /\
        ratio_to_sf neg a b = if m =? 0 then S754_zero neg else S754_finite neg (Z.to_pos m) e) /\
     forall g, valid_binary prec emax g = true ->
       Z.abs ((if neg then - a else a) * 2 ^ 1074 - sfZs (ratio_to_sf neg a b) * b) <=
       Z.abs ((if neg then - a else a) * 2 ^ 1074 - sfZs g * b)).
Proof. exact ratio_to_sf_nearest_full. Qed.
Print Assumptions C19_ratio_to_sf_nearest.

(* stddev.  The model's cell is the exact population variance  V / D  (V = n * sum a^2 - (sum a)^2 >= 0 in units of 2^(2E),
   D = n^2 * 2^(-2E) > 0) and the check tests the implementation's float x with [sqrt_is x V D].  What the test MEANS, for a
   binary64 x: x is +-0 and V = 0, or x = m * 2^e > 0 and
        (x - ulp/2)^2 <= V / D <= (x + ulp/2)^2         (ulp = 2^e),
   written with F = x * 2^1074, U = 2^e * 2^1074:   (2F - U)^2 D <= V 2^2150 <= (2F + U)^2 D;
   i.e. sqrt(V/D) lies within half an ulp of x.  (At m = 2^52 the spacing below x is ulp/2, so the lower end accepts the
   neighbour below as well: the test is the half-ulp bracket, not "nearest among all", there.) *)
Theorem C19_measure_stddev : forall vs ds, dyadics vs = Some ds -> vs <> [] ->
  let n := Z.of_nat (length vs) in
  let E := min_exp ds in
  let a := scaled E ds in
  let V := n * zsum (map (fun x => x * x) a) - zsum a * zsum a in
  E <= 0 /\ (forall d, In d ds -> E <= snd d) /\ 0 <= V /\ 0 < n * n * 2 ^ (- 2 * E) /\
  agg_stddev vs = Some (ASqrt V (n * n * 2 ^ (- 2 * E))).
Proof. exact agg_stddev_spec. Qed.
Print Assumptions C19_measure_stddev.
Theorem C19_measure_stddev_meaning : forall x num den, valid_binary prec emax x = true ->
  (sqrt_is x num den = true <->
   match x with
   | S754_zero _ => num = 0
   | S754_finite s m e =>
       s = false /\
       (2 * (Zpos m * 2 ^ (e + 1074)) - 2 ^ (e + 1074)) ^ 2 * den <= num * 2 ^ 2150 <=
       (2 * (Zpos m * 2 ^ (e + 1074)) + 2 ^ (e + 1074)) ^ 2 * den
   | _ => False
   end).
Proof. exact sqrt_is_meaning. Qed.
Print Assumptions C19_measure_stddev_meaning.
(* ... and the bracket singles out the NEAREST float: for an accepted x = m 2^e > 0 and any other binary64 g >= 0 the midpoint
   (x + g)/2 lies on the far side of sqrt(V/D) — g > x: V/D <= ((x+g)/2)^2;  g < x: ((x+g)/2)^2 <= V/D — so x is at least as close
   to the square root as g (and a negative g is farther than 0).  No square roots, no reals: F = x 2^1074, G = g 2^1074.
   Excluded (`_off_binade_boundary`): m = 2^52 above the subnormal range, where the float below x is only ulp/2 away and the
   bracket — the model's test — accepts it too. *)
Theorem C19_measure_stddev_nearest_off_binade_boundary : forall m e num den g, 0 < den ->
  valid_binary prec emax (S754_finite false m e) = true -> (Zpos m <> 2 ^ 52 \/ e = -1074) ->
  sqrt_is (S754_finite false m e) num den = true ->
  valid_binary prec emax g = true -> 0 <= sfZs g ->
  let F := sfZs (S754_finite false m e) in let G := sfZs g in
  (F < G -> num * 2 ^ 2150 <= (F + G) ^ 2 * den) /\ (G < F -> (F + G) ^ 2 * den <= num * 2 ^ 2150).
Proof. exact sqrt_is_nearest. Qed.
Print Assumptions C19_measure_stddev_nearest_off_binade_boundary.
(* non-vacuity: 0.1, 0.2 and the int 4 — mean 43/30 up to the representation error of the inputs, variance bracket met by pstdev's float *)
Example C19_measure_average_example :
  let vs := [CNum (NFlt (S754_finite false 7205759403792794 (-56))); CNum (NFlt (S754_finite false 7205759403792794 (-55))); CNum (NInt 4)] in
  agg_average vs = Some (CNum (NFlt (S754_finite false 6455159465897711 (-52)))) /\
  (exists V D, agg_stddev vs = Some (ASqrt V D) /\ sqrt_is (S754_finite false 8175683925480951 (-52)) V D = true /\
               sqrt_is (S754_finite false 8175683925480952 (-52)) V D = false).
Proof. split; [vm_compute; reflexivity|]. eexists. eexists. split; [vm_compute; reflexivity|]. split; vm_compute; reflexivity. Qed.

(* ---- dataJoin *)
(* the renaming map is always computed (the `while` loop terminates within |left names| + |right names| + 1 steps), has one
   entry per right field name; a right name that is not a left name is kept, a colliding one becomes name ++ digits, a string
   that is neither a left field name nor ANY right field name *)
Theorem C19_join_renaming_terminates : forall left_data right_data,
  exists names, right_names left_data right_data = Some names /\
    map fst names = field_names right_data /\
    Forall (fun fu => let '(f, u) := fu in
              (str_mem f (field_names left_data) = false /\ u = f) \/
              (str_mem f (field_names left_data) = true /\ str_mem u (field_names left_data) = false /\
               str_mem u (field_names right_data) = false /\ exists i, 0 <= i /\ u = f ++ Z_to_str i)) names.
Proof.
  intros l r. destruct (right_names_spec l r) as [names [H1 [H2 H3]]]. exists names. auto.
Qed.
Print Assumptions C19_join_renaming_terminates.

(* no left field is ever overwritten: a joined row keeps every field of its left row with the left value *)
Theorem C19_join_no_overwrite : forall left_data right_data names l r k,
  right_names left_data right_data = Some names -> In l left_data -> In r right_data ->
  In k (map fst l) -> assoc k (merge_row names l r) = assoc k l.
Proof.
  intros ld rd names l r k H Hl Hr Hk. destruct (right_names_spec ld rd) as [names' [H1 OK]]. rewrite H in H1. injection H1 as <-.
  rewrite merge_row_is. apply merge_untouched. intros f Hf X.
  apply (rename_not_left _ _ _ f (field_names_nodup rd) OK).
  - apply field_names_In. exists r. auto.
  - rewrite X. apply field_names_In. exists l. auto.
Qed.
Print Assumptions C19_join_no_overwrite.

(* full statement wanted: the renaming map is injective.  REFUTED in general (C19_join_rename_collision_refuted below: the loop
   does not test the names it has already handed out).  Proved under the guard the proof forces: *)
Theorem C19_join_renaming_injective_partial : forall left_data right_data names f1 f2,
  right_names left_data right_data = Some names ->
  rename_guard (field_names left_data) (field_names right_data) = true ->
  In f1 (field_names right_data) -> In f2 (field_names right_data) -> rename names f1 = rename names f2 -> f1 = f2.
Proof.
  intros ld rd names f1 f2 H G. destruct (right_names_spec ld rd) as [names' [H1 OK]]. rewrite H in H1. injection H1 as <-.
  exact (rename_injective _ _ _ f1 f2 (field_names_nodup rd) OK G).
Qed.
Print Assumptions C19_join_renaming_injective_partial.
(* ... and then every right field arrives under its new name with its value *)
Theorem C19_join_right_fields_partial : forall left_data right_data names l r f v,
  right_names left_data right_data = Some names ->
  rename_guard (field_names left_data) (field_names right_data) = true ->
  In r right_data -> NoDup (map fst r) -> In (f, v) r -> assoc (rename names f) (merge_row names l r) = Some v.
Proof.
  intros ld rd names l r f v H G Hr ND Hf. rewrite merge_row_is. apply merge_set; [|exact Hf].
  apply map_NoDup_in; [|exact ND].
  intros a b Ha Hb E. apply (C19_join_renaming_injective_partial ld rd names a b H G); [| |exact E];
    apply field_names_In; exists r; auto.
Qed.
Theorem C19_join_rename_collision_refuted :
  let left := [[(U "a", CNull); (U "a1", CNull); (U "a2", CNull); (U "a3", CNull); (U "a4", CNull)]] in
  let right := [[(U "a", CNum (NInt 1)); (U "a1", CStr (U "R1")); (U "a5", CNull); (U "a6", CNull); (U "a7", CNull); (U "a8", CNull);
                 (U "a9", CNull); (U "a10", CNull); (U "a11", CNull)]] in
  rename_guard (field_names left) (field_names right) = false /\
  exists names, right_names left right = Some names /\ rename names (U "a") = U "a12" /\ rename names (U "a1") = U "a12".
Proof. split; [vm_compute; reflexivity|]. eexists. split; [vm_compute; reflexivity|]. split; vm_compute; reflexivity. Qed.

(* the output: for each left row in order, the merge with each right row whose key equals the left row's key, in right-table order;
   a left row without a match is kept as it is when isLeftJoin is FALSE and dropped when it is true (as coded: the flag is
   inverted with respect to its documentation; test_join_data_left pins this behaviour) *)
Theorem C19_join : forall lkey rkey flag left_data right_data,
  exists names, right_names left_data right_data = Some names /\
    join_data lkey rkey flag left_data right_data =
    Some (flat_map (fun l => match filter (fun r => str_eqb (rkey r) (lkey l)) right_data with
                             | [] => if negb flag then [l] else []
                             | matches => map (merge_row names l) matches
                             end) left_data).
Proof. intros lk rk fl ld rd. destruct (join_spec lk rk fl ld rd) as [names [H1 [_ H2]]]. exists names. auto. Qed.
Print Assumptions C19_join.

(* ---- what "same key" means.  Keys are value_json texts; by C14 two values have the same key iff they have the same canonical
   JSON value ([wf]: number tokens of the JSON grammar, strings without surrogates) *)
Theorem C19_key_iff_same_json : forall num_tok date_txt v1 v2,
  wf (to_json num_tok date_txt v1) = true -> wf (to_json num_tok date_txt v2) = true ->
  (value_json num_tok date_txt v1 = value_json num_tok date_txt v2 <->
   canon (to_json num_tok date_txt v1) = canon (to_json num_tok date_txt v2)).
Proof. exact key_iff. Qed.
Print Assumptions C19_key_iff_same_json.
Theorem C19_category_key_iff : forall num_tok date_txt cats r1 r2,
  forallb (fun v => wf (to_json num_tok date_txt v)) (cat_values cats r1) = true ->
  forallb (fun v => wf (to_json num_tok date_txt v)) (cat_values cats r2) = true ->
  (cat_key num_tok date_txt (Some cats) r1 = cat_key num_tok date_txt (Some cats) r2 <->
   map (fun v => canon (to_json num_tok date_txt v)) (cat_values cats r1) =
   map (fun v => canon (to_json num_tok date_txt v)) (cat_values cats r2)).
Proof. exact cat_key_iff. Qed.
(* scalars: values of different JSON kinds (null / boolean / number / string) never share a key ("mixed key types");
   null, booleans, strings: same key <-> same value; numbers: <-> same repr token up to a dropped zero fraction;
   datetimes: <-> same ISO text; and a datetime shares its key with the STRING of its ISO text (F23) *)
Theorem C19_key_kinds : forall num_tok date_txt v1 v2,
  wf (to_json num_tok date_txt v1) = true -> wf (to_json num_tok date_txt v2) = true ->
  value_json num_tok date_txt v1 = value_json num_tok date_txt v2 ->
  jkind_of (to_json num_tok date_txt v1) = jkind_of (to_json num_tok date_txt v2).
Proof. exact same_key_same_kind. Qed.
Theorem C19_key_scalars : forall num_tok date_txt v1 v2,
  wf (to_json num_tok date_txt v1) = true -> wf (to_json num_tok date_txt v2) = true ->
  match v1, v2 with
  | CNull, CNull => value_json num_tok date_txt v1 = value_json num_tok date_txt v2
  | CBool a, CBool b => value_json num_tok date_txt v1 = value_json num_tok date_txt v2 <-> a = b
  | CStr a, CStr b => value_json num_tok date_txt v1 = value_json num_tok date_txt v2 <-> a = b
  | CNum a, CNum b => value_json num_tok date_txt v1 = value_json num_tok date_txt v2 <-> strip_num (num_tok a) = strip_num (num_tok b)
  | CDate a, CDate b => value_json num_tok date_txt v1 = value_json num_tok date_txt v2 <-> date_txt a = date_txt b
  | CDate a, CStr b => value_json num_tok date_txt v1 = value_json num_tok date_txt v2 <-> date_txt a = b
  | _, _ => True
  end.
Proof. exact key_null_bool_str. Qed.
Print Assumptions C19_key_scalars.
(* full statement wanted: same key <-> equal values (value_compare = 0).  REFUTED twice (known findings F23, F24): *)
Theorem C19_key_datetime_vs_its_text_refuted : forall num_tok date_txt d,
  value_json num_tok date_txt (CDate d) = value_json num_tok date_txt (CStr (date_txt d)).
Proof. exact key_datetime_collides_with_its_text. Qed.
Theorem C19_key_int_vs_float_1e16_refuted :
  let tok (n : num) := match n with
                       | NInt _ => JN false (U "10000000000000000") None None          (* repr(10**16) *)
                       | NFlt _ => JN false (U "1") None (Some (ESPlus, U "16"))       (* repr(1e16) = 1e+16 *)
                       end in
  let a := CNum (NInt (10 ^ 16)) in let b := CNum (NFlt (Z_to_sf (10 ^ 16))) in
  compare (fun _ => 0) a b = Eq /\ str_eqb (value_json tok (fun _ => []) a) (value_json tok (fun _ => []) b) = false.
Proof. split; vm_compute; reflexivity. Qed.

(* ---- non-vacuity: a table with duplicate keys, nulls, mixed key types and colliding names goes through every function *)
Theorem C19_nonvacuous :
  let tok (n : num) := match n with NInt z => JN (z <? 0) (Z_to_str (Z.abs z)) None None | NFlt _ => JN false (U "1") (Some (U "5")) None end in
  let key := cat_key tok (fun _ => []) (Some [U "k"]) in
  let t := [[(U "k", CNum (NInt 1)); (U "v", CNum (NInt 5))]; [(U "k", CStr (U "1")); (U "v", CNull)];
            [(U "k", CNum (NInt 1)); (U "v", CNum (NInt 7))]; [(U "v", CNum (NInt 2))]] in
  map fst (buckets key t) = [U "[1]"; U "[""1""]"; U "[null]"] /\
  top_data key 1 t = [nth 0 t []; nth 1 t []; nth 3 t []] /\
  aggregate_data key (Some [U "k"]) [mkMeasure (U "v") ASum None; mkMeasure (U "v") ACount (Some (U "n"))] t =
    Some [[(U "k", AV (CNum (NInt 1))); (U "v", AV (CNum (NInt 12))); (U "n", AV (CNum (NInt 2)))];
          [(U "k", AV (CStr (U "1"))); (U "v", AV CNull); (U "n", AV CNull)];
          [(U "k", AV CNull); (U "v", AV (CNum (NInt 2))); (U "n", AV (CNum (NInt 1)))]] /\
  join_data key key false t [[(U "k", CNum (NInt 1)); (U "v", CStr (U "R")); (U "v2", CNull)]] =
    Some [[(U "k", CNum (NInt 1)); (U "v", CNum (NInt 5)); (U "k2", CNum (NInt 1)); (U "v3", CStr (U "R")); (U "v2", CNull)];
          nth 1 t [];
          [(U "k", CNum (NInt 1)); (U "v", CNum (NInt 7)); (U "k2", CNum (NInt 1)); (U "v3", CStr (U "R")); (U "v2", CNull)];
          nth 3 t []] /\
  rename_guard (field_names t) [U "k"; U "v"; U "v2"] = true /\
  one_kind [CNum (NInt 5); CNum (NFlt (Z_to_sf 7))].
Proof.
  repeat split; try (vm_compute; reflexivity).
  left. repeat constructor; eexists; split; reflexivity.
Qed.

(* ================================================================== CSV typing (Model/DataCsv.v) *)
From BS Require Import Model.Calendar Model.DataCsv Proofs.C19Csv.
From BS Require Proofs.C16.

(* ---- the round trip.  [ct] gives each column its type; [cell_rt t v]: the cell v of a column of type t round-trips ON ITS OWN
   (its text is rendered, reads back as v under type t, and determines no other type than t).  Then the two passes of validate_data
   — type of a field = type of its first determining cell over ALL rows, '' / 'null' determine nothing, undetermined = string —
   give the whole table back, for any number of rows and fields, rows with different field sets included. *)
Theorem C19_csv_roundtrip : forall off_utc off_local repr (ct : str -> ftype) T R,
  table_rt off_utc off_local repr ct T -> render_table off_utc off_local repr T = Some R ->
  exists types, validate_data off_utc true R = VOk types T /\ forall f t, assoc f types = Some t -> t = ct f \/ t = TString.
Proof. exact csv_roundtrip. Qed.
Print Assumptions C19_csv_roundtrip.

(* which cells round-trip on their own: null (written "null") in any column; booleans; strings under the guard the proof forces
   — not 'null', and empty or not readable as datetime / boolean / number — ; datetimes whose ISO text parses back (C16); numbers
   whose text reads back (C13) and is not date-shaped *)
Theorem C19_csv_cell_null : forall off_utc off_local repr t, cell_rt off_utc off_local repr t CNull.
Proof. exact cell_rt_null. Qed.
Theorem C19_csv_cell_bool : forall off_utc off_local repr b, cell_rt off_utc off_local repr TBoolean (CBool b).
Proof. exact cell_rt_bool. Qed.
Theorem C19_csv_cell_string : forall off_utc off_local repr s,
  str_unambiguous off_utc s = true -> cell_rt off_utc off_local repr TString (CStr s).
Proof. exact cell_rt_str. Qed.
Print Assumptions C19_csv_cell_string.
(* the guard is needed: *)
Theorem C19_csv_string_guard_refuted : forall off_utc,
  validate_data off_utc true [[(U "a", CStr (U "12"))]] = VOk [(U "a", TNumber)] [[(U "a", CNum (NFlt (Z_to_sf 12)))]] /\
  validate_data off_utc true [[(U "a", CStr (U "x"))]; [(U "a", CStr s_null)]] = VOk [(U "a", TString)] [[(U "a", CStr (U "x"))]; [(U "a", CNull)]].
Proof. exact str_guard_needed. Qed.
(* datetimes: every whole-millisecond wall clock that exists in the zone (hypotheses of C16_iso_roundtrip_whole_ms) *)
Theorem C19_csv_cell_datetime : forall off_utc off_local repr w,
  in_range w = true -> w mod 1000 = 0 -> exists_in_zone off_local off_utc w = true ->
  (Z.abs (off_local w) <? 86400) = true -> (off_local w mod 60 =? 0) = true -> in_range (w - off_local w * US_SEC) = true ->
  cell_rt off_utc off_local repr TDatetime (of_wall w).
Proof.
  intros ou ol repr w H1 H2 H3 H4 H5 H6. destruct (BS.Proofs.C16.iso_roundtrip_whole_ms ol ou w H1 H2 H3 H4 H5 H6) as [s [Hf Hp]].
  exact (cell_rt_date ou ol repr w s Hf Hp).
Qed.
Print Assumptions C19_csv_cell_datetime.
(* full statement wanted: every finite float round-trips (from C13_roundtrip) — missing: that the cleaned repr text is never date-shaped /
   'true' / 'false' / 'null' / '' (true of every text of C13's grammar repr_ok; not proved), so these are hypotheses here *)
Theorem C19_csv_cell_number_partial : forall off_utc off_local repr f, let s := NumText.value_string_float (repr f) in
  parse_number s = Some f -> iso_parse off_utc s = None -> is_empty s = false ->
  str_eqb s s_null = false -> str_eqb s s_true = false -> str_eqb s s_false = false ->
  cell_rt off_utc off_local repr TNumber (CNum (NFlt f)).
Proof. exact cell_rt_num. Qed.

(* ---- date-like text: whatever value_parse_datetime rejects (by C16_parse_rejects_invalid_fields: every well-shaped text with an
   impossible field, 2024-02-30, 24:00:00, ...) is never typed datetime and never aborts: typed string unless it reads as a boolean / number *)
Theorem C19_datelike_is_string_partial : forall off_utc s, iso_parse off_utc s = None -> parse_number s = None ->
  is_empty s = false -> str_eqb s s_null = false -> str_eqb s s_true = false -> str_eqb s s_false = false ->
  infer_str off_utc s = Some TString.
Proof. exact datelike_is_string. Qed.
(* full statement wanted: forall s matching the date / datetime regex with invalid calendar fields, infer_str s = Some TString.  Missing:
   float(s) fails for every such text (no theorem about py_float on date-shaped text); proved for the sample texts by computation, for every zone *)
Theorem C19_datelike_samples_are_strings : forall off_utc,
  forallb (fun s => match infer_str off_utc s with Some TString => true | _ => false end)
    [U "2024-02-30"; U "2024-13-01"; U "2023-02-29"; U "2024-00-10"; U "0000-01-01"; U "2024-01-01T24:00:00Z"; U "2024-01-01T23:60:00Z";
     U "2024-02-30T00:00:00Z"; U "2024-01-01T00:00:00+24:00"; U "2024-06-31"] = true.
Proof. exact datelike_samples_string. Qed.
Theorem C19_datelike_in_a_table : forall off_utc,
  validate_data off_utc true [[(U "a", CStr (U "2024-02-30")); (U "b", CStr (U "1"))]; [(U "a", CStr (U "2024-02-28")); (U "b", CStr (U ""))]] =
    VOk [(U "a", TString); (U "b", TNumber)]
        [[(U "a", CStr (U "2024-02-30")); (U "b", CNum (NFlt (Z_to_sf 1)))]; [(U "a", CStr (U "2024-02-28")); (U "b", CNull)]] /\
  validate_data off_utc true [[(U "a", CStr (U "2024-02-28"))]; [(U "a", CStr (U "2024-02-30"))]] = VErr (U "a") TDatetime (CStr (U "2024-02-30")).
Proof. exact datelike_table. Qed.
Print Assumptions C19_datelike_in_a_table.
