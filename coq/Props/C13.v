(* Props/C13.v — property C13: numbers survive conversion to text and back; integers print without a fraction.
   ONLY statements; every proof is `exact <lemma of Proofs/C13.v>`.

   Model: Model/NumText.v.  [repr_ok] recognises the texts CPython's repr(float) produces for finite doubles
   (-?D+.D+ | -?D(.D+)?e[+-]DD+); [cleanup] is value_string's  R_NUMBER_CLEANUP.sub('', ...)  ( \.0*$ );
   [py_dec] is what float(text) reads (sign, mantissa, power of ten) before the decimal->binary conversion;
   [lit_match] is the numeric literal  ^\s*([+-]?\d+(?:\.\d* )?(?:e[+-]\d+)?)  of the expression parser.
   [cleanup] and [lit_match] are PROVED equal, on every text, to the regenerated regexes run by the engine (first block).
   All theorems are for ALL texts of the grammar (any length).  What CPython itself guarantees (shortest repr,
   correctly rounded strtod) is a HYPOTHESIS of Section CPython, visible in the types below, never an axiom.

   LAST BLOCK (theorems named C13_model_repr_...): the development now has a model of repr(float) itself (Model/LibMore.v repr_float:
   shortest round-trip digits + CPython's layout) and of value_string on a number (num_text_full).  For THAT repr the
   contract is no longer a hypothesis: the theorems of the last block prove it (text in the grammar, float() reads it back
   as the same double, the conversion depends on the value only, the printer is total on valid doubles).  The
   Section-hypothesis theorems stay: they hold for ANY repr/strtod pair satisfying the contract. *)
From BS Require Import Model.Base Model.Num Model.Regex Model.NumText Gen.Unicode Gen.Regexes Proofs.C13 Proofs.C13rx.
From Coq Require Import SpecFloat.
From BS Require Model.Arith Model.LibMore Model.Interp Model.LibAll.
From BS Require Import Proofs.C13Ratio Proofs.C13Repr Proofs.C13NumStr Proofs.C13Total Proofs.C13Lib.
Local Open Scope Z_scope.

(* THE TIE BETWEEN THE DIRECT FUNCTIONS AND THE REGENERATED REGEXES IS A THEOREM (Proofs/C13rx.v, via Proofs/RegexEval.v:
   the engine of Model/Regex.v with the fuel it is given = a fuel-free evaluator, for every regex and subject):
   for EVERY text, running R_NUMBER_CLEANUP (as regenerated from value.py) through re_sub gives [cleanup], and running
   _R_EXPR_NUMBER (as regenerated from parser.py) through re_match gives [lit_match].  The statements are about the
   generated constants, so a change of either pattern in the source breaks these proofs.  *)
Theorem C13_cleanup_engine : forall s, cleanup_rx s = Some (cleanup s).
Proof. exact cleanup_rx_is_cleanup. Qed.
Print Assumptions C13_cleanup_engine.
Theorem C13_literal_engine : forall s, lit_match_rx s = Some (lit_match s).
Proof. exact lit_match_rx_is_lit. Qed.
Print Assumptions C13_literal_engine.
(* the engine's whole answer (end of match and capture table) on the number pattern *)
Theorem C13_literal_engine_answer : forall s,
  re_match UC R_EXPR_NUMBER s = match lit_match s with Some (a, e) => MYes e [(1%nat, (a, e))] | None => MNo end.
Proof. exact number_regex_answer. Qed.
Print Assumptions C13_literal_engine_answer.

(* FORMER PINS, now consequences of the two theorems above (kept: cheap, and they fail first with a readable message
   when a pattern changes): the syntactic shape of the clean-up pattern and the engine/direct comparison on 24 samples *)
Theorem C13_cleanup_regex_is_the_modelled_one : R_NUMBER_CLEANUP = RCat (RLit 46%N) (RCat (RRep 0%nat None (RLit 48%N)) REol).
Proof. exact cleanup_regex_pin. Qed.
Theorem C13_engine_agrees_on_samples :
  forallb (fun s => option_eqb str_eqb (cleanup_rx s) (Some (cleanup s))) sample_texts = true /\
  forallb (fun s => match lit_match_rx s, lit_match s with
                    | Some (Some (a, b)), Some (a', b') => Nat.eqb a a' && Nat.eqb b b'
                    | Some None, None => true
                    | _, _ => false end) sample_texts = true.
Proof. exact engine_agrees_on_samples. Qed.

(* cleanup on the grammar: either "sign digits . zeros" -> "sign digits", or nothing changes *)
Theorem C13_cleanup_on_grammar : forall s, repr_ok s = true -> Cleaned s (cleanup s).
Proof. intros s H. exact (cleanup_grammar s (repr_ok_sound s H)). Qed.
Print Assumptions C13_cleanup_on_grammar.

(* the cleaned text keeps sign and denoted value, and is a finite decimal that float() accepts *)
Theorem C13_cleanup_preserves_value : forall s, repr_ok s = true ->
  exists neg m e m' e', py_dec s = Some (neg, PDec m e) /\ py_dec (cleanup s) = Some (neg, PDec m' e') /\
                        same_value m e m' e' /\ exists k, 0 <= k /\ m = m' * 10 ^ k /\ e = e' - k.
Proof. intros s H. exact (cleanup_value s (repr_ok_sound s H)). Qed.
Print Assumptions C13_cleanup_preserves_value.

(* for x >= 0 the cleaned text is, as a whole, one numeric literal of the expression grammar *)
Theorem C13_nonneg_is_literal : forall s, repr_ok s = true -> is_neg_text s = false ->
  lit_match (cleanup s) = Some (O, length (cleanup s)).
Proof. intros s H. exact (cleanup_is_literal s (repr_ok_sound s H)). Qed.
Print Assumptions C13_nonneg_is_literal.

(* integral values in positional form print without '.' (only sign and digits); non-integral ones are unchanged *)
Theorem C13_integral_no_fraction : forall s, repr_ok s = true -> positional s = true ->
  exists neg m e, py_dec s = Some (neg, PDec m e) /\ e <= 0 /\
    (m mod 10 ^ (- e) = 0 -> no_dot (cleanup s) = true /\ all_d (skipn (if neg then 1 else 0) (cleanup s)) = true) /\
    (m mod 10 ^ (- e) <> 0 -> cleanup s = s).
Proof. intros s H. exact (integral_no_dot s (repr_ok_sound s H)). Qed.
Print Assumptions C13_integral_no_fraction.
(* the int spelling: str(int) is sign and digits, and parses back *)
Theorem C13_int_roundtrip : forall z, value_parse_integer (value_string_int z) = Some z.
Proof. exact int_roundtrip. Qed.
Print Assumptions C13_int_roundtrip.
Theorem C13_int_text_shape : forall z,
  no_dot (value_string_int z) = true /\ all_d (skipn (if z <? 0 then 1 else 0) (value_string_int z)) = true.
Proof. exact int_text_shape. Qed.

(* the parsers: float() of the model factors through py_dec, and value_parse_number never returns nan/inf *)
Theorem C13_float_factors : forall s, py_float s = float_with dec_to_sf s.
Proof. exact py_float_factors. Qed.
Theorem C13_parse_number_finite : forall s f, value_parse_number s = Some f -> sf_is_finite f = true.
Proof. exact value_parse_number_finite. Qed.
Print Assumptions C13_parse_number_finite.
(* full statement wanted in addition: value_parse_number s = Some f -> the WHOLE stripped text is one numeral of float()'s grammar
   and value_parse_integer s = Some z -> the whole stripped text is [+-]digits(_digits)*.  Not stated as a theorem: both model functions
   return None unless their scanners consume the text to the end (by construction, see Model/NumText.v), and the harness checks the
   implementation against an independent grammar on near-miss strings.  *)

(* the round trip, for every conversion pair satisfying CPython's contract *)
Theorem C13_roundtrip : forall (repr : flt -> str) (strtod : bool -> Z -> Z -> flt),
  (forall x, sf_is_finite x = true -> repr_ok (repr x) = true) ->
  (forall x, sf_is_finite x = true -> float_with strtod (repr x) = Some x) ->
  (forall neg m e k, 0 <= k -> strtod neg (m * 10 ^ k) (e - k) = strtod neg m e) ->
  forall x, sf_is_finite x = true -> parse_number_with strtod (value_string_float (repr x)) = Some x.
Proof. exact roundtrip. Qed.
Print Assumptions C13_roundtrip.

Theorem C13_roundtrip_literal : forall (repr : flt -> str) (strtod : bool -> Z -> Z -> flt),
  (forall x, sf_is_finite x = true -> repr_ok (repr x) = true) ->
  (forall x, sf_is_finite x = true -> float_with strtod (repr x) = Some x) ->
  (forall neg m e k, 0 <= k -> strtod neg (m * 10 ^ k) (e - k) = strtod neg m e) ->
  forall x, sf_is_finite x = true -> is_neg_text (repr x) = false ->
  let text := value_string_float (repr x) in
  lit_match text = Some (O, length text) /\ float_with strtod text = Some x.
Proof. exact roundtrip_literal. Qed.
Print Assumptions C13_roundtrip_literal.

(* ---- the same property theorems with the regex passes RUN BY THE ENGINE on the regenerated patterns (no pin involved):
        cleanup_rx = re_sub UC R_NUMBER_CLEANUP (fun _ _ => []) ;  re_match UC R_EXPR_NUMBER *)
Theorem C13_cleanup_on_grammar_rx : forall s, repr_ok s = true -> exists t, cleanup_rx s = Some t /\ Cleaned s t.
Proof. exact cleanup_grammar_rx. Qed.
Print Assumptions C13_cleanup_on_grammar_rx.

Theorem C13_cleanup_preserves_value_rx : forall s, repr_ok s = true ->
  exists t neg m e m' e', cleanup_rx s = Some t /\ py_dec s = Some (neg, PDec m e) /\ py_dec t = Some (neg, PDec m' e') /\
                          same_value m e m' e' /\ exists k, 0 <= k /\ m = m' * 10 ^ k /\ e = e' - k.
Proof. exact cleanup_value_rx. Qed.
Print Assumptions C13_cleanup_preserves_value_rx.

Theorem C13_nonneg_is_literal_rx : forall s, repr_ok s = true -> is_neg_text s = false ->
  exists t, cleanup_rx s = Some t /\ re_match UC R_EXPR_NUMBER t = MYes (length t) [(1%nat, (O, length t))].
Proof. exact cleanup_is_literal_rx. Qed.
Print Assumptions C13_nonneg_is_literal_rx.

Theorem C13_integral_no_fraction_rx : forall s, repr_ok s = true -> positional s = true ->
  exists t neg m e, cleanup_rx s = Some t /\ py_dec s = Some (neg, PDec m e) /\ e <= 0 /\
    (m mod 10 ^ (- e) = 0 -> no_dot t = true /\ all_d (skipn (if neg then 1 else 0) t) = true) /\
    (m mod 10 ^ (- e) <> 0 -> t = s).
Proof. exact integral_no_dot_rx. Qed.
Print Assumptions C13_integral_no_fraction_rx.

Theorem C13_roundtrip_rx : forall (repr : flt -> str) (strtod : bool -> Z -> Z -> flt),
  (forall x, sf_is_finite x = true -> repr_ok (repr x) = true) ->
  (forall x, sf_is_finite x = true -> float_with strtod (repr x) = Some x) ->
  (forall neg m e k, 0 <= k -> strtod neg (m * 10 ^ k) (e - k) = strtod neg m e) ->
  forall x, sf_is_finite x = true ->
  exists text, value_string_float_rx (repr x) = Some text /\ parse_number_with strtod text = Some x.
Proof. exact roundtrip_rx. Qed.
Print Assumptions C13_roundtrip_rx.

Theorem C13_roundtrip_literal_rx : forall (repr : flt -> str) (strtod : bool -> Z -> Z -> flt),
  (forall x, sf_is_finite x = true -> repr_ok (repr x) = true) ->
  (forall x, sf_is_finite x = true -> float_with strtod (repr x) = Some x) ->
  (forall neg m e k, 0 <= k -> strtod neg (m * 10 ^ k) (e - k) = strtod neg m e) ->
  forall x, sf_is_finite x = true -> is_neg_text (repr x) = false ->
  exists text, value_string_float_rx (repr x) = Some text /\
    re_match UC R_EXPR_NUMBER text = MYes (length text) [(1%nat, (O, length text))] /\ float_with strtod text = Some x.
Proof. exact roundtrip_literal_rx. Qed.
Print Assumptions C13_roundtrip_literal_rx.

(* non-vacuity: texts in and out of the grammar, what cleanup does to them, what the parsers return *)
Theorem C13_nonvacuous :
  forallb repr_ok [U "1.0"; U "-0.0"; U "123.456"; U "1e+16"; U "1.5e-07"; U "5e-324"; U "1.7976931348623157e+308"; U "-2.5e+300"] = true /\
  forallb (fun s => negb (repr_ok s)) [U "1"; U "1."; U ".5"; U "1e16"; U "1e+5"; U "inf"; U "nan"; U "1.0 "; U "--1.0"; U "1.5e"; U "12.5e+10"] = true /\
  map cleanup [U "1.0"; U "-0.0"; U "123.456"; U "1e+16"; U "100.0"; U "1e+20"; U "1.5e-10"] =
              [U "1"; U "-0"; U "123.456"; U "1e+16"; U "100"; U "1e+20"; U "1.5e-10"] /\
  value_parse_number (cleanup (U "1e+20")) = py_float (U "1e+20") /\
  value_parse_number (U "1e309") = None /\ value_parse_number (U "nan") = None /\ value_parse_number (U "-Infinity") = None /\
  value_parse_number (U "1_0") = py_float (U "10") /\ value_parse_integer (U " -1_2 ") = Some (-12) /\ value_parse_integer (U "0x10") = None.
Proof. exact repr_samples. Qed.

(* ====================================================================================================================
   THE CONTRACT DISCHARGED FOR THE MODEL'S repr(float)  (Proofs/C13Ratio.v, C13Repr.v, C13NumStr.v, C13Total.v)

   The theorems above take CPython's contract as hypotheses about an arbitrary pair (repr, strtod).  Below, repr is the
   MODEL's printer  Model/LibMore.v [repr_float]  (for n = 1..17 digits: the two n-digit decimals around m * 2^e, a
   candidate accepted only when [dec_to_sf] reads it back as the same double; trailing zeros stripped; CPython's layout:
   positional for 1e-4 <= |x| < 1e16, exponent form otherwise), value_string on a number is  [num_text_full]
   (Model/Arith.v num_to_str where it answers, the exact decimal expansion; else cleanup (repr_float x)), and strtod is the
   model's correctly rounded [dec_to_sf] (the conversion inside py_float).  These are theorems about the model; the model's
   repr_float / num_text_full are tied to CPython's repr and to value_string by the correspondence runs of harness/c13.py and
   harness/libcorr.py (model text = implementation text on thousands of doubles).
   [valid_binary prec emax f] says f is a binary64 (canonical mantissa and exponent): SpecFloat has other finite values,
   which no double denotes; Section CPython above quantifies over all of them, which is why it cannot be instantiated
   literally and the statements are given directly.  No hypothesis about CPython remains in this block. *)
Local Notation repr_float := BS.Model.LibMore.repr_float.
Local Notation repr_layout := BS.Model.LibMore.repr_layout.
Local Notation short_digits := BS.Model.LibMore.short_digits.
Local Notation num_text_full := BS.Model.LibMore.num_text_full.
Local Notation ARes := BS.Model.Arith.ARes.

(* third hypothesis of Section CPython (strtod_by_value), for the model's conversion: only the rational m * 10^e matters *)
Theorem C13_model_repr_strtod_by_value : forall neg m e k, 0 <= m -> 0 <= k ->
  dec_to_sf neg (m * 10 ^ k) (e - k) = dec_to_sf neg m e.
Proof. exact dec_to_sf_shift. Qed.
Print Assumptions C13_model_repr_strtod_by_value.
Theorem C13_model_repr_strtod_by_value_general : forall neg m e m' e' j, 0 <= m -> 0 <= m' -> 0 <= j -> 0 <= e + j -> 0 <= e' + j ->
  m * 10 ^ (e + j) = m' * 10 ^ (e' + j) -> dec_to_sf neg m e = dec_to_sf neg m' e'.
Proof. exact dec_to_sf_by_value. Qed.
Print Assumptions C13_model_repr_strtod_by_value_general.
(* a decimal that IS a binary64 converts to it (what makes the exact texts of num_to_str read back) *)
Theorem C13_model_repr_strtod_exact : forall neg d k j m e, valid_binary prec emax (S754_finite neg m e) = true ->
  0 <= d -> 0 <= j -> 0 <= k + j -> d * 10 ^ (k + j) * 2 ^ 1074 = Zpos m * 2 ^ (e + 1074) * 10 ^ j ->
  dec_to_sf neg d k = S754_finite neg m e.
Proof. exact dec_to_sf_exact. Qed.
Print Assumptions C13_model_repr_strtod_exact.

(* (1) the digits short_digits accepts convert back to the double they were produced for *)
Theorem C13_model_repr_digits : forall m e d k, short_digits m e = Some (d, k) ->
  0 < d /\ dec_to_sf false d k = S754_finite false m e.
Proof. exact short_digits_sound. Qed.
Print Assumptions C13_model_repr_digits.

(* (2) every layout (0.000ddd, ddd.ddd, ddd000.0, d.ddde+XX) is read by float() as d * 10^k *)
Theorem C13_model_repr_layout : forall neg d k, 0 < d -> py_float (repr_layout neg d k) = Some (dec_to_sf neg d k).
Proof. exact py_float_repr_layout. Qed.
Print Assumptions C13_model_repr_layout.

(* first hypothesis of Section CPython: the text is in the grammar *)
Theorem C13_model_repr_in_grammar : forall f s, repr_float f = ARes s -> repr_ok s = true.
Proof. exact repr_float_repr_ok. Qed.
Print Assumptions C13_model_repr_in_grammar.

(* (3) second hypothesis of Section CPython: float() reads the repr text back as the same double ... *)
Theorem C13_model_repr_roundtrip : forall f s, repr_float f = ARes s -> py_float s = Some f.
Proof. exact repr_float_roundtrip. Qed.
Print Assumptions C13_model_repr_roundtrip.
(* ... and so does numberParseFloat's model after value_string's clean-up pass (the conclusion of C13_roundtrip) *)
Theorem C13_model_repr_roundtrip_clean : forall f s, repr_float f = ARes s ->
  value_parse_number (value_string_float s) = Some f.
Proof. exact repr_float_parse_number. Qed.
Print Assumptions C13_model_repr_roundtrip_clean.
(* the conclusion of C13_roundtrip_literal: for x > 0 the printed text is, as a whole, one numeric literal that reads back *)
Theorem C13_model_repr_roundtrip_literal : forall f s, repr_float f = ARes s -> is_neg_text s = false ->
  let text := value_string_float s in lit_match text = Some (O, length text) /\ py_float text = Some f.
Proof. exact repr_float_literal. Qed.
Print Assumptions C13_model_repr_roundtrip_literal.

(* (4) totality: for every binary64 m * 2^e some candidate is accepted (17 significant digits always read back, 10^16 > 2^53);
       so the whole contract holds, with nothing assumed, for every finite non-zero double *)
Theorem C13_model_repr_total : forall s m e, valid_binary prec emax (S754_finite s m e) = true ->
  exists t, repr_float (S754_finite s m e) = ARes t.
Proof. exact repr_float_total. Qed.
Print Assumptions C13_model_repr_total.
Theorem C13_model_repr_contract : forall s m e, valid_binary prec emax (S754_finite s m e) = true ->
  exists t, repr_float (S754_finite s m e) = ARes t /\ repr_ok t = true /\
            float_with dec_to_sf t = Some (S754_finite s m e) /\
            value_parse_number (value_string_float t) = Some (S754_finite s m e).
Proof. exact repr_float_contract. Qed.
Print Assumptions C13_model_repr_contract.

(* value_string on a number as the interpreter model prints it: every valid double (zeros, nan, inf included) has a text, and
   float() reads that text back as the same double; numberParseFloat's model returns every finite one *)
Theorem C13_model_repr_value_string_roundtrip : forall f t, valid_binary prec emax f = true ->
  num_text_full (NFlt f) = ARes t -> py_float t = Some f.
Proof. exact num_text_full_roundtrip. Qed.
Print Assumptions C13_model_repr_value_string_roundtrip.
Theorem C13_model_repr_value_string_total : forall f, valid_binary prec emax f = true ->
  exists t, num_text_full (NFlt f) = ARes t /\ py_float t = Some f.
Proof. exact num_text_full_total. Qed.
Print Assumptions C13_model_repr_value_string_total.
Theorem C13_model_repr_value_string_parse_number : forall f, valid_binary prec emax f = true -> sf_is_finite f = true ->
  exists t, num_text_full (NFlt f) = ARes t /\ value_parse_number t = Some f.
Proof. exact num_text_full_total_parse. Qed.
Print Assumptions C13_model_repr_value_string_parse_number.

(* for x >= 0 (sf_nonneg_finite: +0 or a finite double with sign bit clear) the printed text is, as a whole, one numeric literal of
   the expression grammar (with C13_model_repr_value_string_roundtrip: a literal that reads back as x) *)
Theorem C13_model_repr_value_string_literal : forall f t, valid_binary prec emax f = true -> sf_nonneg_finite f = true ->
  num_text_full (NFlt f) = ARes t -> lit_match t = Some (O, length t).
Proof. exact num_text_full_literal. Qed.
Print Assumptions C13_model_repr_value_string_literal.

(* THE PROPERTY ITSELF, in the interpreter's library model (Model/LibAll.v libfull: the table the interpreter model calls):
   for every finite double x,  numberParseFloat(stringNew(x)) == x  — stringNew answers with a string t (never declined, never
   null) and numberParseFloat of that string answers with the number x (argument validation from the regenerated Gen/ArgSpecs.v,
   the separator test, the model's exponent guard and the finiteness filter all pass) *)
Theorem C13_model_repr_library_roundtrip :
  forall (cfg : BS.Model.Interp.config) (cb : BS.Model.Interp.caller) (f : flt) (w : BS.Model.Interp.world),
  valid_binary prec emax f = true -> sf_is_finite f = true ->
  exists t, fst (BS.Model.LibAll.libfull cfg cb (U "stringNew") [BS.Model.Interp.VNum (NFlt f)] w)
              = BS.Model.Interp.LVal (BS.Model.Interp.VStr t) /\
            fst (BS.Model.LibAll.libfull cfg cb (U "numberParseFloat") [BS.Model.Interp.VStr t] w)
              = BS.Model.Interp.LVal (BS.Model.Interp.VNum (NFlt f)).
Proof. exact lib_roundtrip. Qed.
Print Assumptions C13_model_repr_library_roundtrip.

(* non-vacuity (vm_compute): 0.1, 1e22, 5e-324, 1.7976931348623157e308, 123456789.123, -2.5e-07, 1e16, 0.0001, 123456.0 and
   2.2250738585072014e-308 are valid doubles, repr_float and num_text_full print exactly CPython's texts for them
   ("123456.0" / "123456" for the integral one), and py_float / value_parse_number read the texts back as the same double *)
Theorem C13_model_repr_nonvacuous : forallb sample_ok repr_samples_model = true.
Proof. exact repr_samples_model_ok. Qed.
