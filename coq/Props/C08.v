(* Props/C08.v — C08: jump-level models execute by the documented statement semantics.
   Only statements and `exact`; the proofs are in Proofs/C08.v.  Every theorem holds for EVERY library
   behaviour [lib] (incl. callbacks into script functions), every options record [cfg], every URL
   resolver and every lint renderer: they are universally quantified. *)
From BS Require Import Model.Base Model.Num Model.Arith Model.ExprParser Model.Script Model.Interp Proofs.C08.

(* a taken jump continues after the FIRST label of that name in the SAME statement list *)
Theorem C08_label_lookup_is_first : forall name code k,
  find_label name code = Some k ->
  nth_error code k = Some (SLabel name) /\ forall j, j < k -> nth_error code j <> Some (SLabel name).
Proof. exact find_label_first. Qed.
Print Assumptions C08_label_lookup_is_first.

Theorem C08_label_lookup_none : forall name code,
  find_label name code = None -> forall j, nth_error code j <> Some (SLabel name).
Proof. exact find_label_none. Qed.
Print Assumptions C08_label_lookup_none.

(* the per-invocation label cache never changes what a run does: with any cache whose entries are what
   the lookup would find, the loop behaves exactly as the cache-free "search the list" semantics *)
Theorem C08_cache_irrelevant : forall cfg lib url_rel lint_lines fuel code pc cache loc um w,
  cache_ok code cache ->
  exec cfg lib url_rel lint_lines fuel code pc cache loc um w = exec cfg lib url_rel lint_lines fuel code pc [] loc um w.
Proof. exact exec_cache_irrelevant. Qed.
Print Assumptions C08_cache_irrelevant.

Theorem C08_jump_goes_after_first_label : forall cfg lib url_rel lint_lines f code pc loc um w label k,
  nth_error code pc = Some (SJump label None) ->
  find_label label code = Some k ->
  ((0 <? c_max cfg)%Z && (c_max cfg <? w_count w + 1)%Z) = false ->
  exec cfg lib url_rel lint_lines (S f) code pc [] loc um w =
  exec cfg lib url_rel lint_lines f code (S k) [] loc um (upd_count w (w_count w + 1)).
Proof. exact exec_jump_first_label. Qed.
Print Assumptions C08_jump_goes_after_first_label.

Theorem C08_unknown_label : forall cfg lib url_rel lint_lines f code pc cache loc um w label,
  cache_ok code cache ->
  nth_error code pc = Some (SJump label None) ->
  find_label label code = None ->
  ((0 <? c_max cfg)%Z && (c_max cfg <? w_count w + 1)%Z) = false ->
  fst (fst (exec cfg lib url_rel lint_lines (S f) code pc cache loc um w)) = ORt (msg_unknown_label label).
Proof. exact exec_unknown_label. Qed.
Print Assumptions C08_unknown_label.

Theorem C08_end_of_list_returns_null : forall cfg lib url_rel lint_lines f code pc cache loc um w,
  nth_error code pc = None -> exec cfg lib url_rel lint_lines (S f) code pc cache loc um w = (OVal VNull, loc, w).
Proof. exact exec_end. Qed.
Print Assumptions C08_end_of_list_returns_null.

Theorem C08_return_ends_the_list : forall cfg lib url_rel lint_lines f code pc cache loc um w e,
  nth_error code pc = Some (SReturn (Some e)) ->
  ((0 <? c_max cfg)%Z && (c_max cfg <? w_count w + 1)%Z) = false ->
  exec cfg lib url_rel lint_lines (S f) code pc cache loc um w =
  (let '(o, w1) := eval cfg lib url_rel lint_lines f e loc false um (upd_count w (w_count w + 1)) in (o, loc, w1)).
Proof. exact exec_return_some. Qed.
Print Assumptions C08_return_ends_the_list.

Theorem C08_function_statement_binds_global : forall cfg lib url_rel lint_lines f code pc cache loc um w name args asy last body,
  nth_error code pc = Some (SFunction name args asy last body) ->
  ((0 <? c_max cfg)%Z && (c_max cfg <? w_count w + 1)%Z) = false ->
  exists w1, exec cfg lib url_rel lint_lines (S f) code pc cache loc um w = exec cfg lib url_rel lint_lines f code (S pc) cache loc um w1 /\
             env_get name (w_globals w1) = Some (VFun (FScript (length (w_funs w)))) /\
             nth_error (w_funs w1) (length (w_funs w)) = Some {| fd_name := name; fd_args := args; fd_last := last; fd_body := body |}.
Proof. exact exec_function_binds. Qed.
Print Assumptions C08_function_statement_binds_global.

(* jumps never cross between a function body and its caller: a call runs the body as its own list, from
   index 0, with an empty label cache *)
Theorem C08_call_scope_local : forall cfg lib url_rel lint_lines f id args um w fd,
  nth_error (w_funs w) id = Some fd ->
  exists locals w1,
    call cfg lib url_rel lint_lines (S f) (VFun (FScript id)) args um w =
    (let '(o, _, w2) := exec cfg lib url_rel lint_lines f (fd_body fd) 0 [] (Some locals) um w1 in (o, w2)).
Proof. exact call_scope_local. Qed.
Print Assumptions C08_call_scope_local.

(* "one model can be executed repeatedly with identical results for identical globals": in the model a run is a
   FUNCTION of (options, library, model, initial world) - stated for the record; that the Python objects are not mutated is
   checked on the implementation by the harness (deep copy before / compare after, and two runs compared). *)
Theorem C08_deterministic : forall cfg lib url_rel lint_lines fuel sc w r1 r2,
  execute_script cfg lib url_rel lint_lines fuel sc w = r1 -> execute_script cfg lib url_rel lint_lines fuel sc w = r2 -> r1 = r2.
Proof. intros; congruence. Qed.

(* non-vacuity: a list with a duplicate label, a backward and a forward jump *)
Example C08_example_first_of_duplicates :
  find_label (U "L") [SLabel (U "A"); SLabel (U "L"); SJump (U "L") None; SLabel (U "L")] = Some 1.
Proof. vm_compute. reflexivity. Qed.
