(* Props/C03.v — C03: expression evaluation follows the typed operator semantics.  Statements and `exact` only. *)
From BS Require Import Model.Base Model.Num Model.Arith Model.ExprParser Model.Script Model.Interp Gen.Library Gen.OpTable Proofs.C03 Proofs.C03gen.

(* any operator applied to operand types it does not support yields null ([supported] is the documented table, written as data
   in Proofs/C03.v: + number/number, string/any, any/string, datetime/number; - number/number, datetime/datetime;
   * / % ** number/number; comparisons everything) *)
Theorem C03_unsupported_is_null : forall op w a b, supported op (tag a) (tag b) = false -> binop op w a b = OVal VNull.
Proof. exact unsupported_is_null. Qed.
Print Assumptions C03_unsupported_is_null.

(* ... and that table is not only a transcription: it IS the operand-type ladder of runtime.py evaluate_expression.  Gen/OpTable.v
   is REGENERATED from the source on every run (per operator the guards of its branch: _is_number / isinstance str /
   isinstance datetime.date on the left and right value, in source order; _is_number pinned to exclude bool; the handler pinned to
   (ArithmeticError, ValueError, RecursionError)); for every operator of the generated table and every pair of the nine value types, [supported]
   holds exactly when a guard of the source admits the pair *)
Theorem C03_supported_table_is_the_source_ladder : forall op g a b,
  In (op, g) gen_operator_guards -> supported op a b = guards_admit g a b.
Proof. exact supported_is_the_source_ladder. Qed.
Print Assumptions C03_supported_table_is_the_source_ladder.
Example C03_generated_operators :
  map fst gen_operator_guards = [U "+"; U "-"; U "*"; U "/"; U "=="; U "!="; U "<="; U "<"; U ">="; U ">"; U "%"; U "**"].
Proof. exact generated_operators. Qed.

Theorem C03_arithmetic_yields_number_or_null : forall op w x y,
  is_relational op = false -> op_is op "+" = false ->
  (exists n, binop op w (VNum x) (VNum y) = OVal (VNum n)) \/ binop op w (VNum x) (VNum y) = OVal VNull \/
  binop op w (VNum x) (VNum y) = OOracle.
Proof. exact arithmetic_yields_number_or_null. Qed.
Print Assumptions C03_arithmetic_yields_number_or_null.

(* comparisons use the total value order: the six operators are exactly its sign tests *)
Theorem C03_relational_is_sign_test : forall op w a b c,
  is_relational op = true -> op_is op "+" = false -> op_is op "-" = false -> op_is op "*" = false -> op_is op "/" = false ->
  vcompare (cmp_fuel w) w a b = Some c ->
  binop op w a b = OVal (VBool (sign_test op c)).
Proof. exact relational_is_sign_test. Qed.
Print Assumptions C03_relational_is_sign_test.

(* && and || return one of their operands and do not evaluate the right operand when the left decides *)
Theorem C03_and_short_circuit : forall cfg lib url_rel lint_lines f l r loc bi um w lv w1,
  eval cfg lib url_rel lint_lines f l loc bi um w = (OVal lv, w1) -> truthy w1 lv = false ->
  eval cfg lib url_rel lint_lines (S f) (EBin (U "&&") l r) loc bi um w = (OVal lv, w1).
Proof. exact and_short_circuit. Qed.
Theorem C03_and_evaluates_right : forall cfg lib url_rel lint_lines f l r loc bi um w lv w1,
  eval cfg lib url_rel lint_lines f l loc bi um w = (OVal lv, w1) -> truthy w1 lv = true ->
  eval cfg lib url_rel lint_lines (S f) (EBin (U "&&") l r) loc bi um w = eval cfg lib url_rel lint_lines f r loc bi um w1.
Proof. exact and_evaluates_right. Qed.
Theorem C03_or_short_circuit : forall cfg lib url_rel lint_lines f l r loc bi um w lv w1,
  eval cfg lib url_rel lint_lines f l loc bi um w = (OVal lv, w1) -> truthy w1 lv = true ->
  eval cfg lib url_rel lint_lines (S f) (EBin (U "||") l r) loc bi um w = (OVal lv, w1).
Proof. exact or_short_circuit. Qed.
Theorem C03_or_evaluates_right : forall cfg lib url_rel lint_lines f l r loc bi um w lv w1,
  eval cfg lib url_rel lint_lines f l loc bi um w = (OVal lv, w1) -> truthy w1 lv = false ->
  eval cfg lib url_rel lint_lines (S f) (EBin (U "||") l r) loc bi um w = eval cfg lib url_rel lint_lines f r loc bi um w1.
Proof. exact or_evaluates_right. Qed.
Print Assumptions C03_or_evaluates_right.

(* every other operator: left operand, then right operand, each exactly once, then the operator on the two values *)
Theorem C03_strict_operator_order : forall cfg lib url_rel lint_lines f op l r loc bi um w lv w1 rv w2,
  op_is op "&&" = false -> op_is op "||" = false ->
  eval cfg lib url_rel lint_lines f l loc bi um w = (OVal lv, w1) -> eval cfg lib url_rel lint_lines f r loc bi um w1 = (OVal rv, w2) ->
  eval cfg lib url_rel lint_lines (S f) (EBin op l r) loc bi um w = (binop op w2 lv rv, w2).
Proof. exact strict_operator_order. Qed.
Print Assumptions C03_strict_operator_order.

(* if() evaluates only the selected branch *)
Theorem C03_if_selects_one_branch : forall cfg lib url_rel lint_lines f c a b loc bi um w cv w1,
  eval cfg lib url_rel lint_lines f c loc bi um w = (OVal cv, w1) ->
  eval cfg lib url_rel lint_lines (S f) (ECall (U "if") [c; a; b]) loc bi um w =
  eval cfg lib url_rel lint_lines f (if truthy w1 cv then a else b) loc bi um w1.
Proof. exact if_selects_one_branch. Qed.
Print Assumptions C03_if_selects_one_branch.

(* call arguments are evaluated exactly once, left to right *)
Theorem C03_arguments_left_to_right : forall ev loc bi um l1 l2 w acc,
  eval_args ev loc bi um (l1 ++ l2) w acc =
  match eval_args ev loc bi um l1 w acc with
  | (inr vs, w1) => eval_args ev loc bi um l2 w1 (rev vs)
  | (inl o, w1) => (inl o, w1)
  end.
Proof. exact eval_args_app. Qed.
Print Assumptions C03_arguments_left_to_right.

(* in expression mode each built-in behaves exactly as the library function it aliases (GENERATED alias table) *)
Theorem C03_alias_resolves : forall name target loc w,
  (match loc with Some l => env_get name l | None => None end) = None ->
  env_get name (w_globals w) = None ->
  assoc name gen_expr_alias = Some target ->
  lookup_fn name loc true w = Some (VFun (FLib target)).
Proof. exact alias_resolves. Qed.
Theorem C03_alias_call_is_target_call : forall cfg lib url_rel lint_lines f a t args loc um w,
  op_is a "if" = false -> op_is t "if" = false -> c_debug cfg = false ->
  (forall w1, lookup_fn a loc true w1 = Some (VFun (FLib t))) ->
  (forall w1, lookup_fn t loc true w1 = Some (VFun (FLib t))) ->
  eval cfg lib url_rel lint_lines (S f) (ECall a args) loc true um w = eval cfg lib url_rel lint_lines (S f) (ECall t args) loc true um w.
Proof. exact alias_call_is_target_call. Qed.
Theorem C03_alias_targets_exist : forallb (fun at_ => str_mem (snd at_) gen_script_functions) gen_expr_alias = true.
Proof. exact alias_targets_exist. Qed.
Print Assumptions C03_alias_call_is_target_call.

(* non-vacuity: the table has unsupported and supported rows *)
Example C03_example_rows :
  supported (U "*") GStr GNum = false /\ supported (U "+") GStr GNull = true /\ supported (U "-") GDate GDate = true /\
  supported (U "<") GArr GObj = true /\ supported (U "+") GBool GNum = false.
Proof. vm_compute. repeat split. Qed.
