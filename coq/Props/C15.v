From BS Require Import Model.Base Model.Num Model.LibVal Gen.ArgSpecs Model.LibSeq Proofs.C15.
