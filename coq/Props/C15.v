(* Props/C15.v — property C15: array, object and string functions obey their sequence / map / string contracts under any
   history of calls.  ONLY statements; every proof is `exact <lemma of Proofs/C15.v or Proofs/C15hist*.v>`; the abstract
   machine of the history theorems is Proofs/C15spec.v (definitions only).
   The model (Model/LibSeq.v) validates arguments with ONE generic function over the table REGENERATED from library.py
   (Gen/ArgSpecs.v); re.escape's special characters, urllib's always-safe bytes and the safe= sets are regenerated too. *)
From Coq Require Import ZArith List.
From BS Require Import Model.Base Model.Num Model.LibVal Gen.ArgSpecs Model.LibSeq Proofs.C15.
From BS Require Import Proofs.C15spec Proofs.C15histd Proofs.C15histe Proofs.C15histf.
From BS Require Import Proofs.C15spec2 Proofs.C15str Proofs.C15strb Proofs.C15histg Proofs.C15aeq Proofs.C15histi Proofs.C15histj Proofs.C15histk Proofs.C15spec3 Proofs.C15histl Proofs.C15histm.
From Coq Require Import SpecFloat.
Import ListNotations.
Local Open Scope Z_scope.

(* ---- SHAPE of every modelled call: the heap is untouched, or the cell of the FIRST argument is overwritten (only by a
   successful call), or exactly one cell is allocated and returned *)
Theorem C15_call_shape : forall f args h r h', lib f args h = (r, h') -> step_shape h (arg_loc args) r h'.
Proof. exact lib_shape. Qed.
Print Assumptions C15_call_shape.

(* FRAME: mutators change only the passed container *)
Theorem C15_frame : forall f args h r h' l, lib f args h = (r, h') ->
  (l < length h)%nat -> arg_loc args <> Some l -> hget h' l = hget h l.
Proof. exact lib_frame. Qed.
Print Assumptions C15_frame.

(* FRESH: copies / slices / new containers / key lists / split results are locations that were not in the heap *)
Theorem C15_fresh : forall f args h r h', lib f args h = (r, h') -> length h' <> length h ->
  (r = LOk (VArr (length h)) \/ r = LOk (VObj (length h))) /\ hget h (length h) = None
  /\ (exists c, h' = h ++ [c]) /\ forall l, (l < length h)%nat -> hget h' l = hget h l.
Proof. exact lib_alloc_fresh. Qed.
Print Assumptions C15_fresh.
Theorem C15_slice_of_whole_array_is_fresh : forall h l xs, hget h l = Some (CArr xs) ->
  lib (U "arraySlice") [VArr l] h = (LOk (VArr (length h)), h ++ [CArr xs]).
Proof. exact arraySlice_whole. Qed.
Print Assumptions C15_slice_of_whole_array_is_fresh.

(* FAILURE-ATOMIC: a failing call (ValueArgsError, any other exception, ...) leaves the whole heap unchanged, and the value
   a ValueArgsError carries is the failure value of the generated table *)
Theorem C15_failure_atomic : forall f args h r h', lib f args h = (r, h') -> is_fail r = true -> h' = h.
Proof. exact lib_failure_atomic. Qed.
Print Assumptions C15_failure_atomic.
Theorem C15_failure_value : forall f args h x h', lib f args h = (LArgsErr x, h') -> x = failure_of f args.
Proof. exact lib_failure_value. Qed.
Print Assumptions C15_failure_value.

(* WRONG TYPE: every function of the table, every typed position, every present value of another type (a boolean where a
   number is declared included) *)
Theorem C15_wrong_type : forall f k specs fv args h i sp v t r h',
  assoc f raw_table = None -> assoc f lib_table = Some k -> assoc_spec f gen_arg_specs = Some (specs, fv) ->
  nth_error specs i = Some sp -> as_type sp = Some t -> t <> TBoolean ->
  (forall j sp', (j <= i)%nat -> nth_error specs j = Some sp' -> as_last sp' = false) ->
  nth_error args i = Some v -> type_ok t v = false -> (v <> VNull \/ as_nullable sp = false) ->
  lib f args h = (r, h') ->
  h' = h /\ is_fail r = true /\ (forall x, r = LArgsErr x -> x = failure_of f args).
Proof. exact lib_wrong_type. Qed.
Print Assumptions C15_wrong_type.
Example C15_wrong_type_nonvacuous : forall h l, exists r,
  lib (U "arrayGet") [VArr l; VBool true] h = (r, h) /\ r = LArgsErr VNull.
Proof. exact lib_wrong_type_bool_index. Qed.

(* HISTORY-FRAME (over ANY modelled function, kept from the first round): after any history, a container never passed as
   first argument is unchanged; heap and variables only grow.  The refinement shape of the design is C15_history below. *)
Theorem C15_history_frame_partial : forall ops st st', run_ops ops st = Some st' ->
  (length (snd st) <= length (snd st'))%nat /\ (exists e2, fst st' = fst st ++ e2 /\ length e2 = length ops)
  /\ forall l, (l < length (snd st))%nat -> ~ In l (touched ops st) -> hget (snd st') l = hget (snd st) l.
Proof. exact history_frame. Qed.
Print Assumptions C15_history_frame_partial.
Example C15_copy_is_independent : forall ops e h l xs st',
  hget h l = Some (CArr xs) ->
  let h1 := h ++ [CArr xs] in
  lib (U "arrayCopy") [VArr l] h = (LOk (VArr (length h)), h1) /\
  (run_ops ops (e, h1) = Some st' -> ~ In (length h) (touched ops (e, h1)) -> hget (snd st') (length h) = Some (CArr xs)).
Proof. exact copy_is_independent. Qed.

(* ====================================================================== HISTORY: refinement to an abstract machine
   Design statement:  forall ops h0, abs (fold_left run_op ops h0) = fold_left spec_op ops (abs h0).
   The abstract machine (Proofs/C15spec.v): state `astate` = finite map  reference -> ASeq (pure list of values) | AMap (pure
   string-keyed association list);  `spec_call f args m` = plain list / association-list operations (no argument table, no
   float guards, no Python index arithmetic);  `abs : heap -> astate`.  OPS = the 20 functions of `spec_table`. *)
Example C15_OPS : map fst spec_table =
  [U "arrayNew"; U "arrayNewSize"; U "arrayCopy"; U "arrayLength"; U "arrayGet"; U "arraySet"; U "arrayDelete"; U "arrayPush";
   U "arrayPop"; U "arrayShift"; U "arrayExtend"; U "arraySlice"; U "objectNew"; U "objectCopy"; U "objectKeys"; U "objectGet";
   U "objectHas"; U "objectSet"; U "objectDelete"; U "objectAssign"].
Proof. reflexivity. Qed.

(* STEP: for every function of OPS, EVERY argument list (any length, any types, self-aliasing, dangling references) and every
   heap, the model's call seen abstractly (`abs_call`: result tag + value, abstraction of the new heap; None if the model is
   stuck) IS the abstract operation on the abstracted heap.  Failure cases included: SFail carries the documented failure value
   and the abstract state is unchanged. *)
Theorem C15_history_step : forall f, in_OPS f = true -> forall args h, abs_call (lib f args h) = spec_call f args (abs h).
Proof. exact spec_call_refines. Qed.
Print Assumptions C15_history_step.

(* HISTORY: abstraction commutes with running any list of statements whose calls are OPS calls (`r_k = f(args)`, `r_k = v_n`,
   `r_k = literal`), from ANY state.  The state of both machines includes the variable list, so the results of all calls agree
   too.  No well-formedness hypothesis: an ill-formed state is stuck (None) on both sides. *)
Theorem C15_history : forall ops s, forallb op_in_OPS ops = true ->
  abs_st (fold_left run_op ops s) = fold_left spec_step ops (abs_st s).
Proof. exact history_refines_gen. Qed.
Print Assumptions C15_history.

(* WELL-FORMED histories never get stuck.  `wf_state`: every reference held by a variable or stored in a container is bound to
   a cell of the right kind.  `wf_hist`: each statement, in the state it runs in, calls a function of OPS with arguments that
   are existing variables, scalars, or references of the CURRENT heap (boolean, threaded through the run; success of the run
   is a conclusion).  Then the run completes with one result per statement, well-formedness is preserved, the heap only
   grows, and the abstract run completes with the SAME results and the abstraction of the final heap. *)
Theorem C15_history_results : forall ops e h, wf_state (e, h) = true -> wf_hist ops (e, h) = true ->
  exists rs h', run_ops ops (e, h) = Some (e ++ rs, h') /\ spec_run ops (e, abs h) = Some (e ++ rs, abs h')
                /\ length rs = length ops /\ wf_state (e ++ rs, h') = true /\ (length h <= length h')%nat.
Proof. exact history_results. Qed.
Print Assumptions C15_history_results.
(* a purely syntactic sufficient condition: variables refer to earlier statements, literals are scalars *)
Theorem C15_history_wf_syntactic : forall ops n e h, wf_syn n ops = true -> (n <= length e)%nat -> wf_hist ops (e, h) = true.
Proof. exact wf_syn_hist. Qed.
Print Assumptions C15_history_wf_syntactic.
(* the abstract machine alone: on a well-formed abstract state with well-formed arguments every OPS call is defined and does
   one of three things (nothing | replace the contents of one bound reference by a cell of the same kind | bind the next
   reference), with a well-formed result *)
Theorem C15_spec_machine_total : forall f, in_OPS f = true -> forall args m, awf m = true -> forallb (aval_ok m) args = true ->
  exists r m', spec_call f args m = Some (r, m') /\ outcome m r m'.
Proof. exact spec_call_good. Qed.
Print Assumptions C15_spec_machine_total.

(* self-aliasing calls: arrayExtend(a, a) doubles a, objectAssign(o, o) is dict_update of o with itself *)
Example C15_self_extend : forall m l xs, alookup m l = Some (ASeq xs) ->
  spec_call (U "arrayExtend") [VArr l; VArr l] m = Some (SOk (VArr l), aupdate m l (ASeq (xs ++ xs))).
Proof. exact spec_self_extend. Qed.
Example C15_self_assign : forall m l kv, alookup m l = Some (AMap kv) ->
  spec_call (U "objectAssign") [VObj l; VObj l] m = Some (SOk (VObj l), aupdate m l (AMap (dict_update kv kv))).
Proof. exact spec_self_assign. Qed.

(* non-vacuity: a 14-statement history with an alias (b = a), a self-extend, a float-spelled bound, a reference stored inside
   another array and inside an object, a self-assign, an out-of-range read (documented failure value null), a read through the
   object, and a wrong-typed call; both machines evaluated by vm_compute *)
Definition c15_i (z : Z) : arg := ALit (VNum (NInt z)).
Definition c15_hist : list op :=
  [ OCall (U "arrayNew") [c15_i 1; c15_i 2; c15_i 3];                                  (* v0 = a = [1,2,3] *)
    OAlias 0;                                                                           (* v1 = b = a *)
    OCall (U "arrayPush") [AVar 1; c15_i 4];                                            (* push through the alias *)
    OCall (U "arrayExtend") [AVar 0; AVar 0];                                           (* a = a ++ a *)
    OCall (U "arraySlice") [AVar 0; c15_i 1; ALit (VNum (NFlt (Z_to_sf 3)))];           (* v4 = c = fresh [2,3] *)
    OCall (U "arraySet") [AVar 4; c15_i 0; AVar 1];                                     (* c[0] = a (a reference inside c) *)
    OCall (U "objectNew") [ALit (VStr (U "k")); AVar 1; ALit (VStr (U "n"))];           (* v6 = o = {k: a, n: null} *)
    OCall (U "objectAssign") [AVar 6; AVar 6];                                          (* o = o | o *)
    OCall (U "arrayPop") [AVar 1];                                                      (* 4 *)
    OCall (U "arrayGet") [AVar 0; c15_i 7];                                             (* out of range now: null *)
    OCall (U "arrayLength") [AVar 0];                                                   (* 7 *)
    OCall (U "objectGet") [AVar 6; ALit (VStr (U "k"))];                                (* v11 = a, read through o *)
    OCall (U "arrayShift") [AVar 11];                                                   (* 1; a = [2,3,4,1,2,3] *)
    OCall (U "arrayPop") [c15_i 5] ].                                                   (* wrong type: null, nothing changes *)
Definition c15_final_env : env :=
  [VArr 0%nat; VArr 0%nat; VArr 0%nat; VArr 0%nat; VArr 1%nat; VArr 0%nat; VObj 2%nat; VObj 2%nat;
   VNum (NInt 4); VNull; VNum (NInt 7); VArr 0%nat; VNum (NInt 1); VNull].
Definition c15_final_heap : heap :=
  [CArr [VNum (NInt 2); VNum (NInt 3); VNum (NInt 4); VNum (NInt 1); VNum (NInt 2); VNum (NInt 3)];
   CArr [VArr 0%nat; VNum (NInt 3)];
   CObj [(U "k", VArr 0%nat); (U "n", VNull)]].
Example C15_history_nonvacuous :
  wf_state ([], []) = true /\ wf_syn 0 c15_hist = true /\ forallb op_in_OPS c15_hist = true
  /\ run_ops c15_hist ([], []) = Some (c15_final_env, c15_final_heap)
  /\ spec_run c15_hist ([], abs []) = Some (c15_final_env, abs c15_final_heap)
  /\ abs c15_final_heap =
       [(0%nat, ASeq [VNum (NInt 2); VNum (NInt 3); VNum (NInt 4); VNum (NInt 1); VNum (NInt 2); VNum (NInt 3)]);
        (1%nat, ASeq [VArr 0%nat; VNum (NInt 3)]);
        (2%nat, AMap [(U "k", VArr 0%nat); (U "n", VNull)])].
Proof. vm_compute. repeat split; reflexivity. Qed.

(* REFINEMENT to the pure list / map specification, per call, for ANY spelling of the index (`integral n z`) *)
Theorem C15_arrayGet : forall h l xs n z v, hget h l = Some (CArr xs) -> integral n z -> 0 <= z < len xs ->
  nth_error xs (Z.to_nat z) = Some v -> lib (U "arrayGet") [VArr l; VNum n] h = (LOk v, h).
Proof. exact arrayGet_spec. Qed.
Theorem C15_arrayGet_out_of_range : forall h l xs n z, hget h l = Some (CArr xs) -> integral n z -> (z < 0 \/ len xs <= z) ->
  lib (U "arrayGet") [VArr l; VNum n] h = (LArgsErr VNull, h).
Proof. exact arrayGet_out_of_range. Qed.
Theorem C15_arraySet : forall h l xs n z v, hget h l = Some (CArr xs) -> integral n z -> 0 <= z < len xs ->
  lib (U "arraySet") [VArr l; VNum n; v] h = (LOk v, hset h l (CArr (set_nth xs (Z.to_nat z) v))).
Proof. exact arraySet_spec. Qed.
Theorem C15_arraySet_out_of_range : forall h l xs n z v, hget h l = Some (CArr xs) -> integral n z -> (z < 0 \/ len xs <= z) ->
  lib (U "arraySet") [VArr l; VNum n; v] h = (LArgsErr VNull, h).
Proof. exact arraySet_out_of_range. Qed.
Theorem C15_arrayDelete : forall h l xs n z, hget h l = Some (CArr xs) -> integral n z -> 0 <= z < len xs ->
  lib (U "arrayDelete") [VArr l; VNum n] h = (LOk VNull, hset h l (CArr (remove_nth xs (Z.to_nat z)))).
Proof. exact arrayDelete_spec. Qed.
Theorem C15_arrayPush : forall h l xs vs, hget h l = Some (CArr xs) ->
  lib (U "arrayPush") (VArr l :: vs) h = (LOk (VArr l), hset h l (CArr (xs ++ vs))).
Proof. exact arrayPush_spec. Qed.
Theorem C15_arrayPop : forall h l ys v, hget h l = Some (CArr (ys ++ [v])) ->
  lib (U "arrayPop") [VArr l] h = (LOk v, hset h l (CArr ys)).
Proof. exact arrayPop_spec. Qed.
Theorem C15_arrayPop_empty : forall h l, hget h l = Some (CArr []) -> lib (U "arrayPop") [VArr l] h = (LArgsErr VNull, h).
Proof. exact arrayPop_empty. Qed.
Theorem C15_arrayShift : forall h l v xs, hget h l = Some (CArr (v :: xs)) ->
  lib (U "arrayShift") [VArr l] h = (LOk v, hset h l (CArr xs)).
Proof. exact arrayShift_spec. Qed.
Theorem C15_arrayExtend : forall h l l2 xs ys, hget h l = Some (CArr xs) -> hget h l2 = Some (CArr ys) ->
  lib (U "arrayExtend") [VArr l; VArr l2] h = (LOk (VArr l), hset h l (CArr (xs ++ ys))).
Proof. exact arrayExtend_spec. Qed.
Theorem C15_arrayLength : forall h l xs, hget h l = Some (CArr xs) ->
  lib (U "arrayLength") [VArr l] h = (LOk (VNum (NInt (len xs))), h).
Proof. exact arrayLength_spec. Qed.
Theorem C15_arrayCopy : forall h l xs, hget h l = Some (CArr xs) ->
  lib (U "arrayCopy") [VArr l] h = (LOk (VArr (length h)), h ++ [CArr xs]).
Proof. exact arrayCopy_spec. Qed.
Theorem C15_arraySlice : forall h l xs n1 s n2 e, hget h l = Some (CArr xs) -> integral n1 s -> integral n2 e ->
  0 <= s <= len xs -> 0 <= e <= len xs ->
  lib (U "arraySlice") [VArr l; VNum n1; VNum n2] h
  = (LOk (VArr (length h)), h ++ [CArr (skipn (Z.to_nat s) (firstn (Z.to_nat e) xs))]).
Proof. exact arraySlice_spec. Qed.
Print Assumptions C15_arraySlice.
Example C15_float_index_nonvacuous : forall h l a b c v, hget h l = Some (CArr [a; b; c]) ->
  lib (U "arraySet") [VArr l; VNum (NFlt (Z_to_sf 2)); v] h = (LOk v, hset h l (CArr [a; b; v])).
Proof. exact arraySet_float_index. Qed.

Theorem C15_objectGet : forall h l kv k d, hget h l = Some (CObj kv) ->
  lib (U "objectGet") [VObj l; VStr k; d] h = (LOk (match assoc k kv with Some v => v | None => d end), h).
Proof. exact objectGet_spec. Qed.
Theorem C15_objectGet_present_null : forall h l kv k d, hget h l = Some (CObj kv) -> assoc k kv = Some VNull ->
  lib (U "objectGet") [VObj l; VStr k; d] h = (LOk VNull, h).
Proof. exact objectGet_present_null. Qed.
Theorem C15_objectSet : forall h l kv k v, hget h l = Some (CObj kv) ->
  lib (U "objectSet") [VObj l; VStr k; v] h = (LOk v, hset h l (CObj (dict_set kv k v))).
Proof. exact objectSet_spec. Qed.
Theorem C15_objectHas : forall h l kv k, hget h l = Some (CObj kv) ->
  lib (U "objectHas") [VObj l; VStr k] h = (LOk (VBool (match assoc k kv with Some _ => true | None => false end)), h).
Proof. exact objectHas_spec. Qed.
Theorem C15_objectDelete : forall h l kv k, hget h l = Some (CObj kv) ->
  lib (U "objectDelete") [VObj l; VStr k] h = (LOk VNull, hset h l (CObj (dict_del kv k))).
Proof. exact objectDelete_spec. Qed.
Theorem C15_objectKeys : forall h l kv, hget h l = Some (CObj kv) ->
  lib (U "objectKeys") [VObj l] h = (LOk (VArr (length h)), h ++ [CArr (map (fun p => VStr (fst p)) kv)]).
Proof. exact objectKeys_spec. Qed.
Theorem C15_objectCopy : forall h l kv, hget h l = Some (CObj kv) ->
  lib (U "objectCopy") [VObj l] h = (LOk (VObj (length h)), h ++ [CObj kv]).
Proof. exact objectCopy_spec. Qed.
Theorem C15_objectAssign : forall h l l2 kv kv2, hget h l = Some (CObj kv) -> hget h l2 = Some (CObj kv2) ->
  lib (U "objectAssign") [VObj l; VObj l2] h = (LOk (VObj l), hset h l (CObj (dict_update kv kv2))).
Proof. exact objectAssign_spec. Qed.
Print Assumptions C15_objectAssign.
(* association lists with distinct keys are finite maps *)
Theorem C15_map_laws : forall kv k v,
  assoc k (dict_set kv k v) = Some v /\ (forall k', k' <> k -> assoc k' (dict_set kv k v) = assoc k' kv)
  /\ (NoDup (map fst kv) -> NoDup (map fst (dict_set kv k v)) /\ NoDup (map fst (dict_del kv k)) /\ assoc k (dict_del kv k) = None)
  /\ (forall k', k' <> k -> assoc k' (dict_del kv k) = assoc k' kv).
Proof.
  intros. split; [apply assoc_dict_set_same|]. split; [intros; apply assoc_dict_set_other; auto|].
  split; [intros; split; [apply dict_set_nodup; auto | split; [apply dict_del_nodup; auto | apply assoc_dict_del_same; auto]]|].
  intros; apply assoc_dict_del_other; auto.
Qed.
Print Assumptions C15_map_laws.

Theorem C15_stringCharCodeAt : forall h s n z c, integral n z -> 0 <= z < len s -> nth_error s (Z.to_nat z) = Some c ->
  lib (U "stringCharCodeAt") [VStr s; VNum n] h = (LOk (VNum (NInt (Z.of_N c))), h).
Proof. exact stringCharCodeAt_spec. Qed.
Theorem C15_stringSlice : forall h s n1 st n2 e, integral n1 st -> integral n2 e -> 0 <= st <= len s -> 0 <= e <= len s ->
  lib (U "stringSlice") [VStr s; VNum n1; VNum n2] h = (LOk (VStr (skipn (Z.to_nat st) (firstn (Z.to_nat e) s))), h).
Proof. exact stringSlice_spec. Qed.
Print Assumptions C15_stringSlice.

(* stringSplit returns a fresh array of pieces whose join with the separator is the string; stringReplace is split-then-join *)
Theorem C15_stringSplit_join : forall h s sep, sep <> [] ->
  lib (U "stringSplit") [VStr s; VStr sep] h = (LOk (VArr (length h)), h ++ [CArr (map VStr (py_split s sep))])
  /\ join_with sep (py_split s sep) = s.
Proof. exact stringSplit_spec. Qed.
Print Assumptions C15_stringSplit_join.
Theorem C15_stringReplace_is_split_join : forall h s old new, old <> [] ->
  lib (U "stringReplace") [VStr s; VStr old; VStr new] h = (LOk (VStr (join_with new (py_split s old))), h).
Proof. exact stringReplace_spec. Qed.
Print Assumptions C15_stringReplace_is_split_join.

(* regexEscape(s), read as a literal pattern (unescaped non-metacharacters and backslash + non-alphanumeric), matches exactly s *)
Theorem C15_regex_escape : forall s t, matches_lit (regex_escape s) t <-> t = s.
Proof. exact regex_escape_exact. Qed.
Print Assumptions C15_regex_escape.

(* URL encoding (both safe sets of the generated table) is reversed by percent-decoding + UTF-8 decoding; it is defined on
   every string of scalar values *)
Theorem C15_url_roundtrip : forall f safe s r, url_safe_of f = Some safe -> url_quote safe s = Some r -> url_unquote r = Some s.
Proof. exact url_quote_reversible. Qed.
Print Assumptions C15_url_roundtrip.
Theorem C15_url_total_on_scalars : forall safe s, forallb scalar s = true -> exists r, url_quote safe s = Some r.
Proof. exact url_quote_total_on_scalars. Qed.
Print Assumptions C15_url_total_on_scalars.
Example C15_url_nonvacuous : url_safe_of (U "urlEncode") = Some (U "':/&+") /\ url_safe_of (U "urlEncodeComponent") = Some (U "'")
  /\ url_quote (U "'") (U "a b/\0000e9") = Some (U "a%20b%2F%C3%A9").
Proof. vm_compute. auto. Qed.

(* ====================================================================== HISTORY, third round: the STRING functions inside histories
   Proofs/C15spec2.v part A: each string function is a PURE operation of the abstract machine (the abstract state does not change;
   stringSplit binds ONE fresh sequence), specified with plain list operations on code-point lists:
     stringLength = length; stringCharCodeAt = nth_error; stringStartsWith / EndsWith = equality with firstn / skipn;
     stringIndexOf = the LEAST position in [index, length] where the needle is a prefix of skipn (find over seq);
     stringLastIndexOf = the GREATEST position in [0, index] (find over rev seq); stringSlice = skipn / firstn (a bound beyond the
     length fails); stringRepeat = concat (repeat ..); stringSplit = cut at the least occurrence, go on after it;
     stringReplace = join the new text between the pieces of the split (empty `old`: before every code point and at the end);
     stringTrim = drop the white code points at both ends; stringFromCharCode = map over code points < 0x110000;
     regexEscape / urlEncode / urlEncodeComponent = the encoder itself (their independent characterisations are C15_regex_escape
     and C15_url_roundtrip above).
   FAILURE cases are part of the abstract operations (SFail + documented failure value, state unchanged): wrong types, missing /
   extra arguments, non-integral / negative indices, an index >= length (stringIndexOf / LastIndexOf: -1; stringCharCodeAt: null),
   an inf / nan index (int() raises: null, also for the functions whose documented failure value is -1), stringSplit with an
   empty separator, stringFromCharCode beyond 0x10FFFF, urlEncode of a lone surrogate. *)
Example C15_OPS_S : map fst spec_table_s = map fst spec_table ++
  [U "stringCharCodeAt"; U "stringEndsWith"; U "stringStartsWith"; U "stringFromCharCode"; U "stringIndexOf"; U "stringLastIndexOf";
   U "stringLength"; U "stringRepeat"; U "stringReplace"; U "stringSlice"; U "stringSplit"; U "stringTrim";
   U "regexEscape"; U "urlEncode"; U "urlEncodeComponent"].
Proof. reflexivity. Qed.

(* STEP, every function of OPS_S (35), EVERY argument list, every heap *)
Theorem C15_history_step_with_strings : forall f, in_OPS_s f = true ->
  forall args h, abs_call (lib f args h) = spec_call_s f args (abs h).
Proof. exact spec_call_s_refines. Qed.
Print Assumptions C15_history_step_with_strings.

(* HISTORY with strings: the commuting square for any list of statements whose calls are OPS_S calls, from ANY state *)
Theorem C15_history_with_strings : forall ops s, forallb op_in_OPS_s ops = true ->
  abs_st (fold_left run_op ops s) = fold_left spec_step_s ops (abs_st s).
Proof. exact history_refines_s. Qed.
Print Assumptions C15_history_with_strings.

(* OPS_S extends OPS conservatively (C15_history is the restriction of C15_history_with_strings) *)
Theorem C15_strings_conservative : forall f, in_OPS f = true ->
  in_OPS_s f = true /\ forall args m, spec_call_s f args m = spec_call f args m.
Proof. intros f I. split; [apply in_OPS_in_OPS_s; exact I | apply spec_call_s_conservative; exact I]. Qed.
Print Assumptions C15_strings_conservative.

(* what the string specifications MEAN (sanity of the spec itself, independent of the model) *)
Theorem C15_spec_prefix_suffix : forall p s,
  (starts_with p s = true <-> exists t, s = p ++ t) /\ (ends_with p s = true <-> exists t, s = t ++ p).
Proof. intros. split; [apply starts_with_iff | apply ends_with_iff]. Qed.
Print Assumptions C15_spec_prefix_suffix.
Theorem C15_spec_first_occurrence : forall sub s from,
  match first_occ sub s from with
  | Some i => (from <= i <= length s)%nat /\ (exists t, skipn i s = sub ++ t)
              /\ forall j, (from <= j < i)%nat -> ~ exists t, skipn j s = sub ++ t
  | None => forall j, (from <= j <= length s)%nat -> ~ exists t, skipn j s = sub ++ t
  end.
Proof. intros. destruct (first_occ sub s from) eqn:E; [apply first_occ_least; exact E | apply first_occ_none; exact E]. Qed.
Print Assumptions C15_spec_first_occurrence.
Theorem C15_spec_last_occurrence : forall sub s upto,
  match last_occ sub s upto with
  | Some i => (i <= upto)%nat /\ (i <= length s)%nat /\ (exists t, skipn i s = sub ++ t)
              /\ forall j, (i < j <= upto)%nat -> (j <= length s)%nat -> ~ exists t, skipn j s = sub ++ t
  | None => forall j, (j <= upto)%nat -> (j <= length s)%nat -> ~ exists t, skipn j s = sub ++ t
  end.
Proof. exact last_occ_greatest. Qed.
Print Assumptions C15_spec_last_occurrence.
Theorem C15_spec_split_replace : forall s sep, sep <> [] ->
  join_with sep (split_on sep s) = s /\ replace_all s sep sep = s
  /\ (forall new, first_occ sep s 0 = None -> replace_all s sep new = s).
Proof. intros s sep NE. split; [apply split_on_join; exact NE|]. split; [apply replace_all_same; exact NE|]. intros. apply replace_all_absent; auto. Qed.
Print Assumptions C15_spec_split_replace.
Theorem C15_spec_trim : forall s, exists a b, s = a ++ trim s ++ b /\ forallb U_space a = true /\ forallb U_space b = true
  /\ match trim s with c :: _ => U_space c = false | [] => True end
  /\ match rev (trim s) with c :: _ => U_space c = false | [] => True end.
Proof. exact trim_sound. Qed.
Print Assumptions C15_spec_trim.

(* non-vacuity: 27 statements mixing strings, arrays and objects (split a string, trim the pieces, push them, search in
   strings with an int / a float-spelled / an infinite index, slice, replace, repeat, a split result stored in an object and read
   back, code points, failures: index >= length (-1), inf index (null), empty separator (null), wrong type (0)); both machines by
   vm_compute *)
Definition c15_s (s : str) : arg := ALit (VStr s).
Definition c15_hist_s : list op :=
  [ OCall (U "stringSplit") [c15_s (U "  a,b,,c "); c15_s (U ",")];                    (* v0 = ["  a","b","","c "], fresh *)
    OCall (U "arrayNew") [];                                                            (* v1 = [] *)
    OCall (U "arrayGet") [AVar 0; c15_i 0];
    OCall (U "stringTrim") [AVar 2];                                                    (* "a" *)
    OCall (U "arrayPush") [AVar 1; AVar 3];
    OCall (U "arrayGet") [AVar 0; c15_i 3];
    OCall (U "stringTrim") [AVar 5];                                                    (* "c" *)
    OCall (U "arrayPush") [AVar 1; AVar 6];                                             (* v1 = ["a","c"] *)
    OCall (U "stringIndexOf") [c15_s (U "hello world"); c15_s (U "o"); ALit (VNum (NFlt (Z_to_sf 5)))];    (* 7 *)
    OCall (U "stringLastIndexOf") [c15_s (U "hello world"); c15_s (U "o")];             (* 7 *)
    OCall (U "stringSlice") [c15_s (U "hello world"); c15_i 6];                         (* "world" *)
    OCall (U "stringReplace") [c15_s (U "a-b-c"); c15_s (U "-"); c15_s (U "+")];        (* "a+b+c" *)
    OCall (U "stringRepeat") [c15_s (U "ab"); c15_i 3];                                 (* "ababab" *)
    OCall (U "objectNew") [c15_s (U "k"); AVar 0];                                      (* v13 = {k: v0} *)
    OCall (U "objectGet") [AVar 13; c15_s (U "k")];                                     (* v0 again *)
    OCall (U "arrayLength") [AVar 14];                                                  (* 4 *)
    OCall (U "stringCharCodeAt") [c15_s (U "A"); c15_i 0];                              (* 65 *)
    OCall (U "stringFromCharCode") [c15_i 72; c15_i 105];                               (* "Hi" *)
    OCall (U "stringIndexOf") [c15_s (U "abc"); c15_s (U "b"); ALit (VNum (NFlt (S754_infinity false)))];   (* null *)
    OCall (U "stringIndexOf") [c15_s (U "abc"); c15_s (U "b"); c15_i 7];                (* -1 *)
    OCall (U "stringSplit") [c15_s (U "abc"); c15_s (U "")];                            (* null *)
    OCall (U "stringLength") [c15_i 5];                                                 (* 0 *)
    OCall (U "stringStartsWith") [c15_s (U "hello"); c15_s (U "he")];
    OCall (U "stringEndsWith") [c15_s (U "hello"); c15_s (U "lo")];
    OCall (U "urlEncodeComponent") [c15_s (U "a b/c")];
    OCall (U "regexEscape") [c15_s (U "a.b")];
    OCall (U "stringLastIndexOf") [c15_s (U "abcabc"); c15_s (U "bc"); c15_i 3] ].      (* 1 *)
Definition c15s_env : env :=
  [VArr 0%nat; VArr 1%nat; VStr (U "  a"); VStr (U "a"); VArr 1%nat; VStr (U "c "); VStr (U "c"); VArr 1%nat; VNum (NInt 7);
   VNum (NInt 7); VStr (U "world"); VStr (U "a+b+c"); VStr (U "ababab"); VObj 2%nat; VArr 0%nat; VNum (NInt 4); VNum (NInt 65);
   VStr (U "Hi"); VNull; VNum (NInt (-1)); VNull; VNum (NInt 0); VBool true; VBool true; VStr (U "a%20b%2Fc"); VStr (U "a\00005c.b");
   VNum (NInt 1)].
Definition c15s_heap : heap :=
  [CArr [VStr (U "  a"); VStr (U "b"); VStr (U ""); VStr (U "c ")]; CArr [VStr (U "a"); VStr (U "c")]; CObj [(U "k", VArr 0%nat)]].
Example C15_history_with_strings_nonvacuous :
  forallb op_in_OPS_s c15_hist_s = true
  /\ run_ops c15_hist_s ([], []) = Some (c15s_env, c15s_heap)
  /\ spec_run_s c15_hist_s ([], abs []) = Some (c15s_env, abs c15s_heap).
Proof. vm_compute. repeat split; reflexivity. Qed.

(* the string steps are PURE on the abstract machine, on ANY state and argument list: always defined, and either the state is
   unchanged and the result is a scalar, or (stringSplit) exactly one fresh sequence of strings is bound and returned *)
Theorem C15_string_steps_pure : forall f, in_tbl string_table f = true -> forall args m,
  exists r m', call_in string_table f args m = Some (r, m') /\
    ((m' = m /\ scalar_val (sres_value r) = true)
     \/ (exists ps : list str, m' = m ++ [(length m, ASeq (map VStr ps))] /\ r = SOk (VArr (length m)))).
Proof. exact string_table_pure. Qed.
Print Assumptions C15_string_steps_pure.

(* WELL-FORMED histories of OPS_S never get stuck (C15_history_results with the string functions): `wf_hist_s` = `wf_hist` with OPS_S *)
Theorem C15_history_results_with_strings : forall ops e h, wf_state (e, h) = true -> wf_hist_s ops (e, h) = true ->
  exists rs h', run_ops ops (e, h) = Some (e ++ rs, h') /\ spec_run_s ops (e, abs h) = Some (e ++ rs, abs h')
                /\ length rs = length ops /\ wf_state (e ++ rs, h') = true /\ (length h <= length h')%nat.
Proof. exact history_results_s. Qed.
Print Assumptions C15_history_results_with_strings.
Example C15_history_results_with_strings_nonvacuous : wf_state ([], []) = true /\ wf_hist_s c15_hist_s ([], []) = true.
Proof. vm_compute. split; reflexivity. Qed.

(* ====================================================================== HISTORY, third round: arrayIndexOf / arrayLastIndexOf
   Proofs/C15spec2.v part B: `aeq m a b r` = "comparing a with b in the abstract state m terminates with answer r", an INDUCTIVE
   relation (no fuel; a comparison that runs into a cycle has no derivation); `first_match` / `last_match` = the declarative
   contracts (least position >= index / greatest position <= index whose element is aeq-equal to the needle, every position
   passed over aeq-different, -1 if none); `search_out`, `callR`, `stepR`, `runR` = the abstract machine as a (deterministic)
   RELATION for OPS_X = OPS_S + arrayIndexOf + arrayLastIndexOf (37 functions).
   Design statement (NOT proved, false as it stands when the model gives up on a comparison between cyclic containers):
     forall ops s, forallb op_in_OPS_x ops = true -> runR (abs_st s) ops (abs_st (fold_left run_op ops s)).
   Proved: the same under `no_fuel ops s` (no call of the run answers LFuel), and: a search on a well-formed ACYCLIC heap never
   answers LFuel. *)
Theorem C15_veq_refines_aeq : forall fuel h a b r, veq fuel h a b = Some r -> aeq (abs h) a b r.
Proof. exact veq_sound. Qed.
Print Assumptions C15_veq_refines_aeq.
Theorem C15_aeq_deterministic : forall m a b r r', aeq m a b r -> aeq m a b r' -> r = r'.
Proof. exact aeq_det. Qed.
Print Assumptions C15_aeq_deterministic.
(* acyclic (some rank decreases along every stored reference) + well-formed: the model's fuel is enough *)
Theorem C15_veq_answers_on_acyclic : forall h a b, heap_ok h = true -> acyclic h -> val_ok h a = true -> val_ok h b = true ->
  veq (compare_fuel h) h a b <> None.
Proof. exact veq_acyclic_answers. Qed.
Print Assumptions C15_veq_answers_on_acyclic.

(* STEP for the two searches, EVERY argument list (missing value = null, default / omitted / float-spelled / negative / inf index,
   index >= length: -1, wrong types, extra arguments, a function as the needle: stuck on both sides), under "no LFuel" *)
Theorem C15_search_step_partial : forall f rq, search_rq f = Some rq ->
  forall args h, fst (lib f args h) <> LFuel -> search_out (abs h) (rq args (abs h)) (abs_call (lib f args h)).
Proof. exact search_rq_refines. Qed.
Print Assumptions C15_search_step_partial.
Theorem C15_search_no_fuel_on_acyclic : forall f args h, is_search f = true -> heap_ok h = true -> acyclic h ->
  forallb (val_ok h) args = true -> fst (lib f args h) <> LFuel.
Proof. exact search_no_fuel_acyclic. Qed.
Print Assumptions C15_search_no_fuel_on_acyclic.

(* HISTORY for OPS_X under "no LFuel"; the relational machine is deterministic, and on OPS_S statements it IS spec_step_s *)
Theorem C15_history_with_search_partial : forall ops s, forallb op_in_OPS_x ops = true -> no_fuel ops s ->
  runR (abs_st s) ops (abs_st (fold_left run_op ops s)).
Proof. exact history_search. Qed.
Print Assumptions C15_history_with_search_partial.
Theorem C15_relational_machine_deterministic : forall ops s a b, runR s ops a -> runR s ops b -> a = b.
Proof. exact runR_det. Qed.
Print Assumptions C15_relational_machine_deterministic.
Theorem C15_relational_machine_extends : forall st o, op_in_OPS_s o = true -> stepR st o (spec_step_s st o).
Proof. exact stepR_functional_on_OPS_s. Qed.
Print Assumptions C15_relational_machine_extends.

(* only the two searches can answer LFuel; a CHECKABLE sufficient condition for `no_fuel` (Proofs/C15spec3.v): `fuel_safe ops s`
   (boolean, threaded through the run) = at every search call the heap is well-formed, `acyclic_b` (the nesting depth computed
   with fuel = number of cells is a rank decreasing along every stored reference) and the arguments are well-formed *)
Theorem C15_only_searches_give_up : forall f args h h', lib f args h = (LFuel, h') -> is_search f = true.
Proof. exact only_searches_give_up. Qed.
Print Assumptions C15_only_searches_give_up.
Theorem C15_acyclic_check_sound : forall h, acyclic_b h = true -> acyclic h.
Proof. exact acyclic_b_sound. Qed.
Print Assumptions C15_acyclic_check_sound.
Theorem C15_fuel_safe_no_fuel : forall ops st, fuel_safe ops st = true -> no_fuel ops st.
Proof. exact fuel_safe_no_fuel. Qed.
Print Assumptions C15_fuel_safe_no_fuel.
Theorem C15_history_with_search_checked_partial : forall ops s, forallb op_in_OPS_x ops = true -> fuel_safe ops s = true ->
  runR (abs_st s) ops (abs_st (fold_left run_op ops s)).
Proof. exact history_search_checked. Qed.
Print Assumptions C15_history_with_search_checked_partial.

(* WELL-FORMED, fuel-safe histories of OPS_X (all 37 modelled functions) never get stuck.  `wf_hist_x` = `wf_hist` with OPS_X, and the
   needle of a search is not a function (the callback form is outside the model).  (Full statement: without `fuel_safe`; false, see
   C15_cyclic_search_gives_up.) *)
Theorem C15_history_results_with_search_partial : forall ops e h, wf_state (e, h) = true -> wf_hist_x ops (e, h) = true ->
  fuel_safe ops (Some (e, h)) = true ->
  exists rs h', run_ops ops (e, h) = Some (e ++ rs, h') /\ runR (Some (e, abs h)) ops (Some (e ++ rs, abs h'))
                /\ length rs = length ops /\ wf_state (e ++ rs, h') = true /\ (length h <= length h')%nat.
Proof. exact history_results_x. Qed.
Print Assumptions C15_history_results_with_search_partial.

(* non-vacuity 1: 21 statements: split a string, push, search strings in the split result (first / from an index / last / last
   up to a float-spelled index / absent), DEEP searches (a copy of an array found inside another array; a copy of an object found
   by arrayLastIndexOf), slice, trim, failures (index >= length, wrong type, inf index).  Model by vm_compute; no call answers
   LFuel; the abstract relational run exists and every abstract run ends in the abstraction of the model's final state. *)
Definition c15_hist_x : list op :=
  [ OCall (U "stringSplit") [c15_s (U "b,a,b,c"); c15_s (U ",")];                      (* v0 = ["b","a","b","c"] *)
    OCall (U "arrayNew") [];                                                            (* v1 *)
    OCall (U "arrayGet") [AVar 0; c15_i 1];                                             (* "a" *)
    OCall (U "arrayPush") [AVar 1; AVar 2; c15_s (U "z")];                              (* v1 = ["a","z"] *)
    OCall (U "arrayIndexOf") [AVar 0; c15_s (U "b")];                                   (* 0 *)
    OCall (U "arrayIndexOf") [AVar 0; c15_s (U "b"); c15_i 1];                          (* 2 *)
    OCall (U "arrayLastIndexOf") [AVar 0; c15_s (U "b")];                               (* 2 *)
    OCall (U "arrayLastIndexOf") [AVar 0; c15_s (U "b"); ALit (VNum (NFlt (Z_to_sf 1)))];   (* 0 *)
    OCall (U "arrayIndexOf") [AVar 0; c15_s (U "q")];                                   (* -1 *)
    OCall (U "arrayNew") [AVar 1; c15_i 5];                                             (* v9 = [v1, 5] *)
    OCall (U "arrayCopy") [AVar 1];                                                     (* v10 = fresh ["a","z"] *)
    OCall (U "arrayIndexOf") [AVar 9; AVar 10];                                         (* 0: deep equality *)
    OCall (U "stringSlice") [c15_s (U "hello world"); c15_i 6];
    OCall (U "stringTrim") [c15_s (U "  x ")];
    OCall (U "objectNew") [c15_s (U "k"); AVar 1];                                      (* v14 = {k: v1} *)
    OCall (U "objectCopy") [AVar 14];                                                   (* v15 *)
    OCall (U "arrayNew") [AVar 14];                                                     (* v16 = [v14] *)
    OCall (U "arrayLastIndexOf") [AVar 16; AVar 15];                                    (* 0: deep equality of objects *)
    OCall (U "arrayIndexOf") [AVar 0; c15_s (U "b"); c15_i 9];                          (* -1: index >= length *)
    OCall (U "arrayIndexOf") [c15_i 5; c15_s (U "b")];                                  (* -1: wrong type *)
    OCall (U "arrayIndexOf") [AVar 9; c15_i 5; ALit (VNum (NFlt (S754_infinity false)))] ].   (* null: int(inf) raises *)
Definition c15x_env : env :=
  [VArr 0%nat; VArr 1%nat; VStr (U "a"); VArr 1%nat; VNum (NInt 0); VNum (NInt 2); VNum (NInt 2); VNum (NInt 0); VNum (NInt (-1));
   VArr 2%nat; VArr 3%nat; VNum (NInt 0); VStr (U "world"); VStr (U "x"); VObj 4%nat; VObj 5%nat; VArr 6%nat; VNum (NInt 0);
   VNum (NInt (-1)); VNum (NInt (-1)); VNull].
Definition c15x_heap : heap :=
  [CArr [VStr (U "b"); VStr (U "a"); VStr (U "b"); VStr (U "c")]; CArr [VStr (U "a"); VStr (U "z")]; CArr [VArr 1%nat; VNum (NInt 5)];
   CArr [VStr (U "a"); VStr (U "z")]; CObj [(U "k", VArr 1%nat)]; CObj [(U "k", VArr 1%nat)]; CArr [VObj 4%nat]].
Example C15_history_with_search_nonvacuous :
  forallb op_in_OPS_x c15_hist_x = true /\ wf_hist_x c15_hist_x ([], []) = true
  /\ fuel_safe c15_hist_x (Some ([], [])) = true /\ no_fuel c15_hist_x (Some ([], []))
  /\ run_ops c15_hist_x ([], []) = Some (c15x_env, c15x_heap)
  /\ runR (Some ([], abs [])) c15_hist_x (Some (c15x_env, abs c15x_heap))
  /\ forall st, runR (Some ([], abs [])) c15_hist_x st -> st = Some (c15x_env, abs c15x_heap).
Proof.
  assert (O : forallb op_in_OPS_x c15_hist_x = true) by (vm_compute; reflexivity).
  assert (FS : fuel_safe c15_hist_x (Some ([], [])) = true) by (vm_compute; reflexivity).
  assert (NF : no_fuel c15_hist_x (Some ([], []))) by (apply fuel_safe_no_fuel; exact FS).
  assert (R : run_ops c15_hist_x ([], []) = Some (c15x_env, c15x_heap)) by (vm_compute; reflexivity).
  assert (H : runR (Some ([], abs [])) c15_hist_x (Some (c15x_env, abs c15x_heap))).
  { vm_cast_no_check (history_search c15_hist_x (Some ([], [])) O NF). }
  split; [exact O|]. split; [vm_compute; reflexivity|]. split; [exact FS|]. split; [exact NF|]. split; [exact R|]. split; [exact H|].
  intros st H'. exact (runR_det _ _ _ _ H' H).
Qed.
Print Assumptions C15_history_with_search_nonvacuous.
(* non-vacuity 2: a well-formed acyclic heap with nested containers (hypotheses of C15_search_no_fuel_on_acyclic) *)
Example C15_acyclic_nonvacuous : heap_ok c15x_heap = true /\ acyclic_b c15x_heap = true /\ acyclic c15x_heap.
Proof.
  split; [vm_compute; reflexivity|]. split; [vm_compute; reflexivity|]. exists (fun l => l).
  intros l c x l' G I V.
  do 7 (destruct l as [|l]; [simpl in G; inversion G; subst c; simpl in I;
                             repeat (destruct I as [<-|I]; [simpl in V; try discriminate; inversion V; subst; auto with arith|]); contradiction|]).
  destruct l; discriminate.
Qed.
(* non-vacuity 3 (the side condition is needed): two self-containing arrays; the model's comparison gives up *)
Example C15_cyclic_search_gives_up :
  fst (lib (U "arrayIndexOf") [VArr 0%nat; VArr 1%nat] [CArr [VArr 0%nat]; CArr [VArr 1%nat]]) = LFuel.
Proof. vm_compute. reflexivity. Qed.
