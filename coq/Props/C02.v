(* Props/C02.v — property C02: expression text parses to the tree the precedence rules dictate.
   ONLY statements; every proof is `exact <lemma of Proofs/C02.v>`.  The model
   (Model/ExprParser.v) runs on regexes and the precedence table REGENERATED from parser.py. *)
From BS Require Import Model.Base Model.Regex Model.NumText Model.ExprParser Gen.Unicode Gen.Tables Gen.Regexes Proofs.C02 Proofs.C13rx Proofs.C02rx Proofs.C02str Proofs.ExprFuel Proofs.TotalFuel.

(* the regenerated BINARY_REORDER table is exactly "strictly lower documented level" *)
Theorem C02_table_is_level_order : forall a b,
  known a = true -> known b = true -> (lower a b = true <-> level a < level b).
Proof. exact reorder_is_strict_level_order. Qed.
Print Assumptions C02_table_is_level_order.

Theorem C02_table_has_the_documented_operators :
  forallb known spec_ops = true /\ forallb (fun o => str_mem o spec_ops) known_ops = true.
Proof. exact table_ops_are_the_documented_ones. Qed.
Print Assumptions C02_table_has_the_documented_operators.

(* soundness, any text, any length, any nesting: the returned tree is well-precedenced at every
   depth (left-associative within a level, higher levels bind tighter, unary tighter than binary,
   parentheses/arguments parsed recursively) *)
Theorem C02_sound : forall text e, parse_expression text = EOk e -> ops_known e -> WP e.
Proof. exact parse_expression_WP. Qed.
Print Assumptions C02_sound.

(* UPGRADE: the side condition `ops_known e` is a theorem.  The engine's answer on the regenerated _R_EXPR_BINARY_OP is,
   for every text, "skip white space, then the first of the fourteen spellings (in the pattern's alternation order:
   ** before *, <= before <, ...) that the rest starts with" (C02_binary_op_engine), so the operator of every binary node
   is one of the fourteen documented operators, and every tree parse_expression returns is well-precedenced. *)
Theorem C02_sound_total : forall text e, parse_expression text = EOk e -> WP e.
Proof. exact parse_expression_WP_total. Qed.
Print Assumptions C02_sound_total.

Theorem C02_operators_are_documented : forall text e, parse_expression text = EOk e -> ops_known e.
Proof. exact parse_expression_known. Qed.
Print Assumptions C02_operators_are_documented.

Theorem C02_operator_token : forall text e c, rx R_EXPR_BINARY_OP text = MYes e c ->
  In (grp text c 1) spec_ops /\ e = fst (span_p is_space_u text) + length (grp text c 1).
Proof. exact binop_token. Qed.
Print Assumptions C02_operator_token.

(* the parser is the left fold of the spine insertion over the chain it reads left to right ... *)
Theorem C02_chain : forall fuel text e rest,
  parse_binary (S fuel) text None = POk (e, rest) ->
  exists a0 bt chain, parse_unary fuel text = POk (a0, bt) /\ ReadsAny bt chain rest /\ e = fold_left ins chain a0.
Proof. exact parse_binary_first_is_fold. Qed.
Print Assumptions C02_chain.

(* ... the fold keeps the token order and yields a well-precedenced tree ... *)
Theorem C02_fold_sound : forall rest t, WP t ->
  Forall (fun oa => known (fst oa) = true /\ operand_ok (snd oa)) rest ->
  WP (fold_left ins rest t) /\
  flatten (fold_left ins rest t) = flatten t ++ flat_map (fun oa => [TO (fst oa); TA (snd oa)]) rest.
Proof. exact fold_WP. Qed.
Print Assumptions C02_fold_sound.

(* ... and it is complete and unique: every well-precedenced tree is what the fold builds from
   its own token chain, so a chain has exactly one well-precedenced tree *)
Theorem C02_complete : forall t, WP t -> fold_left ins (snd (pairs t)) (fst (pairs t)) = t.
Proof. exact fold_rebuilds. Qed.
Print Assumptions C02_complete.

Theorem C02_unique : forall t1 t2, WP t1 -> WP t2 -> pairs t1 = pairs t2 -> t1 = t2.
Proof. exact WP_unique. Qed.
Print Assumptions C02_unique.

(* ---- LEXING: what the regex engine (Model/Regex.v, with the fuel re_match gives it) answers on the REGENERATED token
   patterns, as direct functions of the text, for EVERY text (Proofs/RegexEval.v + Proofs/C02rx.v; the statements are about
   the generated constants, so a changed pattern in parser.py breaks them).  Every token is  ^\s*B : the white-space run is
   fst/snd (span_p is_space_u s).  All twelve token patterns have a direct description: the nine below, the two string
   literals (C02_string_engine, C02_string_double_engine, with their un-escape pass C02_string_unescape, C02_string_unescape_double) and the bracketed
   variable name (C02_variable_ex_engine) further down.  The bodies of the last three ( \\\\|\\'|[^'] ,  \\\]|[^\]] ) are
   ambiguous -- a backslash is also an ordinary character -- so their answer depends on the engine's backtracking order;
   Proofs/C02str.v works that order out. *)
Theorem C02_binary_op_engine : forall s,
  re_match UC R_EXPR_BINARY_OP s =
  match op_len (snd (span_p is_space_u s)) with
  | Some n => MYes (fst (span_p is_space_u s) + n) (cap1 (fst (span_p is_space_u s)) n)
  | None => MNo
  end.
Proof. exact binop_answer. Qed.
Print Assumptions C02_binary_op_engine.
Theorem C02_unary_op_engine : forall s,
  re_match UC R_EXPR_UNARY_OP s =
  match unop_body (snd (span_p is_space_u s)) with
  | Some n => MYes (fst (span_p is_space_u s) + n) (cap1 (fst (span_p is_space_u s)) n)
  | None => MNo
  end.
Proof. exact unary_answer. Qed.
Print Assumptions C02_unary_op_engine.
Theorem C02_punctuation_engine : forall s,
  let one x := match lit_body x (snd (span_p is_space_u s)) with Some n => MYes (fst (span_p is_space_u s) + n) [] | None => MNo end in
  re_match UC R_EXPR_GROUP_OPEN s = one 40%N /\ re_match UC R_EXPR_GROUP_CLOSE s = one 41%N /\
  re_match UC R_EXPR_FUNCTION_CLOSE s = one 41%N /\ re_match UC R_EXPR_FUNCTION_SEPARATOR s = one 44%N.
Proof. exact punctuation_answers. Qed.
Print Assumptions C02_punctuation_engine.
Theorem C02_variable_engine : forall s,
  re_match UC R_EXPR_VARIABLE s =
  match ident_body (snd (span_p is_space_u s)) with
  | Some n => MYes (fst (span_p is_space_u s) + n) (cap1 (fst (span_p is_space_u s)) n)
  | None => MNo
  end.
Proof. exact variable_answer. Qed.
Print Assumptions C02_variable_engine.
Theorem C02_function_open_engine : forall s,
  re_match UC R_EXPR_FUNCTION_OPEN s =
  match call_body (snd (span_p is_space_u s)) with
  | Some (n, m) => MYes (fst (span_p is_space_u s) + m) (cap1 (fst (span_p is_space_u s)) n)
  | None => MNo
  end.
Proof. exact function_open_answer. Qed.
Print Assumptions C02_function_open_engine.
Theorem C02_number_engine : forall s,
  re_match UC R_EXPR_NUMBER s = match lit_match s with Some (a, e) => MYes e [(1%nat, (a, e))] | None => MNo end.
Proof. exact number_regex_answer. Qed.
Print Assumptions C02_number_engine.
(* the direct descriptions are not vacuous: they accept and reject *)
Theorem C02_lexing_nonvacuous :
  op_len (U "**2") = Some 2%nat /\ op_len (U "*2") = Some 1%nat /\ op_len (U "<=") = Some 2%nat /\ op_len (U "=") = None /\
  ident_body (U "ab1 + c") = Some 3%nat /\ ident_body (U "1a") = None /\
  call_body (U "fn  (x)") = Some (2%nat, 5%nat) /\ call_body (U "f(x)") = None /\ lit_match (U " 12.5e+3x") = Some (1%nat, 8%nat).
Proof. exact lexing_samples. Qed.

(* ---- the two string literals  ^\s*'((?:\\\\|\\'|[^'])* )'  (and the same with the double quote, code point 34).  After the
   white space and the opening quote the engine's answer is the left-to-right scanner [scan] (Proofs/C02str.v): a bare quote
   closes; a backslash followed by a backslash is skipped as a pair; a backslash followed by a quote is skipped as a pair
   when the text after it still closes, and otherwise the literal closes at THAT quote (its backslash re-read as an ordinary
   character); every other character is skipped.  [str_body q r] = length of the captured body. *)
Theorem C02_string_engine : forall s,
  re_match UC R_EXPR_STRING s =
  match str_body 39 (snd (span_p is_space_u s)) with
  | Some n => MYes (fst (span_p is_space_u s) + n + 2) [(1%nat, (fst (span_p is_space_u s) + 1, fst (span_p is_space_u s) + 1 + n))]
  | None => MNo
  end.
Proof. exact string_answer. Qed.
Print Assumptions C02_string_engine.
Theorem C02_string_double_engine : forall s,
  re_match UC R_EXPR_STRING_DOUBLE s =
  match str_body 34 (snd (span_p is_space_u s)) with
  | Some n => MYes (fst (span_p is_space_u s) + n + 2) [(1%nat, (fst (span_p is_space_u s) + 1, fst (span_p is_space_u s) + 1 + n))]
  | None => MNo
  end.
Proof. exact string_double_answer. Qed.
Print Assumptions C02_string_double_engine.
(* in words: the literal closes at the FIRST quote that is not escaped when \\ and \q are read as pairs; if there is none, at
   the LAST quote character of the text; it does not close exactly when there is no quote character at all; and the closing
   position always holds a quote *)
Theorem C02_string_close_characterisation : forall q rest pos,
  scan q pos rest = match first_unescaped q pos rest with Some e => Some e | None => last_quote q pos rest end.
Proof. exact scan_words. Qed.
Print Assumptions C02_string_close_characterisation.
Theorem C02_string_no_close : forall q rest pos, scan q pos rest = None <-> has_quote q rest = false.
Proof. exact scan_none. Qed.
Print Assumptions C02_string_no_close.
Theorem C02_string_close_is_a_quote : forall q rest pos e,
  scan q pos rest = Some e -> pos <= e /\ nth_error rest (e - pos) = Some q.
Proof. exact scan_sound. Qed.
Print Assumptions C02_string_close_is_a_quote.
(* the un-escape pass the parser runs on the captured body ( re.sub of \\([\\q]) by group 1 ) is the left-to-right function:
   a backslash followed by a backslash or by the quote emits that second character, everything else is copied *)
Theorem C02_string_unescape : forall t, unescape R_EXPR_STRING_ESCAPE t = Some (unescape_direct 39 t).
Proof. exact string_unescape_answer. Qed.
Print Assumptions C02_string_unescape.
Theorem C02_string_unescape_double : forall t, unescape R_EXPR_STRING_DOUBLE_ESCAPE t = Some (unescape_direct 34 t).
Proof. exact string_double_unescape_answer. Qed.
Print Assumptions C02_string_unescape_double.
(* non-vacuity ( \00005c is the backslash): accepts, rejects, and shows the re-read backslash:  'a\'  closes at the escaped
   quote with body  a\ ;  'a\'b'  skips the escaped quote;  'a\\'b'  closes at the first quote; the engine agrees *)
Example C02_ex_string_engine :
  str_body 39 (U "'a\00005c'") = Some 2%nat /\
  str_body 39 (U "'a\00005c'b'") = Some 4%nat /\
  str_body 39 (U "'a\00005c\00005c'b'") = Some 3%nat /\
  str_body 39 (U "'\00005c\00005c\00005c'") = Some 3%nat /\
  str_body 39 (U "'a\00005c'b") = Some 2%nat /\
  str_body 39 (U "''") = Some 0%nat /\
  str_body 39 (U "'a") = None /\ str_body 39 (U "a'") = None /\ str_body 34 (U "'a'") = None /\
  re_match UC R_EXPR_STRING (U " 'a\00005c' ") = MYes 5 [(1%nat, (2%nat, 4%nat))] /\
  re_match UC R_EXPR_STRING (U "'a\00005c'b'") = MYes 6 [(1%nat, (1%nat, 5%nat))] /\
  re_match UC R_EXPR_STRING (U "'a\00005c\00005c'b'") = MYes 5 [(1%nat, (1%nat, 4%nat))] /\
  re_match UC R_EXPR_STRING (U "'a") = MNo /\
  re_match UC R_EXPR_STRING_DOUBLE (U " \000022a\00005c\000022") = MYes 5 [(1%nat, (2%nat, 4%nat))] /\
  unescape_direct 39 (U "a\00005c'b\00005c\00005cc\00005cd\00005c") = U "a'b\00005cc\00005cd\00005c" /\
  unescape R_EXPR_STRING_ESCAPE (U "a\00005c'b\00005c\00005cc\00005cd\00005c") = Some (U "a'b\00005cc\00005cd\00005c").
Proof. vm_compute. repeat split; reflexivity. Qed.

(* ---- the bracketed variable name  ^\s*\[\s*((?:\\\]|[^\]])+)\s*\] .  After the leading white space (p characters) and the
   bracket: skip the white-space run; if something other than ] follows, the name starts there and runs to the closing
   bracket found by the scanner [scanv] (a bare ] closes; backslash + ] is skipped as a pair when the text after it still
   closes, otherwise the name closes at THAT bracket; every other character, white space included, is skipped -- so the
   name keeps its trailing white space and the final \s* never reads anything); if the white-space run is followed
   directly by ], the name is the LAST character of the run ( "[ ]" has the name " " ) and an empty run gives no match.
   [varex_tok p r] = (start of the name, position of the closing bracket), as positions in the text. *)
Theorem C02_variable_ex_engine : forall s,
  re_match UC R_EXPR_VARIABLE_EX s =
  match varex_tok (fst (span_p is_space_u s)) (snd (span_p is_space_u s)) with
  | Some (a, e) => MYes (S e) [(1%nat, (a, e))]
  | None => MNo
  end.
Proof. exact variable_ex_answer. Qed.
Print Assumptions C02_variable_ex_engine.
Theorem C02_variable_ex_no_close : forall rest pos, scanv pos rest = None <-> has_quote 93 rest = false.
Proof. exact scanv_none. Qed.
Print Assumptions C02_variable_ex_no_close.
Theorem C02_variable_ex_close_is_a_bracket : forall rest pos e,
  scanv pos rest = Some e -> pos <= e /\ nth_error rest (e - pos) = Some 93%N.
Proof. exact scanv_sound. Qed.
Print Assumptions C02_variable_ex_close_is_a_bracket.
Theorem C02_variable_ex_unescape : forall t, unescape R_EXPR_VARIABLE_EX_ESCAPE t = Some (unescape_direct 93 t).
Proof. exact variable_ex_unescape_answer. Qed.
Print Assumptions C02_variable_ex_unescape.
Example C02_ex_variable_ex_engine :
  varex_tok 0 (U "[ ]") = Some (1%nat, 2%nat) /\ varex_tok 0 (U "[]") = None /\ varex_tok 0 (U "[]]") = None /\
  varex_tok 1 (U "[ a b ]") = Some (3%nat, 7%nat) /\
  varex_tok 0 (U "[a\00005c]") = Some (1%nat, 3%nat) /\ varex_tok 0 (U "[a\00005c]b]") = Some (1%nat, 5%nat) /\
  varex_tok 0 (U "[   ]x]") = Some (3%nat, 4%nat) /\ varex_tok 0 (U "[ a") = None /\ varex_tok 0 (U "a]") = None /\
  re_match UC R_EXPR_VARIABLE_EX (U " [ a b ]") = MYes 8 [(1%nat, (3%nat, 7%nat))] /\
  re_match UC R_EXPR_VARIABLE_EX (U "[a\00005c]") = MYes 4 [(1%nat, (1%nat, 3%nat))] /\
  re_match UC R_EXPR_VARIABLE_EX (U "[a\00005c]b]") = MYes 6 [(1%nat, (1%nat, 5%nat))] /\
  re_match UC R_EXPR_VARIABLE_EX (U "[ ]") = MYes 3 [(1%nat, (1%nat, 2%nat))] /\
  re_match UC R_EXPR_VARIABLE_EX (U "[]") = MNo /\
  unescape R_EXPR_VARIABLE_EX_ESCAPE (U "a\00005c]b\00005cc") = Some (U "a]b\00005cc").
Proof. vm_compute. repeat split; reflexivity. Qed.

(* the model's recursion fuel (2*|text|+4) always suffices, and no host exception escapes: parse_expression returns a tree
   or a parser error for EVERY text (Proofs/ExprFuel.v; Proofs/Total.v) — so C02_sound covers every accepted text *)
Theorem C02_parser_fuel_suffices : forall text, parse_expression text <> EFuel.
Proof. exact parse_expression_no_fuel. Qed.
Print Assumptions C02_parser_fuel_suffices.

Theorem C02_parser_returns : forall text,
  (exists e, parse_expression text = EOk e) \/ (exists msg c, parse_expression text = EErr msg c).
Proof. exact parse_expression_returns. Qed.
Print Assumptions C02_parser_returns.

(* non-vacuity *)
Theorem C02_nonvacuous :
  exists e, parse_expression (U "a || b && c == d < e + f * g ** h * i - j") = EOk e /\ ops_known e /\ WP e.
Proof. exact nonvacuous. Qed.
