(* Props/C02.v — property C02: expression text parses to the tree the precedence rules dictate.
   ONLY statements; every proof is `exact <lemma of Proofs/C02.v>`.  The model
   (Model/ExprParser.v) runs on regexes and the precedence table REGENERATED from parser.py. *)
From BS Require Import Model.Base Model.Regex Model.ExprParser Gen.Tables Gen.Regexes Proofs.C02 Proofs.ExprFuel Proofs.TotalFuel.

(* the regenerated BINARY_REORDER table is exactly "strictly lower documented level" *)
Theorem C02_table_is_level_order : forall a b,
  known a = true -> known b = true -> (lower a b = true <-> level a < level b).
Proof. exact reorder_is_strict_level_order. Qed.
Print Assumptions C02_table_is_level_order.

Theorem C02_table_has_the_documented_operators :
  forallb known spec_ops = true /\ forallb (fun o => str_mem o spec_ops) known_ops = true.
Proof. exact table_ops_are_the_documented_ones. Qed.
Print Assumptions C02_table_has_the_documented_operators.

(* soundness, any text, any length, any nesting: the returned tree is well-precedenced at every
   depth (left-associative within a level, higher levels bind tighter, unary tighter than binary,
   parentheses/arguments parsed recursively) *)
Theorem C02_sound : forall text e, parse_expression text = EOk e -> ops_known e -> WP e.
Proof. exact parse_expression_WP. Qed.
Print Assumptions C02_sound.

(* the parser is the left fold of the spine insertion over the chain it reads left to right ... *)
Theorem C02_chain : forall fuel text e rest,
  parse_binary (S fuel) text None = POk (e, rest) ->
  exists a0 bt chain, parse_unary fuel text = POk (a0, bt) /\ ReadsAny bt chain rest /\ e = fold_left ins chain a0.
Proof. exact parse_binary_first_is_fold. Qed.
Print Assumptions C02_chain.

(* ... the fold keeps the token order and yields a well-precedenced tree ... *)
Theorem C02_fold_sound : forall rest t, WP t ->
  Forall (fun oa => known (fst oa) = true /\ operand_ok (snd oa)) rest ->
  WP (fold_left ins rest t) /\
  flatten (fold_left ins rest t) = flatten t ++ flat_map (fun oa => [TO (fst oa); TA (snd oa)]) rest.
Proof. exact fold_WP. Qed.
Print Assumptions C02_fold_sound.

(* ... and it is complete and unique: every well-precedenced tree is what the fold builds from
   its own token chain, so a chain has exactly one well-precedenced tree *)
Theorem C02_complete : forall t, WP t -> fold_left ins (snd (pairs t)) (fst (pairs t)) = t.
Proof. exact fold_rebuilds. Qed.
Print Assumptions C02_complete.

Theorem C02_unique : forall t1 t2, WP t1 -> WP t2 -> pairs t1 = pairs t2 -> t1 = t2.
Proof. exact WP_unique. Qed.
Print Assumptions C02_unique.

(* the model's recursion fuel (2*|text|+4) always suffices, and no host exception escapes: parse_expression returns a tree
   or a parser error for EVERY text (Proofs/ExprFuel.v; Proofs/Total.v) — so C02_sound covers every accepted text *)
Theorem C02_parser_fuel_suffices : forall text, parse_expression text <> EFuel.
Proof. exact parse_expression_no_fuel. Qed.
Print Assumptions C02_parser_fuel_suffices.

Theorem C02_parser_returns : forall text,
  (exists e, parse_expression text = EOk e) \/ (exists msg c, parse_expression text = EErr msg c).
Proof. exact parse_expression_returns. Qed.
Print Assumptions C02_parser_returns.

(* non-vacuity *)
Theorem C02_nonvacuous :
  exists e, parse_expression (U "a || b && c == d < e + f * g ** h * i - j") = EOk e /\ ops_known e /\ WP e.
Proof. exact nonvacuous. Qed.
