"""libcorr.py - correspondence family for the WIDER library of the interpreter model (coq/Model/LibMore.v, notes/LIB.md):
JSON, number text, datetimes, math, stringNew / systemLog of containers and datetimes, arrayJoin, stringLower/Upper, systemIs.

Every case is a small script or an expression that CALLS the functions through the interpreter: the implementation runs it
(execute_script / evaluate_expression, TZ=UTC), the Coq model runs it (Model/Run.v check_run / check_eval over `libfull`), and
result, log, visible globals and statement count are compared.  Codes: 1 agree, 0 differ, 2 the model declined (LOracle: a
payload it does not reproduce - counted per function), 3 out of fuel.

Families:
  typed      every function x argument lists drawn from per-type pools of boundary values
  ill-typed  every function x (one argument replaced by a value of every other type | one argument missing | one surplus)
  random     every function x random arguments (doubles of every magnitude / bit pattern, nested JSON values and damaged JSON texts,
             date components, digit strings in every radix)
  alias      expression mode through the built-in aliases (abs, fixed, date, year, parseFloat, ...)
  program    whole programs (loops, containers, JSON round trips, date arithmetic, number tables, logging of containers)
Used by harness/c05.py (quick tier: ~1 700 cases, < 30 s)."""
import json

from . import core, interp
from .interp import vflt, vint

TZ_ENV = {'TZ': 'UTC'}


def D(y, mo, d, h=0, mi=0, s=0, us=0):
    import datetime
    return ['date', str((datetime.datetime(y, mo, d, h, mi, s, us) - datetime.datetime(1, 1, 1)) // datetime.timedelta(microseconds=1))]


NUMS = [vflt(0.0), vflt(-0.0), vflt(1.0), vflt(-2.0), vflt(2.5), vflt(-2.5), vflt(0.5), vflt(1.5), vflt(-0.5), vflt(0.125), vflt(3.14159),
        vflt(1e15), vflt(123456.789), vflt(1e16), vflt(0.1), vflt(1.005), vflt(2.675), vflt(1e21), vflt(-1e-7), vflt(4.0), vflt(2.0),
        vflt(1e308), vflt(5e-324), ['flt', 'nan'], ['flt', 'inf'], ['flt', '-inf'],
        vint(0), vint(3), vint(-7), vint(16), vint(10 ** 20), vint(2 ** 53 + 1), vint(10 ** 400), vint(-(10 ** 400))]
SMALL_INTS = [vflt(0.0), vflt(1.0), vflt(2.0), vflt(3.0), vint(2), vint(0), vflt(10.0), vflt(17.0), vflt(308.0), vflt(309.0), vflt(-1.0), vflt(1.5)]
FLOAT_TEXTS = ['1', ' 2.5 ', '1e5', '-0', 'abc', '', '1_0', '1__0', 'inf', '-Infinity', 'nan', '0x10', '١٢', '1e-400', '1e999', '.5', '5.',
               '+.5e-3', '1e', '--1', '3.14159265358979', '9007199254740993', '0.1', '1 2', '\t7\n', '1e+2',
               '\x1c7', '7\x1f', '\x0b7\x0c', '\x857', '\u30007.5\xa0', '1\u30002']
INT_TEXTS = ['10', ' -7 ', '+3', '1_000', '12abc', '', '3.5', '٣', '0010', '-0', '1e3', '99999999999999999999999', '_1', '1_', '\x1c7', '7\x1f', '\x0b7\x0c', '\u20037',
             '0x1f', '0X1F', '0x_1f', '0x', '_1f', '1f_', '1__f', 'z', 'Zz', '0b101', '0b', '0o17', '017', '1٣', '-0x1f', '+ 1f', ' +1f ', '0_7', '0b_1', '00_1',
             '0x__1', '-_1', '1010', '777', 'g', '0b2', '0o8']
ISO_TEXTS = ['2024-02-29', '2023-02-29', '2024-02-29T12:34:56Z', '2024-02-29T12:34:56+05:30', '2024-02-29T12:34:56.123456-08:00',
             '2024-02-29T12:34:56.1Z', '2024-13-01', '2024-02-29T24:00:00Z', '0001-01-01', '9999-12-31T23:59:59.999Z', '9999-12-31T23:59:59-01:00',
             '0001-01-01T00:00:00+01:00', 'abc', '', '2024-02-29 12:34:56Z', '2024-02-29T12:34:56', '2024-2-29', '2024-02-29\n', '2024-02-29T12:34:56Z\n',
             '٢٠٢٤-02-29', '2024-02-29T12:34:56.1234567Z', '2024-02-29T12:34:56+24:00']
DATES = [D(2024, 2, 29, 12, 34, 56, 789000), D(1970, 1, 1), D(1, 1, 1), D(9999, 12, 31, 23, 59, 59, 999000), D(2000, 12, 31, 23, 59, 59),
         D(1999, 3, 7, 1, 2, 3, 4567), D(2023, 6, 15, 0, 0, 0, 999500), D(100, 1, 1)]
JSON_TEXTS = ['{"a": [1, 2.5, "x", null, true], "b": {"c": -0.0}}', '[]', '{}', ' [1,2 , 3] ', '"a\\u00e9\\n\\ud83d\\ude00"', '1e2', '-0', '12345678901234567890',
              '1.5E-3', '{"a":1,"a":2,"b":3}', '[1,]', '{"a"}', '', 'nul', 'NaN', '[Infinity]', '"NaN"', '01', '1.', '.5', '[1 2]', '{"a":1,}', '"\t"',
              '[[[[1]]]]', '{"k": {"k": {"k": []}}}', 'true false', '1e400', '-1e-400', '1E5', '"\\x"', '[1.0, 2.50, 1e0]', '﻿1', '[null]', '{"": ""}']
STRS = ['', 'ab', 'Hello World', 'MiXeD 123_-', 'straße', 'İ', 'abcé']


def _containers(pool):
    a_flat = pool.arr([vflt(1.0), vflt(2.5), ['str', 'x'], ['null'], ['bool', True]])
    o_flat = pool.obj([['b', vflt(1.0)], ['a', ['str', 'q"\\\né']], ['c', ['null']]])
    a_nest = pool.arr([pool.arr([]), pool.obj([]), pool.arr([vint(3), pool.obj([['z', vflt(-0.0)], ['k', D(2020, 5, 17, 3, 4, 5, 6000)]])])])
    o_nest = pool.obj([['list', pool.arr([vflt(1.5), vflt(100.0)])], ['when', D(2001, 2, 3)], ['big', vint(10 ** 30)], ['é', ['bool', False]]])
    a_nan = pool.arr([vflt(1.0), ['flt', 'nan']])
    a_wide = pool.arr([vflt(0.1), vflt(1e22)])
    a_rx = pool.arr([['regex'], ['hostfn', 'first']])
    return [a_flat, o_flat, a_nest, o_nest, a_nan, a_wide, a_rx, pool.arr([]), pool.obj([])]


def other_types(pool):
    """one value of every type (for ill-typed arguments)"""
    return [['null'], ['bool', True], ['bool', False], vflt(2.0), vflt(-1.5), vint(5), ['str', ''], ['str', '12'], D(2020, 1, 2, 3, 4, 5),
            pool.arr([vflt(1.0)]), pool.arr([]), pool.obj([['a', vflt(1.0)]]), ['regex'], ['hostfn', 'count'], ['flt', 'nan']]


def signatures(pool):
    """function -> list of argument pools (typed values per position)"""
    cont = _containers(pool)
    anyv = NUMS[:8] + [['str', 'ab'], ['null'], ['bool', False], DATES[0], ['regex'], ['hostfn', 'first']] + cont
    S = lambda xs: [['str', x] for x in xs]          # noqa: E731
    one_num = [NUMS]
    sig = {
        'jsonStringify': [anyv, [['null'], vflt(2.0), vint(4), vflt(1.0), vflt(0.0), vflt(1.5)]],
        'jsonParse': [S(JSON_TEXTS)],
        'numberParseFloat': [S(FLOAT_TEXTS)],
        'numberParseInt': [S(INT_TEXTS), [vflt(10.0), vint(10), vflt(16.0), vflt(2.0), vflt(8.0), vflt(36.0), vint(16), vflt(37.0), vflt(1.0), vflt(10.5)]],
        'numberToFixed': [NUMS, SMALL_INTS, [['bool', True], ['bool', False], ['null'], vflt(1.0)]],
        'mathRound': [NUMS, SMALL_INTS],
        'mathAbs': one_num, 'mathCeil': one_num, 'mathFloor': one_num, 'mathSign': one_num, 'mathSqrt': one_num,
        'mathSin': one_num, 'mathCos': one_num, 'mathTan': one_num, 'mathAcos': one_num, 'mathAsin': one_num, 'mathAtan': one_num, 'mathLn': one_num,
        'mathAtan2': [NUMS[:6], NUMS[:6]],
        'mathLog': [NUMS, [vflt(10.0), vflt(1.0), vint(1), vflt(2.0), vflt(0.0), vflt(-2.0)]],
        'mathPi': [],
        'datetimeNew': [[vflt(2024.0), vint(2023), vflt(1900.0), vflt(99.0), vflt(100.0), vflt(9999.0), vflt(10000.0), vflt(2024.5)],
                        [vflt(1.0), vflt(2.0), vflt(12.0), vflt(13.0), vflt(0.0), vflt(-11.0), vint(25), vflt(1.5)],
                        [vflt(1.0), vflt(29.0), vflt(31.0), vflt(0.0), vflt(-1.0), vflt(60.0), vflt(366.0), vflt(-400.0), vflt(10000.0), vflt(10001.0), vint(15)],
                        [vflt(0.0), vflt(23.0), vflt(24.0), vflt(-1.0), vflt(100.0)],
                        [vflt(0.0), vflt(59.0), vflt(60.0), vflt(-61.0)],
                        [vflt(0.0), vflt(59.0), vflt(3600.0), vflt(-1.0)],
                        [vflt(0.0), vflt(999.0), vflt(1000.0), vflt(-1.0), vflt(86400000.0)]],
        'datetimeISOFormat': [DATES, [['bool', False], ['bool', True], vflt(0.0), ['str', 'x']]],
        'datetimeISOParse': [S(ISO_TEXTS)],
        'arrayJoin': [cont[:1] + cont[2:4] + cont[5:], S([', ', '', 'é'])],
        'stringLower': [S(STRS)], 'stringUpper': [S(STRS)],
        'systemIs': [anyv, anyv],
        'stringNew': [DATES + cont + NUMS[:26]], 'systemLog': [DATES + cont + NUMS[8:26]], 'systemLogDebug': [DATES[:2] + cont[:3] + NUMS[13:16]],
    }
    for g in ('Year', 'Month', 'Day', 'Hour', 'Minute', 'Second', 'Millisecond'):
        sig['datetime' + g] = [DATES]
    return sig


MIN_ARGS = {'datetimeNew': 3, 'numberParseInt': 1, 'numberToFixed': 1, 'mathRound': 1, 'mathLog': 1, 'jsonStringify': 1, 'datetimeISOFormat': 1}

ALIASES = {'abs': 'mathAbs', 'ceil': 'mathCeil', 'floor': 'mathFloor', 'round': 'mathRound', 'sign': 'mathSign', 'sqrt': 'mathSqrt', 'fixed': 'numberToFixed',
           'parseFloat': 'numberParseFloat', 'parseInt': 'numberParseInt', 'date': 'datetimeNew', 'year': 'datetimeYear', 'month': 'datetimeMonth',
           'day': 'datetimeDay', 'hour': 'datetimeHour', 'minute': 'datetimeMinute', 'second': 'datetimeSecond', 'millisecond': 'datetimeMillisecond',
           'lower': 'stringLower', 'upper': 'stringUpper', 'ln': 'mathLn', 'log': 'mathLog', 'pi': 'mathPi'}


def call_case(fn, vals, debug=False, haslog=True):
    names = [f'a{i}' for i in range(len(vals))]
    text = f"r = {fn}({', '.join(names)})\nreturn r\n"
    case = {'text': text, 'globals': dict(zip(names, vals)), 'max': 100, 'want_model': True}
    if debug:
        case['debug'] = True
    if not haslog:
        case['log'] = False
    return case


def gen_calls(r, tier):
    pool = interp.Pool()
    sig = signatures(pool)
    others = other_types(pool)
    cases, meta = [], []
    per_fn = 22 if tier == 'quick' else 120
    for fn, pools in sorted(sig.items()):
        # typed: each pool value at least once where cheap, then random combinations
        seen = set()
        combos = []
        width = max((len(p) for p in pools), default=1)
        for k in range(width):
            combos.append([p[k % len(p)] for p in pools])
        for _ in range(per_fn):
            combos.append([r.choice(p) for p in pools])
        lo = MIN_ARGS.get(fn, len(pools))
        for vals in combos:
            if len(pools) > lo and r.random() < 0.35:
                vals = vals[:r.randint(lo, len(pools))]           # optional arguments left out
            key = json.dumps(vals, sort_keys=True)
            if key in seen:
                continue
            seen.add(key)
            dbg = fn == 'systemLogDebug' and r.random() < 0.6
            cases.append(call_case(fn, vals, debug=dbg, haslog=not (fn.startswith('systemLog') and r.random() < 0.15)))
            meta.append(('typed', fn))
        # ill-typed: every position x every other type; missing; surplus
        base = [p[0] for p in pools]
        for pos in range(len(pools)):
            for o in (others if tier != 'quick' or len(pools) <= 3 else r.sample(others, 6)):
                vals = list(base)
                vals[pos] = o
                cases.append(call_case(fn, vals))
                meta.append(('ill-typed', fn))
        if pools:
            cases.append(call_case(fn, base[:-1]))
            meta.append(('ill-typed', fn))
            cases.append(call_case(fn, []))
            meta.append(('ill-typed', fn))
        cases.append(call_case(fn, base + [vflt(1.0)]))
        meta.append(('ill-typed', fn))
        # a failing call in debug mode (the message text is not modelled: the model must decline, not guess)
        if pools:
            cases.append(call_case(fn, [['regex']] * len(pools), debug=True))
            meta.append(('ill-typed', fn))
    return cases, meta, sig, pool


def gen_alias(r, tier, sig):
    cases, meta = [], []
    n = 6 if tier == 'quick' else 40
    for al, fn in sorted(ALIASES.items()):
        pools = sig[fn]
        for _ in range(n if pools else 1):
            vals = [r.choice(p) for p in pools]
            lo = MIN_ARGS.get(fn, len(pools))
            if len(pools) > lo and r.random() < 0.4:
                vals = vals[:r.randint(lo, len(pools))]
            names = [f'a{i}' for i in range(len(vals))]
            inner = f"{al}({', '.join(names)})"
            text = r.choice([inner, f"if({inner} == null, 'none', {inner})"])
            use_locals = r.random() < 0.5
            case = {'expr_text': text, 'globals': {} if use_locals else dict(zip(names, vals)), 'locals': dict(zip(names, vals)) if use_locals else None,
                    'builtins': True}
            cases.append(case)
            meta.append(('alias', fn))
    # without the built-ins the alias is an undefined function
    cases.append({'expr_text': 'abs(a0)', 'globals': {'a0': vflt(-1.0)}, 'locals': None, 'builtins': False})
    meta.append(('alias', 'mathAbs'))
    return cases, meta


def _rand_float(r):
    k = r.random()
    if k < 0.25:
        return r.randint(-4000, 4000) / 8.0                           # dyadic, short text
    if k < 0.5:
        return round(r.uniform(-1000, 1000), r.randint(0, 6))         # decimal-looking (ties of the decimal text are NOT ties in binary)
    if k < 0.7:
        return (r.randint(0, 10 ** 6) + 0.5) / 10 ** r.randint(0, 4)  # near-ties
    if k < 0.9:
        import struct
        return struct.unpack('<d', struct.pack('<Q', r.getrandbits(64)))[0]     # any bit pattern (incl. nan / inf / subnormals)
    return r.choice([1, -1]) * 10.0 ** r.randint(-20, 25) * r.random()


def _rand_json(r, depth, printable):
    k = r.random()
    if depth <= 0 or k < 0.45:
        c = r.randrange(7)
        if c == 0:
            return None
        if c == 1:
            return r.random() < 0.5
        if c == 2:
            return r.randint(-10 ** 6, 10 ** 6) if r.random() < 0.8 else r.randint(-10 ** 25, 10 ** 25)
        if c == 3:
            return r.randint(-800, 800) / 16.0 if printable else _rand_float(r)
        return ''.join(r.choice('ab"\\/\n\t é\u20ac\U0001f600 {}[]:,.0') for _ in range(r.randint(0, 6)))
    if k < 0.75:
        return [_rand_json(r, depth - 1, printable) for _ in range(r.randint(0, 4))]
    return {''.join(r.choice('abké_ ') for _ in range(r.randint(0, 3))): _rand_json(r, depth - 1, printable) for _ in range(r.randint(0, 4))}


def _spec_of(v, pool):
    import math
    if v is None:
        return ['null']
    if isinstance(v, bool):
        return ['bool', v]
    if isinstance(v, int):
        return vint(v)
    if isinstance(v, float):
        return ['flt', 'nan'] if math.isnan(v) else vflt(v)
    if isinstance(v, str):
        return ['str', v]
    if isinstance(v, list):
        return pool.arr([_spec_of(x, pool) for x in v])
    return pool.obj([[k, _spec_of(x, pool)] for k, x in v.items()])


def gen_random(r, tier):
    """random arguments (doubles of every magnitude and bit pattern, nested JSON values, date components, digit strings)"""
    import math
    pool = interp.Pool()
    n = 22 if tier == 'quick' else 260
    cases, meta = [], []

    def add(fn, vals):
        cases.append(call_case(fn, vals))
        meta.append(('random', fn))

    def fl(x):
        return ['flt', 'nan'] if math.isnan(x) else vflt(x)
    for _ in range(n):
        x = _rand_float(r)
        add('numberToFixed', [fl(x), vflt(float(r.randint(0, 12))), ['bool', r.random() < 0.5]])
        add('mathRound', [fl(x), vflt(float(r.randint(0, 8)))])
        add(r.choice(['mathFloor', 'mathCeil', 'mathAbs', 'mathSign']), [fl(x)])
        add('mathSqrt', [fl(abs(x))])
        text = r.choice([repr(x), '%.*e' % (r.randint(0, 20), x), '%.*f' % (r.randint(0, 12), x) if abs(x) < 1e30 else repr(x), ' ' + repr(x) + '\n',
                         repr(x).replace('e', 'E'), repr(x) + r.choice(['', '0', 'e1', '_', ' 1'])]) if not (math.isnan(x) or math.isinf(x)) else repr(x)
        add('numberParseFloat', [['str', text]])
        radix = r.choice([2, 8, 10, 16, 36, r.randint(2, 36)])
        digs = ''.join(r.choice('0123456789abcdefghijklmnopqrstuvwxyzABCXYZ_'[:max(radix, 2) + r.choice([0, 0, 0, 2])]) for _ in range(r.randint(1, 12)))
        add('numberParseInt', [['str', r.choice(['', '-', '+', ' ']) + r.choice(['', '', '0x', '0b', '0o', '0X']) + digs], vflt(float(radix))])
        add(r.choice(['stringNew', 'stringNew', 'systemLog']), [fl(x)])
        v = _rand_json(r, 3, r.random() < 0.5)
        add('jsonStringify', [_spec_of(v, pool)] + ([r.choice([vflt(1.0), vflt(2.0), vint(3), ['null']])] if r.random() < 0.5 else []))
        add(r.choice(['stringNew', 'systemLog']), [_spec_of(v if isinstance(v, (list, dict)) else [v], pool)])
        w = _rand_json(r, 3, False)
        try:
            jt = json.dumps(w, ensure_ascii=r.random() < 0.5, indent=r.choice([None, None, 1, 3]), allow_nan=False)
        except ValueError:
            jt = json.dumps(w)
        if r.random() < 0.25 and jt:                                   # damage the text
            i = r.randrange(len(jt))
            jt = jt[:i] + r.choice(['', ',', '"', '}', ']', '0', ' ', '\\', 'e', '.', '-']) + jt[i + r.choice([0, 1]):]
        if not any(0xD800 <= ord(c) <= 0xDFFF for c in jt):
            add('jsonParse', [['str', jt]])
        comps = [r.randint(100, 9999) if r.random() < 0.8 else r.choice([99, 100, 9999, 10000]), r.randint(-30, 40), r.randint(-400, 400) if r.random() < 0.7 else r.randint(-10001, 10001),
                 r.randint(-50, 50), r.randint(-200, 200), r.randint(-5000, 5000), r.randint(-100000, 100000)]
        add('datetimeNew', [vflt(float(c)) if r.random() < 0.8 else vint(c) for c in comps[:r.randint(3, 7)]])
        d = D(r.randint(1, 9999), r.randint(1, 12), r.randint(1, 28), r.randint(0, 23), r.randint(0, 59), r.randint(0, 59), r.choice([0, 1000 * r.randint(0, 999), r.randint(0, 999999)]))
        add(r.choice(['datetimeISOFormat', 'stringNew', 'datetimeMillisecond', 'datetimeYear', 'datetimeDay']), [d])
        iso = '%04d-%02d-%02dT%02d:%02d:%02d' % (r.randint(1, 9999), r.randint(1, 13), r.randint(1, 31), r.randint(0, 24), r.randint(0, 60), r.randint(0, 60))
        iso += r.choice(['', '.' + ''.join(r.choice('0123456789') for _ in range(r.randint(1, 7)))]) + r.choice(['Z', '+00:00', '-08:00', '+05:45', '+23:59', '-23:59', '', 'z', '+24:00'])
        add('datetimeISOParse', [['str', iso if r.random() < 0.85 else iso[:10]]])
    return cases, meta


def programs(r, tier):
    """whole programs over the wider library"""
    out = []
    n = 6 if tier == 'quick' else 40

    def num(choices):
        return repr(float(r.choice(choices)))

    for _ in range(n):
        # 1. JSON round trip with indent, comparison, logging of containers
        ind = r.choice(['', ', 2', ', 4', ', null'])
        xs = ', '.join(num([1, 2.5, -3, 0.125, 1000, -0.5, 7]) for _ in range(r.randint(0, 5)))
        key = r.choice(['k', 'zz', 'a b', 'é'])
        nm = r.choice(['x', 'q"uote', 'tab\\there', 'uni\u00e9'])
        out.append(('json-roundtrip', f"""o = objectNew('name', '{nm}', '{key}', arrayNew({xs}), 'n', null, 'flag', {r.choice(['true', 'false'])})
objectSet(o, 'inner', objectNew('d', datetimeNew({r.randint(1900, 2100)}, {r.randint(1, 12)}, {r.randint(1, 28)}), 'e', arrayNew()))
text = jsonStringify(o{ind})
systemLog(text)
back = jsonParse(text)
same = systemCompare(o, back)
systemLog(o)
systemLog(objectKeys(back))
objectSet(back, 'more', arrayLength(objectGet(back, '{key}')))
return arrayNew(same, stringLength(text), back)
"""))
        # 2. date arithmetic over months (roll-over), getters, ISO text, parse back
        y, m, d = r.randint(1990, 2030), r.randint(1, 12), r.choice([1, 15, 28, 30, 31])
        out.append(('date-loop', f"""lines = arrayNew()
i = 0
while i < {r.randint(2, 6)}:
    dt = datetimeNew({y}, {m} + i * {r.choice([1, 5, -7, 13])}, {d}, {r.choice([0, 23, 25, -1])}, {r.choice([0, 59, 61])}, i * {r.choice([1, 40, 3600])}, {r.choice([0, 1, 999, 1500])})
    iso = datetimeISOFormat(dt)
    arrayPush(lines, iso + '|' + datetimeISOFormat(dt, true) + '|' + datetimeYear(dt) + '-' + datetimeMonth(dt) + '-' + datetimeDay(dt) + ' ' + datetimeHour(dt) + ':' + datetimeMinute(dt) + ':' + datetimeSecond(dt) + '.' + datetimeMillisecond(dt))
    again = datetimeISOParse(iso)
    if again != dt:
        systemLog('MISMATCH ' + iso)
    endif
    systemLog(dt)
    i = i + 1
endwhile
systemLog(arrayJoin(lines, ';'))
return lines
"""))
        # 3. a table of fixed-point texts (numbers whose text needs more than 15 digits go into an array, not into a string)
        vals = ', '.join(num([0, 0.5, 1.5, 2.5, -2.5, 1.005, 2.675, 1234.5678, 0.125, -0.375, 1e6, 99.995, 3]) for _ in range(r.randint(1, 6)))
        out.append(('fixed-table', f"""vals = arrayNew({vals})
outp = arrayNew()
nums = arrayNew()
for v, ix in vals:
    arrayPush(outp, numberToFixed(v, ix % 4) + '/' + numberToFixed(v, 2, true) + '/' + mathRound(v) + '/' + mathFloor(v) + '/' + mathCeil(v) + '/' + mathSign(v))
    arrayPush(nums, mathRound(v, 1), mathAbs(v), mathSqrt(mathAbs(v)))
    systemLog(stringNew(mathSqrt(mathAbs(v))) + ' ' + stringNew(v / 3))
    systemLog(v * 1.1)
endfor
systemLog(arrayJoin(outp, ' '))
return arrayNew(outp, nums)
"""))
        # 4. numbers read from text
        toks = ','.join(r.choice(['1', '2.5', 'abc', '7', '-0.5', '1e3', '', ' 4 ', '0x1', '10_0', 'nan']) for _ in range(r.randint(1, 7)))
        out.append(('parse-sum', f"""parts = stringSplit('{toks}', ',')
total = 0
bad = 0
ints = arrayNew()
for p in parts:
    x = numberParseFloat(p)
    if x == null:
        bad = bad + 1
    else:
        total = total + x
    endif
    arrayPush(ints, numberParseInt(p))
endfor
systemLog('total=' + total + ' bad=' + bad)
systemLog(ints)
return objectNew('total', total, 'bad', bad, 'ints', ints, 'root', mathSqrt(mathAbs(total)))
"""))
        # 5. containers that cannot be printed: cycle, nan
        jt = r.choice(['[1, 2', '{"a": }', 'nope', '[1, 2]', '{"a": [true]}', '[NaN]'])
        out.append(('json-failures', f"""a = arrayNew(1, 2)
arrayPush(a, a)
t1 = jsonStringify(a)
systemLog(t1)
s1 = stringNew(a)
arrayPop(a)
t2 = jsonStringify(a)
big = 1e+308 * 10
b = objectNew('x', big - big, 'y', {num([1, 2.5])})
t3 = jsonStringify(b)
t4 = jsonParse('{jt}')
systemLog(t4)
c = objectNew('f', systemLog, 'r', null)
systemLog(c)
return arrayNew(t1, s1, t2, t3, t4, jsonStringify(c), upper('mixed Case') + lower('MiXed'))
"""))
        # 6. dates inside containers, sorted keys, identity
        out.append(('date-objects', f"""d1 = datetimeNew({r.randint(1950, 2050)}, {r.randint(1, 12)}, {r.randint(1, 28)}, {r.randint(0, 23)}, {r.randint(0, 59)}, {r.randint(0, 59)}, {r.choice([0, 5, 120, 999])})
d2 = d1 + {r.choice([1, 1000, 86400000, -3600000, 250])}
o = objectNew('b', d1, 'a', arrayNew(d2, d2 - d1))
systemLog(o)
t = jsonStringify(o, 1)
p = jsonParse(t)
return arrayNew(t, datetimeISOParse(objectGet(p, 'b')) == d1, systemIs(o, o), systemIs(o, p), systemIs(1, 1), systemIs(null, null), systemIs(objectGet(o, 'a'), objectGet(o, 'a')))
"""))
    return out


def run_family(chk, tier, r):
    """generate, run on the implementation and in the model, append disagreements to chk.corr_fail; returns coverage numbers"""
    cases, meta, sig, _pool = gen_calls(r, tier)
    ecases, emeta = gen_alias(r, tier, sig)
    progs = programs(r, tier)
    pcases = [{'text': text, 'globals': {}, 'max': 5000, 'want_model': True} for _, text in progs]
    pmeta = [('program', tag) for tag, _ in progs]
    rcases, rmeta = gen_random(r, tier)
    all_cases = cases + rcases + pcases + ecases
    all_meta = meta + rmeta + pmeta + emeta
    env = core.impl_env(TZ_ENV)
    impl = core.run_impl('run_script', all_cases, env=env, shards=min(core.NPROC, 16))
    n_script = len(cases) + len(rcases) + len(pcases)
    parsed = core.run_impl('parse_expr', [c['expr_text'] for c in ecases]) if ecases else []

    terms, used = [], []
    skipped = 0
    for i, (c, res) in enumerate(zip(all_cases, impl)):
        try:
            if i < n_script:
                if not isinstance(res.get('model'), list):
                    chk.corr_fail.append({'class': 'libcorr-script-did-not-parse', 'source': c['text'], 'impl': res.get('model_error')})
                    continue
                if 'host' in res:
                    chk.oracle_fail.append({'class': 'host-exception-escapes', 'source': c['text'], 'entry': 'libcorr', 'exception': res['host'],
                                            'message': res.get('host_msg')})
                    continue
                terms.append(interp.run_term(c, res, res['model'], fuel=6000))
            else:
                p = parsed[i - n_script]
                if 'ok' not in p:
                    skipped += 1
                    continue
                if 'host' in res:
                    chk.oracle_fail.append({'class': 'host-exception-escapes', 'source': c['expr_text'], 'entry': 'libcorr', 'exception': res['host']})
                    continue
                terms.append(interp.eval_term(c, res, p['ok'], fuel=400))
            used.append(i)
        except interp.Unencodable:
            skipped += 1
    codes, errors = core.coq_codes('libcorr', interp.IMPORTS, terms, shard=max(40, len(terms) // (3 * core.NPROC) + 1))
    for k, log in errors:
        chk.corr_fail.append({'class': 'case-file-did-not-evaluate', 'family': 'libcorr', 'shard': k, 'log': log[-800:]})
    stats = {'cases': len(used), 'agree': 0, 'declined': 0, 'differ': 0, 'fuel': 0, 'skipped_unencodable': skipped, 'declined_programs': []}
    by_fn, by_family = {}, {}
    for j, c in enumerate(codes):
        fam, fn = all_meta[used[j]]
        f = by_fn.setdefault(fn, {'cases': 0, 'agree': 0, 'declined': 0})
        g = by_family.setdefault(fam, {'cases': 0, 'agree': 0, 'declined': 0})
        f['cases'] += 1
        g['cases'] += 1
        if c == 1:
            stats['agree'] += 1
            f['agree'] += 1
            g['agree'] += 1
        elif c == 2:
            stats['declined'] += 1
            f['declined'] += 1
            g['declined'] += 1
            if fam == 'program' and len(stats['declined_programs']) < 6:
                stats['declined_programs'].append({'kind': fn, 'source': all_cases[used[j]]['text']})
        elif c in (0, 3):
            stats['differ' if c == 0 else 'fuel'] += 1
            if len([x for x in chk.corr_fail if x.get('family') == 'libcorr']) < 12:
                case = all_cases[used[j]]
                chk.corr_fail.append({'class': 'model-differs' if c == 0 else 'model-out-of-fuel', 'family': 'libcorr', 'function': fn, 'kind': fam,
                                      'source': case.get('text') or case.get('expr_text'), 'globals': case.get('globals'), 'locals': case.get('locals'),
                                      'debug': bool(case.get('debug')), 'env': TZ_ENV,
                                      'impl': {k: impl[used[j]].get(k) for k in ('res', 'rt', 'log', 'globals', 'count')}})
    stats['by_family'] = by_family
    stats['by_function'] = by_fn
    return stats
