"""C01 - structured control flow runs with its source-level meaning.

proof         : coq/Props/C01.v (see there)
direct oracle : an INDEPENDENT structured (big-step) reference interpreter (harness/refinterp.py run_struct) executes the SOURCE TREE of
                generated programs; the implementation parses and executes the printed text; return value, log sequence and final
                globals (minus the reserved __bareScript temporaries) must agree.  Families: every nesting shape of the seven
                constructs to depth 3 with break/continue per loop level (exhaustive), grammar-generated programs to depth 5 with up
                to 3 functions (recursion bounded), function definitions placed INSIDE global blocks, for over aliased / mutated arrays,
                x initial globals drawn from the nine value types.
known finding : F7 - `continue` inside `while` skips the loop test (pinned by the repository's own test): a dedicated probe family
                reproduces it; a failing case is classified as F7 only if the implementation behaves exactly like the reference
                variant with that one defect.
correspondence: the Coq parser + interpreter model against the implementation on the same texts.  For generated trees of the proved
                fragment (tag core), generated single `for` loops over a fragment body with break / continue (tag forcore,
                Proofs/C01for.v), generated NESTED for loops with statements around them (tag fornest, Proofs/C01forN.v) and generated
                programs of the UNIFIED block language - if / elif / else, while and for nested in each other in any order (tag ucore,
                Proofs/C01u.v) - the check decides inside Coq (a) parse_script(printed text) = compile / compile_for_real / compile_u /
                ucompile_real (tree) and (b) the structured interpreter (sexec / fexec / gexec / uexec, proved sound for SExec / FExec /
                GExec / UExec) = the implementation's result, log, globals.
"""
from . import core, interp, refinterp, scriptgen

PID = 'C01'
TRUSTED = [
    'Coq 8.16.1 kernel + coqc; vm_compute to run the model (no native_compute)',
    'Model/Script.v (parser) + Model/Interp.v (interpreter): transliterations validated by the correspondence',
    'harness/refinterp.py run_struct: independent structured reference semantics; expression texts are parsed by the implementation\'s parse_expression (C02)',
]
LIBS = ['systemLog', 'arrayNew', 'arrayLength', 'arrayGet', 'arrayPush', 'arraySet', 'objectNew', 'objectGet', 'objectSet', 'stringLength',
        'systemGlobalGet', 'systemGlobalSet', 'systemBoolean', 'systemType', 'systemCompare', 'mathMax', 'mathMin']


# ------------------------------------------------------------------ expressions of a program tree
def exprs_of(stmts, acc):
    for s in stmts:
        k = s[0]
        if k == 'assign':
            acc.add(s[2])
        elif k == 'expr':
            acc.add(s[1])
        elif k == 'return' and s[1] is not None:
            acc.add(s[1])
        elif k == 'if':
            for c, b in s[1]:
                acc.add(c)
                exprs_of(b, acc)
            if s[2] is not None:
                exprs_of(s[2], acc)
        elif k == 'while':
            acc.add(s[1])
            exprs_of(s[2], acc)
        elif k == 'for':
            acc.add(s[3])
            exprs_of(s[4], acc)
        elif k == 'function':
            exprs_of(s[4], acc)


def with_canon(stmts, canon):
    out = []
    for s in stmts:
        k = s[0]
        if k == 'assign':
            out.append(['assign', s[1], canon[s[2]]])
        elif k == 'expr':
            out.append(['expr', canon[s[1]]])
        elif k == 'return':
            out.append(['return', canon[s[1]] if s[1] is not None else None])
        elif k == 'if':
            out.append(['if', [[canon[c], with_canon(b, canon)] for c, b in s[1]], with_canon(s[2], canon) if s[2] is not None else None])
        elif k == 'while':
            out.append(['while', canon[s[1]], with_canon(s[2], canon)])
        elif k == 'for':
            out.append(['for', s[1], s[2], canon[s[3]], with_canon(s[4], canon)])
        elif k == 'function':
            out.append(['function', s[1], s[2], s[3], with_canon(s[4], canon)])
        else:
            out.append(s)
    return out


def has_while_continue(stmts, loop=None):
    for s in stmts:
        k = s[0]
        if k == 'continue' and loop == 'while':
            return True
        if k == 'if':
            if any(has_while_continue(b, loop) for _, b in s[1]) or (s[2] is not None and has_while_continue(s[2], loop)):
                return True
        elif k == 'while' and has_while_continue(s[2], 'while'):
            return True
        elif k == 'for' and has_while_continue(s[4], 'for'):
            return True
        elif k == 'function' and has_while_continue(s[4], None):
            return True
    return False


class RefF7(refinterp.Ref):
    """the reference with exactly the known defect F7: `continue` in a `while` goes on with the next iteration WITHOUT re-testing"""

    def exec_stmt(self, s, loc, in_loop):
        if s[0] != 'while':
            return super().exec_stmt(s, loc, in_loop)
        if not refinterp.truthy(self.ev(s[1], loc)):
            return None
        while True:
            try:
                self.exec_block(s[2], loc, True)
            except refinterp._Break:
                break
            except refinterp._Continue:
                continue                      # no re-test
            if not refinterp.truthy(self.ev(s[1], loc)):
                break
        return None


# ------------------------------------------------------------------ generators
def blockify(r, prog):
    """move some top-level function definitions INSIDE a global block (if / for / while that runs its body once)"""
    out = []
    for s in prog:
        if s[0] == 'function' and r.random() < 0.5:
            c = r.random()
            if c < 0.4:
                out.append(['if', [['true', [s]]], None])
            elif c < 0.7:
                out.append(['for', 'blk', None, 'arrayNew(1)', [s]])
            else:
                out.append(['if', [['false', [['expr', "systemLog('no')"]]], ['1', [s]]], None])
        else:
            out.append(s)
    return out


def nested_fn_program(r, k):
    """function inside a global block containing two nested loops with break/continue at several places"""
    inner_kind = r.choice(['for', 'while'])
    brk = r.choice(['break', 'continue']) if inner_kind == 'for' else 'break'
    inner = (['for', 'b', 'j', 'arrayNew(1, 2, 3)', [['if', [[f'b == {r.randint(1, 3)}', [[brk]]]], None], ['expr', "systemLog('in ' + a + ' ' + b)"]]]
             if inner_kind == 'for' else
             ['block', [['assign', 'j', '0'], ['while', 'j < 3', [['assign', 'j', 'j + 1'], ['if', [[f'j == {r.randint(1, 3)}', [['break']]]], None],
                                                                  ['expr', "systemLog('in ' + a + ' ' + j)"]]]]])
    body = [['for', 'a', None, 'arrayNew(10, 20)', [inner, ['expr', "systemLog('out ' + a)"],
                                                  ['if', [[f'a == {r.choice([10, 20, 30])}', [[r.choice(['break', 'continue'])]]]], None],
                                                  ['expr', "systemLog('tail ' + a)"]]],
            ['return', "'done'"]]
    fn = ['function', f'nf{k}', [], False, body]
    wrap = r.choice(['if', 'for', 'while', 'ifif'])
    if wrap == 'if':
        prog = [['if', [['g1', [fn]]], [fn]]]
    elif wrap == 'for':
        prog = [['for', 'w', None, 'arrayNew(1)', [fn]]]
    elif wrap == 'while':
        prog = [['assign', 'wc', '0'], ['while', 'wc < 1', [['assign', 'wc', 'wc + 1'], fn]]]
    else:
        prog = [['if', [['true', [['if', [['1', [fn]]], None]]]], None]]
    prog.append(['expr', f"systemLog('r ' + nf{k}())"])
    return scriptgen.flatten_blocks(prog)


# ------------------------------------------------------------------ the proved fragment as Coq terms (Proofs/C01.v sstmt)
def core_program(r, depth=0, in_loop=False, counter=[0]):
    """a tree over assign / expr / return / break / if-elif-else / while only (no for, no functions, no continue)"""
    g = scriptgen.Gen(r, [], 3)
    out = []
    for _ in range(r.randint(1, 3)):
        c = r.random()
        if depth >= 3 or c < 0.35:
            c2 = r.random()
            if c2 < 0.4:
                out.append(['assign', r.choice(scriptgen.VARS), g.expr(2)])
            elif c2 < 0.75:
                counter[0] += 1
                out.append(['expr', f"systemLog('K{counter[0]} ' + {g.expr(1)})"])
            elif c2 < 0.85 and in_loop:
                out.append(['if', [[g.expr(1), [['break']]]], None])
            elif c2 < 0.92:
                out.append(['return', g.expr(1) if r.random() < 0.8 else None])
            else:
                out.append(['expr', f'({g.expr(2)})'])
        elif c < 0.7:
            nb = r.choice([1, 1, 2, 3])
            branches = [[g.expr(2), core_program(r, depth + 1, in_loop, counter) if r.random() > 0.12 else []] for _ in range(nb)]
            els = (core_program(r, depth + 1, in_loop, counter) if r.random() > 0.12 else []) if r.random() < 0.5 else None
            out.append(['if', branches, els])
        else:
            counter[0] += 1
            cv = f'w{counter[0]}'
            out.append(['assign', cv, '0'])
            out.append(['while', f'{cv} < {r.randint(0, 3)}' + (f' && {g.expr(1)}' if r.random() < 0.3 else ''),
                        [['assign', cv, f'{cv} + 1']] + core_program(r, depth + 1, True, counter)])
    return out


def for_core_program(r):
    """one `for` loop (Proofs/C01for.v): the body is a tree of the proved fragment, with `break` / `continue` of the for loop at its
    top level and inside if branches (never inside a while: F7); the loop expression is an array-valued global or an arrayNew call;
    the loop variables are not assigned by the body"""
    g = scriptgen.Gen(r, [], 3)
    names = scriptgen.VARS + scriptgen.GLOBALS + ['fv']
    body = []
    if r.random() < 0.5:
        body.append(['if', [[g.expr(1, names), [[r.choice(['continue', 'continue', 'break'])]]]], None])
    body.append(['expr', f"systemLog('F ' + fv + ' ' + {g.expr(1, names)})"])
    body += core_program(r, 1, True)
    if r.random() < 0.4:
        body.append(['if', [[g.expr(1, names), [['expr', "systemLog('skip')"], ['continue']]], [g.expr(1, names), [['assign', 'va', 'fv']]]],
                     [['continue']] if r.random() < 0.3 else None])
        body.append(['expr', "systemLog('tail ' + fv)"])
    index = 'fi' if r.random() < 0.5 else None
    if index:
        body.append(['expr', "systemLog('ix ' + fi)"])
    values = r.choice(['arr', 'arr', f'arrayNew({", ".join(g.expr(0) for _ in range(r.randint(0, 4)))})'])
    return [['for', 'fv', index, values, body]]


def for_nest_program(r, depth=0, counter=[0]):
    """statements with NESTED for loops (Proofs/C01forN.v ustmt): a sequence of fragment statements and for loops, each loop body
    again such a sequence; break / continue of the innermost for at the top level of a body and inside if branches"""
    g = scriptgen.Gen(r, [], 3)
    counter[0] += 1
    k = counter[0]
    fv, fi = f'fv{k}', f'fi{k}'
    names = scriptgen.VARS + scriptgen.GLOBALS + [fv]
    body = []
    if r.random() < 0.4:
        body.append(['if', [[g.expr(1, names), [[r.choice(['continue', 'continue', 'break'])]]]], None])
    body.append(['expr', f"systemLog('N{k} ' + {fv} + ' ' + {g.expr(1, names)})"])
    if depth < 2 and r.random() < 0.7:
        body += for_nest_program(r, depth + 1, counter)
    if r.random() < 0.5:
        body += core_program(r, 2, True)
    if r.random() < 0.3:
        body.append(['if', [[g.expr(1, names), [['continue']]]], None])
        body.append(['expr', f"systemLog('T{k} ' + {fv})"])
    index = fi if r.random() < 0.5 else None
    if index:
        body.append(['expr', f"systemLog('I{k} ' + {fi})"])
    values = r.choice(['arr', 'arr2', f'arrayNew({", ".join(g.expr(0) for _ in range(r.randint(0, 3)))})'])
    out = []
    if r.random() < 0.4:
        out.append(['assign', r.choice(scriptgen.VARS), g.expr(1)])
    out.append(['for', fv, index, values, body])
    if r.random() < 0.4:
        out.append(['expr', f"systemLog('A{k} ' + {g.expr(1)})"])
    if depth == 0 and r.random() < 0.3:
        out.append(['return', g.expr(1)])
    return out


def uni_program(r, depth=0, loop=None, scope=(), counter=None):
    """a random nested program of the UNIFIED block language (Proofs/C01u.v unistmt): assignment, log, return, break, continue,
    if / elif / else chains, while and for nested in each other in any order to depth 4 (a for inside an if branch inside a while
    body inside a for ...).  `loop` = kind of the innermost enclosing loop: `break` in any loop, `continue` only when the innermost
    loop is a for (known finding F7 excludes continue-in-while from the proved statement); loop values are arrays; the loop
    variables are not assigned by the body.  counter = [fresh-name counter, remaining statement budget] (the parser model's time
    grows faster than linearly in the text length: programs stay below about 60 lines)"""
    counter = [0, r.randint(10, 26)] if counter is None else counter
    g = scriptgen.Gen(r, [], 3)
    names = scriptgen.VARS + scriptgen.GLOBALS + list(scope)
    out = []
    for _ in range(r.randint(1, 3) if depth else r.randint(2, 4)):
        c = r.random()
        counter[1] -= 1
        if depth >= 4 or counter[1] <= 0 or c < 0.25:
            c2 = r.random()
            if c2 < 0.30:
                out.append(['assign', r.choice(scriptgen.VARS), g.expr(2, names)])
            elif c2 < 0.72:
                counter[0] += 1
                out.append(['expr', f"systemLog('U{counter[0]} ' + {g.expr(1, names)})"])
            elif c2 < 0.82 and loop:
                out.append(['if', [[g.expr(1, names), [['break']]]], None])
            elif c2 < 0.92 and loop == 'for':
                out.append(['if', [[g.expr(1, names), [['continue']]]], None])
            elif c2 < 0.95 and depth:
                out.append(['return', g.expr(1, names) if r.random() < 0.8 else None])
            else:
                out.append(['expr', f'({g.expr(2, names)})'])
        elif c < 0.50:
            nb = r.choice([1, 1, 2, 3])
            branches = [[g.expr(2, names), uni_program(r, depth + 1, loop, scope, counter) if r.random() > 0.1 else []] for _ in range(nb)]
            els = (uni_program(r, depth + 1, loop, scope, counter) if r.random() > 0.1 else []) if r.random() < 0.5 else None
            out.append(['if', branches, els])
        elif c < 0.72:
            counter[0] += 1
            cv = f'w{counter[0]}'
            out.append(['assign', cv, '0'])
            out.append(['while', f'{cv} < {r.randint(1, 3)}' + (f' && {g.expr(1, names)}' if r.random() < 0.25 else ''),
                        [['assign', cv, f'{cv} + 1']] + uni_program(r, depth + 1, 'while', scope, counter)])
        else:
            counter[0] += 1
            k = counter[0]
            fv = f'fv{k}'
            fi = f'fi{k}' if r.random() < 0.5 else None
            values = r.choice(['arr', 'arr2', f'arrayNew({", ".join(g.expr(0, names) for _ in range(r.randint(0, 3)))})'])
            body = uni_program(r, depth + 1, 'for', tuple(scope) + (fv,) + ((fi,) if fi else ()), counter)
            out.append(['for', fv, fi, values, body])
    # a bare break / continue as the last statement of a block (the code after a taken jump is dead, the lowering still emits it)
    if loop and depth and r.random() < 0.08:
        out.append([r.choice(['break', 'continue']) if loop == 'for' else 'break'])
    return out


def unistmt_coq(stmts, canon):
    """a statement list of the unified block language as a Coq SOURCE tree of type unistmt (Proofs/C01u.v; for loops as NForS,
    Model/RunC01u.v; sequences right-nested)"""
    def one(s):
        k = s[0]
        if k == 'assign':
            return f'(NAssign {core.cstr(s[1])} {scriptgen.expr_coq(canon[s[2]])})'
        if k == 'expr':
            return f'(NExpr {scriptgen.expr_coq(canon[s[1]])})'
        if k == 'return':
            return f'(NReturn {core.copt(scriptgen.expr_coq(canon[s[1]]) if s[1] is not None else None)})'
        if k == 'break':
            return 'NBreak'
        if k == 'continue':
            return 'NContinue'
        if k == 'if':
            def chain(branches, els):
                (c, b), rest = branches[0], branches[1:]
                tail = chain(rest, els) if rest else (f'(NElse {unistmt_coq(els, canon)})' if els is not None else 'NSkip')
                return f'(NIf {scriptgen.expr_coq(canon[c])} {unistmt_coq(b, canon)} {tail})'
            return chain(s[1], s[2])
        if k == 'while':
            return f'(NWhile {scriptgen.expr_coq(canon[s[1]])} {unistmt_coq(s[2], canon)})'
        if k == 'for':
            return (f'(NForS {core.cstr(s[1])} {core.cstr(s[2]) if s[2] is not None else "nil"} {scriptgen.expr_coq(canon[s[3]])} '
                    f'{unistmt_coq(s[4], canon)})')
        raise ValueError(k)
    if not stmts:
        return 'NSkip'
    res = one(stmts[-1])
    for s in reversed(stmts[:-1]):
        res = f'(NSeq {one(s)} {res})'
    return res


def ustmt_coq(stmts, canon):
    """a statement list with for loops as a Coq term of type ustmt (Proofs/C01forReal.v): maximal runs of fragment statements become
    one US leaf, for loops become UFor, sequences are right-nested"""
    items, run = [], []
    for s in stmts:
        if s[0] == 'for':
            if run:
                items.append(f'(US {sstmt_coq(run, canon)})')
                run = []
            idx = core.copt(core.cstr(s[2]) if s[2] is not None else None)
            items.append(f'(UFor {core.cstr(s[1])} {idx} {scriptgen.expr_coq(canon[s[3]])} {ustmt_coq(s[4], canon)})')
        else:
            run.append(s)
    if run or not items:
        items.append(f'(US {sstmt_coq(run, canon)})')
    res = items[-1]
    for it in reversed(items[:-1]):
        res = f'(USeq {it} {res})'
    return res


def sstmt_coq(stmts, canon):
    """a statement list of the fragment as a Coq term of type sstmt (sequences right-nested)"""
    def one(s):
        k = s[0]
        if k == 'assign':
            return f'(TAssign {core.cstr(s[1])} {scriptgen.expr_coq(canon[s[2]])})'
        if k == 'expr':
            return f'(TExpr {scriptgen.expr_coq(canon[s[1]])})'
        if k == 'return':
            return f'(TReturn {core.copt(scriptgen.expr_coq(canon[s[1]]) if s[1] is not None else None)})'
        if k == 'break':
            return 'TBreak'
        if k == 'continue':
            return 'TContinue'
        if k == 'if':
            def chain(branches, els):
                (c, b), rest = branches[0], branches[1:]
                tail = chain(rest, els) if rest else (f'(TElse {sstmt_coq(els, canon)})' if els is not None else 'TSkip')
                return f'(TIf {scriptgen.expr_coq(canon[c])} {sstmt_coq(b, canon)} {tail})'
            return chain(s[1], s[2])
        if k == 'while':
            return f'(TWhile {scriptgen.expr_coq(canon[s[1]])} {sstmt_coq(s[2], canon)})'
        raise ValueError(k)
    if not stmts:
        return 'TSkip'
    res = one(stmts[-1])
    for s in reversed(stmts[:-1]):
        res = f'(TSeq {one(s)} {res})'
    return res


def value_pool(r):
    p = interp.Pool()
    return [['null'], ['bool', True], ['bool', False], interp.vflt(0.0), interp.vflt(1.0), interp.vflt(2.0), interp.vint(3), ['str', ''], ['str', 'x'],
            ['date', str(63_842_000_000_000_000)], p.arr([]), p.arr([interp.vflt(1), interp.vflt(2), interp.vflt(3)]), p.arr([['str', 'a'], ['null']]),
            p.obj([]), p.obj([['k', interp.vflt(1)]]), ['regex']]


def ref_run(cls, prog_canon, gspec, limit):
    g = {name: refinterp.LibFn(name) for name in LIBS}
    pool_ = {}
    for k, v in gspec.items():
        g[k] = interp.py_of_spec(v, pool_)
    ref = cls(g, 0, 'struct')
    out = {}
    try:
        out['res'] = ref.run_struct(prog_canon)
    except refinterp.RtError as exc:
        out['rt'] = str(exc)
    out['log'] = list(ref.log)
    out['globals'] = {k: v for k, v in g.items() if not (isinstance(v, refinterp.LibFn) and v.name == k)}
    return out


def agrees(exp, res):
    if 'rt' in exp:
        ok = res.get('rt') == exp['rt']
    else:
        ok = 'res' in res and interp.same_value(exp['res'], interp.plain_of_tree(res['res']))
    if not ok or res['log'] != exp['log']:
        return False
    got_g = {k: interp.plain_of_tree(v) for k, v in res['globals'] if not k.startswith('__bareScript')}
    exp_g = exp['globals']
    return got_g.keys() == exp_g.keys() and all(interp.same_value(exp_g[k], got_g[k]) for k in exp_g)


def run(tier):
    chk = core.Check(PID, tier)
    chk.assumptions = ['programs do not use the reserved __bareScript prefix, do not bind arrayLength/arrayGet and do not assign a for-index inside its loop',
                       'the final value of a for-index variable after the loop is not pinned by the language description (reference follows the lowering: it is the length)',
                       'call depth bounded (CPython recursion limit out of scope)']
    proof_ok = chk.prove('Props/C01.v', extra_targets=['Model/Run.vo', 'Model/RunC01.vo', 'Model/RunC01for.vo', 'Model/RunC01u.vo'])
    model_ok = proof_ok or chk.model_ready(['Model/Run.vo', 'Model/RunC01.vo', 'Model/RunC01for.vo', 'Model/RunC01u.vo'])
    r = core.rng('c01')
    vals = value_pool(r)

    progs = []     # (tag, tree, globals)
    # exhaustive nesting shapes
    depth = 3
    for chain, flags in scriptgen.shapes(depth):
        if tier == 'quick' and len(chain) == 3 and r.random() > 0.25:
            continue
        tree = scriptgen.flatten_blocks(scriptgen.build_shape(chain, flags))
        g = {}
        for lv in range(depth + 1):
            g[f'c{lv}'] = r.choice(vals)
            g[f'd{lv}'] = r.choice(vals)
            g[f'arr{lv}'] = r.choice([v for v in vals if v[0] == 'arr'] + [['null'], interp.vflt(1)])
        in_fn = r.random() < 0.3
        if in_fn:
            tree = [['function', 'shapeFn', [], False, tree + [['return', "'end'"]]], ['return', 'shapeFn()']]
        progs.append((f'shape{len(chain)}', tree, g))
    # grammar-generated programs
    n_rand = 400 if tier == 'quick' else 6000
    for _ in range(n_rand):
        tree = scriptgen.gen_program(r, max_depth=r.choice([3, 4, 5]))
        if r.random() < 0.4:
            tree = blockify(r, tree)
        g = {'g0': r.choice(vals), 'g1': r.choice(vals), 'g2': r.choice(vals), 'depth': interp.vflt(0)}
        if r.random() < 0.3:
            g['fn0'] = r.choice(vals)          # a host global named like a script function: the function statement replaces it
        progs.append(('random', tree, g))
    for k in range(60 if tier == 'quick' else 600):
        progs.append(('nested-fn', nested_fn_program(r, k), {'g1': r.choice(vals)}))
    # loops whose condition VALUE (not a comparison) is re-tested: every value of the pool as the flag
    for flag in vals:
        for variant in range(3):
            body = [['assign', 'n', 'n + 1'], ['expr', "systemLog('it ' + n)"]]
            if variant == 1:
                body.append(['if', [['n >= 2', [['assign', 'flag', 'null']]]], None])
            elif variant == 2:
                body.append(['if', [['n == 1', [['assign', 'flag', 'other']]], ['n >= 3', [['break']]]], None])
            else:
                body.append(['if', [['n >= 2', [['break']]]], None])
            progs.append(('truthy-while', [['assign', 'n', '0'], ['while', 'flag', body], ['return', 'n']], {'flag': flag, 'other': r.choice(vals)}))
    # F7 probe family: continue inside while
    f7 = [
        [['assign', 'i', '0'], ['while', 'i < 3', [['assign', 'i', 'i + 1'], ['if', [['i == 3', [['continue']]]], None], ['expr', "systemLog('i=' + i)"]]],
         ['expr', "systemLog('end ' + i)"]],
        [['assign', 'i', '0'], ['while', 'i < 2', [['assign', 'i', 'i + 1'], ['assign', 'n', 'i + 5'], ['continue']]], ['return', 'i']],
    ]
    for tree in f7:
        progs.append(('f7-probe', tree, {}))
    for _ in range(30 if tier == 'quick' else 300):
        progs.append(('while-continue', scriptgen.gen_program(r, max_depth=3, allow_while_continue=True), {'g0': r.choice(vals), 'g1': r.choice(vals), 'g2': r.choice(vals),
                                                                                                       'depth': interp.vflt(0)}))

    for _ in range(80 if tier == 'quick' else 1500):
        progs.append(('core', core_program(r), {'g0': r.choice(vals), 'g1': r.choice(vals), 'g2': r.choice(vals)}))

    arrs = [v for v in vals if v[0] == 'arr']
    for _ in range(60 if tier == 'quick' else 1000):
        progs.append(('forcore', for_core_program(r), {'g0': r.choice(vals), 'g1': r.choice(vals), 'g2': r.choice(vals), 'arr': r.choice(arrs)}))

    for _ in range(60 if tier == 'quick' else 1000):
        progs.append(('fornest', for_nest_program(r), {'g0': r.choice(vals), 'g1': r.choice(vals), 'g2': r.choice(vals),
                                                       'arr': r.choice(arrs), 'arr2': r.choice(arrs)}))

    for _ in range(60 if tier == 'quick' else 1000):
        progs.append(('ucore', uni_program(r), {'g0': r.choice(vals), 'g1': r.choice(vals), 'g2': r.choice(vals),
                                                'arr': r.choice(arrs), 'arr2': r.choice(arrs[1:])}))

    texts = [scriptgen.program_text(t) for _, t, _ in progs]
    cases = [{'text': tx, 'globals': g, 'max': 3000, 'want_model': True} for tx, (_, _, g) in zip(texts, progs)]
    impl = core.run_impl('run_script', cases)
    # canonical expressions (the implementation's own expression parser, verified by C02)
    all_exprs = set()
    for _, t, _ in progs:
        exprs_of(t, all_exprs)
    all_exprs = sorted(all_exprs)
    parsed = core.run_impl('parse_expr', all_exprs)
    canon = {e: p.get('ok') for e, p in zip(all_exprs, parsed)}

    dist, nontrivial, skipped = {}, set(), 0
    for i, ((tag, tree, g), res) in enumerate(zip(progs, impl)):
        dist[tag] = dist.get(tag, 0) + 1
        info = {'source': texts[i], 'globals': {k: v[:2] for k, v in g.items()}}
        if 'host' in res:
            chk.oracle_fail.append({'class': 'host-exception', **info, 'got': res})
            continue
        if res.get('rt', '').startswith('Exceeded maximum'):
            skipped += 1
            continue
        ex = set()
        exprs_of(tree, ex)
        if any(canon.get(e) is None for e in ex):
            skipped += 1
            continue
        ctree = with_canon(tree, canon)
        try:
            exp = ref_run(refinterp.Ref, ctree, g, 3000)
        except (refinterp.Unsupported, RecursionError, OverflowError):
            skipped += 1
            continue
        if agrees(exp, res):
            nontrivial.add(texts[i])
            continue
        cls = 'differs-from-structured-semantics'
        if has_while_continue(tree):
            try:
                exp7 = ref_run(RefF7, ctree, g, 3000)
                if agrees(exp7, res):
                    cls = 'while-continue-skips-the-loop-test'
            except (refinterp.Unsupported, RecursionError, OverflowError):
                pass
        chk.oracle_fail.append({'class': cls, **info,
                                'expected': {'res': repr(exp.get('res'))[:200], 'rt': exp.get('rt'), 'log': exp['log'][:60],
                                             'globals': {k: repr(v)[:60] for k, v in exp['globals'].items()}},
                                'got': {k: res.get(k) for k in ('res', 'rt', 'log', 'globals')}})

    corr_n = declined = n_low = n_st = st_declined = n_for = n_nest = n_uni = 0
    if model_ok:
        idx = [i for i in range(len(progs)) if 'model' in impl[i] and 'host' not in impl[i] and not impl[i].get('rt', '').startswith('Exceeded maximum')]
        budget = 250 if tier == 'quick' else 4000
        if len(idx) > budget:
            idx = sorted(r.sample(idx, budget))
        terms, used = [], []
        for i in idx:
            try:
                terms.append(interp.run_term(cases[i], impl[i], impl[i]['model'], fuel=14000))
                used.append(i)
            except (interp.Unencodable, ValueError):
                pass
        # the proved fragment: (a) parse_script (printed text) = compile (tree) in the parser model; (b) the structured interpreter
        # of Proofs/C01b.v (sound for SExec) run on the tree agrees with the implementation's run of the text
        core_idx = [i for i, (tag, _, _) in enumerate(progs) if tag in ('core', 'forcore', 'fornest', 'ucore') and 'host' not in impl[i]
                    and not impl[i].get('rt', '').startswith('Exceeded maximum')]
        low_terms, low_used, st_terms, st_used = [], [], [], []
        for i in core_idx:
            ex = set()
            exprs_of(progs[i][1], ex)
            if any(canon.get(e) is None for e in ex):
                continue
            if progs[i][0] == 'forcore':
                # the `for` layer (Proofs/C01for.v): compile_for_real / fexec on (value name, index name, loop expression, body tree)
                _, fx, fidx, fvalues, fbody = progs[i][1][0]
                term = (f'{core.cstr(fx)} {core.copt(core.cstr(fidx) if fidx is not None else None)} '
                        f'{scriptgen.expr_coq(canon[fvalues])} {sstmt_coq(fbody, canon)}')
                low_fn, st_fn = 'check_lowering_for', 'check_struct_for'
            elif progs[i][0] == 'fornest':
                # nested for loops (Proofs/C01forN.v): source tree as ustmt, names of the temporaries by annotate
                term = ustmt_coq(progs[i][1], canon)
                low_fn, st_fn = 'check_lowering_u', 'check_struct_u'
            elif progs[i][0] == 'ucore':
                # the unified block language (Proofs/C01u.v): source tree as unistmt, names of the temporaries by uname
                term = unistmt_coq(progs[i][1], canon)
                low_fn, st_fn = 'check_lowering_n', 'check_struct_n'
            else:
                term = sstmt_coq(progs[i][1], canon)
                low_fn, st_fn = 'check_lowering', 'check_struct'
            low_terms.append(f'{low_fn} {core.cstr(texts[i])} {term}')
            low_used.append(i)
            try:
                enc = interp.WorldEnc()
                world = enc.world(progs[i][2])
                xg = core.clist([f'({core.cstr(k)}, {interp.tree_coq(v)})' for k, v in impl[i]['globals']])
                st_terms.append(f'{st_fn} (Z.to_nat 6000%Z) {term} {world} {interp.expected_coq(impl[i])} '
                                f'{core.clist([core.cstr(x) for x in impl[i]["log"]])} {xg}')
                st_used.append(i)
            except (interp.Unencodable, ValueError):
                pass
        c01_imports = interp.IMPORTS + ' Proofs.C01 Model.RunC01 Model.RunC01for Proofs.C01forReal Proofs.C01u Proofs.C01uReal Model.RunC01u'
        bad_low, err_low = core.coq_bools('c01low', c01_imports, low_terms, shard=5)
        for k, log in err_low:
            chk.corr_fail.append({'class': 'case-file-did-not-evaluate', 'shard': k, 'log': log[-800:]})
        for b in bad_low[:5]:
            chk.corr_fail.append({'class': 'compile-differs-from-the-parser-model', 'source': texts[low_used[b]]})
        st_codes, err_st = core.coq_codes('c01st', c01_imports, st_terms, shard=6)
        for k, log in err_st:
            chk.corr_fail.append({'class': 'case-file-did-not-evaluate', 'shard': k, 'log': log[-800:]})
        for j, c in enumerate(st_codes):
            if c in (0, 3) and len(chk.corr_fail) < 12:
                chk.corr_fail.append({'class': 'structured-interpreter-differs-from-implementation' if c == 0 else 'structured-interpreter-out-of-fuel',
                                      'source': texts[st_used[j]], 'impl': {k: impl[st_used[j]].get(k) for k in ('res', 'rt', 'log')}})
        n_low, n_st, st_declined = len(low_terms), len(st_terms), sum(1 for c in st_codes if c == 2)
        n_for = sum(1 for i in st_used if progs[i][0] == 'forcore')
        n_nest = sum(1 for i in st_used if progs[i][0] == 'fornest')
        n_uni = sum(1 for i in st_used if progs[i][0] == 'ucore')
        codes, errors = core.coq_codes('c01', interp.IMPORTS, terms, shard=16)
        corr_n = len(used)
        for k, log in errors:
            chk.corr_fail.append({'class': 'case-file-did-not-evaluate', 'shard': k, 'log': log[-800:]})
        declined = sum(1 for c in codes if c == 2)
        for j, c in enumerate(codes):
            if c in (0, 3) and len(chk.corr_fail) < 12:
                i = used[j]
                chk.corr_fail.append({'class': 'model-differs' if c == 0 else 'model-out-of-fuel', 'source': texts[i], 'globals': cases[i]['globals'],
                                      'impl': {k: impl[i].get(k) for k in ('res', 'rt', 'log')}})

    chk.coverage = {
        'evaluations': len(progs),
        'distinct_nontrivial': len(nontrivial),
        'rule': '+ round 7: variables, parameters and loop variables named true / false / null; shapes: every nesting chain of {if, if-else, if-elif, if-elif-else, while, for, for-with-index} x child position to depth 3 with break/continue '
                'flags per loop level (depth 3 sampled 1:4 in quick), at global scope or inside a function; random: grammar-generated programs to nesting 5 with '
                'up to 3 functions, function definitions moved inside global blocks in 40%; forcore: one for loop (with / without index variable, over an array '
                'global or an arrayNew call) whose body is a fragment tree with break / continue of the for at top level and in if branches; fornest: sequences of fragment statements and for loops nested '
                'to depth 3 (for-in-for), break / continue of the innermost for; ucore: random programs of the unified block language (if / elif / else, while, for nested in each '
                'other in any order to depth 4, break in any loop, continue where the innermost loop is a for); nested-fn: function inside a global block with two nested loops and '
                'break/continue; initial globals from a 16-value pool of all nine types; non-trivial = distinct program texts on which implementation = reference',
        'exhaustive': tier == 'thorough', 'exhaustive_part': 'nesting shapes to depth 3' + (' (depth 3 sampled in quick)' if tier == 'quick' else ''),
        'distribution': dist, 'reference_skipped': skipped, 'correspondence_cases': corr_n, 'model_declined': declined,
        'lowering_equalities_checked_in_coq': n_low, 'structured_interpreter_runs_in_coq': n_st, 'structured_interpreter_declined': st_declined,
        'for_layer_structured_runs_in_coq': n_for, 'nested_for_structured_runs_in_coq': n_nest,
        'unified_structured_runs_in_coq': n_uni,
        'samples': [{'source': texts[i], 'impl': {k: impl[i].get(k) for k in ('res', 'rt', 'log')}} for i in (3, len(progs) // 2, len(progs) - 40) if i < len(progs)],
    }
    return chk.finish(TRUSTED)
