"""C10 - source layout does not change the parsed program.

proof         : coq/Props/C10.v (line ends LF/CRLF and chunk cuts on the direct splitter, split_chunks distributes, comment/blank
                insertion anywhere incl. inside a continuation leaves the logical line texts unchanged, the model depends only on
                the logical line texts, continuation joining) - all about Model/Script.v through its proved factorisation
direct oracle : harness/c10_oracle.py - metamorphic, independent of the Coq model: generated programs, nesting shapes, hand programs of
                every statement kind and all shipped include/*.bare x layout rewrites (LF/CRLF, every chunking of <= 6 cuts, comment/blank
                insertion p=0.3 also inside continuations, indentation, trailing whitespace, continuation break / whitespace change at
                every inter-token gap) => deep-equal parse_script results; interleaved repeated calls => identical results
correspondence: inside Coq (vm_compute): split_lines (regex `\\r?\\n`) = split_direct on every sampled chunk; the model's logical lines
                = an independent Python reference; model parse_script = implementation parse_script on a sample of every rewrite family
"""
import os

import json

from . import core, c10_oracle, c06_oracle
from .core import cstr, cnat, clist
from .scriptgen import parse_result_coq, chunks_coq

PID = 'C10'
TRUSTED = [
    'Coq 8.16.1 kernel + coqc; vm_compute for running the model',
    'Print Assumptions of every C10 theorem: Closed under the global context (no axioms)',
    'tools/translate.py: every re.compile pattern of parser.py copied into coq/Gen on every run',
    'Model/Regex.v matcher = CPython re semantics (validated by the correspondence)',
    'Model/Script.v, Model/ExprParser.v: hand transliterations of parse_script / parse_expression (validated by the correspondence)',
    'Model/ScriptX.v split_direct = Model/Script.v split_lines (regex \\r?\\n): PROVED for every text (Proofs/C10split.v, C10_split_lines_is_the_direct_splitter); still evaluated inside Coq on every sampled text',
    'harness/c10_oracle.py: the rewrites are model-preserving by the property text (its tokenizer decides where a space is allowed); '
    'selfcheck() of that module validates the generator independently of the implementation',
]
IMPORTS = 'Model.Base Model.Num Model.ExprParser Model.Script Model.ScriptX'
# diagnostic only (used to show which OTHER families a run flags): comma-separated tags to leave out; never set by ./check itself
WITHOUT = [t for t in os.environ.get('VERIF_C10_WITHOUT', '').split(',') if t]


def payload_chunks(p):
    return p['chunks'] if 'chunks' in p else [p['text']]


def size(p):
    return sum(len(x) for x in payload_chunks(p))


def term_parse(p, res):
    return f'sres_eqb script_eqb (parse_script {chunks_coq(payload_chunks(p))} {cnat(p.get("start", 1))}) {parse_result_coq(res)}'


def term_split(p):
    return ('forallb (fun c => match split_lines c with ROk l => list_eqb str_eqb l (split_direct c) | _ => false end) '
            + chunks_coq(payload_chunks(p)))


def term_logical(p):
    phys = c06_oracle.payload_lines(p)
    lls, dangling = c06_oracle.logical_lines(phys)
    exp = clist([f'({cnat(i)}, {cstr(t)})' for i, t in lls])
    tail = ('match t with LDone ls => match l_cont ls with [] => true | _ => false end | _ => false end' if dangling is None else
            f'match t with LDone ls => Nat.eqb (l_ix ls) {cnat(dangling[0])} && str_eqb (join_with [32%N] (l_cont ls)) {cstr(dangling[1])} '
            '| _ => false end')
    return (f'match split_chunks {chunks_coq(payload_chunks(p))} with ROk lines => let \'(lls, t) := llines lines 0 ls_init in '
            f'list_eqb (fun a b => Nat.eqb (fst a) (fst b) && str_eqb (snd a) (snd b)) lls {exp} && ({tail}) | _ => false end')


def representable(res):
    if 'err' in res:
        _, _, col, lineno, _ = res['err']
        return isinstance(col, int) and col >= 0 and (lineno is None or (isinstance(lineno, int) and lineno >= 0))
    return 'ok' in res or 'host' in res


def run(tier):
    chk = core.Check(PID, tier)
    chk.assumptions = ['CPython re semantics as modelled in Model/Regex.v',
                       'layout rewrites stay inside the property text: cuts at line boundaries, breaks only where a space is allowed',
                       'recursion limit of the host interpreter is not modelled']
    proof_ok = chk.prove('Props/C10.v')
    model_ok = proof_ok or chk.model_ready(['Model/ScriptX.vo'])

    r = core.rng('c10')
    cases = c10_oracle.build_cases(r, tier)
    if WITHOUT:
        keep_groups = {c['group'] for c in cases if c['tag'] not in WITHOUT or c.get('base')}
        cases = [c for c in cases if c['tag'] not in WITHOUT and c['group'] in keep_groups or c.get('base')]
        chk.notes.append(f'diagnostic run: families {WITHOUT} left out')
    payloads = [dict(c['payload'], twice=True) if i % 7 == 0 else c['payload'] for i, c in enumerate(cases)]
    impl = core.run_impl('parse_script', payloads)
    for i, res in enumerate(impl):
        if res.get('state_leak') and len(chk.oracle_fail) < 20:
            chk.oracle_fail.append({'class': 'parse-results-share-state-between-calls', 'input': payloads[i], 'source': c10_oracle.payload_text(payloads[i])[:600]
                                    if hasattr(c10_oracle, 'payload_text') else json.dumps(payloads[i])[:600],
                                    'detail': 'the first parse result was modified in place; a second parse of the same source gave a different model'})

    # ---- 1. direct oracle: every layout of a program parses to the same model; repeated interleaved calls agree
    fails, stats = c10_oracle.evaluate(cases, impl)
    chk.oracle_fail += fails
    ipayload, imap = c10_oracle.interleave_payload(cases, core.rng('c10-interleave'))
    ires = core.run_impl('parse_script', ipayload, shards=1)
    ifails = c10_oracle.check_interleave(imap, impl, ires)
    chk.oracle_fail += ifails

    # ---- 2. correspondence
    corr = {'parse': 0, 'split': 0, 'logical': 0}
    if model_ok:
        per_tag = 16 if tier == 'quick' else 120
        by_tag = {}
        for i, c in enumerate(cases):
            by_tag.setdefault(c['tag'], []).append(i)
        pick = []
        for tag in sorted(by_tag):
            idxs = by_tag[tag]
            small = [i for i in idxs if size(payloads[i]) <= 700]
            big = [i for i in idxs if 700 < size(payloads[i]) <= 3000]
            pick += sorted(r.sample(small, min(len(small), per_tag)))
            pick += sorted(r.sample(big, min(len(big), 2 if tier == 'quick' else 12)))
        pick = sorted(set(pick))
        r.shuffle(pick)            # spread the long inputs over the shards
        terms, meta = [], []
        for i in pick:
            if representable(impl[i]):
                try:
                    terms.append(term_parse(payloads[i], impl[i]))
                    meta.append(('parse', i))
                except ValueError as exc:           # a result that is not a script model at all
                    if len(chk.oracle_fail) < 20:
                        chk.oracle_fail.append({'class': 'parse-result-is-not-a-script-model', 'input': payloads[i], 'source': json.dumps(payloads[i])[:600],
                                                'detail': str(exc), 'got': json.dumps(impl[i])[:600]})
            terms.append(term_split(payloads[i]))
            meta.append(('split', i))
            terms.append(term_logical(payloads[i]))
            meta.append(('logical', i))
        for kind, _ in meta:
            corr[kind] += 1
        bad, errors = core.coq_bools('c10', IMPORTS, terms, shard=48, timeout=1500)
        for k, log in errors:
            chk.corr_fail.append({'class': 'case-file-did-not-evaluate', 'shard': k, 'log': log[-800:]})
        for b in bad[:12]:
            kind, i = meta[b]
            p = payloads[i]
            entry = {'class': f'model-differs-{kind}', 'tag': cases[i]['tag'], 'rewrite': cases[i].get('rewrite'), 'payload': p}
            if kind == 'parse':
                entry['impl'] = impl[i]
                entry['model'] = core.coq_show('c10', IMPORTS, f'parse_script {chunks_coq(payload_chunks(p))} {cnat(p.get("start", 1))}')[-1500:]
            elif kind == 'logical':
                entry['reference'] = c06_oracle.logical_lines(c06_oracle.payload_lines(p))
                entry['model'] = core.coq_show('c10', IMPORTS, f'match split_chunks {chunks_coq(payload_chunks(p))} with ROk lines => '
                                               'Some (llines lines 0 ls_init) | _ => None end')[-1500:]
            chk.corr_fail.append(entry)
        if len(bad) > 12:
            chk.corr_fail.append({'class': 'model-differs', 'more': len(bad) - 12})

    samples = []
    for i in (1, len(cases) // 3, len(cases) // 2, len(cases) - 1):
        if i < len(cases) and size(payloads[i]) < 800:
            samples.append({'tag': cases[i]['tag'], 'rewrite': cases[i].get('rewrite'), 'payload': payloads[i]})
    chk.coverage = {
        'evaluations': len(cases) + len(ipayload),
        'distinct_nontrivial': stats.get('groups'),
        'rule': 'see harness/c10_oracle.py: each group = one base program (generated / nesting shape / hand-written per statement kind / '
                'shipped .bare file or top-level unit of it) and its layout rewrites; non-trivial = number of distinct base programs',
        'exhaustive': True,
        'exhaustive_part': 'every chunking of <= 6 cuts of the short programs; every inter-token gap kind of every statement kind '
                           '(one break and one whitespace change each); in thorough every gap of 150 generated programs',
        'distribution': stats.get('per_tag'),
        'oracle_stats': {k: v for k, v in stats.items() if k not in ('per_tag', 'gap_kind_counts')},
        'interleaved_calls': len(ipayload), 'interleave_fails': len(ifails),
        'correspondence_cases': corr,
        'samples': samples,
    }
    return chk.finish(TRUSTED)


def replay(data):
    import json
    items = data.get('failing_inputs') or []
    payloads = [it['payload'] for it in items if 'payload' in it]
    res = core.run_impl('parse_script', payloads, shards=1) if payloads else []
    for it, x in zip([it for it in items if 'payload' in it], res):
        print(json.dumps({'class': it.get('class'), 'rewrite': it.get('rewrite'), 'payload': it['payload'], 'expected': it.get('expected'),
                          'now': x})[:2000])
    if not payloads:
        print(json.dumps(data, indent=1)[:4000])
    return 0
