"""C13 - numbers survive conversion to text and back; integers print without a fraction.

proof        : coq/Props/C13.v (model = Model/NumText.v over the REGENERATED R_NUMBER_CLEANUP / R_EXPR_NUMBER; CPython's
               shortest-repr / correctly-rounded-strtod contract is a Section hypothesis, exercised here on every run)
direct oracle: doubles (uniform random bit patterns, powers of ten 1e-320..1e308 and neighbours, integers around 2^53, 1e15,
               1e16, 1e21, subnormals, +-0, short decimals): the text produced by '' + x, stringNew, arrayJoin, systemLog and
               value_string is one text, equals an independently computed reference text, parses back to exactly x with
               numberParseFloat / value_parse_number and (x >= 0) as a literal (parse_expression and `return <text>`); integral
               |x| < 1e16 print as str(int(x)).  Strings (near-misses, random, mutated number texts): both parsers against an
               independent grammar with exact rational arithmetic (None for non-numbers, never nan/inf, never a prefix).
correspondence: inside Coq - repr text in the grammar, model cleanup (direct and through the regenerated regex + engine) =
               value_string, model float() = x, literal recogniser (direct and regex) whole; model parsers = implementation on
               the strings; the strtod-by-value hypothesis on sampled (m, e, k).
"""
import math
import re
import struct
import unicodedata
from fractions import Fraction

from . import core
from .core import cstr, cZ, cN, cnat, cbool, clist, copt, cflt  # noqa: F401

PID = 'C13'
HUGE_EXP = re.compile(r'[eE][+-]?[\d_]{5,}')
TRUSTED = [
    'Coq 8.16.1 kernel + coqc; vm_compute for the regex pins/samples and for running the model (no native_compute)',
    'Print Assumptions of every C13 theorem: Closed under the global context (no axioms); C13_roundtrip* carry CPython\'s contract as '
    'explicit premises (repr text in the grammar, float(repr x) = x, conversion depends on the denoted value only)',
    'tools/translate.py: copies R_NUMBER_CLEANUP and _R_EXPR_NUMBER (parsed by CPython\'s own re._parser) into coq/Gen/Regexes.v',
    'Model/NumText.v cleanup / lit_match: direct functions for the two patterns; tied to the regenerated patterns by the pins '
    '(cleanup_regex_pin, literal_regex_pin), by engine_agrees_on_samples and by this check (model regex engine vs direct vs implementation)',
    'Model/Num.v py_float: model of CPython float(str) (correctly rounded by SpecFloat division); Model/Regex.v matcher',
    'CPython: repr(float) is the shortest round-tripping text and float() is correctly rounded (David Gay) - hypotheses, sampled every run',
    'harness/c13.py reference: own cleanup, own float()/int() grammar with fractions.Fraction (int/int true division is correctly rounded)',
]


# ------------------------------------------------------------------ generators
def from_bits(b):
    return struct.unpack('<d', struct.pack('<Q', b))[0]


def bits(x):
    return struct.unpack('<Q', struct.pack('<d', x))[0]


def neighbours(x):
    out = [x]
    if math.isfinite(x):
        out += [math.nextafter(x, math.inf), math.nextafter(x, -math.inf)]
    return [y for y in out if math.isfinite(y)]


def gen_doubles(r, n_random):
    ds = []          # (tag, float)

    def add(tag, x):
        if math.isfinite(x):
            ds.append((tag, float(x)))
    for x in (0.0, -0.0, 1.0, -1.0, 0.5, 0.1, 0.2, 0.3, 1 / 3, 2 / 3, 1.5, 100.0, 123.456, 1e-4, 9.999e-5, 1e-5, 1e16, 9999999999999998.0, 1e15,
              1e21, 1e22, 1.7976931348623157e308, 2.2250738585072014e-308, 5e-324, 4.9406564584124654e-324, 2.5e-10, 1e+20, 1e100, 1.5e300):
        add('corpus', x)
        add('corpus', -x)
    for k in range(-320, 309):
        x = float(f'1e{k}')
        for y in neighbours(x):
            add('pow10', y)
        add('pow10', -x)
        add('pow10', float(f'{r.randint(1, 9)}e{k}'))
        add('pow10', float(f'{r.randint(1, 9)}.{r.randint(0, 99999)}e{k}'))
    for base in (2**53, 10**15, 10**16, 10**21, 2**52, 2**63, 2**64, 10**22, 10**17):
        for d in list(range(-6, 7)) + [r.randint(-10**6, 10**6) for _ in range(4)]:
            add('intedge', float(base + d))
            add('intedge', -float(base + d))
    for _ in range(400):
        add('integral', float(r.randint(-10**16, 10**16)))
        add('integral', float(r.randint(-10**6, 10**6)))
        add('integral', float(r.randint(0, 10**r.randint(1, 30))))
    for _ in range(300):
        add('subnormal', from_bits(r.randint(1, 2**52 - 1)))
        add('subnormal', -from_bits(r.randint(1, 2**r.randint(1, 52))))
    for _ in range(600):
        add('decimal', r.randint(-10**6, 10**6) / 10 ** r.randint(0, 8))
        add('decimal', round(r.uniform(-1000, 1000), r.randint(0, 6)))
    for _ in range(n_random):
        add('bits', from_bits(r.getrandbits(64)))
    return ds


NEAR_MISSES = ['1,000', '1,234.5', '12,345,678', '0.1,234', '1,5', '\x1c7', '7\x1f', '\x1d 7', '7 \x1e', '\x1c\x1d\x1e\x1f', '\x857', '7\u2003', '\x1c7\u2003', '1e5', '1_0', '١٢', ' 1 ', '0x10', '1.', '.5', '--1', '1e+999', 'nan', 'inf', 'Infinity', '-inf', '+nan', 'NaN', 'INFINITY',
               '1e309', '1.8e308', '-1e999', '1.7976931348623157e308', '1.7976931348623159e308', '1e-400', '', ' ', '+', '-', '.', 'e5', '1e', '1e+',
               '1e+-5', '1..2', '1.2.3', '1 2', '1,5', '0b101', '0o17', '1__0', '_1', '1_', '1_.5', '1._5', '1e_5', '1e5_0', '1_0.0_1e1_0', '١.٥',
               '１２', '\t12\n', '\x0b7\x0c', ' 5 ', '12abc', 'abc', '1e5x', '0.1e-2', '+.5e+1', '-0', '-0.0', '00012', '007', '1' * 400,
               '9' * 309 + '.0', '1' + '0' * 308, '2' + '0' * 308, '0.' + '0' * 400 + '1', '1e', 'infinit', 'infinityx', 'in', 'na', '1\n', '1\n\n', '\n1',
               '0x1p3', '1d5', '1E5', '1E+5', '1e٥', '٣٫٥', '1\x00', '\x001', '1.0f', 'true', 'null']


def gen_texts(r, n_random, doubles):
    ts = [('nearmiss', t) for t in NEAR_MISSES]
    alphabet = list('0123456789') * 3 + list('..eE++--__  ') + ['\t', '\n', 'x', 'i', 'n', 'f', 'a', 't', 'y', 'N', 'I', '٣', '１', ' ', 'p']
    for _ in range(n_random):
        ts.append(('random', ''.join(r.choice(alphabet) for _ in range(r.randint(0, 9)))))
    # mutated number texts
    pool = [repr(x) for _, x in r.sample(doubles, min(len(doubles), n_random))]
    for t in pool:
        c = r.random()
        if c < 0.25 and t:
            i = r.randrange(len(t))
            t2 = t[:i] + t[i + 1:]
        elif c < 0.5:
            i = r.randrange(len(t) + 1)
            t2 = t[:i] + r.choice(alphabet) + t[i:]
        elif c < 0.7:
            t2 = r.choice([' ', '\t', '\n', '']) + t + r.choice([' ', '\n', '  ', ''])
        elif c < 0.85:
            t2 = t.replace('e', r.choice(['E', 'e+', 'e-', 'ee']), 1) if 'e' in t else t + r.choice(['e5', 'e+5', 'e-5', 'E10', 'e400', 'e-400'])
        else:
            t2 = t.replace('.', r.choice(['', '_', '..', '٫']))
        ts.append(('mutated', t2))
    return ts


# ------------------------------------------------------------------ reference (independent of the implementation and of the model)
def ref_text(x):
    """what value_string must produce for a float: repr with an all-zero fraction removed (positional form only has one)"""
    t = repr(x)
    if 'e' in t or 'n' in t:          # exponent form (or inf/nan): untouched unless the mantissa fraction ends the text - it never does
        return t
    head, _, fr = t.partition('.')
    return head if fr.strip('0') == '' else t


def uni_digit(ch):
    try:
        return unicodedata.decimal(ch)
    except (ValueError, TypeError):
        return None


def ref_digits(s, i):
    """digits with single underscores between digits, from position i: (value, count, next position)"""
    val = cnt = 0
    while i < len(s):
        d = uni_digit(s[i])
        if d is not None:
            val = val * 10 + d
            cnt += 1
            i += 1
        elif s[i] == '_' and cnt > 0 and i + 1 < len(s) and uni_digit(s[i + 1]) is not None and s[i - 1] != '_':
            i += 1
        else:
            break
    return val, cnt, i


def ref_strip(s):
    # float() / int() strip C isspace for ASCII (NOT the separators 0x1C-0x1F that str.isspace accepts) and the Unicode spaces beyond ASCII
    ws = lambda ch: (ch in '\t\n\x0b\x0c\r ') if ord(ch) < 128 else ch.isspace()    # noqa: E731
    a, b = 0, len(s)
    while a < b and ws(s[a]):
        a += 1
    while b > a and ws(s[b - 1]):
        b -= 1
    return s[a:b]


def ref_parse_float(text):
    """float() grammar with exact arithmetic; None for non-numbers, nan, inf and overflow; else the correctly rounded double"""
    s = ref_strip(text)
    if '\x00' in s:
        return None
    neg = False
    if s[:1] in ('+', '-'):
        neg = s[0] == '-'
        s = s[1:]
    if s.lower() in ('inf', 'infinity', 'nan'):
        return None
    ip, ni, i = ref_digits(s, 0)
    fp = nf = 0
    if i < len(s) and s[i] == '.':
        fp, nf, i = ref_digits(s, i + 1)
    if ni + nf == 0:
        return None
    exp = 0
    if i < len(s) and s[i] in 'eE':
        j = i + 1
        eneg = False
        if j < len(s) and s[j] in '+-':
            eneg = s[j] == '-'
            j += 1
        ev, ne, j = ref_digits(s, j)
        if ne == 0:
            return None
        exp = -ev if eneg else ev
        i = j
    if i != len(s):
        return None
    mant = ip * 10 ** nf + fp
    if mant == 0:
        return -0.0 if neg else 0.0
    e10 = exp - nf
    if e10 > 400 + 400:       # far beyond the double range whatever the mantissa (mantissas here have < 500 digits)
        return None
    if e10 < -2000:
        return -0.0 if neg else 0.0
    q = Fraction(mant) * Fraction(10) ** e10
    try:
        v = q.numerator / q.denominator
    except OverflowError:
        return None
    if math.isinf(v):
        return None
    return -v if neg else v


def ref_parse_int(text):
    s = ref_strip(text)
    neg = False
    if s[:1] in ('+', '-'):
        neg = s[0] == '-'
        s = s[1:]
    v, n, i = ref_digits(s, 0)
    if n == 0 or i != len(s):
        return None
    return -v if neg else v


# ------------------------------------------------------------------ the check
def fhex(x):
    return float(x).hex()


def run(tier):
    chk = core.Check(PID, tier)
    chk.assumptions = ['CPython contract (hypotheses of C13_roundtrip): repr(float) is in the grammar -?D+.D+ | -?D(.D+)?e[+-]DD+, float(repr x) = x, '
                       'and the decimal->binary conversion depends only on the denoted value; sampled on every run',
                       '"integral values print without a decimal point" is read for the positional range |x| < 1e16 (above it repr switches to '
                       'exponent form, e.g. 1.2345678901234568e+16, whose mantissa digits are significant digits of an integer)',
                       'numberParseInt is modelled for the default radix 10 only']
    proof_ok = chk.prove('Props/C13.v')
    model_ok = proof_ok or chk.model_ready(['Model/NumText.vo'])

    r = core.rng('c13')
    big = tier == 'thorough'
    doubles = gen_doubles(r, 120000 if big else 14000)
    ints = [0, 1, -1, 7, 10, -10, 2**53, 2**53 + 1, -(2**53) - 1, 10**15, 10**16, 10**21, 10**22, -(10**30), 2**64, 10**100] \
        + [r.randint(-10**r.randint(1, 40), 10**r.randint(1, 40)) for _ in range(300)]
    texts = gen_texts(r, 20000 if big else 2500, doubles)

    jobs = [{'kind': 'double', 'hex': x.hex()} for _, x in doubles] + [{'kind': 'int', 'dec': str(n)} for n in ints] \
        + [{'kind': 'text', 'text': t} for _, t in texts]
    res = core.run_impl('numtext', jobs)
    nd, ni = len(doubles), len(ints)
    dist = {}
    n_integral = n_exp_integral = n_exp = n_roundtrips = 0
    exp_integral_samples = []

    def fail(cls, inp, **kw):
        chk.oracle_fail.append({'class': cls, 'input': inp, **kw})

    # ---- doubles
    for (tag, x), out in zip(doubles, res[:nd]):
        dist[tag] = dist.get(tag, 0) + 1
        inp = {'x': x.hex(), 'repr': repr(x)}
        if 'exc' in out or 'script' in out or not isinstance(out.get('vs'), str):
            fail('stringify-raised', inp, got=out)
            continue
        vs = out['vs']
        want = ref_text(x)
        if vs != want:
            fail('value_string-differs-from-reference', inp, expected=want, got=vs)
        routes = out['routes']
        if any(rt != ['s', vs] for rt in routes):
            fail('stringification-routes-disagree', inp, source="'' + x / stringNew(x) / arrayJoin(arrayNew(x), ',') / systemLog(x)",
                 expected=vs, got=routes)
        # round trip through numberParseFloat (script) and value_parse_number
        for name in ('pf', 'vpn'):
            if out.get(name) != ['f', x.hex()]:
                fail('text-does-not-parse-back-to-the-number', inp, text=vs, parser='numberParseFloat' if name == 'pf' else 'value_parse_number',
                     expected=x.hex(), got=out.get(name))
        n_roundtrips += 1
        # numeric literal in source text for x >= 0
        if math.copysign(1.0, x) > 0:
            if out.get('lit') != ['f', x.hex()]:
                fail('text-is-not-the-literal-of-the-number', inp, text=vs, via='parse_expression', expected=x.hex(), got=out.get('lit'))
            if out.get('litrun') != ['f', x.hex()]:
                fail('text-is-not-the-literal-of-the-number', inp, text=vs, via="execute_script(parse_script('return ' + text))", expected=x.hex(),
                     got=out.get('litrun'))
        # integral values print without a fraction
        if 'e' in vs:
            n_exp += 1
        if x == int(x):
            if abs(x) < 1e16:
                n_integral += 1
                exp_text = ('-' if math.copysign(1.0, x) < 0 else '') + str(abs(int(x)))
                if vs != exp_text:
                    fail('integral-value-not-printed-as-an-integer', inp, expected=exp_text, got=vs)
            else:
                n_exp_integral += 1
                if len(exp_integral_samples) < 4:
                    exp_integral_samples.append({'x': x.hex(), 'text': vs})
                if vs.endswith('.0') or vs.endswith('.'):
                    fail('integral-value-with-trailing-fraction', inp, got=vs)

    # ---- ints
    for n, out in zip(ints, res[nd:nd + ni]):
        inp = {'int': str(n)}
        if 'exc' in out or 'script' in out or not isinstance(out.get('vs'), str):
            if len(str(abs(n))) < 4000:
                fail('stringify-raised', inp, got=out)
            continue
        vs = out['vs']
        if vs != str(n) or any(rt != ['s', vs] for rt in out['routes']):
            fail('int-text-wrong', inp, expected=str(n), got=[vs, out['routes']])
        if out.get('pi') != ['i', str(n)] or out.get('vpi') != ['i', str(n)]:
            fail('int-text-does-not-parse-back', inp, expected=str(n), got=[out.get('pi'), out.get('vpi')])
        exp_f = ref_parse_float(str(n))
        if out.get('pf') != (['f', exp_f.hex()] if exp_f is not None else None):
            fail('int-text-parsed-as-float-wrongly', inp, expected=exp_f, got=out.get('pf'))

    # ---- strings against the grammar
    n_num = n_null = 0
    for (tag, t), out in zip(texts, res[nd + ni:]):
        dist[tag] = dist.get(tag, 0) + 1
        inp = {'text': t}
        ef = ref_parse_float(t)
        ei = ref_parse_int(t)
        want_f = ['f', ef.hex()] if ef is not None else None
        want_i = ['i', str(ei)] if ei is not None else None
        n_num += ef is not None
        n_null += ef is None
        for name in ('vpn', 'pf'):
            got = out.get(name, out.get('script'))
            if got != want_f:
                cls = 'parser-returned-non-finite' if isinstance(got, list) and got[0] == 'f' and got[1] in ('inf', '-inf', 'nan') else \
                    'float-parser-differs-from-grammar'
                fail(cls, inp, parser='value_parse_number' if name == 'vpn' else 'numberParseFloat', expected=want_f, got=got)
        for name in ('vpi', 'pi'):
            got = out.get(name, out.get('script'))
            if got != want_i:
                fail('int-parser-differs-from-grammar', inp, parser='value_parse_integer' if name == 'vpi' else 'numberParseInt', expected=want_i, got=got)

    # ---- correspondence inside Coq
    corr_n = 0
    n_skipped = 0
    if model_ok:
        terms, what = [], []
        pick = list(range(nd))
        budget = 12000 if big else 1000
        if len(pick) > budget:
            keep = [i for i in pick if doubles[i][0] in ('corpus',)]
            rest = [i for i in pick if doubles[i][0] != 'corpus']
            pick = keep + sorted(r.sample(rest, budget - len(keep)))
        for i in pick:
            (tag, x), out = doubles[i], res[i]
            if not isinstance(out.get('vs'), str):
                continue
            rp, vs = out['repr'], out['vs']
            t = (f'repr_ok {cstr(rp)} && str_eqb (value_string_float {cstr(rp)}) {cstr(vs)} && '
                 f'option_eqb str_eqb (cleanup_rx {cstr(rp)}) (Some {cstr(vs)}) && '
                 f'option_eqb sf_eqb (value_parse_number {cstr(vs)}) (Some {cflt(x)}) && option_eqb sf_eqb (py_float {cstr(rp)}) (Some {cflt(x)})')
            if math.copysign(1.0, x) > 0:
                t += (f' && lit_whole (lit_match {cstr(vs)}) {cnat(len(vs))} && lit_whole_rx (lit_match_rx {cstr(vs)}) {cnat(len(vs))}')
            terms.append(t)
            what.append({'double': x.hex(), 'repr': rp, 'value_string': vs})
        tpick = list(range(len(texts)))
        tb = 6000 if big else 800
        if len(tpick) > tb:
            tpick = [i for i in tpick if texts[i][0] == 'nearmiss'] + sorted(r.sample([i for i in tpick if texts[i][0] != 'nearmiss'], tb))
        for i in tpick:
            (tag, t), out = texts[i], res[nd + ni + i]
            if HUGE_EXP.search(t):
                n_skipped += 1      # 10^(10^5...) is not computable exactly inside Coq; the direct oracle still covers these texts
                continue
            if len(t) > 200 or 'vpn' not in out or 'vpi' not in out or isinstance(out['vpn'], dict) or isinstance(out['vpi'], dict):
                continue
            vf = out['vpn']
            vi = out['vpi']
            ef = 'None' if vf is None else f'(Some {cflt(float.fromhex(vf[1]))})'
            ei = 'None' if vi is None else f'(Some {cZ(int(vi[1]))})'
            terms.append(f'option_eqb sf_eqb (value_parse_number {cstr(t)}) {ef} && option_eqb Z.eqb (value_parse_integer {cstr(t)}) {ei} && '
                         f'option_eqb sf_eqb (parse_number_with dec_to_sf {cstr(t)}) {ef}')
            what.append({'text': t, 'impl': [vf, vi]})
        for n in ints[:120]:
            terms.append(f'str_eqb (value_string_int {cZ(n)}) {cstr(str(n))} && option_eqb Z.eqb (value_parse_integer {cstr(str(n))}) (Some {cZ(n)})')
            what.append({'int': str(n)})
        # the strtod-by-value hypothesis on the model's conversion
        for _ in range(2000 if big else 300):
            m = r.randint(0, 10 ** r.randint(1, 20))
            e = r.randint(-340, 310)
            k = r.randint(0, 25)
            neg = r.random() < 0.5
            terms.append(f'sf_eqb (dec_to_sf {cbool(neg)} ({m} * 10 ^ {k})%Z ({e} - {k})%Z) (dec_to_sf {cbool(neg)} {cZ(m)} {cZ(e)})')
            what.append({'strtod_by_value': [neg, m, e, k]})
        pre = ('Local Open Scope Z_scope.\n'
               'Definition lit_whole (m : option (nat * nat)) (n : nat) : bool := match m with Some (a, b) => Nat.eqb a 0 && Nat.eqb b n | None => false end.\n'
               'Definition lit_whole_rx (m : option (option (nat * nat))) (n : nat) : bool := match m with Some x => lit_whole x n | None => false end.')
        bad, errors = core.coq_bools('c13', 'Model.Base Model.Num Model.Regex Model.NumText', terms,
                                     shard=max(50, -(-len(terms) // (2 * core.NPROC))), prelude=pre)
        corr_n = len(terms)
        for k, log in errors:
            chk.corr_fail.append({'class': 'case-file-did-not-evaluate', 'shard': k, 'log': log[-800:]})
        for b in bad[:15]:
            chk.corr_fail.append({'class': 'model-differs', 'case': what[b], 'term': terms[b][:1200]})
        if len(bad) > 15:
            chk.corr_fail.append({'class': 'model-differs', 'more': len(bad) - 15})

    chk.coverage = {
        'evaluations': len(jobs),
        'distinct_nontrivial': len({x.hex() for _, x in doubles}),
        'rule': 'doubles: hand corpus, 1e-320..1e308 with neighbours and random mantissas, integers around 2^52/2^53/2^63/2^64/1e15/1e16/1e17/1e21/1e22, '
                'random integral values, subnormals, short decimals, uniform random 64-bit patterns (nan/inf dropped); strings: near-miss list, '
                'random strings over a numeric alphabet incl. Unicode digits/spaces, mutated repr texts; non-trivial = distinct doubles',
        'exhaustive': False,
        'distribution': dist, 'doubles': nd, 'ints': ni, 'texts': len(texts),
        'roundtrips_checked': n_roundtrips, 'integral_positional': n_integral, 'exponent_form': n_exp,
        'integral_in_exponent_form': n_exp_integral, 'integral_in_exponent_form_samples': exp_integral_samples,
        'strings_that_are_numbers': n_num, 'strings_that_are_not': n_null,
        'correspondence_cases': corr_n, 'correspondence_skipped_huge_exponent': n_skipped,
        'samples': [{'x': doubles[i][1].hex(), 'impl': res[i]} for i in (0, 70, 1500, nd - 1)],
    }
    return chk.finish(TRUSTED)
