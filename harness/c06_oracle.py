"""c06_oracle.py - DIRECT ORACLE for C06 (parse_script is total, its diagnostics point at the offending source).

Nothing in this file imports bare_script.  Expected outcomes are known by construction (every generated line carries
a ROLE and the small block simulator `simulate` below decides the expected outcome from the roles, never from the text)
or come from the independent references of this file:

  logical_lines   physical lines -> logical lines (comment/blank skipping, continuation joining) from the property text
  check_message   the formatted message / caret reference (window around the column)
  lite_account    a keyword-level statement accountant for ACCEPTED texts (no line dropped, no block left open)
  fault_expect    expected (error, column) for a fault character planted in an expression of known shape

Interface: build_cases(r, tier) -> cases ; evaluate(cases, results) -> (fails, stats)
"""
import re

from . import scriptgen

STARTS = (1, 7, 1000)
LINE_MAX = 120
FAIL_CAP = 200

M_IF, M_WHILE, M_FOR = 'Missing endif statement', 'Missing endwhile statement', 'Missing endfor statement'
M_FUNC = 'Missing endfunction statement'
M_CONT = 'Unexpected end of script in line continuation'
M_MISSING = {'if': M_IF, 'while': M_WHILE, 'for': M_FOR}
M_NOMATCH = {'if': 'No matching if statement', 'while': 'No matching while statement', 'for': 'No matching for statement'}
M_ELIF_ELSE = 'Elif statement following else statement'
M_MULTI_ELSE = 'Multiple else statements'
M_BREAK = 'Break statement outside of loop'
M_CONTINUE = 'Continue statement outside of loop'
M_NESTED = 'Nested function definition'
M_NOFUNC = 'No matching function definition'
M_SYNTAX = 'Syntax error'
M_PAREN = 'Unmatched parenthesis'


# ====================================================================== reference: physical -> logical lines
def split_lines(text):
    """the line structure of one text: LF or CRLF ends a line (a lone CR does not)"""
    out = []
    for piece in text.split('\n'):
        out.append(piece)
    # a CR directly before the LF belongs to the line terminator
    return [p[:-1] if (i < len(out) - 1 and p.endswith('\r')) else p for i, p in enumerate(out)]


def payload_lines(payload):
    if 'text' in payload:
        return split_lines(payload['text'])
    out = []
    for ch in payload['chunks']:
        out += split_lines(ch)
    return out


def payload_source(payload):
    return payload['text'] if 'text' in payload else '\n'.join(payload['chunks'])


def is_comment(line):
    s = line.strip()
    return s == '' or s.startswith('#')


def logical_lines(phys):
    """-> (list of (index of first physical line, logical text), dangling) ; dangling = (index, text) or None.
    Comment and blank lines are skipped everywhere (also between the parts of a continued line); a part that ends in a
    backslash (+ optional whitespace) continues on the next non-comment line; first part: backslash removed, right-stripped;
    later parts stripped; joined by single spaces."""
    out = []
    parts = []
    first = None
    for i, ln in enumerate(phys):
        if is_comment(ln):
            continue
        t = ln.rstrip()
        cont = t.endswith('\\')
        if cont:
            t = t[:-1]
        if not parts:
            if cont:
                first = i
                parts.append(t.rstrip())
            else:
                out.append((i, ln))
        else:
            parts.append(t.strip())
            if not cont:
                out.append((first, ' '.join(parts)))
                parts = []
    dangling = (first, ' '.join(parts)) if parts else None
    return out, dangling


# ====================================================================== reference: formatted message and caret
def check_message(err):
    """err = [error, line, column, line_number, message] -> (None | (class, detail), elision branch name)"""
    error, line, col, lineno, msg = err
    if not isinstance(error, str) or not isinstance(line, str) or not isinstance(msg, str):
        return ('message-format', 'error/line/message are not strings'), None
    if not isinstance(col, int) or isinstance(col, bool) or not isinstance(lineno, int) or isinstance(lineno, bool):
        return ('message-format', f'column {col!r} / line number {lineno!r} are not integers'), None
    if not 1 <= col <= len(line) + 1:
        return ('column-out-of-range', f'column {col} outside 1..{len(line) + 1}'), None
    rows = msg.split('\n')
    if len(rows) != 4 or rows[3] != '':
        return ('message-format', f'expected 3 lines + newline, got {len(rows) - 1} rows'), None
    if rows[0] != f'{error}, line number {lineno}:':
        return ('message-format', f'first row {rows[0]!r}'), None
    shown, caret = rows[1], rows[2]
    if not caret.endswith('^') or caret[:-1].strip(' ') != '':
        return ('message-format', f'caret row {caret!r}'), None
    k = len(caret) - 1
    want = line[col - 1:col]
    if len(line) <= LINE_MAX:
        if shown != line:
            return ('caret-misplaced', 'short line is not shown verbatim'), 'short'
        if k != col - 1:
            return ('caret-misplaced', f'caret at offset {k}, column is {col}'), 'short'
        return None, 'short'
    if shown[k:k + 1] != want:
        return ('caret-misplaced', f'caret under {shown[k:k + 1]!r}, column {col} is {want!r}'), None
    # the shown text minus the elision markers must be a window of the line that contains the column
    branch = None
    for pre in ('... ', ''):
        for suf in (' ...', ''):
            if not shown.startswith(pre) or not shown.endswith(suf) or len(shown) < len(pre) + len(suf):
                continue
            core = shown[len(pre):len(shown) - len(suf)]
            off = (col - 1) - (k - len(pre))
            if k < len(pre) or off < 0 or off + len(core) > len(line) or line[off:off + len(core)] != core:
                continue
            if not off <= col - 1 <= off + len(core):
                continue
            if k - len(pre) > len(core):
                continue
            if len(core) < min(len(line), LINE_MAX // 2):
                continue
            branch = 'middle' if (pre and suf) else 'right' if pre else 'left' if suf else 'whole'
            break
        if branch:
            break
    if branch is None:
        return ('caret-misplaced', f'shown text {shown!r} is not a window of the line around column {col}'), None
    return None, branch


# ====================================================================== reference: deep statement count
def deep_count(stmts):
    n = 0
    for s in stmts:
        n += 1
        if s and s[0] == 'function':
            n += deep_count(s[5])
    return n


def include_entries(stmts):
    n = 0
    for s in stmts:
        if s and s[0] == 'include':
            n += len(s[1])
        elif s and s[0] == 'function':
            n += include_entries(s[5])
    return n


# ====================================================================== reference: block simulator over ROLES
# role: ('plain',) ('include',) ('open', kind) ('close', kind) ('elif',) ('else',) ('func',) ('endfunc',)
#       ('break',) ('continue',) ('xfault', where, error, column)    where in plain/if/while/for/elif
def simulate(roles):
    """-> ('ok', deep statement count) | ('err', message, index of the role's line, column[, 'end' if only detected at the
    end of the input])"""
    stack = []            # [kind, index, has_else, has_continue]
    func = None           # (index, stack depth at the header)
    count = 0
    last_include = {}     # statement-list id -> bool: is the last statement of the list an include statement
    lst = 0               # current statement list id (0 = script, else function index + 1)
    for i, role in enumerate(roles):
        k = role[0]
        base = func[1] if func else 0
        top = stack[-1] if len(stack) > base else None
        inc = False
        if k == 'plain':
            count += 1
        elif k == 'include':
            if not last_include.get(lst):
                count += 1
            inc = True
        elif k == 'xfault':
            where = role[1]
            if where == 'elif':
                if top is None or top[0] != 'if':
                    return ('err', M_NOMATCH['if'], i, 1)
                if top[2]:
                    return ('err', M_ELIF_ELSE, i, 1)
            return ('err', role[2], i, role[3])
        elif k == 'func':
            if func:
                return ('err', M_NESTED, i, 1)
            count += 1
            func = (i, len(stack))
            lst = i + 1
            last_include[lst] = False
            last_include[0] = False
            continue
        elif k == 'endfunc':
            if not func:
                return ('err', M_NOFUNC, i, 1)
            if len(stack) > func[1]:
                t = stack[-1]
                return ('err', M_MISSING[t[0]], t[1], 1)
            func = None
            lst = 0
            continue
        elif k == 'open':
            stack.append([role[1], i, False, False])
            count += {'if': 1, 'while': 2, 'for': 6}[role[1]]
        elif k == 'elif':
            if top is None or top[0] != 'if':
                return ('err', M_NOMATCH['if'], i, 1)
            if top[2]:
                return ('err', M_ELIF_ELSE, i, 1)
            count += 3
        elif k == 'else':
            if top is None or top[0] != 'if':
                return ('err', M_NOMATCH['if'], i, 1)
            if top[2]:
                return ('err', M_MULTI_ELSE, i, 1)
            top[2] = True
            count += 2
        elif k == 'close':
            kind = role[1]
            if top is None:
                return ('err', M_NOMATCH[kind], i, 1)
            stack.pop()               # the definition is popped before its kind is looked at
            if top[0] != kind:
                return ('err', M_NOMATCH[kind], i, 1)
            count += {'if': 1, 'while': 2, 'for': 3 + (1 if top[3] else 0)}[kind]
        elif k in ('break', 'continue'):
            loop = None
            for j in range(len(stack) - 1, -1, -1):
                if stack[j][0] != 'if':
                    loop = j
                    break
            if loop is None or loop < base:
                return ('err', M_BREAK if k == 'break' else M_CONTINUE, i, 1)
            if k == 'continue':
                stack[loop][3] = True
            count += 1
        else:
            raise ValueError(role)
        last_include[lst] = inc
    if stack:
        t = stack[-1]
        return ('err', M_MISSING[t[0]], t[1], 1, 'end')
    if func:
        return ('err', M_FUNC, func[0], 1, 'end')
    return ('ok', count)


# ====================================================================== reference: keyword-level accountant (accepted texts)
_R_ASSIGN = re.compile(r'[A-Za-z_]\w*\s*=')
_R_WORD = re.compile(r'\w+')
_R_LABEL = re.compile(r'[A-Za-z_]\w*\s*:')


def classify(text):
    """role of an ACCEPTED logical line, from its first word only"""
    s = text.strip()
    if _R_ASSIGN.match(s):
        return ('plain',)
    m = _R_WORD.match(s)
    w = m.group(0) if m else ''
    rest = s[len(w):]
    sp = rest[:1].isspace()
    colon = s.endswith(':')
    if _R_LABEL.fullmatch(s) and w != 'else':
        return ('plain',)                      # `name :` is a label definition whatever the name (only `else:` is not)
    if w in ('function', 'async') and sp and colon:
        return ('func',)
    if s == 'endfunction':
        return ('endfunc',)
    if w in ('if', 'while', 'for') and sp and colon:
        return ('open', w)
    if w == 'elif' and sp and colon:
        return ('elif',)
    if w == 'else' and rest.strip() == ':':
        return ('else',)
    if s in ('endif', 'endwhile', 'endfor'):
        return ('close', s[3:])
    if s in ('break', 'continue'):
        return (s,)
    if w == 'include' and sp and rest.strip()[:1] in ("'", '<'):
        return ('include',)
    return ('plain',)


def lite_account(phys):
    """for a text that the parser ACCEPTED: ('ok', expected deep count) or ('err', ...) if by the keyword-level reading
    the text leaves a block open / has an unmatched closer (then acceptance was wrong)"""
    logical, dangling = logical_lines(phys)
    if dangling is not None:
        return ('err', M_CONT, dangling[0], 1), len(logical)
    return simulate([classify(t) for _, t in logical]), len(logical)


# ====================================================================== fault lines: an expression of known shape + one bad character
ID1 = 'abcdxyzq'                 # no keyword can be spelled with these letters
IDN = 'abcdxyzq_0123456789'
OPS1 = ['+', '-', '*', '/', '%', '<', '>', '**']      # every operator whose first character alone is an operator too
OPCH = set('+-*/%<>')
FNAMES = ['ab', 'xy', 'q2', 'abc']
WS_IN = ['', '', ' ', ' ', '  ', '\t', ' \t']
FAULTS = '@$~'


def _ident(r, n):
    return r.choice(ID1) + ''.join(r.choice(IDN) for _ in range(n - 1))


def _emit(out, ctx, text, c):
    for ch in text:
        out.append(ch)
        ctx.append(c)


def gen_expr(r, n, spaced, depth, out, ctx, cur):
    """append exactly n >= 1 characters of a VALID expression: operand (operator operand)*.
    ctx[i] = (kind, start index of the innermost enclosing group/call) for plantable characters, None for the others"""
    end = len(out) + n
    while True:
        rem = end - len(out)
        if spaced:
            sep = r.choice(WS_IN) + r.choice(OPS1) + r.choice(WS_IN)
        else:
            sep = r.choice(OPS1)
        if rem < len(sep) + 2:
            _operand(r, rem, spaced, depth, out, ctx, cur, last=True)
            return
        m = r.randint(1, min(rem - len(sep) - 1, r.choice([3, 6, 12, 30])))
        _operand(r, m, spaced, depth, out, ctx, cur, last=False)
        for ch in sep:
            out.append(ch)
            ctx.append(cur if ch in OPCH else None)


def _operand(r, m, spaced, depth, out, ctx, cur, last):
    c = r.random()
    pad = (lambda: r.choice(['', '', ' ', '  '])) if spaced else (lambda: '')
    if depth > 0 and m >= 3 and c < 0.22:
        a, b = pad(), pad()
        if len(a) + len(b) > m - 3:
            a = b = ''
        start = len(out)
        _emit(out, ctx, '(' + a, None)
        gen_expr(r, m - 2 - len(a) - len(b), spaced, depth - 1, out, ctx, ('group', start))
        _emit(out, ctx, b + ')', None)
        return
    if depth > 0 and m >= 5 and c < 0.40:
        name = r.choice([f for f in FNAMES if len(f) <= m - 3])
        inner = m - len(name) - 2
        _emit(out, ctx, name, cur)
        start = len(out)
        _emit(out, ctx, '(', None)
        if inner >= 3 and r.random() < 0.6:
            x = r.randint(1, inner - 2)
            gen_expr(r, x, spaced, depth - 1, out, ctx, ('call', start))
            _emit(out, ctx, ',', None)
            y = inner - x - 1
            a = pad()
            if len(a) >= y:
                a = ''
            _emit(out, ctx, a, None)
            gen_expr(r, y - len(a), spaced, depth - 1, out, ctx, ('call', start))
        else:
            gen_expr(r, inner, spaced, depth - 1, out, ctx, ('call', start))
        _emit(out, ctx, ')', None)
        return
    if c < 0.55 and m <= 4:
        _emit(out, ctx, ''.join(r.choice('0123456789') for _ in range(m)), cur)
        return
    _emit(out, ctx, _ident(r, m), cur)


def deep_paren_expr(r, n, depth):
    """'((((' ... '))))' with filler inside; returns out, ctx"""
    out, ctx = [], []
    depth = max(0, min(depth, (n - 1) // 2))
    starts = []
    for _ in range(depth):
        starts.append(len(out))
        _emit(out, ctx, '(', None)
    gen_expr(r, n - 2 * depth, False, 0, out, ctx, ('group', starts[-1]) if starts else ('top', 0))
    _emit(out, ctx, ')' * depth, None)
    return out, ctx


def fault_expect(chars, ctx, p, gstart):
    """chars: the characters of the LINE; the expression group starts at gstart; chars[p] was replaced by a fault character.
    -> (error, 1-based column).  Rule (from the property: the column is where the unparsed remainder starts, and the
    remainder includes the whitespace in front of the token that could not be consumed)."""
    def ws_back(i):
        j = i
        while j > gstart and chars[j - 1].isspace():
            j -= 1
        return j
    q = ws_back(p)
    prev = chars[q - 1] if q > gstart else None
    kind, start = ctx[p]
    if prev is None or prev in OPCH or prev in '(,' or kind != 'group':
        return M_SYNTAX, q + 1
    return M_PAREN, ws_back(start) + 1


KINDS = ['assign', 'jumpif', 'return', 'expr', 'if', 'elif', 'while', 'for']
LEADS = ['', '', '', ' ', '  ', '    ', '\t', ' \t ']
TRAILS = ['', '', ' ', '  ', '   ', '\t', ' \t', '            ']


def _ws1(r):
    return r.choice([' ', ' ', '  ', '\t', ' \t'])


def _ws0(r):
    return r.choice(['', ' ', ' ', '  ', '\t'])


def kind_frame(r, kind, lead, trail):
    """-> (prefix, suffix, group_start_offset_in_prefix) ; the expression sits between prefix and suffix"""
    if kind == 'assign':
        pre = lead + _ident(r, r.randint(1, 4)) + _ws0(r) + '=' + _ws0(r)
        return pre, trail, len(pre)
    if kind == 'jumpif':
        pre = lead + 'jumpif' + _ws0(r) + '('
        gstart = len(pre)
        pre += r.choice(['', '', ' ', '  ', '\t'])          # whitespace inside the parentheses belongs to the expression
        return pre, r.choice(['', '', ' ']) + ')' + _ws1(r) + 'lbl' + str(r.randint(0, 9)) + trail, gstart
    if kind == 'return':
        pre = lead + 'return' + _ws1(r)
        return pre, trail, len(pre)
    if kind == 'expr':
        return lead, trail, 0
    if kind in ('if', 'elif', 'while'):
        pre = lead + kind + _ws1(r)
        return pre, _ws0(r) + ':' + trail, len(pre)
    if kind == 'for':
        pre = lead + 'for' + _ws1(r) + 'v' + (_ws0(r) + ',' + _ws0(r) + 'i' if r.random() < 0.4 else '') + _ws1(r) + 'in' + _ws1(r)
        return pre, _ws0(r) + ':' + trail, len(pre)
    raise ValueError(kind)


def fault_line(r, kind, length, col_spec, style, lead=None, trail=None):
    """a line of (about) the requested total length for statement kind `kind` with one fault character.
    col_spec: ('line', c) fault as close as possible to 1-based column c of the line | ('frac', f) | ('rand',)
    style: 'flat' | 'spaced' | 'nested' | 'nested-spaced' | 'deep'
    -> dict(text, error, column, fault_col) or None if no plantable position"""
    lead = r.choice(LEADS) if lead is None else lead
    trail = r.choice(TRAILS) if trail is None else trail
    pre, suf, gstart = kind_frame(r, kind, lead, trail)
    n = length - len(pre) - len(suf)
    if n < 1:
        pre, suf, gstart = kind_frame(r, kind, '', '' if n < -2 else trail)
        n = max(1, length - len(pre) - len(suf))
    if style == 'deep':
        out, ctx = deep_paren_expr(r, n, r.randint(1, 50))
    else:
        out, ctx = [], []
        gen_expr(r, n, 'spaced' in style, 3 if 'nested' in style else 0, out, ctx, ('top', 0))
    assert len(out) == n == len(ctx)
    plant = [i for i, c in enumerate(ctx) if c is not None]
    if not plant:
        return None
    if col_spec[0] == 'line':
        want = col_spec[1] - 1 - len(pre)
        p = min(plant, key=lambda i: (abs(i - want), i))
    elif col_spec[0] == 'frac':
        want = int(col_spec[1] * (n - 1))
        p = min(plant, key=lambda i: (abs(i - want), i))
    else:
        p = r.choice(plant)
    out[p] = r.choice(FAULTS)
    chars = list(pre) + out + list(suf)
    off = len(pre)
    lctx = [None] * off + [(c[0], c[1] + off) if c else None for c in ctx] + [None] * len(suf)
    error, column = fault_expect(chars, lctx, p + off, gstart)
    return {'text': ''.join(chars), 'error': error, 'column': column, 'fault_col': p + off + 1, 'kind': kind}


# ====================================================================== programs as lists of [text, role]
def emit(stmts, indent=0, ind='    '):
    out = []
    p = ind * indent
    for s in stmts:
        k = s[0]
        if k == 'assign':
            out.append([f'{p}{s[1]} = {s[2]}', ('plain',)])
        elif k == 'expr':
            # NOTE: an expression statement that starts with `name ==` is read as an assignment whose expression starts
            # with `=` (a syntax error of the language); such statements are parenthesised here
            e = f'({s[1]})' if _R_ASSIGN.match(s[1]) else s[1]
            out.append([f'{p}{e}', ('plain',)])
        elif k == 'return':
            out.append([f'{p}return' + (f' {s[1]}' if s[1] is not None else ''), ('plain',)])
        elif k in ('break', 'continue'):
            out.append([f'{p}{k}', (k,)])
        elif k == 'if':
            for i, (cond, body) in enumerate(s[1]):
                out.append([f'{p}{"if" if i == 0 else "elif"} {cond}:', ('open', 'if') if i == 0 else ('elif',)])
                out += emit(body, indent + 1, ind)
            if s[2] is not None:
                out.append([f'{p}else:', ('else',)])
                out += emit(s[2], indent + 1, ind)
            out.append([f'{p}endif', ('close', 'if')])
        elif k == 'while':
            out.append([f'{p}while {s[1]}:', ('open', 'while')])
            out += emit(s[2], indent + 1, ind)
            out.append([f'{p}endwhile', ('close', 'while')])
        elif k == 'for':
            out.append([f'{p}for {s[1]}' + (f', {s[2]}' if s[2] else '') + f' in {s[3]}:', ('open', 'for')])
            out += emit(s[4], indent + 1, ind)
            out.append([f'{p}endfor', ('close', 'for')])
        elif k == 'function':
            args = ', '.join(s[2]) + ('...' if s[3] else '')
            out.append([f'{p}function {s[1]}({args}):', ('func',)])
            out += emit(s[4], indent + 1, ind)
            out.append([f'{p}endfunction', ('endfunc',)])
        else:
            raise ValueError(k)
    return out


def extra_line(r, n):
    """a simple valid line that is not produced by scriptgen"""
    c = r.randrange(7)
    if c == 0:
        return [f'lab{n}:', ('plain',)]
    if c == 1:
        return [f'jump lab{n}', ('plain',)]
    if c == 2:
        return [f'jumpif (va < {n}) lab{n}', ('plain',)]
    if c == 3:
        return [f"include 'lib{n}.bare'", ('include',)]
    if c == 4:
        return [f'include <sys{n}.bare>', ('include',)]
    if c == 5:
        return ['return', ('plain',)]
    return [f"zq{n} = [x y{n}] + \"s\\\"{n}\" + 'q\\'' + 3.", ('plain',)]


def base_entries(r, big=True):
    """a valid program as entries"""
    c = r.random()
    if c < 0.55:
        md, nf = (r.choice([1, 2, 2, 2, 3]), r.choice([0, 1, 1, 2])) if big else (r.choice([1, 1, 2]), r.choice([0, 0, 1]))
        if big and r.random() < 0.03:
            md, nf = 4, None
        prog = scriptgen.gen_program(r, max_depth=md, nfuncs=nf, allow_while_continue=r.random() < 0.5)
        ents = emit(prog, 0, r.choice(['    ', '  ', '\t', '']))
    elif c < 0.85:
        d = r.randint(1, 4)
        chain = [r.choice(scriptgen.CONSTRUCTS) for _ in range(d)]
        flags = [r.choice(scriptgen.LOOPFLAGS) for _ in range(d)]
        body = scriptgen.build_shape(chain, flags)
        if r.random() < 0.4:
            body = [['function', 'fsh', ['a', 'b'], r.random() < 0.3, body], ['expr', 'fsh(1, 2)']]
        ents = emit(body, 0, r.choice(['    ', ' ']))
    else:
        ents = emit([['assign', 'va', '1'], ['expr', "systemLog('x')"]])
    # a few extra simple lines (labels, jumps, includes) at random places; include runs exercise the merging rule
    for _ in range(r.choice([0, 0, 1, 2, 4])):
        i = r.randint(0, len(ents))
        e = extra_line(r, r.randint(0, 99))
        ents.insert(i, e)
        if e[1] == ('include',) and r.random() < 0.6:
            # (a run of include lines may name the SAME file twice: it is then included twice)
            ents.insert(i, extra_line_include(r) if r.random() < 0.6 else list(e))
            if r.random() < 0.3:
                ents.insert(i, list(e))
    return ents


def extra_line_include(r):
    n = r.randint(0, 99)
    return [r.choice([f"include 'm{n}.bare'", f'  include <n{n}.bare>  ']), ('include',)]


def nested_entries(r, depth, in_func=False):
    kinds = [r.choice(['if', 'while', 'for']) for _ in range(depth)]
    ents = []
    if in_func:
        ents.append(['function deep(a):', ('func',)])
    for d, k in enumerate(kinds):
        p = ' ' * d
        hdr = {'if': f'if a{d} > {d}:', 'while': f'while a{d}:', 'for': f'for v{d} in arr{d}:'}[k]
        ents.append([p + hdr, ('open', k)])
        if r.random() < 0.4:
            ents.append([p + f' x{d} = {d}', ('plain',)])
    ents.append([' ' * depth + 'leaf()', ('plain',)])
    if r.random() < 0.5 and any(k != 'if' for k in kinds):
        ents.append([' ' * depth + r.choice(['break', 'continue']), None])
        ents[-1][1] = (ents[-1][0].strip(),)
    for d in range(depth - 1, -1, -1):
        k = kinds[d]
        p = ' ' * d
        if k == 'if' and r.random() < 0.3:
            ents.append([p + 'else:', ('else',)])
            ents.append([p + f' y{d} = 0', ('plain',)])
        ents.append([p + 'end' + k, ('close', k)])
    if in_func:
        ents.append(['endfunction', ('endfunc',)])
    return ents


STRAYS = [['endif', ('close', 'if')], ['endwhile', ('close', 'while')], ['endfor', ('close', 'for')],
          ['endfunction', ('endfunc',)], ['else:', ('else',)], ['elif vb > 1:', ('elif',)], ['break', ('break',)],
          ['continue', ('continue',)], ['function gg(x, y...):', ('func',)], ['async function hh():', ('func',)],
          ['if vc:', ('open', 'if')], ['while vc:', ('open', 'while')], ['for q, qi in vc:', ('open', 'for')]]


def mutate_entries(r, ents):
    """one structural mutation; -> (entries, name)"""
    ents = [list(e) for e in ents]
    c = r.random()
    idx = lambda pred: [i for i, e in enumerate(ents) if pred(e[1])]          # noqa: E731
    if c < 0.28:
        cand = idx(lambda ro: ro[0] in ('close', 'endfunc'))
        if cand:
            del ents[r.choice(cand)]
            return ents, 'del-closer'
    if c < 0.40:
        cand = idx(lambda ro: ro[0] in ('open', 'func'))
        if cand:
            del ents[r.choice(cand)]
            return ents, 'del-opener'
    if c < 0.48:
        cand = idx(lambda ro: ro[0] in ('elif', 'else', 'break', 'continue'))
        if cand:
            del ents[r.choice(cand)]
            return ents, 'del-middle'
    if c < 0.70:
        e = r.choice(STRAYS)
        ents.insert(r.randint(0, len(ents)), [r.choice(['', '  ', '\t']) + e[0], e[1]])
        return ents, 'stray'
    if c < 0.78:
        cand = idx(lambda ro: ro[0] in ('else', 'elif'))
        if cand:
            i = r.choice(cand)
            ents.insert(r.randint(i, len(ents)), list(ents[i]))
            return ents, 'dup-else'
    if c < 0.90 and len(ents) >= 2:
        cut = r.randint(1, len(ents) - 1)
        return ents[:cut], 'truncate'
    if len(ents) >= 2:
        i = r.randrange(len(ents) - 1)
        ents[i], ents[i + 1] = ents[i + 1], ents[i]
        return ents, 'swap'
    return ents, 'none'


# ====================================================================== physical rendering (continuations, noise)
NOISE = ['', ' ', '\t', '# note', '   # indented note', '#', '# trailing backslash in a comment \\', '    ']
CONT_BEFORE = ['', ' ', ' ', '  ', '\t']
CONT_AFTER = ['', '', ' ', '  ', '\t', ' \t ']


def split_points(text):
    return [i for i in range(1, len(text) - 1)
            if text[i] == ' ' and not text[i - 1].isspace() and not text[i + 1].isspace() and text[i + 1] != '#'
            and text[i - 1] != '\\']


def split_cont(r, text, p_noise, nmax=3):
    """physical lines of a continued logical line whose joined text is exactly `text`"""
    pts = split_points(text)
    if not pts or text != text.rstrip() or is_comment(text):
        return None
    pts = sorted(r.sample(pts, min(len(pts), r.randint(1, nmax))))
    segs = []
    a = 0
    for p in pts:
        segs.append(text[a:p])
        a = p + 1
    segs.append(text[a:])
    phys = []
    for j, s in enumerate(segs):
        if j:
            s = r.choice(['', '', '  ', '\t', '        ']) + s
            if r.random() < p_noise:
                phys.append(r.choice(NOISE))
        if j < len(segs) - 1:
            s = s + r.choice(CONT_BEFORE) + '\\' + r.choice(CONT_AFTER)
        else:
            s = s + r.choice(['', '', ' ', '\t '])
        phys.append(s)
    return phys


def render(r, ents, p_split=0.0, p_noise=0.0, p_trail=0.0, dangling=False, force_split=()):
    """-> phys lines, first physical index per entry, logical text per entry"""
    phys, first, texts = [], [], []
    for j, (text, role) in enumerate(ents):
        while r.random() < p_noise:
            phys.append(r.choice(NOISE))
        parts = None
        if (j in force_split or r.random() < p_split) and text == text.rstrip():
            parts = split_cont(r, text, p_noise, 6 if j in force_split and r.random() < 0.3 else 3)
        if parts is None:
            # NOTE: a bare `return` followed by two or more whitespace characters is a syntax error of the language
            # (the return pattern captures the second one as the expression); such lines are not decorated
            if role[0] != 'xfault' and text.strip() != 'return' and r.random() < p_trail:
                text = text + r.choice(TRAILS)
            if role[0] != 'xfault' and r.random() < p_trail / 2:
                text = r.choice(['  ', '\t']) + text
            parts = [text]
        first.append(len(phys))
        texts.append(text)
        phys += parts
    if dangling:
        # the last entry becomes a dangling continuation: every one of its parts ends in a backslash
        j = len(ents) - 1
        n = len(phys) - first[j]
        last = phys[-1]
        phys[-1] = last.rstrip() + r.choice(CONT_BEFORE) + '\\' + r.choice(CONT_AFTER) if n > 1 else last + '\\' + r.choice(CONT_AFTER)
        for _ in range(r.choice([0, 0, 1, 3])):
            phys.append(r.choice(NOISE))
    return phys, first, texts


def make_payload(r, phys, start, eol=None, final_eol=None):
    eol = eol or r.choice(['\n', '\n', '\n', '\r\n'])
    c = r.random()
    if c < 0.55:
        text = eol.join(phys)
        if (r.random() < 0.6) if final_eol is None else final_eol:
            text += eol
        return {'text': text, 'start': start}
    # chunks: consecutive lines grouped; a chunk boundary is a line boundary
    chunks = []
    cur = []
    for ln in phys:
        cur.append(ln)
        if r.random() < 0.4:
            chunks.append(eol.join(cur))
            cur = []
    if cur:
        chunks.append(eol.join(cur))
    return {'chunks': chunks, 'start': start}


# ====================================================================== case construction
def _case(cases, tag, payload, exp=None, **extra):
    c = {'payload': payload, 'tag': tag, 'exp': exp}
    c.update(extra)
    cases.append(c)
    return c


def add_program(cases, r, tag, ents, start=None, p_split=0.0, p_noise=0.0, p_trail=0.0, dangling=False, force_split=(), **extra):
    """render entries, derive the expected outcome from the roles and add the case"""
    start = r.choice(STARTS) if start is None else start
    phys, first, texts = render(r, ents, p_split, p_noise, p_trail, dangling, force_split)
    roles = [e[1] for e in ents]
    sim = simulate(roles[:-1] if dangling else roles)
    if dangling and (sim[0] == 'ok' or len(sim) == 5):         # the dangling continuation is diagnosed before open blocks
        exp = ('err', M_CONT, first[-1], texts[-1].rstrip(), 1)
    elif sim[0] == 'ok':
        exp = ('ok', sim[1])
    else:
        exp = ('err', sim[1], first[sim[2]], texts[sim[2]], sim[3])
    payload = make_payload(r, phys, start)
    # self-check of the generator against the line reference (a failure here is a bug of THIS file)
    if payload_lines(payload)[:len(phys)] != phys:
        raise AssertionError(('payload lines differ', phys, payload))
    logical, dang = logical_lines(phys)
    want = list(zip(first, texts))
    if dangling:
        if dang is None or dang != (first[-1], texts[-1].rstrip()) or logical != want[:-1]:
            raise AssertionError(('dangling reference differs', phys, dang, want[-1]))
    elif logical != want or dang is not None:
        raise AssertionError(('logical reference differs', phys, logical, want))
    return _case(cases, tag, payload, exp, nlog=len(ents), **extra)


def fault_entry(fl):
    return [fl['text'], ('xfault', 'elif' if fl['kind'] == 'elif' else fl['kind'], fl['error'], fl['column'])]


def wrap_fault(r, fl, which=None):
    """a small valid surrounding program around a fault line; -> (entries, index of the fault entry)"""
    fe = fault_entry(fl)
    which = r.randrange(6) if which is None else which
    pre, post = [], []
    if which == 1:
        pre = [['va = 1', ('plain',)]]
        post = [['vb = 2', ('plain',)]]
    elif which == 2:
        pre = [['function f(a):', ('func',)], ['  if a:', ('open', 'if')]]
    elif which == 3:
        pre = [['while a:', ('open', 'while')], [' for x in y:', ('open', 'for')]]
        post = [[' endfor', ('close', 'for')], ['endwhile', ('close', 'while')]]
    elif which == 4:
        pre = [['# leading comment', None], ['', None], ["include 'a.bare'", ('include',)]]
        pre = [e for e in pre if e[1] is not None]
        post = [['return', ('plain',)]]
    elif which == 5:
        pre = [['async function g(a, b...):', ('func',)], ['    vz = a', ('plain',)]]
        post = [['endfunction', ('endfunc',)], ['g(1)', ('plain',)]]
    if fl['kind'] == 'elif':
        pre = pre + [['if c0:', ('open', 'if')], ['  vq = 0', ('plain',)]]
        if r.random() < 0.3:
            pre += [['elif c1:', ('elif',)], ['  vq = 1', ('plain',)]]
    return pre + [fe] + post, len(pre)


def quick_lengths():
    return (list(range(0, 14)) + [25, 40, 59, 60, 61, 62, 100, 117, 118, 119, 120, 121, 122, 123, 124, 125, 130, 150,
                                  179, 180, 181, 182, 200, 238, 239, 240, 241, 242, 243, 300, 399, 400])


def columns_for(r, length, dense):
    if length <= 62 or dense:
        return list(range(1, length + 1))
    s = {1, 2, 3, length}
    s.update(range(57, 66))
    s.update(range(117, 126))
    s.update(range(length - 63, length - 56))
    s.update(range(length - 4, length + 1))
    s.update(r.randint(1, length) for _ in range(5))
    return sorted(c for c in s if 1 <= c <= length)


STYLES = ['flat', 'flat', 'spaced', 'spaced', 'nested', 'nested-spaced', 'deep']


def gen_columns(cases, r, tier):
    """fault at (almost) every column of lines of many lengths, every statement kind"""
    if tier == 'quick':
        plan = [(n, False, 3) for n in quick_lengths()] + [(n, True, 1) for n in (119, 120, 121, 122, 123, 180, 241, 400)]
    else:
        plan = [(n, True, 3) for n in range(0, 131)] + [(n, True, 1) for n in range(131, 401, 9)] + \
               [(n, True, 2) for n in (180, 181, 239, 240, 241, 242, 399, 400)] + [(n, False, 4) for n in range(131, 401)]
    k = r.randrange(100)
    for length, dense, reps in plan:
        if length == 0:
            for st in STARTS:
                _case(cases, 'column', {'text': r.choice(['', '\n']), 'start': st}, ('ok', 0), length=0)
            continue
        for col in columns_for(r, length, dense):
            for _ in range(reps):
                k += 1
                kind = KINDS[k % len(KINDS)]
                style = STYLES[(k // len(KINDS) + k) % len(STYLES)]
                fl = fault_line(r, kind, length, ('line', col), style)
                if fl is None:
                    continue
                if length > 150 and r.random() < 0.7:
                    ents, _ = wrap_fault(r, fl, 0)
                else:
                    ents, _ = wrap_fault(r, fl)
                add_program(cases, r, 'column', ents, p_noise=0.1, length=len(fl['text']), kind=kind, fault_col=fl['fault_col'])


def gen_fault_continued(cases, r, n):
    """the faulty logical line is built from continuation parts: line text = joined text, column refers to it"""
    for i in range(n):
        kind = KINDS[i % len(KINDS)]
        length = r.choice([8, 15, 30, 60, 100, 119, 120, 121, 125, 150, 200, 241, 300, 400]) + r.randint(0, 3)
        style = r.choice(['spaced', 'spaced', 'nested-spaced', 'flat'])
        fl = fault_line(r, kind, length, ('rand',), style, trail='')
        if fl is None:
            continue
        ents, at = wrap_fault(r, fl)
        add_program(cases, r, 'fault-continued', ents, p_noise=0.3, p_split=0.1, force_split=(at,),
                    length=len(fl['text']), kind=kind, fault_col=fl['fault_col'])


def gen_fault_in_program(cases, r, n):
    for i in range(n):
        ents = base_entries(r)
        kind = KINDS[i % len(KINDS)]
        if kind == 'elif':
            cand = [j + 1 for j, e in enumerate(ents) if e[1] in (('open', 'if'), ('elif',))]
            if not cand:
                kind = 'assign'
        length = r.choice([5, 10, 20, 40, 80, 119, 121, 160, 250]) + r.randint(0, 9)
        fl = fault_line(r, kind, length, ('rand',), r.choice(STYLES), trail=r.choice(['', None]))
        if fl is None:
            continue
        at = r.choice(cand) if kind == 'elif' else r.randint(0, len(ents))
        ents.insert(at, fault_entry(fl))
        add_program(cases, r, 'fault-in-program', ents, p_split=0.15, p_noise=0.1, p_trail=0.2,
                    force_split=(at,) if r.random() < 0.3 else (), kind=kind, length=len(fl['text']))


HEADERS = {'if': ['if va > 1 && vb:', 'if (va + 1) * 2 == vb || vc:'],
           'while': ['while va < 10 && vb:', 'while fnx(va, 1) != null:'],
           'for': ['for item in arrayNew(1, 2, 3):', 'for item, ix in vlist:'],
           'func': ['function ff(a, b, c):', 'async function ff(a, b...):', 'function ff():']}


def gen_open_blocks(cases, r, reps):
    """a block left open at the end of input: every kind x context x header form (one line / continued) x start"""
    for _ in range(reps):
        for kind in ('if', 'while', 'for', 'func'):
            for ctx in ('top', 'in-func-open', 'in-func-closed', 'nested'):
                if kind == 'func' and ctx != 'top':
                    continue
                for form in ('single', 'continued', 'continued-noise'):
                    for start in STARTS:
                        hdr = r.choice(HEADERS[kind])
                        role = ('func',) if kind == 'func' else ('open', kind)
                        pre = [[f'v{j} = {j}', ('plain',)] for j in range(r.randint(0, 3))]
                        body = [['  vv = 1', ('plain',)], ['  fnx(vv)', ('plain',)]][:r.randint(0, 2)]
                        if kind != 'func' and r.random() < 0.3:
                            body += [['  if vq:', ('open', 'if')], ['  endif', ('close', 'if')]]
                        post = []
                        if ctx == 'in-func-open':
                            pre.append(['function outer(p):', ('func',)])
                        elif ctx == 'in-func-closed':
                            pre.append(['function outer(p):', ('func',)])
                            post = [['endfunction', ('endfunc',)], ['outer(1)', ('plain',)]][:r.randint(1, 2)]
                        elif ctx == 'nested':
                            k2 = r.choice(['if', 'while', 'for'])
                            pre.append([r.choice(HEADERS[k2]), ('open', k2)])
                        ents = pre + [[r.choice(['', '', '  ']) + hdr, role]] + body + post
                        at = len(pre)
                        add_program(cases, r, 'open-block', ents, start=start, p_trail=0.3,
                                    p_noise=0.5 if form == 'continued-noise' else 0.0,
                                    force_split=(at,) if form != 'single' else (), kind=kind, form=form)


def gen_dangling(cases, r, n):
    for i in range(n):
        if i % 3 == 0:
            ents = base_entries(r, big=False)
        else:
            ents = [[f'v{j} = {j}', ('plain',)] for j in range(r.randint(0, 3))]
            ents.append([r.choice(['vx = 1 +', 'fnx(1,', 'if va:', 'while va:', 'return', 'vx = 1', '  vy = fnx(2)  ', 'endif', "include 'x'"]),
                         ('plain',)])
        add_program(cases, r, 'dangling', ents, p_split=0.1 if i % 2 else 0.0, p_noise=0.2, dangling=True,
                    force_split=(len(ents) - 1,) if r.random() < 0.3 else ())


WHOLE = [
    [['elif va:', ('elif',)]], [['else:', ('else',)]], [['endif', ('close', 'if')]],
    [['function f():', ('func',)], ['endif', ('close', 'if')]],
    [['if va:', ('open', 'if')], ['function f():', ('func',)], ['else:', ('else',)]],
    [['if va:', ('open', 'if')], ['function f():', ('func',)], ['elif vb:', ('elif',)]],
    [['if va:', ('open', 'if')], ['else:', ('else',)], ['elif vb:', ('elif',)]],
    [['if va:', ('open', 'if')], ['else:', ('else',)], ['else:', ('else',)]],
    [['if va:', ('open', 'if')], ['elif vb:', ('elif',)], ['else:', ('else',)], ['  vc = 1', ('plain',)], ['else :', ('else',)]],
    [['endwhile', ('close', 'while')]], [['endfor', ('close', 'for')]],
    [['while va:', ('open', 'while')], ['endfor', ('close', 'for')]],
    [['for x in va:', ('open', 'for')], ['endwhile', ('close', 'while')]],
    [['if va:', ('open', 'if')], ['endwhile', ('close', 'while')]],
    [['while va:', ('open', 'while')], ['endif', ('close', 'if')]],
    [['while va:', ('open', 'while')], ['else:', ('else',)]],
    [['break', ('break',)]], [['continue', ('continue',)]],
    [['if va:', ('open', 'if')], ['break', ('break',)]],
    [['if va:', ('open', 'if')], ['continue', ('continue',)]],
    [['while va:', ('open', 'while')], ['function f():', ('func',)], ['break', ('break',)]],
    [['for x in va:', ('open', 'for')], ['function f():', ('func',)], ['if x:', ('open', 'if')], ['continue', ('continue',)]],
    [['while va:', ('open', 'while')], ['function f():', ('func',)], ['endwhile', ('close', 'while')]],
    [['function f():', ('func',)], ['function g():', ('func',)]],
    [['function f():', ('func',)], ['vb = 1', ('plain',)], ['async function g(a):', ('func',)]],
    [['endfunction', ('endfunc',)]],
    [['function f():', ('func',)], ['endfunction', ('endfunc',)], ['endfunction', ('endfunc',)]],
    [['function f():', ('func',)], ['while va:', ('open', 'while')], ['endfunction', ('endfunc',)]],
    [['function f():', ('func',)], ['for x in y:', ('open', 'for')], ['if x:', ('open', 'if')], ['endfunction', ('endfunc',)]],
]


def gen_whole_line(cases, r, reps):
    for _ in range(reps):
        for tpl in WHOLE:
            for start in STARTS:
                pre = [[f'v{j} = {j}', ('plain',)] for j in range(r.randint(0, 2))]
                post = [['vz = 0', ('plain',)]][:r.randint(0, 1)]
                ents = pre + [[r.choice(['', ' ', '\t']) + t, ro] for t, ro in tpl] + post
                add_program(cases, r, 'whole-line', ents, start=start, p_trail=0.5, p_noise=0.2, p_split=0.1)


# a faulty header expression whose TEXT also occurs earlier in the same line (the keyword's last letter, the loop variable ...): the
# column must be the position of the offending character in the line, not the position of the first look-alike
REPEATED = [          # (the reported column is that of the first character the expression parser could not consume: the blank after the operand)
    [['while e e:', ('xfault', 'while', M_SYNTAX, 8)]],
    [['while le le:', ('xfault', 'while', M_SYNTAX, 9)]],
    [['if f f:', ('xfault', 'if', M_SYNTAX, 5)]],
    [['if f f f:', ('xfault', 'if', M_SYNTAX, 5)]],
    [['if va:', ('open', 'if')], ['elif f f:', ('xfault', 'elif', M_SYNTAX, 7)]],
    [['for a in a i:', ('xfault', 'for', M_SYNTAX, 11)]],
    [['for v in n n:', ('xfault', 'for', M_SYNTAX, 11)]],
    [['for r in r r:', ('xfault', 'for', M_SYNTAX, 11)]],
    [['x = x x', ('xfault', 'assign', M_SYNTAX, 6)]],
    [['return n n', ('xfault', 'return', M_SYNTAX, 9)]],
]


def gen_repeated_text(cases, r):
    for tpl in REPEATED:
        for start in STARTS[:2]:
            pre = [[f'v{j} = {j}', ('plain',)] for j in range(r.randint(0, 2))]
            add_program(cases, r, 'repeated-text', pre + [list(e) for e in tpl], start=start)


def gen_valid_and_mutants(cases, r, n_valid, n_mut):
    for _ in range(n_valid):
        add_program(cases, r, 'valid', base_entries(r), p_split=r.choice([0, 0, 0.2, 0.6]), p_noise=r.choice([0, 0.2]),
                    p_trail=r.choice([0, 0.3]))
    for _ in range(n_mut):
        ents, name = mutate_entries(r, base_entries(r))
        add_program(cases, r, 'struct-' + name, ents, p_split=r.choice([0, 0, 0.3]), p_noise=r.choice([0, 0.2]),
                    p_trail=r.choice([0, 0.3]))


def gen_nesting(cases, r, tier):
    depths = list(range(1, 51)) if tier == 'thorough' else [1, 2, 3, 5, 8, 13, 21, 30, 40, 49, 50]
    reps = 3 if tier == 'thorough' else 2
    for d in depths:
        for _ in range(reps):
            for variant in ('ok', 'mut', 'cut', 'fault', 'paren'):
                ents = nested_entries(r, d, in_func=r.random() < 0.4)
                depth = d
                if variant == 'mut':
                    ents, _ = mutate_entries(r, ents)
                elif variant == 'cut':
                    ents = ents[:r.randint(1, len(ents) - 1)]
                elif variant == 'fault':
                    fl = fault_line(r, r.choice(KINDS[:4] + ['if', 'while', 'for']), r.randint(5, 60), ('rand',), r.choice(STYLES))
                    if fl is not None:
                        ents.insert(r.randint(0, len(ents)), fault_entry(fl))
                elif variant == 'paren':
                    # deep parenthesised expressions: a valid one and one with a fault at the innermost level
                    inner = '(' * d + 'va + 1' + ')' * d
                    ents = [[f'vp = {inner}', ('plain',)], [f'if {inner}:', ('open', 'if')], ['endif', ('close', 'if')]]
                    if r.random() < 0.5:
                        bad = '(' * d + 'va @ 1' + ')' * d
                        ents.append([f'vq = 2 * {bad}', ('xfault', 'assign', M_PAREN, 9 if d == 1 else 9 + d)])
                add_program(cases, r, 'nesting', ents, p_noise=0.05, p_split=0.05, depth=depth)


# ====================================================================== unstructured inputs: soup, fuzz, token mutants
VOCAB = ['if', 'elif', 'else', 'endif', 'while', 'endwhile', 'for', 'in', 'endfor', 'function', 'endfunction', 'async',
         'return', 'jump', 'jumpif', 'break', 'continue', 'include', 'else:', 'lab:', 'name:', 'va', 'vb', 'fn', 'f', 'x1', '_y',
         '=', '==', '+', '-', '*', '**', '/', '%', '<', '<=', '>', '>=', '!=', '&&', '||', '!', '(', ')', ',', ':', '...',
         '1', '2.5', '7e+2', '1e5', '3.', '0', "'s'", "'a\\'b'", '"d\\"q"', "'\\\\'", "'unterminated", '[a b]', '[x\\]y]', '[', ']',
         '\\', '\\\\', '#', '# c', '<a.bare>', "'u.bare'", '\u00e9', '\u0661', '\u00a0', '\u2003', 'na\u00efve', '\u0661\u0662', '@', '$',
         'fn(', 'fn(1, 2)', 'va = 1', 'if va:', 'for x in y:', 'while va:', 'function f(a):', 'jumpif (va) lab']
SEPS = [' ', ' ', ' ', '', '  ', '\t', '\u00a0']


def soup_line(r):
    n = r.choice([1, 1, 2, 3, 4, 5, 6, 8, 10])
    s = ''.join(r.choice(VOCAB) + r.choice(SEPS) for _ in range(n))
    c = r.random()
    if c < 0.15:
        s += '\\' * r.randint(1, 8) + r.choice(['', '', ' ', '\t'])
    elif c < 0.22:
        i = r.randint(0, len(s))
        s = s[:i] + '\\' * r.randint(1, 8) + s[i:]
    return r.choice(['', '', '  ', '\t']) + s


def soup_text(r):
    lines = [soup_line(r) for _ in range(r.choice([1, 1, 2, 3, 4, 6]))]
    return lines


FUZZ = list("abif elsndwhorucj10.()+-*/%<>=!&|,'\"\\[]_:#@\t") + ['\n', '\n', '\r', '\r\n', '\\\n', '\u00e9', '\u0661', '\u00a0', '\u2003',
                                                                '\x0b', '\x0c', '\x1c', '\u2028', '\x85']


def fuzz_text(r):
    return ''.join(r.choice(FUZZ) for _ in range(r.choice([0, 1, 2, 3, 5, 8, 13, 21, 40])))


_R_TOK = re.compile(r'\w+|[^\w\s]|[ \t]+|\r?\n')
INSERTS = ['endif', 'endwhile', 'endfor', 'endfunction', 'else:', 'elif', 'if', 'while', 'for', 'in', 'function', 'break', 'continue',
           'return', 'jump', 'jumpif', 'include', '(', ')', ',', ':', '=', '+', '*', '!', '\\', '#', '1', "'", '"', '[', ']', '@', 'zz',
           '...', 'async']


def token_mutant(r, text):
    toks = _R_TOK.findall(text)
    solid = [i for i, t in enumerate(toks) if not t.isspace()]
    if not solid:
        return text, 'tok-none'
    c = r.random()
    if c < 0.35:
        del toks[r.choice(solid)]
        name = 'tok-delete'
    elif c < 0.70:
        i = r.randint(0, len(toks))
        toks.insert(i, r.choice(INSERTS) + r.choice(['', ' ']))
        name = 'tok-insert'
    elif len(solid) >= 2:
        j = r.randrange(len(solid) - 1)
        a, b = solid[j], solid[j + 1]
        toks[a], toks[b] = toks[b], toks[a]
        name = 'tok-swap'
    else:
        name = 'tok-none'
    return ''.join(toks), name


def text_payload(r, text, start):
    """a text as one string or cut into chunks at line boundaries (LF not preceded by CR)"""
    if r.random() < 0.6:
        return {'text': text, 'start': start}
    cuts = [i for i, ch in enumerate(text) if ch == '\n' and (i == 0 or text[i - 1] != '\r')]
    cuts = sorted(c for c in cuts if r.random() < 0.5)
    chunks, a = [], 0
    for c in cuts:
        chunks.append(text[a:c])
        a = c + 1
    chunks.append(text[a:])
    return {'chunks': chunks, 'start': start}


def gen_unstructured(cases, r, n_soup, n_fuzz, n_tok):
    for _ in range(n_soup):
        lines = soup_text(r)
        _case(cases, 'soup', make_payload(r, lines, r.choice(STARTS)))
    for _ in range(n_fuzz):
        _case(cases, 'fuzz', text_payload(r, fuzz_text(r), r.choice(STARTS)))
    for _ in range(n_tok):
        ents = base_entries(r, big=False)
        text = '\n'.join(e[0] for e in ents) + '\n'
        c = r.random()
        if c < 0.75:
            text, name = token_mutant(r, text)
        elif c < 0.85:
            text, name = text.rstrip('\n') + r.choice(['\\', ' \\', '\\  ', '\\\n', '\\\n# c\n\n', '\\' * r.randint(2, 8)]), 'tok-last-backslash'
        else:
            lines = text.split('\n')
            i = r.randrange(len(lines))
            lines[i] += r.choice(['', ' ']) + '\\' * r.randint(1, 8)
            text, name = '\n'.join(lines), 'tok-backslash-run'
        _case(cases, name, text_payload(r, text, r.choice(STARTS)))


# ====================================================================== metamorphic siblings: k simple lines prepended
def _num(n):
    return ['num', float(n).hex()]


def prepend_line(r, uid):
    """-> (text, canonical statement or None)"""
    c = r.randrange(10)
    if c == 0:
        return '# x', None
    if c == 1:
        return '   # y \\', None
    if c == 2:
        return r.choice(['', '   ', '\t']), None
    if c in (3, 4):
        return r.choice(['', '  ']) + f'zz{uid} = {uid}' + r.choice(['', ' ']), ['expr', f'zz{uid}', _num(uid)]
    if c in (5, 6):
        return f'foo{uid}(1, 2)', ['expr', None, ['call', f'foo{uid}', [_num(1), _num(2)]]]
    if c == 7:
        return f'lbl9{uid}:', ['label', f'lbl9{uid}']
    if c == 8:
        return f'jump lbl9{uid}', ['jump', f'lbl9{uid}', None]
    return 'return', ['return', None]


def make_sibling(r, base_index, base, uid):
    k = r.randint(1, 5)
    pre = [prepend_line(r, uid * 10 + j) for j in range(k)]
    lines = [t for t, _ in pre]
    canon = [c for _, c in pre if c is not None]
    bp = base['payload']
    eol = r.choice(['\n', '\n', '\r\n'])
    if 'text' in bp:
        text = eol.join(lines) + eol + bp['text']
        payload = text_payload(r, text, bp['start']) if r.random() < 0.5 else {'text': text, 'start': bp['start']}
    else:
        c = r.random()
        if c < 0.4:
            chunks = [eol.join(lines)] + list(bp['chunks'])
        elif c < 0.7:
            chunks = lines + list(bp['chunks'])
        elif bp['chunks']:
            chunks = [eol.join(lines) + eol + bp['chunks'][0]] + list(bp['chunks'][1:])
        else:
            # an empty chunk list has no lines at all; the sibling is just the prepended lines
            chunks = [eol.join(lines)]
        payload = {'chunks': chunks, 'start': bp['start']}
    exp = base.get('exp')
    if exp is not None:
        exp = ('ok', exp[1] + len(canon)) if exp[0] == 'ok' else ('err', exp[1], exp[2] + k, exp[3], exp[4])
    return {'payload': payload, 'tag': 'shift', 'exp': exp, 'meta': {'base': base_index, 'k': k, 'canon': canon},
            'base_tag': base['tag']}


# ====================================================================== build_cases
def corpus_cases(cases):
    import glob
    import json
    import os
    d = os.path.join(os.path.dirname(os.path.dirname(os.path.abspath(__file__))), 'corpus', 'C06')
    for path in sorted(glob.glob(os.path.join(d, '*.json'))):
        try:
            with open(path, encoding='utf-8') as fh:
                data = json.load(fh)
        except (OSError, ValueError):
            continue
        for item in data if isinstance(data, list) else [data]:
            if not isinstance(item, dict) or not ('text' in item or 'chunks' in item):
                continue
            payload = {'text': item['text']} if 'text' in item else {'chunks': list(item['chunks'])}
            payload['start'] = int(item.get('start', 1))
            exp = item.get('exp')
            _case(cases, 'corpus', payload, tuple(exp) if exp else None)


def build_cases(r, tier):
    """r: random.Random (the only source of randomness). tier: 'quick' | 'thorough'.  Returns a list of case dicts with
    'payload' (always with an explicit 'start'), 'tag', 'exp' (None | ('ok', deep statement count) |
    ('err', message, 0-based physical index of the logical line's first line, line text, column)) and for siblings 'meta'."""
    m = 1 if tier == 'quick' else 10
    cases = []
    corpus_cases(cases)
    gen_open_blocks(cases, r, 3 if tier == 'quick' else 12)
    gen_whole_line(cases, r, 2 if tier == 'quick' else 12)
    gen_repeated_text(cases, r)
    gen_dangling(cases, r, 400 * m)
    gen_nesting(cases, r, tier)
    gen_columns(cases, r, tier)
    gen_fault_continued(cases, r, 1200 * m)
    gen_fault_in_program(cases, r, 1200 * m)
    gen_valid_and_mutants(cases, r, 800 * m, 2500 * m)
    gen_unstructured(cases, r, 5000 * m, 3000 * m, 3000 * m)
    # metamorphic siblings of a sample of ALL families
    nbase = len(cases)
    p = 0.30 if tier == 'quick' else 0.25
    uid = 0
    for i in range(nbase):
        if r.random() < p:
            uid += 1
            cases.append(make_sibling(r, i, cases[i], uid))
    return cases


# ====================================================================== evaluate
def _renumber(msg, old, new):
    """the formatted message with the line number in its first row replaced"""
    head, sep, tail = msg.partition('\n')
    suffix = f', line number {old}:'
    if head.endswith(suffix):
        head = head[:len(head) - len(suffix)] + f', line number {new}:'
    return head + sep + tail


def evaluate(cases, results):
    """-> (fails, stats); fails: [{'class', 'tag', 'source', 'start', 'expected', 'got'}] capped at FAIL_CAP"""
    fails = []
    by_class = {}
    stats = {'cases': len(cases), 'by_tag': {}, 'accepted': 0, 'rejected': 0, 'host': 0, 'messages': {},
             'elision': {'short': 0, 'left': 0, 'middle': 0, 'right': 0, 'whole': 0}, 'max_nesting': 0,
             'absolute_expectations': 0, 'expected_ok': 0, 'expected_err': 0, 'shift_pairs': 0, 'shift_pairs_err': 0,
             'shift_pairs_ok': 0, 'lite_accounted': 0, 'continued_error_lines': 0, 'fault_kinds': {},
             'fault_lengths_distinct': 0, 'fault_columns_distinct': 0, 'payload_chunks': 0, 'payload_text': 0,
             'starts': {}, 'total_chars': 0}
    lengths, lencols = set(), set()

    def fail(cls, case, expected, got, **more):
        by_class[cls] = by_class.get(cls, 0) + 1
        if len(fails) < 20 * FAIL_CAP:
            p = case['payload']
            f = {'class': cls, 'tag': case['tag'], 'source': payload_source(p), 'start': p['start'], 'expected': expected, 'got': got}
            if 'chunks' in p:
                f['chunks'] = p['chunks']
            f.update(more)
            fails.append(f)

    if len(results) != len(cases):
        raise ValueError(f'{len(results)} results for {len(cases)} cases')
    for case, res in zip(cases, results):
        tag = case['tag']
        payload = case['payload']
        start = payload['start']
        stats['by_tag'][tag] = stats['by_tag'].get(tag, 0) + 1
        stats['payload_chunks' if 'chunks' in payload else 'payload_text'] += 1
        stats['starts'][start] = stats['starts'].get(start, 0) + 1
        stats['total_chars'] += len(payload_source(payload))
        stats['max_nesting'] = max(stats['max_nesting'], case.get('depth', 0))
        if case.get('kind'):
            stats['fault_kinds'][case['kind']] = stats['fault_kinds'].get(case['kind'], 0) + 1
        if case.get('length') is not None and case.get('fault_col'):
            lengths.add(case['length'])
            lencols.add((case['length'], case['fault_col']))
        exp = case.get('exp')
        if exp is not None:
            stats['absolute_expectations'] += 1
            stats['expected_ok' if exp[0] == 'ok' else 'expected_err'] += 1

        # ---- 1. totality
        if not isinstance(res, dict) or not any(k in res for k in ('ok', 'err', 'host')):
            fail('malformed-result', case, 'ok | err', res)
            continue
        if 'host' in res:
            stats['host'] += 1
            fail('host-exception', case, 'a model or BareScriptParserError', {'host': res['host'], 'msg': res.get('host_msg')})
            continue
        phys = payload_lines(payload)
        logical, dang = logical_lines(phys)

        if 'err' in res:
            stats['rejected'] += 1
            err = res['err']
            if not isinstance(err, list) or len(err) != 5:
                fail('malformed-result', case, '[error, line, column, line_number, message]', err)
                continue
            stats['messages'][err[0]] = stats['messages'].get(err[0], 0) + 1
            # ---- 5. message format and caret
            bad, branch = check_message(err)
            if bad:
                fail(bad[0], case, bad[1], err)
            if branch:
                stats['elision'][branch] += 1
            # ---- universal: the error names a logical line of the input and carries its text
            if isinstance(err[3], int) and isinstance(err[1], str):
                idx = err[3] - start
                lmap = dict(logical)
                if err[0] == M_CONT:
                    lmap = {dang[0]: dang[1]} if dang else {}
                if idx not in lmap:
                    fail('line-number-not-a-logical-line', case,
                         {'logical line starts': sorted(start + i for i in lmap)[:40]}, err)
                elif lmap[idx] != err[1]:
                    fail('line-text-mismatch', case, {'line_number': err[3], 'line': lmap[idx]}, err)
                elif idx + 1 < len(phys) and lmap[idx] != phys[idx]:
                    stats['continued_error_lines'] += 1
            # ---- 2/4/7. absolute expectation
            if exp is not None:
                if exp[0] == 'ok':
                    fail('valid-program-rejected', case, {'ok': exp[1]}, err)
                else:
                    want = {'error': exp[1], 'line_number': start + exp[2], 'line': exp[3], 'column': exp[4]}
                    if err[0] != exp[1]:
                        fail('wrong-error', case, want, err)
                    elif err[3] != start + exp[2]:
                        fail('wrong-line-number', case, want, err)
                    elif exp[3] is not None and err[1] != exp[3]:
                        fail('wrong-line-text', case, want, err)
                    elif exp[4] is not None and err[2] != exp[4]:
                        fail('wrong-column', case, want, err)
        else:
            stats['accepted'] += 1
            stmts = res['ok']
            n = deep_count(stmts)
            flagged = False
            if exp is not None:
                if exp[0] == 'err':
                    cls = ('accepted-open-block' if exp[1].startswith('Missing end') else
                           'accepted-dangling-continuation' if exp[1] == M_CONT else 'accepted-invalid-program')
                    fail(cls, case, {'error': exp[1], 'line_number': start + exp[2], 'line': exp[3], 'column': exp[4]}, {'ok': n})
                    flagged = True
                elif exp[1] != n:
                    fail('statement-count', case, {'statements': exp[1]}, {'statements': n, 'ok': stmts})
                    flagged = True
            # ---- universal checks on accepted texts
            if not flagged:
                if dang is not None:
                    fail('accepted-dangling-continuation', case, {'error': M_CONT, 'line_number': start + dang[0], 'line': dang[1]},
                         {'ok': n})
                elif logical and n == 0:
                    fail('dropped-line', case, {'logical lines': len(logical)}, {'statements': 0})
                else:
                    la, _ = lite_account(phys)
                    stats['lite_accounted'] += 1
                    if la[0] == 'err':
                        cls = 'accepted-open-block' if len(la) == 5 else 'accepted-invalid-program'
                        at = logical[la[2]] if la[2] < len(logical) else (None, None)
                        fail(cls, case, {'error': la[1], 'line_number': None if at[0] is None else start + at[0], 'line': at[1]}, {'ok': n})
                    elif la[1] != n:
                        fail('dropped-line', case, {'statements': la[1], 'logical lines': len(logical)}, {'statements': n, 'ok': stmts})
                    else:
                        # adjacent include lines merge into ONE statement, but every include line is still one entry of it
                        want_inc = sum(1 for _, t in logical if classify(t) == ('include',))
                        got_inc = include_entries(stmts)
                        if want_inc != got_inc:
                            fail('dropped-line', case, {'include lines': want_inc}, {'include entries': got_inc, 'ok': stmts})

        # ---- 6. metamorphic shift
        meta = case.get('meta')
        if meta:
            base = results[meta['base']]
            k = meta['k']
            if not isinstance(base, dict) or 'host' in base:
                continue
            stats['shift_pairs'] += 1
            if 'ok' in base:
                stats['shift_pairs_ok'] += 1
                canon = meta['canon']
                if 'ok' not in res:
                    fail('shift-outcome-changed', case, {'base': 'ok', 'prepended': k}, res.get('err'))
                elif res['ok'][:len(canon)] != canon or res['ok'][len(canon):] != base['ok']:
                    fail('shift-statements-changed', case, {'prepended': canon, 'then': base['ok']}, res['ok'])
            elif 'err' in base:
                stats['shift_pairs_err'] += 1
                b = base['err']
                if 'err' not in res:
                    fail('shift-outcome-changed', case, {'base': b, 'prepended': k}, {'ok': deep_count(res['ok'])})
                else:
                    e = res['err']
                    if e[0] != b[0] or e[1] != b[1] or e[2] != b[2]:
                        fail('shift-error-changed', case, {'base': b, 'prepended': k}, e)
                    elif not isinstance(e[3], int) or not isinstance(b[3], int) or e[3] != b[3] + k:
                        fail('shift-line-number', case, {'base': b, 'prepended': k, 'line_number': b[3] + k if isinstance(b[3], int) else None}, e)
                    elif e[4] != _renumber(b[4], b[3], e[3]):
                        fail('shift-message-changed', case, {'message': _renumber(b[4], b[3], e[3])}, e)

    stats['fault_lengths_distinct'] = len(lengths)
    stats['fault_columns_distinct'] = len(lencols)
    stats['fails_total'] = sum(by_class.values())
    stats['fails_by_class'] = by_class
    # the smallest failing inputs first (a stable order: length, then text), at least one per class, capped
    fails.sort(key=lambda f: (len(f['source']), f['source'], f['class']))
    first = {}
    for f in fails:
        first.setdefault(f['class'], f)
    keep = fails[:FAIL_CAP]
    keep += [f for f in first.values() if not any(f is g for g in keep)]
    fails = keep
    stats['fails_listed'] = len(fails)
    return fails, stats
