"""scriptgen.py - generators of BareScript source (structured programs, exhaustive nesting shapes,
malformed texts) and conversion of canonical parse results into Coq terms.

A structured program is a list of statements:
  ['assign', name, expr] ['expr', expr] ['return', expr|None] ['break'] ['continue']
  ['if', [[cond, body], ...], else_body|None] ['while', cond, body] ['for', value, index|None, arr_expr, body]
  ['function', name, [args], last_arg_array, body]                     (top level only)
Expressions are source text.
"""
from .core import cstr, cflt, clist, cnat, copt, cbool

# ------------------------------------------------------------------ printing
def print_stmts(stmts, indent=0, ind='    '):
    out = []
    p = ind * indent
    for s in stmts:
        k = s[0]
        if k == 'assign':
            out.append(f'{p}{s[1]} = {s[2]}')
        elif k == 'expr':
            out.append(f'{p}{s[1]}')
        elif k == 'return':
            out.append(f'{p}return' + (f' {s[1]}' if s[1] is not None else ''))
        elif k == 'break':
            out.append(f'{p}break')
        elif k == 'continue':
            out.append(f'{p}continue')
        elif k == 'if':
            for i, (cond, body) in enumerate(s[1]):
                out.append(f'{p}{"if" if i == 0 else "elif"} {cond}:')
                out += print_stmts(body, indent + 1, ind)
            if s[2] is not None:
                out.append(f'{p}else:' if indent % 2 == 0 else f'{p}else :')       # (white space before the colon is allowed)
                out += print_stmts(s[2], indent + 1, ind)
            out.append(f'{p}endif')
        elif k == 'while':
            out.append(f'{p}while {s[1]}:')
            out += print_stmts(s[2], indent + 1, ind)
            out.append(f'{p}endwhile')
        elif k == 'for':
            out.append(f'{p}for {s[1]}' + (f', {s[2]}' if s[2] else '') + f' in {s[3]}:')
            out += print_stmts(s[4], indent + 1, ind)
            out.append(f'{p}endfor')
        elif k == 'function':
            # (the layout of the parameter list varies: blanks before / after the commas are not part of the names)
            sep = [', ', ' , ', ',', '  ,'][(len(s[1]) + len(s[2]) + len(s[4])) % 4]
            args = sep.join(s[2]) + ('...' if s[3] else '')
            out.append(f'{p}function {s[1]}({args}):')
            out += print_stmts(s[4], indent + 1, ind)
            out.append(f'{p}endfunction')
        else:
            raise ValueError(k)
    return out


def program_text(stmts):
    return '\n'.join(print_stmts(stmts)) + '\n'


# ------------------------------------------------------------------ random structured programs
KEYWORDISH = ['returnBook', 'ifx', 'forEach', 'whileTrue', 'jumpTo', 'jumpifNot', 'includeIt', 'breakUp', 'continueOn', 'elseWhere', 'elifx',
              'endifx', 'endforx', 'functionOf', 'asyncTask', 'endfunctionx']
VARS = ['va', 'vb', 'vc', 'vd']
GLOBALS = ['g0', 'g1', 'g2']          # initial globals supplied by the host (any value type)


class Gen:
    def __init__(self, r, funcs=(), max_depth=5, allow_while_continue=False):
        self.r = r
        self.funcs = list(funcs)      # [(name, nargs, lastarg)]
        self.max_depth = max_depth
        self.allow_while_continue = allow_while_continue
        self.counter = 0

    # expressions: integral arithmetic, comparisons, logic, a few library calls, logging calls
    def expr(self, d=2, names=None):
        r = self.r
        names = names or (VARS + GLOBALS)
        c = r.random()
        if d <= 0 or c < 0.30:
            c2 = r.random()
            if c2 < 0.45:
                return r.choice(names)
            if c2 < 0.80:
                return str(r.randint(0, 6))
            if c2 < 0.88:
                return r.choice(["'s'", "''", "'ab'"])
            return r.choice(['true', 'false', 'null'])
        if c < 0.62:
            op = r.choice(['+', '-', '*', '<', '<=', '>', '>=', '==', '!=', '&&', '||', '%'])
            return f'{self.expr(d - 1, names)} {op} {self.expr(d - 1, names)}'
        if c < 0.70:
            return f'!{self.atom(d - 1, names)}'
        if c < 0.76:
            return f'({self.expr(d - 1, names)})'
        if c < 0.86 and self.funcs:
            name, nargs, _ = r.choice(self.funcs)
            n = max(0, nargs + r.choice([0, 0, 0, -1, 1]))
            return f'{name}(' + ', '.join(self.expr(d - 1, names) for _ in range(n)) + ')'
        if c < 0.93:
            return f'arrayLength(arrayNew({", ".join(self.expr(0, names) for _ in range(r.randint(0, 3)))}))'
        return f'if({self.expr(d - 1, names)}, {self.expr(d - 1, names)}, {self.expr(d - 1, names)})'

    def atom(self, d, names):
        e = self.expr(d, names)
        return e if e.replace('_', 'a').isalnum() else f'({e})'

    def log(self):
        self.counter += 1
        return ['expr', f"systemLog('L{self.counter} ' + {self.expr(1)})"]

    def body(self, depth, in_loop, in_func, n=None):
        r = self.r
        n = r.randint(1, 3) if n is None else n
        out = []
        for _ in range(n):
            out.append(self.stmt(depth, in_loop, in_func))
        return out

    def stmt(self, depth, in_loop, in_func):
        r = self.r
        c = r.random()
        if depth >= self.max_depth or c < 0.30:
            c2 = r.random()
            if c2 < 0.45:
                return ['assign', r.choice(VARS), self.expr(2)]
            if c2 < 0.75:
                return self.log()
            if c2 < 0.82 and in_loop:
                return ['if', [[self.expr(1), [['break']]]], None]
            if c2 < 0.89 and in_loop and (in_loop == 'for' or self.allow_while_continue):
                return ['if', [[self.expr(1), [['continue']]]], None]
            if c2 < 0.93:
                return ['return', self.expr(1) if r.random() < 0.8 else None] if r.random() < 0.5 else self.log()
            if self.funcs and r.random() < 0.6:          # a bare call statement
                name, nargs, _ = r.choice(self.funcs)
                return ['expr', f'{name}(' + ', '.join(self.expr(1) for _ in range(nargs)) + ')']
            return ['expr', f'({self.expr(2)})']     # parenthesised: `x == 1` as a statement would read as an assignment
        if c < 0.55:
            nb = r.choice([1, 1, 2, 3])
            # a branch body may be EMPTY (the lowering then emits two jumps in a row)
            branches = [[self.expr(2), self.body(depth + 1, in_loop, in_func) if r.random() > 0.12 else []] for _ in range(nb)]
            els = (self.body(depth + 1, in_loop, in_func) if r.random() > 0.12 else []) if r.random() < 0.5 else None
            return ['if', branches, els]
        if c < 0.75:
            # bounded while: a fresh counter variable guarantees progress
            self.counter += 1
            cv = f'w{self.counter}'
            limit = r.randint(0, 3)
            body = self.body(depth + 1, 'while', in_func)
            return ['block', [['assign', cv, '0'],
                              ['while', f'{cv} < {limit}' + (f' && {self.expr(1)}' if r.random() < 0.3 else ''),
                               [['assign', cv, f'{cv} + 1']] + body]]]
        self.counter += 1
        val = f'e{self.counter}'
        idx = f'i{self.counter}' if r.random() < 0.5 else None
        arr = r.choice([f'arrayNew({", ".join(self.expr(0) for _ in range(r.randint(0, 3)))})', r.choice(GLOBALS), 'arrayNew()'])
        return ['for', val, idx, arr, self.body(depth + 1, 'for', in_func)]


def flatten_blocks(stmts):
    out = []
    for s in stmts:
        if s[0] == 'block':
            out += flatten_blocks(s[1])
        elif s[0] == 'if':
            out.append(['if', [[c, flatten_blocks(b)] for c, b in s[1]], flatten_blocks(s[2]) if s[2] is not None else None])
        elif s[0] == 'while':
            out.append(['while', s[1], flatten_blocks(s[2])])
        elif s[0] == 'for':
            out.append(['for', s[1], s[2], s[3], flatten_blocks(s[4])])
        elif s[0] == 'function':
            out.append(['function', s[1], s[2], s[3], flatten_blocks(s[4])])
        else:
            out.append(s)
    return out


def gen_program(r, max_depth=4, nfuncs=None, allow_while_continue=False):
    nfuncs = r.randint(0, 3) if nfuncs is None else nfuncs
    funcs = []
    for i in range(nfuncs):
        nargs = r.randint(0, 3)
        # (some names BEGIN with a statement keyword: `returnBook(x)` is a call statement, not `return Book(x)`)
        name = f'fn{i}' if i == 0 or r.random() < 0.5 else r.choice(KEYWORDISH) + str(i)
        funcs.append((name, nargs, nargs > 0 and r.random() < 0.25))
    g = Gen(r, funcs, max_depth, allow_while_continue)
    prog = []
    # functions may appear between global statements (labels share one counter across the script)
    pending = list(funcs)
    r.shuffle(pending)
    nglob = r.randint(1, 4)
    slots = sorted(r.randint(0, nglob) for _ in pending)
    for i in range(nglob + 1):
        for (name, nargs, last), slot in zip(pending, slots):
            if slot == i:
                # parameter names collide on purpose with host globals and script variables: a missing argument must read as null,
                # never as the global of the same name
                cand = r.sample(['g0', 'g1', 'va', 'vb'], 4)
                args = [cand[j] if r.random() < 0.5 else f'p{j}' for j in range(nargs)]
                gf = Gen(r, funcs[funcs.index((name, nargs, last)) + 1:], max_depth, allow_while_continue)     # only later functions: no recursion
                gf.counter = g.counter + 100 * (1 + funcs.index((name, nargs, last)))
                body = gf.body(1, None, True, r.randint(1, 3))
                # recursion guard: functions only call functions with a larger index or themselves under a depth counter
                body = [['if', [['depth > 3', [['return', '0']]]], None], ['assign', 'depth2', 'depth']] + \
                    [['expr', f"systemLog('{name} {a}:' + systemType({a}))"] for a in args] + body
                prog.append(['function', name, args, last, body])
        if i < nglob:
            prog.append(g.stmt(0, None, False))
    prog.append(g.log())
    # variables, parameters and loop variables NAMED like the keyword literals: `true = 0` binds a global called "true", and every later
    # `true` in an expression still reads the literal (the keyword test comes before the scope lookup)
    if r.random() < 0.2:
        kws = r.sample(['true', 'false', 'null'], 3)
        pre = [['assign', kws[0], r.choice(['0', "'kw'", '7'])]]
        if r.random() < 0.5:
            pre.append(['for', kws[1], None, 'arrayNew(3, 4)', [['expr', f"systemLog('kwfor ' + {kws[1]} + ' ' + systemType({kws[0]}))"]]])
        if r.random() < 0.5:
            pre.append(['function', 'kwfn', [kws[2], 'kv'], False,
                        [['expr', f"systemLog('kwfn ' + systemType({kws[2]}) + ' ' + systemType(kv))"],
                         ['if', [[kws[2] + ' == null || ' + kws[2], [['return', "'lit'"]]]], None], ['return', "'var'"]]])
            prog.append(['expr', "systemLog('kwcall ' + kwfn(5, 6) + kwfn(0, 0))"])
        prog = pre + prog
        prog.append(['expr', "systemLog('kw ' + systemType(true) + systemType(false) + systemType(null) + if(true, 1, 2) + if(false, 1, 2))"])
    # a function statement (re)binds its name whatever the name held before: a second definition of the same name replaces the first
    if funcs and r.random() < 0.35:
        name, nargs, last = funcs[0]
        prog.append(['function', name, [f'q{j}' for j in range(nargs)], last, [['expr', f"systemLog('{name} redefined')"], ['return', "'second'"]]])
    # every function is also called with one argument fewer than it has parameters (and with one more)
    for name, nargs, last in funcs:
        for n in {max(0, nargs - 1), nargs + 1}:
            prog.append(['expr', f"systemLog('{name}/{n} ' + systemType({name}(" + ', '.join(g.expr(0) for _ in range(n)) + ')))'])
    return flatten_blocks(prog)


# ------------------------------------------------------------------ exhaustive nesting shapes
CONSTRUCTS = [('if', 0), ('ifelse', 0), ('ifelse', 1), ('ifelif', 0), ('ifelif', 1), ('ifelifelse', 0), ('ifelifelse', 1),
              ('ifelifelse', 2), ('while', 0), ('for', 0), ('fori', 0), ('ifempty_elif', 1), ('ifempty_else', 1)]
LOOPFLAGS = ['', 'b', 'c', 'bc']


def build_shape(chain, flags, level=0, in_loop=None):
    """chain: list of (construct, child position); flags: per level string of b/c for loops"""
    if not chain:
        return [['expr', f"systemLog('leaf{level}')"]]
    (cons, pos), rest = chain[0], chain[1:]
    fl = flags[0] if flags else ''
    is_loop = cons in ('while', 'for', 'fori')
    child = build_shape(rest, flags[1:], level + 1, cons if is_loop else in_loop)
    extra = []
    if is_loop:
        if 'b' in fl:
            extra.append(['if', [[f'k{level} > 1', [['break']]]], None])
        if 'c' in fl:
            extra.append(['if', [[f'k{level} == 1', [['continue']]]], None])
    other = lambda tag: [['expr', f"systemLog('{tag}{level}')"]]  # noqa: E731
    if cons == 'if':
        return [['if', [[f'c{level}', child]], None]]
    if cons == 'ifelse':
        return [['if', [[f'c{level}', child if pos == 0 else other('t')]], child if pos == 1 else other('e')]]
    if cons == 'ifelif':
        return [['if', [[f'c{level}', child if pos == 0 else other('t')], [f'd{level}', child if pos == 1 else other('u')]], None]]
    if cons == 'ifelifelse':
        return [['if', [[f'c{level}', child if pos == 0 else other('t')], [f'd{level}', child if pos == 1 else other('u')]],
                 child if pos == 2 else other('e')]]
    if cons == 'ifempty_elif':       # empty first branch: `if c: / elif d: child / endif`
        return [['if', [[f'c{level}', []], [f'd{level}', child]], None]]
    if cons == 'ifempty_else':
        return [['if', [[f'c{level}', []]], child]]
    if cons == 'while':
        return [['assign', f'k{level}', '0'],
                ['while', f'k{level} < 3', [['assign', f'k{level}', f'k{level} + 1']] + extra + child]]
    if cons == 'for':
        return [['for', f'v{level}', None, f'arr{level}', [['assign', f'k{level}', f'v{level}']] + extra + child]]
    if cons == 'fori':
        return [['for', f'v{level}', f'k{level}', f'arr{level}', extra + child]]
    raise ValueError(cons)


def shapes(depth, with_flags=True):
    import itertools
    for d in range(1, depth + 1):
        for chain in itertools.product(CONSTRUCTS, repeat=d):
            loops = [i for i, (c, _) in enumerate(chain) if c in ('while', 'for', 'fori')]
            flag_sets = [LOOPFLAGS if (i in loops and with_flags) else [''] for i in range(d)]
            for flags in itertools.product(*flag_sets):
                yield list(chain), list(flags)


# ------------------------------------------------------------------ canonical results -> Coq terms
def expr_coq(t):
    k = t[0]
    if k == 'num':
        return f'(ENum (NFlt {cflt(float.fromhex(t[1]))}))'
    if k == 'int':
        return f'(ENum (NInt ({int(t[1])})%Z))'
    if k == 'str':
        return f'(EStr {cstr(t[1])})'
    if k == 'var':
        return f'(EVar {cstr(t[1])})'
    if k == 'call':
        return f'(ECall {cstr(t[1])} {clist([expr_coq(a) for a in t[2]])})'
    if k == 'bin':
        return f'(EBin {cstr(t[1])} {expr_coq(t[2])} {expr_coq(t[3])})'
    if k == 'un':
        return f'(EUn {cstr(t[1])} {expr_coq(t[2])})'
    if k == 'group':
        return f'(EGroup {expr_coq(t[1])})'
    raise ValueError(k)


def stmt_coq(s):
    k = s[0]
    if k == 'expr':
        return f'(SExpr {copt(cstr(s[1]) if s[1] is not None else None)} {expr_coq(s[2])})'
    if k == 'jump':
        return f'(SJump {cstr(s[1])} {copt(expr_coq(s[2]) if s[2] is not None else None)})'
    if k == 'return':
        return f'(SReturn {copt(expr_coq(s[1]) if s[1] is not None else None)})'
    if k == 'label':
        return f'(SLabel {cstr(s[1])})'
    if k == 'function':
        args = copt(clist([cstr(a) for a in s[2]]) if s[2] is not None else None)
        return f'(SFunction {cstr(s[1])} {args} {cbool(s[3])} {cbool(s[4])} {clist([stmt_coq(x) for x in s[5]])})'
    if k == 'include':
        return '(SInclude ' + clist([f'({cstr(u)}, {cbool(sy)})' for u, sy in s[1]]) + ')'
    raise ValueError(k)


def script_coq(stmts):
    return clist([stmt_coq(s) for s in stmts])


def parse_result_coq(res):
    """implementation result of parse_script as a Coq term of type sres script"""
    if 'ok' in res:
        return f'(ROk {script_coq(res["ok"])})'
    if 'err' in res:
        msg, line, col, lineno, _ = res['err']
        ln = copt(cnat(lineno) if lineno is not None else None)
        return f'(RErr {{| e_msg := {cstr(msg)}; e_line := {cstr(line)}; e_col := {cnat(col)}; e_lineno := {ln} |}})'
    return f'(RHost {cstr(res["host"])})'


def chunks_coq(chunks):
    return clist([cstr(c) for c in chunks])
